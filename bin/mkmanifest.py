#!/usr/bin/env python3
"""Regenerates MANIFEST.json from bin/props.py + the per-property level texts below."""
import json, os, sys
ROOT = os.path.dirname(os.path.dirname(os.path.abspath(__file__)))
sys.path.insert(0, os.path.join(ROOT, "bin"))
from props import PROPS
from levels import LEVELS, HOOK_COMMITS

props = [json.loads(l) for l in open(os.path.join(ROOT, "properties.jsonl"))]
m = {
    "version": 1,
    "setup_cmd": "bin/setup",
    "hooks": {
        "guard": "--cfg akd_verif",
        "enable": "RUSTFLAGS=\"--cfg akd_verif\" (set in /verif/harness/.cargo/config.toml; the harness crate path-depends on /repo/akd and /repo/akd_core and is rebuilt by cargo from the working tree on every check)",
        "baseline_off_cmd": "cd /repo && cargo nextest run --workspace --no-fail-fast --tool-config-file pb:/w/lib/nextest.toml --profile pb --test-threads 8 --offline",
        "source_commits": HOOK_COMMITS,
        "add_only": True,
    },
    "engines": [
        {"name": "coq-model", "path": "/verif/coq", "serves_properties": sorted(LEVELS), "kind_free_text": "Coq 8.16 development: executable Gallina model of akd + theorems (Properties/Cxx.v), axiom-free"},
        {"name": "correspondence", "path": "/verif/harness + /verif/extract", "serves_properties": sorted(LEVELS), "kind_free_text": "Rust harness running the implementation from /repo's working tree; extracted model (OCaml) recomputes every answer; direct oracles search for failing inputs"},
    ],
    "checks": [],
    "notes": "See DESIGN.md. Every check = Coq theorems re-checked + correspondence model/implementation + direct oracle (failing-input search).",
    "not_applicable": [],
}
for p in props:
    pid = p["id"]
    if pid in LEVELS and pid in PROPS:
        lv = LEVELS[pid]
        m["checks"].append({
            "property_id": pid,
            "quick_cmd": "bin/check %s quick" % pid,
            "thorough_cmd": "bin/check %s thorough" % pid,
            "evidence_file": "/verif/evidence/%s.json" % pid,
            "replay_cmd_template": "bin/check %s quick --replay {path}" % pid,
            "engine": "coq-model",
            "level_claimed": {"category": "proof", "text": lv["text"], "design_ref": "DESIGN.md section 7 " + pid},
            "level_note": lv["note"],
            "technique": lv.get("technique", "Coq proof over an executable Gallina model + model/implementation correspondence check"),
        })
    else:
        m["not_applicable"].append({"property_id": pid, "reason": "check under construction in this session (model/proofs being built); not claimed yet"})
json.dump(m, open(os.path.join(ROOT, "MANIFEST.json"), "w"), indent=1)
print("claimed:", [c["property_id"] for c in m["checks"]])
