"""Claimed level per property (text for MANIFEST.json)."""
HOOK_COMMITS = ["f85b327"]
FIX_COMMITS = ["1fe7dcd", "1179cbc", "91f131a", "b2341ca", "1a02c9c", "cb766b4", "3c0ee07", "85dfccd", "ddc4a72", "b30657a", "8d1d16c", "44baba2", "8bcbe22"]
TB = ("Trusted: Coq 8.16.1 kernel (vm_compute only for finite sweeps/witnesses), ExtrOcamlBasic extraction + OCaml driver and the Rust harness "
      "(correspondence only, bounded by its generators). ")
LEVELS = {
    "C17": {
        "text": "Machine-checked proof (Coq, closed under the global context) that the byte-level model of NodeLabel::{is_prefix_of,get_prefix,"
                "get_longest_common_prefix,get_prefix_ordering,cmp} equals the bit-string operations for all labels of 0..256 bits; the model is "
                "tied to the code by a correspondence check (extracted model vs implementation on exhaustive small labels, every byte boundary, "
                "adversarial patterns) and an independent bit-string oracle; AzksElementSet operations are modelled and tied the same way.",
        "note": TB + "Set operations: proved for the forms the insertion uses (partition around a node label that all elements extend, common prefix of a sorted equal-length set, the toolchain's binary search on any partitioned list); contains_prefix and partition with non-extending elements are decided by correspondence + oracle.",
    },
    "C08": {
        "text": "Machine-checked proof for all epochs/versions/ranges (unbounded N) that the future markers of n meet what any proof for m>n must "
                "show present (history/history), the stale-label conflict for m<n, and the lookup/history conflict outside the exactly "
                "characterised known-finding class K1 (witness (7,4,7) proved); model of get_marker_versions tied to the code by exhaustive "
                "and structured 64-bit correspondence; the property is also evaluated on the implementation's own outputs.",
        "note": TB + "The theorems are about marker arithmetic as the property states; that one root cannot show a label both present and absent is C05.",
    },
    "C05": {
        "text": "Machine-checked proof, for BOTH real hash configurations and for ALL candidate proofs (arbitrary sibling lists, anchors, children, "
                "hashes), that against the root hash of a well-formed tree a verifying non-membership proof never concerns a leaf label and a "
                "verifying membership proof names a real node with its real value - up to an explicit hash-collision (or zero-digest preimage) "
                "event; plus completeness of the honest membership prover.  The tree/verifier/prover model is tied to the code bit for bit "
                "(Gallina BLAKE3) on real Azks trees with honest and adversarial proofs; three genuine defects found this way were repaired "
                "(fix: commits) before the theorems could be proved.",
        "note": TB + "Hash assumptions appear only as the disjuncts Collision H / ZeroPre H and the 32-byte output length. Completeness of BOTH provers is a theorem (C05_gen_membership_verifies; C05_gen_nonmembership_verifies on canonical trees with 256-bit leaves, which the directory's tree always is by C01) and is also checked on every related non-member label of every generated tree.",
    },
    "C15": {
        "text": "Machine-checked proof over the storage-manager model (all states reachable or not that satisfy the proved invariant, all keys, "
                "users and flags): a single-record read in a transaction equals the read of the committed database; every user-state query "
                "(five flags) selects from the committed state set and reports NotFound only when nothing is selectable; user data lists the "
                "committed states; commit hands over exactly the log with the epoch record last and leaves database = database overridden by "
                "log; rollback; nested begin refused.  Model tied to the code by operation-sequence correspondence incl. rejected writes; two "
                "genuine defects found (cache filled before a rejected write; version/epoch confusion) and repaired.",
        "note": TB + "batch_get and the bulk version query are decided by correspondence + committed-twin oracle (no theorem yet).",
    },
    "C16": {
        "text": "Machine-checked invariant: in every state reachable by any operation sequence, with any database call rejected and any set of "
                "cache entries evicted at any time (this abstracts clocks, expiry and the floating-point memory-pressure arithmetic soundly), "
                "every cached record equals the database's; hence a read returns the pending value or exactly the database's record, and "
                "after a flush the epoch record is read from storage.  Tied to the code incl. database-operation counts per call.",
        "note": TB + "Single-task semantics; the concurrent read-fill vs write-through race is a recorded limitation (K3), multi-thread runs are a search only.",
    },
    "C01": {
        "text": "Proof (Coq) of publish's control flow on the directory model: a batch repeating a label is rejected without effect, a batch of re-submissions returns the unchanged epoch hash, a changing publish advances the epoch by exactly one and returns the new tree's root hash. The functional core is a machine-checked refinement theorem: for every history of batches of distinct 256-bit labels and every hash configuration, the tree built by the model of batch_insert_nodes (binary-search partition on sorted sets included) is canonical, holds exactly the prescribed leaves (label, value, epoch of insertion) with correct last_epoch / min_descendant_epoch annotations, and its root hash equals the hash of the specification trie defined independently of the algorithm. The same equation is re-evaluated on the implementation on every run (specification hash recomputed from the publish history alone, bit for bit, both configurations) and the whole database is compared with the model after every publish.",
        "note": TB + "Directory level (C01_directory_always_spec): after any sequence of requests the directory's tree is the specification trie over its leaves and the served epoch hash is its hash, under the premise that VRF outputs are well-formed 256-bit labels that do not collide (C18).",
    },
    "C02": {
        "text": "Proof (Coq), end to end: in every state reachable by publish requests, the proof an honest directory returns for a published label is accepted by the client verifier (lookup_verify) against the returned epoch hash and yields exactly the latest (epoch, version, value) (C02_lookup_accepted_and_latest with the reachable invariant C02_invariant2_reachable); unpublished labels are refused. Premises are the VRF-layer facts of C18 (well-formed 256-bit outputs, no collisions, the server's proof verifies to the output). Lookup generation and the full client verifier are modelled and tied to the code (structural equality of proofs, equality of verdicts and results) over random histories with forced power-of-two versions; every label is looked up (single and batched) after queried epochs and compared with an independent truth table.",
        "note": TB + "batch_lookup = single lookups is decided by correspondence + oracle.",
    },
    "C03": {
        "text": "Key-history generation and the history verifier (shape checks, per-update checks, marker checks, tombstones) are modelled in Coq and tied to the code on every history proof and verdict (Complete and MostRecent N below/equal/above the number of versions); proved: unpublished labels are refused. The completeness statement itself is decided by the oracle (verified result = truth table) and the correspondence.",
        "note": TB + "PARTIAL: completeness theorem not yet proved; the marker arithmetic it rests on is C08 (proved).",
    },
    "C04": {
        "text": "Machine-checked theorem, end to end: after ANY sequence of publish requests, for every range s < e <= current epoch the server returns a proof, and that proof is accepted by audit_verify against the epoch hashes which the publishes returned for the epochs s..e (every history, every hash configuration; premises: VRF outputs are well-formed non-colliding 256-bit labels, C18). Proved at the tree level for any canonical tree: the tree as of an epoch is a restriction of the latest tree and equals the specification trie over the leaves inserted so far; the walk's output is the leaf set of a cut of the latest tree whose auditor-mode hash is that restriction's hash; a well-formed trie's auditor hash depends on its leaf set only, so the auditor's rebuild (proved to be the trie over exactly the given nodes) has it; the prefix-free check passes. Also: invalid ranges are refused, one single-epoch proof per epoch, inconsistent list lengths rejected. The audit walk and the auditor are tied to the code on every epoch pair of random histories (incl. s = 0, non-adjacent, ending before the latest epoch).",
        "note": TB + "Premises as for C01 (VRF layer). The walk is proved with the model's fuel (300 > 256 + root).",
    },
    "C09": {
        "text": "Machine-checked theorem for ALL single-epoch and multi-epoch audit proofs (arbitrary node lists, not only those an honest server emits): if the auditor accepts a proof against the root hashes of well-formed trees, every leaf of the earlier tree - label, value and epoch - is a leaf of the later tree, and the later tree holds nothing else than the proof's inserted nodes stamped with the end epoch; over a range of epochs whatever the first root hash commits to every later one does - or a hash collision (experimental configuration: or a zero-digest preimage) has been exhibited. Proved through a refinement of the auditor's rebuild (fresh tree, one batch insertion over prefix-free labels of mixed lengths = the trie whose leaves are exactly the given nodes) and a structural reading of hash equality. Also proved: accepted proofs are prefix-free (the check added by the fix), inconsistent lists are rejected, the hash list is determined by the proof. The auditor is tied to the code on adversarial proofs with freely chosen end hashes; the defect that let a server drop committed leaves was found by this check and repaired.",
        "note": TB + "Premises: the hashes are root hashes of well-formed trees (C01); proof labels canonical (stray bits beyond the length are exercised by the harness only). Hash assumptions only as the disjunct Bad.",
    },
    "C06": {
        "text": "Machine-checked theorem for ALL lookup proofs (arbitrary bytes in every field): against the root hash of a well-formed tree that holds, at the queried label's VRF labels, exactly the prescribed fresh leaves and the stale leaves of all superseded versions, lookup verification accepts only (latest version, its value, its epoch) - or exhibits a hash collision (experimental configuration: or a zero-digest preimage). The Binding premise is proved for both real configurations; VRF uniqueness is an explicit premise. The verifier model is tied to the code on 400+ adversarial proofs per run assembled with the real key and tree, each VRF check evaluated by the real primitive.",
        "note": TB + "Premises: VrfUnique; honest tree (validated for the code by the full-state correspondence of C01). Hash assumptions only as the disjunct Bad.",
    },
    "C07": {
        "text": "Machine-checked theorems for ALL history proofs (arbitrary bytes in every field): in Default mode a verifying COMPLETE history proof yields exactly the label's true account newest first (nothing hidden at either end, no gaps, duplicates, reordering, wrong values or epochs) and a verifying MostRecent(r) proof yields exactly the newest min(r, n) true entries, or a collision is exhibited; for every parameter each accepted entry is a true version with its true value and epoch. With AllowMissingValues (the client opted in) the same holds with each entry reported either as it is or as a tombstone carrying the TRUE epoch - except that a tombstoned version 1 may carry any epoch, which is exactly the known finding K2 (reproduced on the real code, listed, and now the precise boundary of the theorem). Uses the marker theorem (n+1 is always a future marker), non-membership soundness and the binding of the stale leaf's epoch. Verifier model tied to the code on adversarial histories incl. tombstones and late/missing stale markers.",
        "note": TB + "Premises: VrfUnique; honest tree incl. the stale leaves' values and epochs (validated for the code by the full-state correspondence of C01). Trees on which a superseded version is retired late or never are outside the theorems' premise and decided by the adversarial harness.",
    },
    "C10": {
        "text": "Machine-checked theorem over the storage-manager model, generic in the program a publish runs inside its transaction: begin; ANY sequence of storage operations with ANY database call rejected and ANY cache evictions; then rollback, a commit the database rejects, or a commit refused for lack of an epoch record => database unchanged, no transaction open, log empty, cache coherent (so every later read answers as before). On the implementation, exhaustive fault enumeration over every storage operation index of publishes of every shape, cached/uncached, sequential/parallel, with database comparison and retry-equals-twin; three genuine defects found this way (cache filled before a rejected write; root hash read after commit; detached insertion task writing after rollback) were repaired.",
        "note": TB + "The directory-level control flow (rollback on insertion error, join of spawned tasks, root hash before commit) is decided by the fault enumeration on the real code, the storage-level theorem covers every program shape.",
        "technique": "Coq proof over the storage-manager model + exhaustive fault enumeration on the implementation",
    },
    "C11": {
        "text": "Machine-checked theorem: if every record of a commit has the shape (new label / updated node keeping the old latest as previous / old record) relative to the store at epoch E, then for ANY subset of the batch written, every node lookup as of E, the whole tree a reader reconstructs and the root hash it reports are those before the commit; value states stamped E+1 are invisible at E. The premise is evaluated by the model on every recorded real commit batch, the reader-side version selection is tied to the code through hook H2, and crash points (all prefixes of several orders + random subsets) are replayed on the real code with a second instance.",
        "note": TB + "Premise commit_shape is checked per run on real batches rather than derived from a store-level insertion model.",
    },
    "C12": {
        "text": "Machine-checked theorem on the publish protocol (mutex with FIFO hand-over, read epoch, commit, release) for ANY number of tasks and ANY schedule: finished publishes return pairwise distinct epochs, exactly the consecutive epochs e0+1..e0+k in commit order; without the mutex (the code before the fix) the refutation schedule is a theorem too. The real code is driven under explicit schedules at storage-operation granularity (exhaustive single pre-emption pairs for two publishes, random for three) with serial-order comparison of the final database; the defect (both publishes returned the same epoch) was found and repaired.",
        "note": TB + "Model granularity: one model step = one or more storage operations; pre-emption inside a storage operation / OS threads are not modelled.",
    },
    "C13": {
        "text": "Machine-checked theorems at the store level: version selection never returns a node version newer than the epoch a request read (and reports an error when both retained versions are newer - an instance lagging >= 2 epochs errors instead of answering from a later epoch), and all lookups as of that epoch are unchanged while a publish is in flight. On the implementation, reader requests are interleaved with publishes under explicit schedules for writer / separate / lagging cached instances plus the change poller; two genuine defects (wrong node version for lagging readers; history proofs built against a re-read epoch) were found and repaired.",
        "note": TB + "PARTIAL: the end-to-end statement for all interleavings is decided by schedule exploration on the real code; K3 (read-fill racing a write-through on one cache key) is a stated limitation outside the explored schedule granularity.",
    },
    "C14": {
        "text": "The model has no parallelism / cache / feature / object-state parameter: every configuration of the implementation is compared with the same model outputs and with the sequential uncached run (epoch hashes, stored state, verification outcomes, verified results), incl. a second binary without the preload / parallel-VRF features, restarts before every call and the read-only wrapper. Proved in Coq: batch insertion of distinct equal-length leaves does not depend on their order; whole histories whose batches are permuted element-wise give the identical tree; and a canonical tree is a function of its leaf set alone (it is the specification trie, which has no notion of batching, parallelism or order).",
        "note": TB + "PARTIAL: sub-batch splitting and the equivalence of parallel insertion are decided by the matrix runs; compile-time features by two binaries.",
    },
    "C20": {
        "text": "Machine-checked theorems: tombstoning rewrites only the value field of the label's value states with epoch <= cut-off (node records, epoch record, other users, key set untouched); the epoch hash is the same value; other labels' lookups and the label's own lookup (cut-off before its latest update) return the identical proof; further publishes commute with tombstoning. Model tied to the code (state, history proofs, both verification modes, publish after tombstone); on the implementation every cut-off epoch is exercised with structural equality of all proofs and the exact accept/reject pattern of Default vs AllowMissingValues.",
        "note": TB + "The 'Default rejects exactly the histories with a tombstoned entry' statement is decided by oracle + verifier correspondence.",
    },
    "C18": {
        "text": "Machine-checked theorems: (a) over an abstract prime-order group with the code's prove/evaluate/verify formulas, the server's proof verifies under its public key and yields exactly the output the node label is cut from, for every key, input and nonce; a proof accepted for two different (key, curve input) pairs is a collision of the challenge hash; the output depends on gamma only; proof bytes (gamma, 16-byte c, s) parse back to the same proof; (b) the VRF input H(I2OSP(label) || freshness || version) determines (label, freshness, version) up to a BLAKE3 collision in both configurations; verify_label accepts exactly the 256-bit label made of the output and rejects any other claimed label; under VRF uniqueness no proof bytes make another label verify; commitment keys and commitments under different secret keys differ up to a collision. The input hash and commitment formulas are recomputed by the model (Gallina BLAKE3) on every run; the primitive itself is exercised by single-field alteration of every verification input on structured keys, labels and versions across the u64 range, and through directories running under several keys.",
        "note": TB + "PARTIAL: ECVRF is modelled as an algebraic skeleton; curve arithmetic, SHA-512, hash-to-curve are not modelled, uniqueness of ECVRF is a premise. See DESIGN.md.",
    },
    "C19": {
        "text": "Machine-checked theorems on a byte-exact model of the protobuf encoding and of the conversion layer: for every lookup, history, append-only proof and every component (label, element, sibling, membership, non-membership, update, single append-only proof) with the Rust types' invariants, decode(encode p) = p; hence verification after the wire equals verification of the original and distinct proofs never share an encoding; whatever bytes the decoder accepts satisfy the conversion layer's constraints (labels <= 256 bits in 32 bytes, 32-byte digests, two children, u64 numbers); varint, minimal-label and audit-blob-name round trips. The model's encoders are compared byte for byte with rust-protobuf and its decoders (three-valued: value / reject / left to the library) with the implementation on honest, corrupted and field-level altered encodings; absence of panics in decoding and in verifying decoded proofs is checked on the implementation under catch_unwind.",
        "note": TB + "Absence of panics on arbitrary bytes is a property of the implementation checked by search (fuzzing under catch_unwind); the theorems cover the model's decoders. rust-protobuf is trusted for wire features outside the canonical subset.",
    },
}
