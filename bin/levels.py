"""Claimed level per property (text for MANIFEST.json)."""
HOOK_COMMITS = ["f85b327"]
TB = ("Trusted: Coq 8.16.1 kernel (vm_compute only for finite sweeps/witnesses), ExtrOcamlBasic extraction + OCaml driver and the Rust harness "
      "(correspondence only, bounded by its generators). ")
LEVELS = {
    "C17": {
        "text": "Machine-checked proof (Coq, closed under the global context) that the byte-level model of NodeLabel::{is_prefix_of,get_prefix,"
                "get_longest_common_prefix,get_prefix_ordering,cmp} equals the bit-string operations for all labels of 0..256 bits; the model is "
                "tied to the code by a correspondence check (extracted model vs implementation on exhaustive small labels, every byte boundary, "
                "adversarial patterns) and an independent bit-string oracle; AzksElementSet operations are modelled and tied the same way.",
        "note": TB + "Set-operation statements (sorted = unsorted) are decided by correspondence + oracle; see DESIGN.md.",
    },
    "C08": {
        "text": "Machine-checked proof for all epochs/versions/ranges (unbounded N) that the future markers of n meet what any proof for m>n must "
                "show present (history/history), the stale-label conflict for m<n, and the lookup/history conflict outside the exactly "
                "characterised known-finding class K1 (witness (7,4,7) proved); model of get_marker_versions tied to the code by exhaustive "
                "and structured 64-bit correspondence; the property is also evaluated on the implementation's own outputs.",
        "note": TB + "The theorems are about marker arithmetic as the property states; that one root cannot show a label both present and absent is C05.",
    },
}
