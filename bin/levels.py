"""Claimed level per property (text for MANIFEST.json)."""
HOOK_COMMITS = ["f85b327"]
FIX_COMMITS = ["1fe7dcd", "1179cbc", "91f131a", "b2341ca", "1a02c9c"]
TB = ("Trusted: Coq 8.16.1 kernel (vm_compute only for finite sweeps/witnesses), ExtrOcamlBasic extraction + OCaml driver and the Rust harness "
      "(correspondence only, bounded by its generators). ")
LEVELS = {
    "C17": {
        "text": "Machine-checked proof (Coq, closed under the global context) that the byte-level model of NodeLabel::{is_prefix_of,get_prefix,"
                "get_longest_common_prefix,get_prefix_ordering,cmp} equals the bit-string operations for all labels of 0..256 bits; the model is "
                "tied to the code by a correspondence check (extracted model vs implementation on exhaustive small labels, every byte boundary, "
                "adversarial patterns) and an independent bit-string oracle; AzksElementSet operations are modelled and tied the same way.",
        "note": TB + "Set-operation statements (sorted = unsorted) are decided by correspondence + oracle; see DESIGN.md.",
    },
    "C08": {
        "text": "Machine-checked proof for all epochs/versions/ranges (unbounded N) that the future markers of n meet what any proof for m>n must "
                "show present (history/history), the stale-label conflict for m<n, and the lookup/history conflict outside the exactly "
                "characterised known-finding class K1 (witness (7,4,7) proved); model of get_marker_versions tied to the code by exhaustive "
                "and structured 64-bit correspondence; the property is also evaluated on the implementation's own outputs.",
        "note": TB + "The theorems are about marker arithmetic as the property states; that one root cannot show a label both present and absent is C05.",
    },
    "C05": {
        "text": "Machine-checked proof, for BOTH real hash configurations and for ALL candidate proofs (arbitrary sibling lists, anchors, children, "
                "hashes), that against the root hash of a well-formed tree a verifying non-membership proof never concerns a leaf label and a "
                "verifying membership proof names a real node with its real value - up to an explicit hash-collision (or zero-digest preimage) "
                "event; plus completeness of the honest membership prover.  The tree/verifier/prover model is tied to the code bit for bit "
                "(Gallina BLAKE3) on real Azks trees with honest and adversarial proofs; three genuine defects found this way were repaired "
                "(fix: commits) before the theorems could be proved.",
        "note": TB + "Hash assumptions appear only as the disjuncts Collision H / ZeroPre H and the 32-byte output length. Completeness of the "
                "non-membership prover is decided by correspondence + oracle (every related non-member label on every generated tree), not yet by a theorem.",
    },
    "C15": {
        "text": "Machine-checked proof over the storage-manager model (all states reachable or not that satisfy the proved invariant, all keys, "
                "users and flags): a single-record read in a transaction equals the read of the committed database; every user-state query "
                "(five flags) selects from the committed state set and reports NotFound only when nothing is selectable; user data lists the "
                "committed states; commit hands over exactly the log with the epoch record last and leaves database = database overridden by "
                "log; rollback; nested begin refused.  Model tied to the code by operation-sequence correspondence incl. rejected writes; two "
                "genuine defects found (cache filled before a rejected write; version/epoch confusion) and repaired.",
        "note": TB + "batch_get and the bulk version query are decided by correspondence + committed-twin oracle (no theorem yet).",
    },
    "C16": {
        "text": "Machine-checked invariant: in every state reachable by any operation sequence, with any database call rejected and any set of "
                "cache entries evicted at any time (this abstracts clocks, expiry and the floating-point memory-pressure arithmetic soundly), "
                "every cached record equals the database's; hence a read returns the pending value or exactly the database's record, and "
                "after a flush the epoch record is read from storage.  Tied to the code incl. database-operation counts per call.",
        "note": TB + "Single-task semantics; the concurrent read-fill vs write-through race is a recorded limitation (K3), multi-thread runs are a search only.",
    },
}
