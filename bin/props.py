"""Per-property configuration of bin/check: Coq files, harness steps (sub-command and per-tier
arguments after the seed), extra trusted-base entries."""

PROPS = {
    "C17": {
        "coq_deps": ["NodeLabelFacts", "ElemSet"],
        "steps": [
            {"sub": "labels", "quick": [0], "thorough": [1]},
        ],
        "rule": "one line per implementation call (NodeLabel::{is_prefix_of,get_prefix,get_longest_common_prefix,"
                "get_prefix_ordering,cmp}; AzksElementSet::{from,partition,get_longest_common_prefix,contains_prefix} via hook H1) "
                "on exhaustive small labels, byte-boundary patterns and prefix-related 256-bit labels; every answer recomputed by the "
                "extracted Coq model and by an independent bit-string oracle; distinct = distinct (query, answer) lines",
        "assumptions": ["labels have 32 value bytes and label_len <= 256 (theorem hypothesis WF); ordering theorem for canonical labels"],
    },
    "C08": {
        "coq_deps": ["MarkerFacts"],
        "steps": [
            {"sub": "markers", "quick": [0], "thorough": [1]},
        ],
        "rule": "get_marker_versions on every triple s<=n<=E up to the tier's bound, degenerate (panicking) arguments and "
                "structured 64-bit triples around powers of two and skip-list elements, each answer recomputed by the extracted "
                "Coq model; plus the property itself evaluated on the implementation's outputs: every quadruple (E,n,m,s') for "
                "history/history and every triple (E,n,m) for lookup/history (kf_K1 lines, classified by the model's K1_class)",
        "assumptions": ["versions and epochs are u64 values; the tree-level bridge (a label cannot be shown both present and absent) is C05"],
    },
}
