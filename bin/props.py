"""Per-property configuration of bin/check: Coq files, harness steps (sub-command and per-tier
arguments after the seed), extra trusted-base entries."""

PROPS = {
    "C17": {
        "coq_deps": ["NodeLabelFacts", "ElemSet"],
        "steps": [
            {"sub": "labels", "quick": [0], "thorough": [1]},
        ],
        "rule": "one line per implementation call (NodeLabel::{is_prefix_of,get_prefix,get_longest_common_prefix,"
                "get_prefix_ordering,cmp}; AzksElementSet::{from,partition,get_longest_common_prefix,contains_prefix} via hook H1) "
                "on exhaustive small labels, byte-boundary patterns and prefix-related 256-bit labels; every answer recomputed by the "
                "extracted Coq model and by an independent bit-string oracle; distinct = distinct (query, answer) lines",
        "assumptions": ["labels have 32 value bytes and label_len <= 256 (theorem hypothesis WF); ordering theorem for canonical labels"],
    },
}
