"""Per-property configuration of bin/check: Coq files, harness steps (sub-command and per-tier
arguments after the seed), extra trusted-base entries."""

PROPS = {
    "C17": {
        "coq_deps": ["NodeLabelFacts", "ElemSet", "ElemSetFacts", "ContainsPrefix", "LabelOrder", "BitsLabel", "InsertRefine", "ContainsPrefixSorted", "AuditRebuild", "ContainsPrefixFrom"],
        "steps": [
            {"sub": "labels", "quick": [0], "thorough": [1]},
        ],
        "rule": "one line per implementation call (NodeLabel::{is_prefix_of,get_prefix,get_longest_common_prefix,"
                "get_prefix_ordering,cmp}; AzksElementSet::{from,partition,get_longest_common_prefix,contains_prefix} via hook H1) "
                "on exhaustive small labels, byte-boundary patterns and prefix-related 256-bit labels; every answer recomputed by the "
                "extracted Coq model and by an independent bit-string oracle; distinct = distinct (query, answer) lines",
        "assumptions": ["labels have 32 value bytes and label_len <= 256 (theorem hypothesis WF); ordering theorem for canonical labels"],
    },
    "C08": {
        "coq_deps": ["MarkerFacts", "DirSound", "HashingBinding", "HistEnd", "DirSoundReach"],
        "steps": [
            {"sub": "markers", "quick": [0], "thorough": [1]},
            {"sub": "advdir", "quick": [0], "thorough": [1]},
        ],
        "rule": "(advdir step: on trees built by a dishonest server - a superseded version retired late or never - the real verifiers must not accept a complete history and a lookup naming different latest versions under one root) get_marker_versions on every triple s<=n<=E up to the tier's bound, degenerate (panicking) arguments and "
                "structured 64-bit triples around powers of two and skip-list elements, each answer recomputed by the extracted "
                "Coq model; plus the property itself evaluated on the implementation's outputs: every quadruple (E,n,m,s') for "
                "history/history and every triple (E,n,m) for lookup/history (kf_K1 lines, classified by the model's K1_class)",
        "assumptions": ["versions and epochs are u64 values; the tree-level bridge (a label cannot be shown both present and absent) is C05"],
    },
    "C05": {
        "coq_deps": ["TreeFacts", "HashingFacts", "TreeComplete", "NonMemComplete", "HistEnd", "DirSound", "DirSoundReach"],
        "steps": [
            {"sub": "trees", "quick": [0], "thorough": [1]},
        ],
        "rule": "real Azks trees (both configurations; empty tree, the D1 shape, subsets of a small universe dealt into 1-3 epochs, random "
                "256-bit labels sharing prefixes around byte boundaries): full tree dump + root hash, honest membership/non-membership "
                "proofs for members and related non-members, and adversarial proofs (every ancestor as anchor, swapped/emptied/shortened "
                "children, altered sibling values, directions, hashes, removed siblings, relabelled and truncated membership proofs); every "
                "line recomputed bit for bit by the extracted model with Gallina BLAKE3; ground truth of each accepted proof checked",
        "assumptions": ["hash values are 32 bytes (Rust types); theorems hold up to an explicit hash collision / zero-digest preimage event"],
    },
    "C15": {
        "coq_deps": ["ManagerFacts", "MgrBatch"],
        "steps": [
            {"sub": "mgr", "quick": [0], "thorough": [1]},
        ],
        "rule": "random operation sequences (set, batch_set, get, batch_get, the five user-state flags, user data, bulk versions, "
                "tombstone, begin/commit/rollback, flush) on the real StorageManager over a database wrapper that rejects chosen calls; "
                "three regimes (deterministic cache with database-operation counts, no cache, 2 ms lifetimes with memory limit and real "
                "sleeps); well-formed and (1/7) malformed data; every return value and the final database recomputed by the extracted "
                "model; ground truth of every read = the same read on a committed twin",
        "assumptions": ["per user, versions increase with epochs and rewriting a (user, epoch) record keeps its version (hypothesis rewrite_keeps_version)",
                        "the in-memory database's query functions are modelled by Manager.find_item (validated by the correspondence)"],
    },
    "C16": {
        "coq_deps": ["ManagerFacts", "MgrBatch", "CacheProto", "CacheRegular", "CacheMulti"],
        "steps": [
            {"sub": "mgr", "quick": [0], "thorough": [1]},
            {"sub": "proto", "quick": [0], "thorough": [1]},
            {"sub": "c13", "quick": [0], "thorough": [1], "timeout": 1200},
        ],
        "rule": "as C15; regime 0 ties the fill / write-through / flush logic itself (the number of database operations of every call must "
                "equal the model's), regime 2 (2 ms lifetimes, 300-1800 byte limits, real sleeps, cleaning toggled by transactions) must "
                "return what the cache-less model returns; proto step: reader tasks (get, batch_get, get_user_state) and a writing task "
                "(set, batch_set, possibly reading first) on one cached manager, each parked before and after every call of the data layer or "
                "(hook) where the cache is about to store records and released one call at a time by an explicit schedule - all 16 prefixes for "
                "one reader against one writer in every api variant, all 512 prefixes for two reads against read+two writes, thousands of random "
                "task sets and schedules, a third of them with cache flushes in between - must agree with the extracted protocol model on the data layer's final record, the cache's final "
                "content and every read's result; plus ungated rounds on a multi-thread runtime (coherence once everything has finished)",
        "assumptions": ["the sequential theorems treat each manager operation as atomic; the concurrent read-fill / write-through protocol (K3, fixed by 92ed186) is a separate transition-system model (CacheProto.v) per key with serialised writers, tied to the code by the proto step; the directory-level consequences are explored by the scheduling harness (reader parked between the database's answer and the cache fill)"],
    },
    "C01": {
        "spec_ops": ["specroot"],
        "coq_deps": ["DirFacts", "Spec", "InsertRefine", "DirRefine"],
        "steps": [{"sub": "dirs", "quick": [0], "thorough": [1]}],
        "rule": "random publish histories on the real Directory (both configurations; cached/uncached; sequential/parallel insertion; labels incl. empty, 1-byte, prefix-related and 330-byte; values incl. empty and 1500-byte; inserts, updates, re-submissions, no-op and duplicate-label batches): after every publish the full database (every node record, the epoch record, every value state) and the returned epoch hash are recomputed by the extracted model; the root hash is recomputed from the history alone by the canonical-trie specification (specroot); every lookup, key-history (Complete, MostRecent 1/n/n+3/random) and audit proof is compared structurally with the model's and its verification verdict and result with the model verifier's; ground truth from an independent version table",
        "partial": "",
        "assumptions": ["VRF outputs are an environment table produced by the implementation's primitive; theorem premises: they are well-formed canonical 256-bit labels and do not collide (C18)"],
    },
    "C02": {
        "coq_deps": ["DirFacts", "DirRefine", "LookupComplete"],
        "steps": [{"sub": "dirs", "quick": [0], "thorough": [1]}],
        "rule": "random publish histories on the real Directory (both configurations; cached/uncached; sequential/parallel insertion; labels incl. empty, 1-byte, prefix-related and 330-byte; values incl. empty and 1500-byte; inserts, updates, re-submissions, no-op and duplicate-label batches): after every publish the full database (every node record, the epoch record, every value state) and the returned epoch hash are recomputed by the extracted model; the root hash is recomputed from the history alone by the canonical-trie specification (specroot); every lookup, key-history (Complete, MostRecent 1/n/n+3/random) and audit proof is compared structurally with the model's and its verification verdict and result with the model verifier's; ground truth from an independent version table",
        "partial": "theorems: unpublished label refused; END TO END in every reachable state the returned proof is accepted by lookup_verify against the returned epoch hash and yields exactly the latest (epoch, version, value) - premises: VRF outputs are well-formed 256-bit labels, do not collide, and the server's VRF proof verifies to the output (C18); batch_lookup = single lookups and the byte-level tie are decided by correspondence + oracle",
        "assumptions": ["VRF outputs are an environment table produced by the implementation's primitive"],
    },
    "C03": {
        "coq_deps": ["DirFacts", "DirRefine", "HistComplete", "MarkerBounds", "LookupComplete", "HistEnd"],
        "steps": [{"sub": "dirs", "quick": [0], "thorough": [1]}],
        "rule": "random publish histories on the real Directory (both configurations; cached/uncached; sequential/parallel insertion; labels incl. empty, 1-byte, prefix-related and 330-byte; values incl. empty and 1500-byte; inserts, updates, re-submissions, no-op and duplicate-label batches): after every publish the full database (every node record, the epoch record, every value state) and the returned epoch hash are recomputed by the extracted model; the root hash is recomputed from the history alone by the canonical-trie specification (specroot); every lookup, key-history (Complete, MostRecent 1/n/n+3/random) and audit proof is compared structurally with the model's and its verification verdict and result with the model verifier's; ground truth from an independent version table",
        "partial": None,
        "assumptions": ["VRF outputs are an environment table produced by the implementation's primitive"],
    },
    "C04": {
        "coq_deps": ["DirFacts", "DirRefine", "InsertRefine", "AuditRebuild", "AuditSound", "AuditComplete", "AuditDir"],
        "steps": [{"sub": "dirs", "quick": [0], "thorough": [1]}],
        "rule": "random publish histories on the real Directory (both configurations; cached/uncached; sequential/parallel insertion; labels incl. empty, 1-byte, prefix-related and 330-byte; values incl. empty and 1500-byte; inserts, updates, re-submissions, no-op and duplicate-label batches): after every publish the full database (every node record, the epoch record, every value state) and the returned epoch hash are recomputed by the extracted model; the root hash is recomputed from the history alone by the canonical-trie specification (specroot); every lookup, key-history (Complete, MostRecent 1/n/n+3/random) and audit proof is compared structurally with the model's and its verification verdict and result with the model verifier's; ground truth from an independent version table",
        "partial": None,
        "assumptions": ["VRF outputs are well-formed canonical 256-bit labels and do not collide (C18), as for C01", "the model = code tie: every audit proof and verdict of the harness run is recomputed by the extracted model"],
    },
    "C09": {
        "coq_deps": ["VerifyFacts", "HashingBinding", "InsertRefine", "AuditRebuild", "AuditSound"],
        "steps": [{"sub": "audits", "quick": [0], "thorough": [1]}],
        "rule": "adversarial single-epoch append-only proofs against the real auditor on real start trees (both configurations): frontier of "
                "the start tree as unchanged nodes combined with fresh leaves anywhere, leaves strictly below an unchanged node, an inserted "
                "element carrying an unchanged label, a node together with its child, duplicated elements, an old leaf re-inserted with another "
                "value; the end hash is chosen freely (root of the auditor's own rebuild); accepted => every claimed element must be a node of "
                "the rebuilt end tree (ground truth); plus multi-epoch proofs with inconsistent lists and replaced/altered hashes and epochs; "
                "every rebuild hash and verdict recomputed by the extracted model",
        "partial": None,
        "assumptions": ["the two root hashes are those of well-formed trees (troot_ok: Rust-typed labels and digests, trie shape, u64 epochs) - for the code this is C01",
                        "proof_ok: the proof's labels are well-formed and CANONICAL (no stray bits beyond the length) and its values are 32-byte digests; "
                        "labels with stray bits are exercised on the implementation by the adversarial harness only",
                        "collision resistance only as the explicit disjunct (Collision H; experimental configuration: or a zero-digest preimage)"],
    },
    "C06": {
        "coq_deps": ["DirSound", "HashingBinding", "HistEnd", "DirSoundReach", "Witness"],
        "steps": [{"sub": "advdir", "quick": [0], "thorough": [1]}],
        "rule": "real directories (both configurations) over multi-epoch histories with a label updated in every epoch (versions crossing powers of two); a server holding key and tree assembles: every older version with every ancestor as anchor of the freshness proof; wrong value (with and without recomputed nonce), epoch +-1, version+1 on the same leaves, version beyond the epoch, a current epoch below the version, swapped existence/marker/freshness parts, bit-flipped and truncated VRF proofs, another label's proof or leaf, the honest proof against another epoch's root; histories with the newest 1-2 entries dropped (markers recomputed consistently, forged absences at every anchor, or markers unchanged), oldest dropped (complete / most-recent-n / n-1), reordered, duplicated, removed middle entry, exchanged or altered epochs, replaced values (with and without nonce), tombstone substitution in both modes, version 1 as tombstone with an earlier epoch (K2), omitted / surplus / swapped marker proofs, missing previous-version proofs, most-recent parameters below/equal/above the number of versions; plus trees built through Azks with the superseded version retired in time, one epoch late, or never; every VRF verification is evaluated by the implementation's primitive (vchk table), every verdict and result recomputed by the extracted model verifier; accepted => result must equal the truth table",
        "assumptions": ["VrfUnique (a verifying VRF proof's output is the function value) is a premise of the theorem; collision resistance appears as the explicit disjunct Bad",
                        "the honest tree is described by what it holds at the label's VRF labels (premises tree_fresh / tree_stale), established for the code by the C01 state correspondence"],
    },
    "C07": {
        "coq_deps": ["DirSound", "HashingBinding", "HistEnd", "DirSoundReach", "Witness"],
        "steps": [{"sub": "advdir", "quick": [0], "thorough": [1]}],
        "rule": "real directories (both configurations) over multi-epoch histories with a label updated in every epoch (versions crossing powers of two); a server holding key and tree assembles: every older version with every ancestor as anchor of the freshness proof; wrong value (with and without recomputed nonce), epoch +-1, version+1 on the same leaves, version beyond the epoch, a current epoch below the version, swapped existence/marker/freshness parts, bit-flipped and truncated VRF proofs, another label's proof or leaf, the honest proof against another epoch's root; histories with the newest 1-2 entries dropped (markers recomputed consistently, forged absences at every anchor, or markers unchanged), oldest dropped (complete / most-recent-n / n-1), reordered, duplicated, removed middle entry, exchanged or altered epochs, replaced values (with and without nonce), tombstone substitution in both modes, version 1 as tombstone with an earlier epoch (K2), omitted / surplus / swapped marker proofs, missing previous-version proofs, most-recent parameters below/equal/above the number of versions; plus trees built through Azks with the superseded version retired in time, one epoch late, or never; every VRF verification is evaluated by the implementation's primitive (vchk table), every verdict and result recomputed by the extracted model verifier; accepted => result must equal the truth table",
        "partial": "Default and AllowMissingValues modes are proved for Complete and MostRecent(r) on honestly maintained trees (AllowMissingValues up to the known class K2, which the theorem states as its exception); trees on which a superseded version is retired late or never are decided by the adversarial harness (oracle + verifier correspondence)",
        "assumptions": ["as C06"],
    },
    "C10": {
        "coq_deps": ["ManagerFacts"],
        "steps": [{"sub": "c10", "quick": [0], "thorough": [1], "timeout": 3000},
                  {"sub": "mgr", "quick": [0], "thorough": [1]}],
        "rule": "fault enumeration on the real code: every storage operation index k of a publish (inserts / updates / mixed / random shapes; cached and uncached manager; sequential and parallel insertion; both configurations) is made to fail; afterwards the SAME instance must report the previous epoch hash, serve verifying lookup/history/audit proofs for the previous state only, leave the database byte-identical (checked after letting detached tasks run), a fresh instance must agree, and the retry must end in the fault-free twin's database; the storage-manager model is tied by the operation-sequence correspondence with rejected writes (mgr step)",
        "assumptions": ["faults are whole-call failures of the Database trait (the property's fault model); process crashes are C11"],
    },
    "C11": {
        "coq_deps": ["StoreFacts", "StoreWrite", "DirFacts"],
        "steps": [{"sub": "c11", "quick": [0], "thorough": [1], "timeout": 3000}],
        "rule": "recorded commit batches of real publishes (create / split / update nodes): the model predicate commit_shape is evaluated on every record of the batch against the store before the publish (must be true: premise of the theorem), the tree reconstructed from raw records as of E, E+1 and E-1 by the model's version selection is compared with the implementation's (hook H2); crash points on the real code: every prefix of several orders and random subsets of the batch written to a copy of the pre-publish database, a second instance must serve the previous epoch (epoch hash, lookups, histories, audit verify) and, with the epoch record, the new epoch",
        "assumptions": ["record-level atomicity of the storage (the property's premise); the epoch record is written last (checked on the recorded batch)"],
    },
    "C12": {
        "coq_deps": ["Sched", "SchedState"],
        "steps": [{"sub": "c12", "quick": [0], "thorough": [1], "timeout": 1200}],
        "rule": "two and three publish calls on clones of one directory (shared label between batches; cached and uncached manager; both configurations) over gated storage: exhaustive schedules with one pre-emption pair (i, j) for two tasks (sampled in quick tier), random multi-pre-emption schedules for three; returned epochs must be distinct and consecutive, the final database must equal serial application in epoch order, every returned (epoch, hash) must be that epoch's hash and the audit over them must verify; the epochs handed out are also predicted by the protocol model run under the same schedule (c12 lines)",
        "assumptions": ["the protocol model (Sched.v / SchedState.v) takes one or more storage operations as one step; pre-emption inside a storage operation is not modelled; real multi-threading is exercised on the code by the parallel runs (c12_parallel), not modelled"],
    },
    "C13": {
        "coq_deps": ["StoreFacts", "StoreConc", "PollProto", "TxnProto"],
        "steps": [{"sub": "c13", "quick": [0], "thorough": [1], "timeout": 1200},
                  {"sub": "c11", "quick": [0], "thorough": [0], "timeout": 3000}],
        "rule": "a reader request (lookup of two labels, key history, audit, epoch hash) interleaved with a publish under explicit schedules, on the writer instance, on a separate uncached instance and on a separate cached instance whose view lags storage by 0-3 epochs; every Ok answer must name an (epoch, root hash) pair the directory published and verify against it; the change poller must make later requests use an epoch at least as new as the signalled one; the version-selection model is tied by the store-level lines of the c11 step",
        "assumptions": ["the transition systems StoreConc / PollProto / TxnProto take every step between two awaits as atomic and assume what tokio's RwLock provides (requests shared for their whole duration, the poller exclusive); they are tied to the code by oracle scenarios (gated schedules, a multi-thread runtime with slow and rejected commits), not replayed trace for trace; pre-emption between a storage operation and its return to the caller is explored on the real code (this is how K3 was reproduced)"],
    },
    "C14": {
        "coq_deps": ["InsertFacts", "InsertRefine", "ParallelIns"],
        "steps": [{"sub": "c14", "quick": [0], "thorough": [1], "timeout": 3000},
                  {"sub": "dirs", "quick": [0], "thorough": [0], "featureset": "B"},
                  {"sub": "c14", "quick": [0], "thorough": [0], "featureset": "B", "timeout": 3000}],
        "rule": "one publish history per configuration run under parallelism {disabled, static 1/2/3/5/32, available-or-fallback} x cache {none, default, 2 ms lifetime, 600-byte limit} x {same object, re-created before every call + read-only wrapper}: epoch hashes, the stored state and every verification outcome / verified result must be identical to the sequential uncached run; the same leaf set inserted permuted, split into sub-batches of one epoch and through the auditor path must give the same root hash; the whole directory correspondence (dirs step) and the matrix are repeated with a second harness binary built WITHOUT the greedy_lookup_preload / preload_history / parallel_vrf features",
        "assumptions": ["compile-time features are covered by two binaries, not by a theorem"],
    },
    "C20": {
        "coq_deps": ["ManagerFacts", "DirFacts", "DirRefine", "LookupComplete", "HistEnd", "TombHist"],
        "steps": [{"sub": "c20", "quick": [0], "thorough": [1], "timeout": 3000},
                  {"sub": "dirs", "quick": [0], "thorough": [1]}],
        "rule": "histories with a label updated in every epoch; tombstone cut-off at every epoch 0..current on a copy of the storage: epoch hash, audit proof, other labels' lookup and history proofs and (cut-off before the latest update) the label's own lookup must be structurally identical; the label's history must verify with AllowMissingValues to the same versions/epochs with tombstoned values empty, Default must reject exactly when the requested range (Complete, MostRecent 1/2/n) includes a tombstoned entry; publish-after-tombstone must equal tombstone-after-publish (database compared); the model's d_tombstone is tied by the dirs step (state, history proofs, both verification modes, further publish)",
        "assumptions": [],
    },
    "C18": {
        "coq_deps": ["VrfFacts"],
        "steps": [{"sub": "c18", "quick": [0], "thorough": [1], "timeout": 3000}],
        "rule": "for structured and random secret keys (hard-coded, all-zero, all-0xFF, random), labels (empty, 1-byte, prefix-related, 330-byte, random), both freshness values and versions across the u64 range: derivation twice (determinism, 256 bits), proof bytes parse/print, verification under the public key with equality of the verified output and the node label placed in the tree, every single-field alteration of the verification inputs (freshness, version+1, version high bit, label extended / bit-flipped, other public key, each of the 80 proof bytes, wrong proof lengths) must fail or yield the same label; distinct (key,label,freshness,version) give distinct labels; commitments under different keys differ; directories run under several secret keys: lookup proofs verify only under their own public key, altered claimed node labels / swapped VRF proofs / other label / version+1 fail, batch derivation equals single derivation. Model lines: the VRF input hash and the value commitment are recomputed by the Coq model (Gallina BLAKE3) for every case",
        "partial": "ECVRF itself is proved at the level of its algebraic skeleton over an abstract group (completeness, challenge binding of key and input, output determined by gamma, proof-byte round trip); curve25519 arithmetic, SHA-512, hash-to-curve and the uniqueness/pseudorandomness of ECVRF are premises, exercised on the implementation by the alteration oracle only",
        "assumptions": ["group laws and point codec of the prime-order subgroup of edwards25519 (premises GroupLaws / PointCodec of the theorems)", "VRF uniqueness (premise of C18_no_other_label)", "collision resistance of BLAKE3 and of the ECVRF challenge hash appear as explicit bad events in the statements"],
    },
    "C19": {
        "coq_deps": ["ProtoFacts"],
        "steps": [{"sub": "c19", "quick": [0], "thorough": [1], "timeout": 3000}],
        "rule": "random publish histories (both configurations): every lookup, history (Complete, MostRecent) and append-only proof and every audit blob is encoded by the implementation and byte-for-byte by the Coq model; decoded back and compared; verification before/after the wire compared; then bit-flipped, truncated, range-deleted, byte-inserted, doubled, random and empty encodings plus field-level alterations re-encoded by rust-protobuf (each required field removed, labels of 33 bytes / 257 bits, digests of 0/31/33 bytes, directions 2..u32::MAX, 0/1/3 children, missing or extra siblings, u64::MAX numbers) are decoded under catch_unwind by the implementation and by the model: the model answers ok(value)/reject, which must equal the implementation's answer, or OUTSIDE (wire features left to the protobuf library; counted in input_distribution.model_outside) where only absence of a panic is checked; every accepted decode is verified (no panic, same result as the original or rejection); blob names printed/parsed incl. malformed names; numeric edge probes on the verifiers",
        "assumptions": ["the protobuf library's handling of unknown fields, groups, duplicated singular fields and over-long varints is not modelled (answer OUTSIDE); messages are shorter than 2^64 bytes"],
        "trusted": ["rust-protobuf 3.7.2 for wire features outside Proto.v's canonical subset"],
    },
}
