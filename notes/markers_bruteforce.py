SKIP=[1,2,4,16,256,65536,1<<32]
def log2(v): return v.bit_length()-1
def fmi(x):
    i=0
    while i<len(SKIP):
        if x<SKIP[i]: break
        i+=1
    return i-1
def markers(start,end,epoch):
    past=[]
    si=fmi(start)
    if SKIP[si]!=start: past.append(SKIP[si])
    p=1<<log2(start)
    if p!=start and (not past or p!=past[-1]): past.append(p)
    L=start.bit_length()
    for i in reversed(range(L)):
        sh=1<<i
        if start&sh:
            mask=(sh-1)|sh
            pv=start & ~mask
            if pv!=0 and (not past or pv!=past[-1]): past.append(pv)
    fut=[]
    L=end.bit_length(); fv=end
    for i in range(L):
        sh=1<<i
        if end&sh==0:
            fv|=sh; fv&=~(sh-1)
            if fv<=epoch: fut.append(fv)
    ei=fmi(end); pi=fmi(epoch)
    sl=SKIP[ei+1:pi+1]
    for i in range(log2(end)+1, log2(epoch)+1):
        v=1<<i
        if sl and v>=sl[0]: break
        fut.append(v)
    fut.extend(sl)
    return past,fut
assert markers(65,65,128)==([16,64],[66,68,72,80,96,128])
assert markers(85,85,65537)==([16,64,80,84],[86,88,96,128,256,65536])
assert markers(6,12,256)==([4],[13,14,16,256])
# history-history: for all E<=N, n<m<=E, s<=n, s'<=m : future(n,E) ∩ ({s'..m} ∪ past(s')) != ∅
N=140
bad=0;cnt=0
for E in range(1,N+1):
    for n in range(1,E+1):
        F=None
        for m in range(n+1,E+1):
            for sp in range(1,m+1):
                # future depends on (end=n, epoch=E) only; past on start only
                if F is None: F=set(markers(1,n,E)[1])
                P=set(markers(sp,sp,E)[0])|set(range(sp,m+1))
                cnt+=1
                if not (F&P): bad+=1; print("HH fail",E,n,m,sp)
print("history-history checked",cnt,"bad",bad)
# also does future depend on start? no. past on end/epoch? no. check quickly
for E in range(1,60):
    for e in range(1,E+1):
        for s in range(1,e+1):
            assert markers(s,e,E)[1]==markers(1,e,E)[1]
            assert markers(s,e,E)[0]==markers(s,s,s)[0]
# lookup vs complete history: history n (range [1,n]) shows: fresh 1..n present, stale 1..n-1 present, future(n,E) absent.
# lookup m shows: fresh m present, fresh 2^log2(m) present, stale m absent.
# conflict iff (m<n: stale m present vs absent -> conflict always) ; m>n: conflict iff m in F or pow2(m) in F
cls=[]
for E in range(1,65):
    for n in range(1,E+1):
        F=set(markers(1,n,E)[1])
        for m in range(n+1,E+1):
            if m not in F and (1<<log2(m)) not in F: cls.append((E,n,m))
print("lookup-history unprotected triples up to E=64:",len(cls), cls[:12])
# smallest
print(min(cls, key=lambda t:(t[0],t[1],t[2])))
# first future marker is n+1?
for E in range(2,300):
    for n in range(1,E):
        assert markers(1,n,E)[1][0]==n+1,(n,E)
print("first future marker is n+1: ok")
# large values sanity near 2^64
for (s,e,E) in [(2**63,2**63,2**64-1),(2**64-1,2**64-1,2**64-1),(1,2**64-2,2**64-1),(2**32+5,2**40,2**63+3)]:
    p,f=markers(s,e,E); assert all(x<s for x in p) and all(e<x<=E for x in f)
print("ok")
