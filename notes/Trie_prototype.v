From Coq Require Import List Bool Arith Lia.
Import ListNotations.

Section Trie.
  Variable digest : Type.
  Variable bytes_label : Type. (* what enters the hash for a label *)
  Definition label := list bool.
  Variable Bad : Prop.   (* "a collision of the underlying hash was exhibited" *)
  Variable lval : label -> bytes_label.
  Variable phash : digest -> bytes_label -> digest -> bytes_label -> digest.
  Variable leafh : digest -> nat -> digest.   (* commitment, epoch *)
  Hypothesis phash_inj : forall a b c d a' b' c' d',
      phash a b c d = phash a' b' c' d' -> (a = a' /\ b = b' /\ c = c' /\ d = d') \/ Bad.
  Hypothesis lval_inj : forall l l', lval l = lval l' -> l = l' \/ Bad.
  Hypothesis leaf_not_parent : forall c e a b x y, leafh c e = phash a b x y -> Bad.

  Inductive tree :=
  | Leaf (l : label) (c : digest) (e : nat)
  | Node (l : label) (t0 t1 : tree).
  Definition tlabel t := match t with Leaf l _ _ => l | Node l _ _ => l end.
  Fixpoint tval t := match t with
    | Leaf _ c e => leafh c e
    | Node _ a b => phash (tval a) (lval (tlabel a)) (tval b) (lval (tlabel b)) end.

  Inductive InTree : label -> digest -> tree -> Prop :=
  | in_here t : InTree (tlabel t) (tval t) t
  | in_left l a b x v : InTree x v a -> InTree x v (Node l a b)
  | in_right l a b x v : InTree x v b -> InTree x v (Node l a b).

  Record sib := { s_label : label; s_sib_label : label; s_sib_val : digest; s_dir : bool (* false = curr is left *) }.

  (* fold from the deepest sibling proof upwards: list is root-first, so we recurse to the end first *)
  Fixpoint fold_up (sibs : list sib) (cl : label) (cv : digest) : label * digest :=
    match sibs with
    | [] => (cl, cv)
    | s :: rest =>
      let '(l, v) := fold_up rest cl cv in
      (s_label s,
       if s_dir s then phash (s_sib_val s) (lval (s_sib_label s)) v (lval l)
       else phash v (lval l) (s_sib_val s) (lval (s_sib_label s)))
    end.

  (* (label bytes, value) pairs of the proper descendants of t *)
  Inductive Below : bytes_label -> digest -> tree -> Prop :=
  | b_l l a b : Below (lval (tlabel a)) (tval a) (Node l a b)
  | b_r l a b : Below (lval (tlabel b)) (tval b) (Node l a b)
  | b_dl l a b x v : Below x v a -> Below x v (Node l a b)
  | b_dr l a b x v : Below x v b -> Below x v (Node l a b).

  Lemma membership_sound : forall sibs t cl cv,
      snd (fold_up sibs cl cv) = tval t ->
      (sibs = [] /\ cv = tval t) \/ Below (lval cl) cv t \/ Bad.
  Proof.
    induction sibs as [|s rest IH]; intros t cl cv Hv.
    - simpl in Hv. left. auto.
    - right. simpl in Hv. destruct (fold_up rest cl cv) as [l v] eqn:E. simpl in Hv.
      destruct t as [tl c e | tl a b]; simpl in Hv.
      + right. destruct (s_dir s); symmetry in Hv; eapply leaf_not_parent; eauto.
      + destruct (s_dir s).
        * apply phash_inj in Hv. destruct Hv as [(_ & _ & Hv & Hl) | ]; [|now right].
          specialize (IH b cl cv). rewrite E in IH. simpl in IH.
          destruct (IH Hv) as [(Hr & Hc) | [Hb | ]]; [| left; now apply b_dr | now right].
          subst rest. simpl in E. inversion E; subst. left. rewrite Hl. apply b_r.
        * apply phash_inj in Hv. destruct Hv as [(Hv & Hl & _ & _) | ]; [|now right].
          specialize (IH a cl cv). rewrite E in IH. simpl in IH.
          destruct (IH Hv) as [(Hr & Hc) | [Hb | ]]; [| left; now apply b_dl | now right].
          subst rest. simpl in E. inversion E; subst. left. rewrite Hl. apply b_l.
  Qed.
End Trie.
