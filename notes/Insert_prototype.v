From Coq Require Import List Bool Arith Lia.
Import ListNotations.

Definition label := list bool.
Inductive dg := DC (n : nat) | DLeafH (c : dg) (e : nat) | DPar (lv : dg) (ll : label) (rv : dg) (rl : label) | DEmpty.
Definition empty_label : label := [true;true;true;true;true;true;true;true;true]. (* stand-in marker, longer than any label used *)

Fixpoint lcp (a b : label) : label :=
  match a, b with
  | x :: a', y :: b' => if Bool.eqb x y then x :: lcp a' b' else []
  | _, _ => []
  end.
Fixpoint is_prefix (a b : label) : bool :=
  match a, b with
  | [], _ => true
  | x :: a', y :: b' => Bool.eqb x y && is_prefix a' b'
  | _, [] => false
  end.
(* prefix ordering of b w.r.t. a: Some false = WithZero, Some true = WithOne, None = Invalid *)
Definition pord (a b : label) : option bool :=
  if (length b <=? length a) then None
  else if is_prefix a b then Some (nth (length a) b false) else None.

Record elem := { el : label; ev : dg }.
Definition lcp_set (S : list elem) : label :=
  match S with [] => empty_label | x :: r => fold_left (fun acc y => lcp (el y) acc) r (el x) end.
Definition part (S : list elem) (p : label) : list elem * list elem :=
  (filter (fun x => match pord p (el x) with Some false => true | _ => false end) S,
   filter (fun x => match pord p (el x) with Some true => true | _ => false end) S).

Inductive tree :=
| Leaf (l : label) (v : dg) (e : nat)
| Node (l : label) (le mde : nat) (a b : option tree).
Definition tlabel t := match t with Leaf l _ _ => l | Node l _ _ _ _ => l end.
Definition tle t := match t with Leaf _ _ e => e | Node _ le _ _ _ => le end.
Definition tmde t := match t with Leaf _ _ e => e | Node _ _ m _ _ => m end.

Section Hashing.
  Variable with_epoch : bool.
  Fixpoint tval (t : tree) : dg :=
    match t with
    | Leaf _ v _ => v
    | Node _ _ _ a b =>
      let cv o := match o with None => DEmpty | Some c => match c with Leaf _ v e => if with_epoch then DLeafH v e else v | _ => tval c end end in
      let cl o := match o with None => empty_label | Some c => tlabel c end in
      DPar (cv a) (cl a) (cv b) (cl b)
    end.
End Hashing.

(* set_child bookkeeping *)
Definition set_child (l : label) (le mde : nat) (a b : option tree) (c : tree) : tree :=
  let le' := Nat.max le (tle c) in
  let mde' := if mde =? 0 then tmde c else Nat.min mde (tmde c) in
  match pord l (tlabel c) with
  | Some false => Node l le' mde' (Some c) b
  | Some true => Node l le' mde' a (Some c)
  | None => Node l le mde a b  (* error in the code; excluded by wf *)
  end.

Fixpoint ins (fuel : nat) (t : option tree) (S : list elem) (epoch : nat) : option tree :=
  match fuel with
  | O => None
  | S f =>
    let cur : option tree :=
      match t, S with
      | Some ex, _ =>
        let l := lcp (tlabel ex) (lcp_set S) in
        if length l <? length (tlabel ex)
        then Some (set_child l epoch epoch None None ex)
        else Some ex
      | None, [x] => Some (Leaf (el x) (ev x) epoch)
      | None, _ => Some (Node (lcp_set S) epoch epoch None None)
      end in
    match cur with
    | None => None
    | Some (Leaf l v e) => Some (Leaf l v e)
    | Some (Node l le mde a b) =>
      let '(L, R) := part S l in
      let n1 := match L with [] => Some (Node l le mde a b)
                | _ => match ins f a L epoch with None => None | Some c => Some (set_child l le mde a b c) end end in
      match n1 with
      | Some (Node l le mde a b) =>
        match R with [] => Some (Node l le mde a b)
        | _ => match ins f b R epoch with None => None | Some c => Some (set_child l le mde a b c) end end
      | o => o
      end
    end
  end.

(* root: label [], never decompressed *)
Definition ins_root (r : tree) (S : list elem) (epoch : nat) : option tree :=
  match S with [] => Some r | _ => ins 300 (Some r) S epoch end.
Definition empty_root := Node [] 0 0 None None.

(* ---------- spec: canonical trie of a leaf list (label, value, epoch) ---------- *)
Record leaf := { ll : label; lv : dg; le_ : nat }.
Definition lcp_leaves (S : list leaf) : label :=
  match S with [] => empty_label | x :: r => fold_left (fun acc y => lcp (ll y) acc) r (ll x) end.
Definition maxe (S : list leaf) := fold_left Nat.max (map le_ S) 0.
Definition mine (S : list leaf) := match S with [] => 0 | x :: r => fold_left Nat.min (map le_ r) (le_ x) end.
Fixpoint spec_sub (fuel : nat) (S : list leaf) : option tree :=
  match fuel with O => None | S f =>
  match S with
  | [] => None
  | [x] => Some (Leaf (ll x) (lv x) (le_ x))
  | _ => let p := lcp_leaves S in
         let L := filter (fun x => negb (nth (length p) (ll x) false)) S in
         let R := filter (fun x => nth (length p) (ll x) false) S in
         Some (Node p (maxe S) (mine S) (spec_sub f L) (spec_sub f R))
  end end.
Definition spec_root (S : list leaf) : tree :=
  let L := filter (fun x => negb (nth 0 (ll x) false)) S in
  let R := filter (fun x => nth 0 (ll x) false) S in
  Node [] (maxe S) (mine S) (spec_sub 300 L) (spec_sub 300 R).

(* ---------- tests on a 4-bit universe ---------- *)
Fixpoint bits_of (n k : nat) : label := match k with O => [] | S k' => Nat.odd (n / 2 ^ k') :: bits_of n k' end.
Definition mk (n : nat) : elem := {| el := bits_of n 4; ev := DC n |}.
Definition run (batches : list (list nat)) : option tree :=
  fst (fold_left (fun '(t, e) b => (match t with None => None | Some r => ins_root r (map mk b) (S e) end, match b with [] => e | _ => S e end)) batches (Some empty_root, 0)).
Definition leaves_of (batches : list (list nat)) : list leaf :=
  snd (fold_left (fun '(e, acc) b => match b with [] => (e, acc) | _ => (S e, acc ++ map (fun n => {| ll := bits_of n 4; lv := DC n; le_ := S e |}) b) end) batches (0, [])).

Fixpoint lab_beq (a b : label) : bool := match a, b with [], [] => true | x :: a', y :: b' => Bool.eqb x y && lab_beq a' b' | _, _ => false end.
Fixpoint dg_beq (a b : dg) : bool :=
  match a, b with
  | DC n, DC m => n =? m
  | DLeafH c e, DLeafH c' e' => dg_beq c c' && (e =? e')
  | DPar a1 l1 a2 l2, DPar b1 m1 b2 m2 => dg_beq a1 b1 && lab_beq l1 m1 && dg_beq a2 b2 && lab_beq l2 m2
  | DEmpty, DEmpty => true
  | _, _ => false
  end.
Fixpoint tree_beq (a b : tree) : bool :=
  match a, b with
  | Leaf l v e, Leaf l' v' e' => lab_beq l l' && dg_beq v v' && (e =? e')
  | Node l le mde x y, Node l' le' mde' x' y' =>
    lab_beq l l' && (le =? le') && (mde =? mde') &&
    match x, x' with None, None => true | Some p, Some q => tree_beq p q | _, _ => false end &&
    match y, y' with None, None => true | Some p, Some q => tree_beq p q | _, _ => false end
  | _, _ => false
  end.
Definition ok (batches : list (list nat)) : bool :=
  match run batches with Some t => tree_beq t (spec_root (leaves_of batches)) | None => false end.

(* all ways to deal the labels 0..15 (a chosen subset, in a chosen order) into epochs: we enumerate
   sequences of distinct labels of length <= 5 from a 6-element pool and all cut points *)
Fixpoint perms_upto (pool : list nat) (k : nat) : list (list nat) :=
  match k with O => [[]] | S k' =>
    [] :: flat_map (fun x => map (cons x) (perms_upto (filter (fun y => negb (y =? x)) pool) k')) pool end.
Fixpoint cuts (l : list nat) : list (list (list nat)) :=
  match l with
  | [] => [[]]
  | x :: r => flat_map (fun c => match c with [] => [[[x]]] | b :: bs => [ (x :: b) :: bs ; [x] :: b :: bs ] end) (cuts r)
  end.

(* ---------- audit walk on the latest tree, auditor rebuild ---------- *)
Definition DEmptyRoot := DC 999.
Definition root_val (we : bool) (t : tree) : dg :=
  match t with Node _ _ _ None None => DEmptyRoot | _ => tval we t end.
Definition node_val_with_epoch (t : tree) : dg := match t with Leaf _ v e => DLeafH v e | _ => tval true t end.

Fixpoint walk (fuel : nat) (is_root : bool) (t : tree) (s e : nat) : list elem * list elem :=
  match fuel with O => ([], []) | S f =>
  if tle t <=? s then (if is_root then ([], []) else ([{| el := tlabel t; ev := node_val_with_epoch t |}], []))
  else if e <? tmde t then ([], [])
  else match t with
       | Leaf l v _ => ([], [{| el := l; ev := v |}])
       | Node _ _ _ a b =>
         let wa := match a with Some c => walk f false c s e | None => ([], []) end in
         let wb := match b with Some c => walk f false c s e | None => ([], []) end in
         (fst wa ++ fst wb, snd wa ++ snd wb)
       end
  end.

Definition auditor_root (nodes : list elem) (epoch : nat) : option dg :=
  match ins_root empty_root nodes epoch with Some t => Some (root_val false t) | None => None end.
Definition dgo_beq (a : option dg) (b : dg) := match a with Some x => dg_beq x b | None => false end.

Definition audit_ok (latest : tree) (ts te : tree) (ep : nat) : bool :=
  let '(unch, insd) := walk 300 true latest ep (S ep) in
  dgo_beq (auditor_root unch 1) (root_val true ts) &&
  dgo_beq (auditor_root (unch ++ map (fun x => {| el := el x; ev := DLeafH (ev x) (S ep) |}) insd) (S ep)) (root_val true te).

(* trees after each non-empty batch prefix *)
Fixpoint prefixes {A} (l : list A) : list (list A) := match l with [] => [[]] | x :: r => [] :: map (cons x) (prefixes r) end.
Definition audits_ok (batches : list (list nat)) : bool :=
  let trees := map (fun p => match run p with Some t => t | None => empty_root end) (prefixes batches) in
  let latest := last trees empty_root in
  let n := length batches in
  forallb (fun ep => audit_ok latest (nth ep trees empty_root) (nth (S ep) trees empty_root) ep) (seq 0 n).
Definition pool := [0; 1; 3; 8; 9; 15; 6].
Definition all_cases := flat_map cuts (perms_upto pool 4).
Time Eval vm_compute in (length all_cases, forallb ok all_cases, forallb audits_ok all_cases).
Eval vm_compute in run [[1;3];[0]].
Eval vm_compute in (tval true (match run [[1;3];[0]] with Some t => t | None => empty_root end)).

(* D2 on the model: start tree {0,4,8,12} at epoch 1; malicious end tree {8,12}@1 + {2,6}@2 *)
Definition t_start := match run [[0;4;8;12]] with Some t => t | None => empty_root end.
Definition t_evil := match run [[8;12];[2;6]] with Some t => t | None => empty_root end.
Definition sub0 := match t_start with Node _ _ _ (Some a) _ => a | _ => empty_root end.
Definition sub1 := match t_start with Node _ _ _ _ (Some b) => b | _ => empty_root end.
Definition unch := [ {| el := tlabel sub0; ev := node_val_with_epoch sub0 |}; {| el := tlabel sub1; ev := node_val_with_epoch sub1 |} ].
Definition insd := [ mk 2; mk 6 ].
Eval vm_compute in (tlabel sub0, tlabel sub1,
  dgo_beq (auditor_root unch 1) (root_val true t_start),
  dgo_beq (auditor_root (unch ++ map (fun x => {| el := el x; ev := DLeafH (ev x) 2 |}) insd) 2) (root_val true t_evil)).
