use akd::append_only_zks::{Azks, InsertMode};
use akd::storage::manager::StorageManager;
use akd::storage::memory::AsyncInMemoryDatabase;
use akd::storage::types::{DbRecord, ValueState, ValueStateRetrievalFlag, ValueStateKey};
use akd::storage::{Database, Storable, DbSetState};
use akd::errors::StorageError;
use akd::{AkdLabel, AkdValue, Directory, AzksParallelismConfig, HistoryParams, HistoryVerificationParams, AzksElement, AzksValue, NodeLabel, NonMembershipProof, MembershipProof, SingleAppendOnlyProof};
use akd::directory::ReadOnlyDirectory;
use akd::client::{verify_nonmembership_for_tests_only};
use akd::ecvrf::{HardCodedAkdVRF, VRFKeyStorage};
use akd::WhatsAppV1Configuration as W;
use akd_core::configuration::Configuration;
use std::collections::HashMap;
use std::sync::atomic::{AtomicU64, AtomicI64, Ordering};
use std::sync::Arc;

#[derive(Clone)]
struct YDb { inner: AsyncInMemoryDatabase, seed: Arc<AtomicU64>, countdown: Arc<AtomicI64>, ops: Arc<AtomicI64>, yields: bool }
impl YDb {
    fn new(seed: u64, yields: bool) -> Self { Self{ inner: AsyncInMemoryDatabase::new(), seed: Arc::new(AtomicU64::new(seed)), countdown: Arc::new(AtomicI64::new(-1)), ops: Arc::new(AtomicI64::new(0)), yields } }
    async fn y(&self) { if !self.yields { return; } let mut s = self.seed.load(Ordering::SeqCst); s ^= s<<13; s ^= s>>7; s ^= s<<17; self.seed.store(s, Ordering::SeqCst); for _ in 0..(s%3) { tokio::task::yield_now().await; } }
    fn tick(&self) -> Result<(), StorageError> {
        self.ops.fetch_add(1, Ordering::SeqCst);
        let c = self.countdown.load(Ordering::SeqCst);
        if c < 0 { return Ok(()); }
        if c == 0 { self.countdown.store(-1, Ordering::SeqCst); return Err(StorageError::Connection("inj".into())); }
        self.countdown.store(c-1, Ordering::SeqCst); Ok(())
    }
}
#[async_trait::async_trait]
impl Database for YDb {
    async fn set(&self, r: DbRecord) -> Result<(), StorageError> { self.tick()?; self.y().await; let x = self.inner.set(r).await; self.y().await; x }
    async fn batch_set(&self, r: Vec<DbRecord>, s: DbSetState) -> Result<(), StorageError> { self.tick()?; self.y().await; let x = self.inner.batch_set(r,s).await; self.y().await; x }
    async fn get<St: Storable>(&self, id: &St::StorageKey) -> Result<DbRecord, StorageError> { self.tick()?; self.y().await; let x = self.inner.get::<St>(id).await; self.y().await; x }
    async fn batch_get<St: Storable>(&self, ids: &[St::StorageKey]) -> Result<Vec<DbRecord>, StorageError> { self.tick()?; self.y().await; let x = self.inner.batch_get::<St>(ids).await; self.y().await; x }
    async fn get_user_data(&self, u: &AkdLabel) -> Result<akd::storage::types::KeyData, StorageError> { self.tick()?; self.y().await; self.inner.get_user_data(u).await }
    async fn get_user_state(&self, u: &AkdLabel, f: ValueStateRetrievalFlag) -> Result<ValueState, StorageError> { self.tick()?; self.y().await; self.inner.get_user_state(u,f).await }
    async fn get_user_state_versions(&self, u: &[AkdLabel], f: ValueStateRetrievalFlag) -> Result<HashMap<AkdLabel,(u64,AkdValue)>, StorageError> { self.tick()?; self.y().await; let x = self.inner.get_user_state_versions(u,f).await; self.y().await; x }
}
fn kv(k: &str, v: &str) -> (AkdLabel, AkdValue) { (AkdLabel::from(k), AkdValue::from(v)) }
fn lab(b: u8) -> NodeLabel { let mut v=[0u8;32]; v[0]=b; v[31]=b; NodeLabel::new(v,256) }
fn val(b: u8) -> AzksValue { AzksValue([b;32]) }
fn vs(u: &str, epoch: u64, version: u64, val: &str) -> DbRecord {
    DbRecord::ValueState(ValueState{ value: AkdValue(val.as_bytes().to_vec()), version, label: NodeLabel::new([0u8;32],256), epoch, username: AkdLabel::from(u) })
}
fn mk(ydb: &YDb, cached: bool) -> StorageManager<YDb> { if cached { StorageManager::new(ydb.clone(), None, None, None) } else { StorageManager::new_no_cache(ydb.clone()) } }

async fn e1<TC: Configuration>() {
    let st = StorageManager::new_no_cache(AsyncInMemoryDatabase::new());
    let mut azks = Azks::new::<TC,_>(&st).await.unwrap();
    let els: Vec<AzksElement> = [0x00u8,0x10,0x18,0x80,0xC0].iter().map(|b| AzksElement{label:lab(*b), value:val(*b)}).collect();
    azks.batch_insert_nodes::<TC,_>(&st, els, InsertMode::Directory, AzksParallelismConfig::disabled()).await.unwrap();
    let root = azks.get_root_hash::<TC,_>(&st).await.unwrap();
    let target = lab(0x18);
    let mp = azks.get_membership_proof::<TC,_>(&st, target).await.unwrap();
    let n = mp.sibling_proofs.len();
    let sp = &mp.sibling_proofs[n-1];
    let (l,r) = match sp.direction { akd::Direction::Left => ((mp.hash_val, mp.label),(sp.siblings[0].value, sp.siblings[0].label)), akd::Direction::Right => ((sp.siblings[0].value, sp.siblings[0].label),(mp.hash_val, mp.label)) };
    let p_el = AzksElement{label: sp.label, value: TC::compute_parent_hash_from_children(&l.0,&l.1.value::<TC>(),&r.0,&r.1.value::<TC>())};
    let gsp = &mp.sibling_proofs[n-2];
    let children = match gsp.direction { akd::Direction::Left => [p_el, gsp.siblings[0]], akd::Direction::Right => [gsp.siblings[0], p_el] };
    let g_hash = TC::compute_parent_hash_from_children(&children[0].value,&children[0].label.value::<TC>(),&children[1].value,&children[1].label.value::<TC>());
    let forged = NonMembershipProof{ label: target, longest_prefix: gsp.label, longest_prefix_children: children,
        longest_prefix_membership_proof: MembershipProof{ label: gsp.label, hash_val: g_hash, sibling_proofs: mp.sibling_proofs[..n-2].to_vec() } };
    println!("E1 forged non-membership of MEMBER accepted: {:?}", verify_nonmembership_for_tests_only::<TC>(root, &forged).is_ok());
    // honest nonmembership of several non-members still fine
    let mut okc = 0; for b in [0x01u8,0x11,0x19,0x40,0xFF,0x90] { let p = azks.get_non_membership_proof::<TC,_>(&st, lab(b)).await.unwrap(); if verify_nonmembership_for_tests_only::<TC>(root,&p).is_ok() { okc+=1; } }
    println!("   honest non-membership proofs accepted: {okc}/6");
}
async fn e2<TC: Configuration>() {
    let st = StorageManager::new_no_cache(AsyncInMemoryDatabase::new());
    let mut azks = Azks::new::<TC,_>(&st).await.unwrap();
    let els: Vec<AzksElement> = [0x00u8,0x40,0x80,0xC0].iter().map(|b| AzksElement{label:lab(*b), value:val(*b)}).collect();
    azks.batch_insert_nodes::<TC,_>(&st, els, InsertMode::Directory, AzksParallelismConfig::disabled()).await.unwrap();
    let h1 = azks.get_root_hash::<TC,_>(&st).await.unwrap();
    let u1 = azks.get_membership_proof::<TC,_>(&st, lab(0x00)).await.unwrap().sibling_proofs[0].siblings[0];
    let u0 = azks.get_membership_proof::<TC,_>(&st, lab(0x80)).await.unwrap().sibling_proofs[0].siblings[0];
    let inserted = vec![AzksElement{label:lab(0x20), value:val(0xEE)}, AzksElement{label:lab(0x60), value:val(0xFF)}];
    let st2 = StorageManager::new_no_cache(AsyncInMemoryDatabase::new());
    let mut az2 = Azks::new::<TC,_>(&st2).await.unwrap();
    let els: Vec<AzksElement> = [0x80u8,0xC0].iter().map(|b| AzksElement{label:lab(*b), value:val(*b)}).collect();
    az2.batch_insert_nodes::<TC,_>(&st2, els, InsertMode::Directory, AzksParallelismConfig::disabled()).await.unwrap();
    az2.batch_insert_nodes::<TC,_>(&st2, inserted.clone(), InsertMode::Directory, AzksParallelismConfig::disabled()).await.unwrap();
    let h2 = az2.get_root_hash::<TC,_>(&st2).await.unwrap();
    let proof = SingleAppendOnlyProof{ inserted, unchanged_nodes: vec![u0,u1] };
    println!("E2 audit of leaf-dropping transition accepted: {:?}", akd::auditor::verify_consecutive_append_only::<TC>(&proof, h1, h2, 2).await.is_ok());
}
async fn e45() {
    let st = StorageManager::new_no_cache(AsyncInMemoryDatabase::new());
    st.set(vs("a", 3, 1, "a1")).await.unwrap(); st.set(vs("a", 5, 2, "a2")).await.unwrap();
    assert!(st.begin_transaction());
    st.set(vs("a", 9, 3, "a3")).await.unwrap(); st.set(vs("b", 9, 1, "b1")).await.unwrap();
    let users = [AkdLabel::from("a"), AkdLabel::from("b")];
    let mut in_tx: Vec<_> = st.get_user_state_versions(&users, ValueStateRetrievalFlag::MaxEpoch).await.unwrap().into_iter().map(|(k,v)| (k.0, v.0, v.1.0)).collect(); in_tx.sort();
    println!("E4 in-tx versions: {:?}", in_tx.iter().map(|x| x.1).collect::<Vec<_>>());
    let ydb = YDb::new(1,false);
    let st = StorageManager::new(ydb.clone(), None, None, None);
    st.set(vs("a", 3, 1, "a1")).await.unwrap();
    ydb.countdown.store(0, Ordering::SeqCst);
    let r = st.set(vs("a", 3, 1, "XX")).await;
    let got = st.get::<ValueState>(&ValueStateKey(b"a".to_vec(), 3)).await.unwrap();
    println!("E5 set failed={} then cached read {:?}", r.is_err(), match got { DbRecord::ValueState(v)=>String::from_utf8(v.value.0).unwrap(), _=>"?".into()});
}
async fn e6() {
    let db = YDb::new(1,false);
    let vrf = HardCodedAkdVRF; let pk = vrf.get_vrf_public_key().await.unwrap();
    let w = Directory::<W,_,_>::new(StorageManager::new_no_cache(db.clone()), vrf.clone(), AzksParallelismConfig::disabled()).await.unwrap();
    w.publish(vec![kv("a","1"), kv("b","1")]).await.unwrap();
    let e1 = w.get_epoch_hash().await.unwrap();
    let rst = StorageManager::new(db.clone(), Some(std::time::Duration::from_millis(5)), None, Some(std::time::Duration::from_millis(5)));
    let r = ReadOnlyDirectory::<W,_,_>::new(rst, vrf.clone(), AzksParallelismConfig::disabled()).await.unwrap();
    r.get_epoch_hash().await.unwrap();
    for lag in 1..=3 {
        w.publish(vec![kv("a",&format!("x{lag}")), kv(&format!("c{lag}"),"1")]).await.unwrap();
        tokio::time::sleep(std::time::Duration::from_millis(20)).await;
        let re = r.get_epoch_hash().await;
        let lk = match r.lookup(AkdLabel::from("b")).await { Ok((p,eh)) => format!("epoch {} verifies {}", eh.0, akd::client::lookup_verify::<W>(pk.as_bytes(), eh.1, eh.0, AkdLabel::from("b"), p).is_ok()), Err(e) => format!("error {}", e.to_string().chars().take(50).collect::<String>()) };
        println!("E6 lag {lag}: epoch-hash {:?} ; lookup b: {lk}", re.as_ref().map(|x| (x.0, *x==e1)).map_err(|e| e.to_string().chars().take(50).collect::<String>()));
    }
}
async fn e7() {
    let mut kinds: HashMap<String,u32> = HashMap::new();
    for seed in 1..300u64 { for cached in [false,true] {
        let ydb = YDb::new(seed*7919+1, true);
        let d = Directory::<W,_,_>::new(mk(&ydb,cached), HardCodedAkdVRF, AzksParallelismConfig::disabled()).await.unwrap();
        d.publish(vec![kv("a","1"), kv("b","1")]).await.unwrap();
        let d1 = d.clone(); let d2 = d.clone();
        let h1 = tokio::spawn(async move { d1.publish(vec![kv("a","2"), kv("c","1")]).await });
        let h2 = tokio::spawn(async move { d2.publish(vec![kv("a","3"), kv("d","1")]).await });
        let r1 = h1.await.unwrap(); let r2 = h2.await.unwrap();
        let fin = d.get_epoch_hash().await;
        let desc = format!("cached={cached} r1={:?} r2={:?} final={:?}", r1.as_ref().map(|e| e.0).map_err(|e| e.to_string().chars().take(30).collect::<String>()), r2.as_ref().map(|e| e.0).map_err(|e| e.to_string().chars().take(30).collect::<String>()), fin.as_ref().map(|e| e.0).map_err(|_| "err"));
        *kinds.entry(desc).or_insert(0) += 1;
    }}
    let mut v: Vec<_> = kinds.into_iter().collect(); v.sort(); for (k,c) in v { println!("E7 {c:4} {k}"); }
}
async fn e8() {
    for cached in [false, true] {
        let twin_db = YDb::new(1,false);
        let twin = Directory::<W,_,_>::new(mk(&twin_db,cached), HardCodedAkdVRF, AzksParallelismConfig::disabled()).await.unwrap();
        twin.publish(vec![kv("a","1"), kv("b","1")]).await.unwrap();
        let before = twin.get_epoch_hash().await.unwrap();
        let t0 = twin_db.ops.load(Ordering::SeqCst);
        twin.publish(vec![kv("a","2"), kv("c","1")]).await.unwrap();
        let nops = twin_db.ops.load(Ordering::SeqCst) - t0;
        let good = twin.get_epoch_hash().await.unwrap();
        let mut bad = vec![];
        for k in 0..nops {
            let fdb = YDb::new(1,false);
            let st = mk(&fdb,cached);
            let d = Directory::<W,_,_>::new(st.clone(), HardCodedAkdVRF, AzksParallelismConfig::disabled()).await.unwrap();
            d.publish(vec![kv("a","1"), kv("b","1")]).await.unwrap();
            fdb.countdown.store(k, Ordering::SeqCst);
            let res = d.publish(vec![kv("a","2"), kv("c","1")]).await;
            fdb.countdown.store(-1, Ordering::SeqCst);
            let after = d.get_epoch_hash().await;
            let txa = st.is_transaction_active();
            let ok_unchanged = after.as_ref().map(|a| *a==before).unwrap_or(false);
            if res.is_err() && (!ok_unchanged || txa) { bad.push((k, format!("err but after={:?} tx={}", after.as_ref().map(|a| a.0), txa))); continue; }
            if res.is_err() { let r2 = d.publish(vec![kv("a","2"), kv("c","1")]).await; if r2.as_ref().ok() != Some(&good) { bad.push((k, format!("retry gives {:?}", r2.map(|x| x.0)))); } }
        }
        println!("E8 cached={cached} nops={nops} violations: {:?}", bad);
    }
}
async fn e10() {
    let vrf = HardCodedAkdVRF; let pk = vrf.get_vrf_public_key().await.unwrap();
    let mut kinds: HashMap<String,u32> = HashMap::new();
    for seed in 1..200u64 { for cached in [false,true] {
        let ydb = YDb::new(seed*7919+1, true);
        let d = Directory::<W,_,_>::new(mk(&ydb,cached), vrf.clone(), AzksParallelismConfig::disabled()).await.unwrap();
        let mut published = vec![d.get_epoch_hash().await.unwrap()];
        for i in 0..4 { published.push(d.publish(vec![kv("a",&format!("a{i}")), kv("b",&format!("b{i}"))]).await.unwrap()); }
        let d1 = d.clone(); let d2 = d.clone();
        let h1 = tokio::spawn(async move { d1.publish(vec![kv("a","new"), kv("c","1")]).await });
        let h2 = tokio::spawn(async move { d2.key_history(&AkdLabel::from("a"), HistoryParams::Complete).await });
        let r1 = h1.await.unwrap(); let r2 = h2.await.unwrap();
        published.push(r1.unwrap());
        let desc = match r2 { Err(e) => format!("cached={cached} history error {}", e.to_string().chars().take(30).collect::<String>()),
          Ok((p,eh)) => { let is_pub = published.contains(&eh); let v = akd::client::key_history_verify::<W>(pk.as_bytes(), eh.1, eh.0, AkdLabel::from("a"), p, HistoryVerificationParams::Default{history_params:HistoryParams::Complete});
             format!("cached={cached} epoch {} published={} verifies={}", eh.0, is_pub, v.is_ok()) } };
        *kinds.entry(desc).or_insert(0) += 1;
    }}
    let mut v: Vec<_> = kinds.into_iter().collect(); v.sort(); for (k,c) in v { println!("E10 {c:4} {k}"); }
}

async fn e12() {
    // C07: tombstoned version-1 entry with a forged epoch, AllowMissingValues
    let vrf = HardCodedAkdVRF; let pk = vrf.get_vrf_public_key().await.unwrap();
    let db = YDb::new(1,false);
    let d = Directory::<W,_,_>::new(mk(&db,false), vrf.clone(), AzksParallelismConfig::disabled()).await.unwrap();
    d.publish(vec![kv("x","0")]).await.unwrap();
    d.publish(vec![kv("x","1")]).await.unwrap();
    d.publish(vec![kv("a","v1")]).await.unwrap();   // a v1 at epoch 3
    d.publish(vec![kv("x","2")]).await.unwrap();
    d.publish(vec![kv("a","v2")]).await.unwrap();   // a v2 at epoch 5
    let (mut p, eh) = d.key_history(&AkdLabel::from("a"), HistoryParams::Complete).await.unwrap();
    let n = p.update_proofs.len();
    println!("E12 true epochs {:?}", p.update_proofs.iter().map(|u| (u.version,u.epoch)).collect::<Vec<_>>());
    p.update_proofs[n-1].value = AkdValue(vec![]);
    p.update_proofs[n-1].epoch = 1; // true is 3
    let r = akd::client::key_history_verify::<W>(pk.as_bytes(), eh.1, eh.0, AkdLabel::from("a"), p, HistoryVerificationParams::AllowMissingValues{history_params:HistoryParams::Complete});
    println!("E12 forged epoch for tombstoned v1 accepted: {:?}", r.map(|v| v.iter().map(|x| (x.version,x.epoch)).collect::<Vec<_>>()));
}

async fn dump(db: &YDb) -> Vec<String> { use akd::storage::StorageUtil; let mut v: Vec<String> = db.inner.batch_get_all_direct().await.unwrap().into_iter().map(|r| format!("{:?}", r)).collect(); v.sort(); v }
async fn e11() {
    let mut total_bad = 0; let mut total = 0;
    for k in 0..40 {
        let fdb = YDb::new(12345, true);
        let st = mk(&fdb,false);
        let d = Directory::<W,_,_>::new(st.clone(), HardCodedAkdVRF, AzksParallelismConfig::default()).await.unwrap();
        let first: Vec<_> = (0..12).map(|i| kv(&format!("u{i}"),"1")).collect();
        d.publish(first).await.unwrap();
        let before = dump(&fdb).await;
        fdb.countdown.store(k, Ordering::SeqCst);
        let second: Vec<_> = (0..12).map(|i| kv(&format!("u{i}"),"2")).chain((0..6).map(|i| kv(&format!("w{i}"),"1"))).collect();
        let res = d.publish(second).await;
        fdb.countdown.store(-1, Ordering::SeqCst);
        if res.is_ok() { continue; }
        total += 1;
        for _ in 0..200 { tokio::task::yield_now().await; }
        tokio::time::sleep(std::time::Duration::from_millis(5)).await;
        let after = dump(&fdb).await;
        if after != before { total_bad += 1; if total_bad <= 3 { println!("E11 k={k}: publish failed ({}) yet db changed: {} -> {} records, tx_active={}", res.unwrap_err().to_string().chars().take(40).collect::<String>(), before.len(), after.len(), st.is_transaction_active()); } }
    }
    println!("E11 failed publishes {total}, with leaked writes {total_bad}");
}
#[tokio::main(flavor="current_thread")]
async fn main() { e12().await; }
