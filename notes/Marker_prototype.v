From Coq Require Import List NArith Lia Bool.
Import ListNotations.
Open Scope N_scope.

Definition SKIP : list N := [1; 2; 4; 16; 256; 65536; 4294967296].

(* find_max_index_in_skiplist: largest index with SKIP[i] <= input (input >= 1) *)
Fixpoint fmi_aux (l : list N) (input : N) (i : nat) : nat :=
  match l with
  | [] => i
  | x :: r => if input <? x then i else fmi_aux r input (S i)
  end.
Definition fmi (input : N) : nat := Nat.pred (fmi_aux SKIP input 0).
Definition nthN (l : list N) (i : nat) := nth i l 0.

Definition bitlen (v : N) : nat := N.to_nat (N.size v).       (* 64 - leading_zeros *)
Definition log2v (v : N) : nat := Nat.pred (bitlen v).

Definition push_dedup (l : list N) (v : N) : list N :=
  match rev l with
  | [] => l ++ [v]
  | last :: _ => if v =? last then l else l ++ [v]
  end.

Definition past_markers (start : N) : list N :=
  let si := fmi start in
  let p0 := if nthN SKIP si =? start then [] else [nthN SKIP si] in
  let pw := N.shiftl 1 (N.of_nat (log2v start)) in
  let p1 := if negb (pw =? start) then push_dedup p0 pw else p0 in
  fold_left (fun acc i =>
      let shift := N.shiftl 1 (N.of_nat i) in
      if negb (N.land start shift =? 0) then
        let mask := N.lor (shift - 1) shift in
        let pv := N.ldiff start mask in
        if negb (pv =? 0) then push_dedup acc pv else acc
      else acc)
    (rev (seq 0 (bitlen start))) p1.

Definition future_markers (endv epoch : N) : list N :=
  let '(_, f1) := fold_left (fun '(fv, acc) i =>
      let shift := N.shiftl 1 (N.of_nat i) in
      if N.land endv shift =? 0 then
        let fv' := N.ldiff (N.lor fv shift) (shift - 1) in
        (fv', if fv' <=? epoch then acc ++ [fv'] else acc)
      else (fv, acc))
    (seq 0 (bitlen endv)) (endv, []) in
  let ei := fmi endv in let pi := fmi epoch in
  let sl := firstn (S pi - S ei) (skipn (S ei) SKIP) in
  let pows := (fix go (is : list nat) (acc : list N) :=
      match is with
      | [] => acc
      | i :: r => let v := N.shiftl 1 (N.of_nat i) in
                  match sl with
                  | s0 :: _ => if s0 <=? v then acc else go r (acc ++ [v])
                  | [] => go r (acc ++ [v])
                  end
      end) (seq (S (log2v endv)) (S (log2v epoch) - S (log2v endv))) [] in
  f1 ++ pows ++ sl.

Eval vm_compute in (past_markers 65, future_markers 65 128).
Eval vm_compute in (past_markers 85, future_markers 85 65537).
Eval vm_compute in (past_markers 6, future_markers 12 256).
Eval vm_compute in (past_markers 130, future_markers 130 256).
Eval vm_compute in (past_markers 1, future_markers 5 33, past_markers 3).

(* executable statement of the intersection property, to be tested before proving *)
Definition mem (x : N) (l : list N) := existsb (N.eqb x) l.
Definition inter_ok (s' n m E : N) : bool :=
  existsb (fun v => ((s' <=? v) && (v <=? m)) || mem v (past_markers s')) (future_markers n E).
Definition Nseq (a k : nat) := map N.of_nat (seq a k).
Time Eval vm_compute in
  forallb (fun E => forallb (fun n => forallb (fun m => forallb (fun s' => inter_ok s' n m E)
     (Nseq 1 (N.to_nat m))) (Nseq (S (N.to_nat n)) (N.to_nat E - N.to_nat n))) (Nseq 1 (N.to_nat E))) (Nseq 1 40).
