(* A concrete model of the premises of the directory-level soundness theorems (C06/C07/C08), together
   with verifying proofs: a finite VRF table (one user, versions below 4), the verifier-side function
   F extending it, a VRF check accepting exactly the table's proofs, and a transparent 32-byte "hash"
   that keeps its (short) input.  Shows that the premises are not contradictory in the presence of
   verifying proofs.  (With a transparent hash the bad event is of course true; the point here is
   the premises.) *)
From Coq Require Import List Bool NArith Lia Arith.
From Akd Require Import NodeLabel NodeLabelFacts Hashing Tree TreeFacts Binding Directory Verify DirSound.
From Akd Require Import BitsLabel HashingFacts HashingBinding DirRefine LookupComplete.
From Akd Require AuditSound.
Import ListNotations.
Open Scope N_scope.
Definition s6_H (x : bytes) : bytes := firstn 32 (rev x ++ repeat 0 32).
Definition s6_user : bytes := [1].
Definition s6_bits (f : bool) (v : N) : list bool := f :: N.testbit v 1 :: N.testbit v 0 :: repeat false 253.
Definition s6_vrf_label (l : bytes) (f : bool) (v : N) : option nlabel :=
  if bytes_eqb l s6_user && (v <? 4) then Some (nl_of_bits (s6_bits f v)) else None.
Definition s6_F (f : bool) (v : N) : nlabel := if v <? 4 then nl_of_bits (s6_bits f v) else nl_of_bits (repeat true 256).
Definition s6_cands : list (bool * N) := [(true, 0); (true, 1); (true, 2); (true, 3); (false, 0); (false, 1); (false, 2); (false, 3)].
Definition s6_cfg : config := whatsapp s6_H.
Definition s6_check (pk pr alpha : bytes) : option bytes :=
  if existsb (fun c => bytes_eqb alpha (label_input_hash s6_cfg s6_user (fst c) (snd c)) && bytes_eqb pr (lval (s6_F (fst c) (snd c)))) s6_cands
  then Some pr else None.
Definition s6_vrf_proof (l : bytes) (f : bool) (v : N) : option bytes :=
  match s6_vrf_label l f v with Some nl => Some (lval nl) | None => None end.
Definition s6_st := run_publishes s6_cfg [9] s6_vrf_label dir_new [[(s6_user, [5])]; [(s6_user, [6])]].

Lemma s6_H_len x : length (s6_H x) = 32%nat.
Proof. unfold s6_H. rewrite firstn_length, app_length, repeat_length. lia. Qed.

Lemma s6_H_short x y : (length x <= 32)%nat -> length y = length x -> s6_H x = s6_H y -> x = y.
Proof.
  intros Lx Ly E. unfold s6_H in E.
  assert (Ex : firstn (length x) (firstn 32 (rev x ++ repeat 0 32)) = rev x).
  { rewrite firstn_firstn, Nat.min_l by lia. rewrite firstn_app, rev_length, Nat.sub_diag, firstn_O, app_nil_r. rewrite <- (rev_length x). apply firstn_all. }
  assert (Ey : firstn (length x) (firstn 32 (rev y ++ repeat 0 32)) = rev y).
  { rewrite <- Ly. rewrite firstn_firstn, Nat.min_l by lia. rewrite firstn_app, rev_length, Nat.sub_diag, firstn_O, app_nil_r. rewrite <- (rev_length y). apply firstn_all. }
  rewrite E in Ex. rewrite Ex in Ey. rewrite <- (rev_involutive x), <- (rev_involutive y), Ey. reflexivity.
Qed.

Lemma s6_input_inj f v f' v' : v < 2 ^ 64 -> v' < 2 ^ 64 ->
  label_input_hash s6_cfg s6_user f v = label_input_hash s6_cfg s6_user f' v' -> f = f' /\ v = v'.
Proof.
  intros Hv Hv' E. unfold label_input_hash, s6_cfg in E. cbn [c_hash whatsapp] in E.
  apply s6_H_short in E.
  - apply app_inv_head in E. apply HashingFacts.app_eq_len in E; [|reflexivity]. destruct E as [E1 E2].
    split; [destruct f, f'; try reflexivity; discriminate|].
    apply (be_bytes_inj 8); [exact Hv | exact Hv' | exact E2].
  - rewrite !app_length. unfold i2osp_array, be64. rewrite !app_length, !length_be_bytes. cbn. lia.
  - rewrite !app_length. unfold be64. rewrite !length_be_bytes. reflexivity.
Qed.

Lemma s6_premises :
  (forall l f v nl, s6_vrf_label l f v = Some nl -> WF nl /\ canonical nl = true /\ llen nl = 256) /\
  (forall l f v l' f' v' nl, s6_vrf_label l f v = Some nl -> s6_vrf_label l' f' v' = Some nl -> l = l' /\ f = f' /\ v = v') /\
  (forall f v, llen (s6_F f v) = 256 /\ WF (s6_F f v) /\ LW (s6_F f v)) /\
  (forall f v nl, s6_vrf_label s6_user f v = Some nl -> nl = s6_F f v) /\
  (forall f v l' f' v', v < 2 ^ 64 -> s6_vrf_label l' f' v' = Some (s6_F f v) -> l' = s6_user /\ f' = f /\ v' = v) /\
  (forall proof f v out, v < 2 ^ 64 -> s6_check [] proof (label_input_hash s6_cfg s6_user f v) = Some out -> NL out 256 = s6_F f v) /\
  (forall key lb ver value, Len64 (c_commitment_nonce s6_cfg key lb ver value)) /\ D32 (c_stale_value s6_cfg) /\
  (forall s, In s (d_states s6_st) -> Len64 (vr_value s)) /\ d_epoch s6_st < 2 ^ 64 /\
  (exists p eh, lookup s6_cfg [9] s6_vrf_label s6_vrf_proof s6_st s6_user = DOk (p, eh) /\
    lookup_verify s6_cfg s6_check [] (snd eh) (fst eh) s6_user p = Some (VRes 2 2 [6])) /\
  (exists p eh, key_history s6_cfg [9] s6_vrf_label s6_vrf_proof s6_st s6_user HComplete = DOk (p, eh) /\
    key_history_verify s6_cfg s6_check [] (snd eh) (fst eh) s6_user p HComplete false = Some [VRes 2 2 [6]; VRes 1 1 [5]] /\
    key_history_verify s6_cfg s6_check [] (snd eh) (fst eh) s6_user p HComplete true = Some [VRes 2 2 [6]; VRes 1 1 [5]]) /\
  (exists p eh, key_history s6_cfg [9] s6_vrf_label s6_vrf_proof s6_st s6_user (HMostRecent 1) = DOk (p, eh) /\
    key_history_verify s6_cfg s6_check [] (snd eh) (fst eh) s6_user p (HMostRecent 1) false = Some [VRes 2 2 [6]]).
Proof.
  assert (Hlen : forall f v, length (s6_bits f v) = 256%nat) by (intros; cbn [s6_bits length]; rewrite repeat_length; reflexivity).
  assert (Hones : length (repeat true 256) = 256%nat) by apply repeat_length.
  assert (Hsome : forall l f v nl, s6_vrf_label l f v = Some nl -> l = s6_user /\ v < 4 /\ nl = nl_of_bits (s6_bits f v)).
  { intros l f v nl H. unfold s6_vrf_label in H. destruct (bytes_eqb l s6_user) eqn:E1; [|discriminate].
    destruct (N.ltb_spec v 4); [|discriminate]. injection H as <-. apply NodeLabelFacts.bytes_eqb_eq in E1. auto. }
  assert (Hbits : forall f v f' v', v < 4 -> v' < 4 -> s6_bits f v = s6_bits f' v' -> f = f' /\ v = v').
  { intros f v f' v' Hv Hv' Eb. unfold s6_bits in Eb. injection Eb as E0 E1 E2. split; [exact E0|].
    assert (C : v = 0 \/ v = 1 \/ v = 2 \/ v = 3) by lia. assert (C' : v' = 0 \/ v' = 1 \/ v' = 2 \/ v' = 3) by lia.
    destruct C as [->|[->|[->| ->]]]; destruct C' as [->|[->|[->| ->]]]; cbn in E1, E2; try reflexivity; discriminate. }
  assert (Hnl_inj : forall a b, length a = 256%nat -> length b = 256%nat -> nl_of_bits a = nl_of_bits b -> a = b).
  { intros a b La Lb E. rewrite <- (bits_of_nl_of_bits a) by lia. rewrite E. apply bits_of_nl_of_bits. lia. }
  assert (HF : forall f v, llen (s6_F f v) = 256 /\ WF (s6_F f v) /\ LW (s6_F f v)).
  { intros f v. unfold s6_F. destruct (v <? 4).
    - destruct (nl_of_bits_WF (s6_bits f v) ltac:(rewrite Hlen; lia)) as [W C]. split; [unfold nl_of_bits; cbn [llen]; rewrite Hlen; reflexivity|]. split; [exact W | apply AuditSound.WF_LW; exact W].
    - destruct (nl_of_bits_WF (repeat true 256) ltac:(rewrite Hones; lia)) as [W C]. split; [unfold nl_of_bits; cbn [llen]; rewrite Hones; reflexivity|]. split; [exact W | apply AuditSound.WF_LW; exact W]. }
  assert (HFinj : forall f v l' f' v', v < 2 ^ 64 -> s6_vrf_label l' f' v' = Some (s6_F f v) -> l' = s6_user /\ f' = f /\ v' = v).
  { intros f v l' f' v' _ H. destruct (Hsome _ _ _ _ H) as (-> & Hv' & E). split; [reflexivity|]. unfold s6_F in E.
    destruct (N.ltb_spec v 4) as [Hv|Hv].
    - apply Hnl_inj in E; try apply Hlen. destruct (Hbits _ _ _ _ Hv Hv' E) as [-> ->]. split; reflexivity.
    - exfalso. apply Hnl_inj in E; [|exact Hones|apply Hlen]. unfold s6_bits in E. cbn in E. discriminate. }
  split; [|split; [|split; [|split; [|split; [|split; [|split; [|split; [|split; [|split; [|split; [|split]]]]]]]]]]].
  - intros l f v nl H. destruct (Hsome _ _ _ _ H) as (_ & _ & ->).
    destruct (nl_of_bits_WF (s6_bits f v) ltac:(rewrite Hlen; lia)) as [W C]. split; [exact W|]. split; [exact C|].
    unfold nl_of_bits. cbn [llen]. rewrite Hlen. reflexivity.
  - intros l f v l' f' v' nl H H'. destruct (Hsome _ _ _ _ H) as (-> & Hv & ->). destruct (Hsome _ _ _ _ H') as (-> & Hv' & E).
    split; [reflexivity|]. apply Hnl_inj in E; try apply Hlen. apply (Hbits _ _ _ _ Hv Hv' E).
  - exact HF.
  - intros f v nl H. destruct (Hsome _ _ _ _ H) as (_ & Hv & ->). unfold s6_F. apply N.ltb_lt in Hv. rewrite Hv. reflexivity.
  - exact HFinj.
  - intros proof f v out Hv H. unfold s6_check in H.
    destruct (existsb _ s6_cands) eqn:Ex; [|discriminate]. injection H as <-.
    apply existsb_exists in Ex. destruct Ex as ([f' v'] & Hc & Hb). cbn [fst snd] in Hb.
    apply andb_true_iff in Hb. destruct Hb as [Ha Hp]. apply NodeLabelFacts.bytes_eqb_eq in Ha, Hp.
    assert (Hv' : v' < 2 ^ 64).
    { assert (v' < 4) by (unfold s6_cands in Hc; cbn [In] in Hc; repeat (destruct Hc as [Hc|Hc]; [injection Hc as _ <-; lia|]); destruct Hc).
      assert (4 < 2 ^ 64) by (vm_compute; reflexivity). lia. }
    destruct (s6_input_inj f v f' v' Hv Hv' Ha) as [-> ->]. rewrite Hp.
    apply (full_label_eta (s6_F f' v')). apply HF.
  - intros key lb ver value. apply (nonce_len_real s6_H s6_H_len []).
  - apply s6_H_len.
  - intros s Hs. vm_compute in Hs. repeat (destruct Hs as [<-|Hs]; [unfold Len64; vm_compute; reflexivity|]). destruct Hs.
  - vm_compute. reflexivity.
  - eexists. eexists. split; [vm_compute; reflexivity | vm_compute; reflexivity].
  - eexists. eexists. split; [vm_compute; reflexivity | split; vm_compute; reflexivity].
  - eexists. eexists. split; [vm_compute; reflexivity | vm_compute; reflexivity].
Qed.
