(* Model of akd_core/src/utils.rs:15-193 (get_marker_versions), layer L6.  Executable.
   Arguments are u64 values (< 2^64); on such arguments none of the u64 operations of the code
   wraps (MarkerFacts.no_overflow), so unbounded N is faithful. *)
From Coq Require Import List Bool Arith NArith Lia.
From Akd Require GenConsts.
Import ListNotations.
Open Scope N_scope.

Definition SKIP : list N := GenConsts.MARKER_VERSION_SKIPLIST.
Definition nthN (l : list N) (i : nat) : N := nth i l 0.

(* the while loop of find_max_index_in_skiplist: index of the first element > input *)
Fixpoint count_le (l : list N) (x : N) : nat :=
  match l with
  | [] => O
  | y :: r => if x <? y then O else S (count_le r x)
  end.
(* panics (None) when input < SKIP[0] *)
Definition find_max_index (x : N) : option nat :=
  if x <? nthN SKIP 0 then None else Some (Nat.pred (count_le SKIP x)).

Definition Nrange (a : N) (len : nat) : list N := map (fun k => a + N.of_nat k) (seq 0 len).

(* get_bit_length: 64 - leading_zeros *)
Definition bitlen (v : N) : nat := N.to_nat (N.size v).
(* get_marker_version_log2 (panics on 0) *)
Definition marker_log2 (v : N) : N := N.log2 v.

Definition last_opt (l : list N) : option N :=
  match rev l with [] => None | x :: _ => Some x end.
(* push unless the vector's last element equals v *)
Definition push_dedup (l : list N) (v : N) : list N :=
  match last_opt l with
  | Some x => if x =? v then l else l ++ [v]
  | None => l ++ [v]
  end.

Definition past_step (s : N) (acc : list N) (i : N) : list N :=
  let shift := N.shiftl 1 i in
  if negb (N.land s shift =? 0) then
    let shift_mask := N.lor (shift - 1) shift in
    let pv := N.ldiff s shift_mask in
    if negb (pv =? 0) then push_dedup acc pv else acc
  else acc.

Definition past_markers (s : N) (si : nat) : list N :=
  let p0 := if nthN SKIP si =? s then [] else [nthN SKIP si] in
  let pw := N.shiftl 1 (marker_log2 s) in
  let p1 := if negb (pw =? s) then push_dedup p0 pw else p0 in
  fold_left (past_step s) (rev (Nrange 0 (bitlen s))) p1.

Definition future_step (n E : N) (st : N * list N) (i : N) : N * list N :=
  let '(fv, acc) := st in
  let shift := N.shiftl 1 i in
  if N.land n shift =? 0 then
    let fv' := N.ldiff (N.lor fv shift) (shift - 1) in
    (fv', if fv' <=? E then acc ++ [fv'] else acc)
  else (fv, acc).

(* the loop over powers of two with its break *)
Fixpoint pow_loop (is : list N) (s0 : option N) (acc : list N) : list N :=
  match is with
  | [] => acc
  | i :: r =>
    let v := N.shiftl 1 i in
    if match s0 with Some x => x <=? v | None => false end then acc
    else pow_loop r s0 (acc ++ [v])
  end.

Definition future_markers (n E : N) (ni ei : nat) : list N :=
  let f1 := snd (fold_left (future_step n E) (Nrange 0 (bitlen n)) (n, [])) in
  let slice := firstn (S ei - S ni) (skipn (S ni) SKIP) in
  let next := marker_log2 n + 1 in
  let final := marker_log2 E in
  let pows := pow_loop (Nrange next (N.to_nat (final + 1 - next))) (hd_error slice) f1 in
  pows ++ slice.

(* get_marker_versions(start, end, epoch); None = the code panics *)
Definition get_marker_versions (s n E : N) : option (list N * list N) :=
  match find_max_index s, find_max_index n, find_max_index E with
  | Some si, Some ni, Some ei =>
    if (ei <? ni)%nat then None (* slice start > slice end *)
    else Some (past_markers s si, future_markers n E ni ei)
  | _, _, _ => None
  end.

Definition past_of (s : N) : list N :=
  match find_max_index s with Some si => past_markers s si | None => [] end.
Definition future_of (n E : N) : list N :=
  match find_max_index n, find_max_index E with
  | Some ni, Some ei => future_markers n E ni ei
  | _, _ => []
  end.

Definition memN (x : N) (l : list N) : bool := existsb (N.eqb x) l.

(* lookup.rs:48-58 / directory.rs:415-440: the marker checked by a lookup proof *)
Definition lookup_marker (m : N) : N := N.shiftl 1 (marker_log2 m).

(* Known-finding class K1: a lookup for version m > n is not contradicted by a complete history
   with latest version n at epoch E *)
Definition K1_class (E n m : N) : bool :=
  (n <? m) && (m <=? E) && negb (memN m (future_of n E)) && negb (memN (lookup_marker m) (future_of n E)).
