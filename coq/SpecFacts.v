(* A canonical trie is determined by its leaves: it equals the specification tree (Spec.v) over the
   bit strings of its leaves.  Used to lift "insertion keeps the tree canonical and adds exactly
   the batch" to "the root hash is the hash of the canonical trie over the prescribed leaves". *)
From Coq Require Import List Bool Arith NArith Lia.
From Akd Require Import Bits NodeLabel NodeLabelFacts BitsLabel Hashing Tree TreeFacts Spec.
Import ListNotations.
Open Scope N_scope.

Definition sleaf_of (y : leaf) : sleaf := SL (bits_of (lf_label y)) (lf_value y) (lf_epoch y).
Definition sleaves (t : tree) : list sleaf := map sleaf_of (leaves t).

(* epoch annotations: last_epoch = max, min_descendant_epoch = min over the children *)
Fixpoint ann_ok (t : tree) : Prop :=
  match t with
  | Leaf _ _ _ => True
  | Node _ le mde (Some a) (Some b) =>
    le = N.max (t_last_epoch a) (t_last_epoch b) /\ mde = N.min (t_min_desc a) (t_min_desc b) /\ ann_ok a /\ ann_ok b
  | Node _ _ _ _ _ => False
  end.

Definition canon (t : tree) : Prop := wf_sub t = true /\ ann_ok t.

(* ------------------------------------------------------------------ lcp_all, max_epoch, min_epoch *)

Lemma fold_lcp_prefix : forall r acc, prefixb (fold_left (fun a y => lcp a (sl_bits y)) r acc) acc = true.
Proof.
  induction r as [|y r IH]; intros acc; cbn [fold_left]; [apply prefixb_refl|].
  eapply prefixb_trans; [apply IH | apply lcp_prefix_l].
Qed.
Lemma fold_lcp_prefix_in : forall r acc x, In x r -> prefixb (fold_left (fun a y => lcp a (sl_bits y)) r acc) (sl_bits x) = true.
Proof.
  induction r as [|y r IH]; intros acc x Hx; [destruct Hx|]. cbn [fold_left]. destruct Hx as [<-|Hx].
  - eapply prefixb_trans; [apply fold_lcp_prefix | apply lcp_prefix_r].
  - apply IH. exact Hx.
Qed.
Lemma fold_lcp_greatest : forall r acc c, prefixb c acc = true -> (forall x, In x r -> prefixb c (sl_bits x) = true) ->
  prefixb c (fold_left (fun a y => lcp a (sl_bits y)) r acc) = true.
Proof.
  induction r as [|y r IH]; intros acc c Hc Hr; cbn [fold_left]; [exact Hc|].
  apply IH; [apply lcp_greatest; [exact Hc | apply Hr; left; reflexivity] | intros x Hx; apply Hr; right; exact Hx].
Qed.

Lemma lcp_all_prefix S x : In x S -> prefixb (lcp_all S) (sl_bits x) = true.
Proof.
  destruct S as [|y r]; [intros []|]. cbn [lcp_all]. intros [<-|Hx]; [apply fold_lcp_prefix | apply fold_lcp_prefix_in; exact Hx].
Qed.
Lemma lcp_all_greatest S c : S <> [] -> (forall x, In x S -> prefixb c (sl_bits x) = true) -> prefixb c (lcp_all S) = true.
Proof.
  destruct S as [|y r]; [congruence|]. intros _ H. cbn [lcp_all].
  apply fold_lcp_greatest; [apply H; left; reflexivity | intros x Hx; apply H; right; exact Hx].
Qed.

(* the common prefix of a set that branches right after p is p *)
Lemma lcp_all_branch S p x0 x1 :
  (forall x, In x S -> prefixb p (sl_bits x) = true) -> In x0 S -> In x1 S ->
  prefixb (p ++ [false]) (sl_bits x0) = true -> prefixb (p ++ [true]) (sl_bits x1) = true ->
  lcp_all S = p.
Proof.
  intros Hall H0 H1 P0 P1.
  assert (Hne : S <> []) by (intros ->; destruct H0).
  pose proof (lcp_all_greatest S p Hne Hall) as Hp.
  pose proof (lcp_all_prefix S x0 H0) as L0. pose proof (lcp_all_prefix S x1 H1) as L1.
  apply prefixb_antisym; [|exact Hp].
  destruct (Nat.le_gt_cases (length (lcp_all S)) (length p)) as [Hle|Hgt].
  - eapply prefixb_total; [exact L0 | eapply prefixb_trans; [apply prefixb_app | exact P0] | exact Hle].
  - exfalso.
    (* the bit of lcp_all S at position |p| would be both false and true *)
    apply prefixb_nth in L0, L1, P0, P1.
    destruct L0 as [_ L0]. destruct L1 as [_ L1]. destruct P0 as [_ P0]. destruct P1 as [_ P1].
    specialize (L0 (length p) Hgt). specialize (L1 (length p) Hgt).
    specialize (P0 (length p)). specialize (P1 (length p)).
    rewrite app_length in P0, P1. cbn [length] in P0, P1.
    specialize (P0 ltac:(lia)). specialize (P1 ltac:(lia)).
    rewrite app_nth2, Nat.sub_diag in P0, P1 by lia. cbn [nth] in P0, P1. congruence.
Qed.

Lemma fold_max_acc : forall S a, fold_left (fun a x => N.max a (sl_epoch x)) S a = N.max a (max_epoch S).
Proof.
  unfold max_epoch. induction S as [|x S IH]; intros a; cbn [fold_left]; [lia|].
  rewrite IH, (IH (N.max 0 (sl_epoch x))). set (F := fold_left _ S 0). clearbody F. lia.
Qed.
Lemma max_epoch_app A B : max_epoch (A ++ B) = N.max (max_epoch A) (max_epoch B).
Proof. unfold max_epoch at 1. rewrite fold_left_app, fold_max_acc. fold (max_epoch A). reflexivity. Qed.
Lemma max_epoch_single x : max_epoch [x] = sl_epoch x.
Proof. unfold max_epoch. cbn. lia. Qed.

Lemma fold_min_acc : forall S a, fold_left (fun a y => N.min a (sl_epoch y)) S a =
  match S with [] => a | _ => N.min a (min_epoch S) end.
Proof.
  induction S as [|x S IH]; intros a; cbn [fold_left]; [reflexivity|].
  rewrite IH. unfold min_epoch. destruct S as [|y S']; [reflexivity|].
  rewrite (IH (sl_epoch x)). unfold min_epoch. set (F := fold_left _ S' _). clearbody F. lia.
Qed.
Lemma min_epoch_cons x S : min_epoch (x :: S) = match S with [] => sl_epoch x | _ => N.min (sl_epoch x) (min_epoch S) end.
Proof. unfold min_epoch at 1. apply fold_min_acc. Qed.
Lemma min_epoch_app A B : A <> [] -> B <> [] -> min_epoch (A ++ B) = N.min (min_epoch A) (min_epoch B).
Proof.
  intros HA HB. induction A as [|x A IH]; [congruence|]. cbn [app]. rewrite !min_epoch_cons.
  destruct A as [|z A].
  - cbn [app]. destruct B; [congruence | reflexivity].
  - cbn [app] in *. rewrite IH by discriminate. lia.
Qed.
Lemma min_epoch_single x : min_epoch [x] = sl_epoch x.
Proof. reflexivity. Qed.

Lemma filter_all {A} (p : A -> bool) l : (forall x, In x l -> p x = true) -> filter p l = l.
Proof.
  induction l as [|x l IH]; intros H; [reflexivity|]. cbn [filter]. rewrite (H x (or_introl eq_refl)).
  f_equal. apply IH. intros y Hy. apply H. right. exact Hy.
Qed.
Lemma filter_none {A} (p : A -> bool) l : (forall x, In x l -> p x = false) -> filter p l = [].
Proof.
  induction l as [|x l IH]; intros H; [reflexivity|]. cbn [filter]. rewrite (H x (or_introl eq_refl)).
  apply IH. intros y Hy. apply H. right. exact Hy.
Qed.

(* ------------------------------------------------------------------ leaves of a canonical tree *)

Lemma wf_sub_node l le mde a b : wf_sub (Node l le mde a b) = true ->
  exists a' b', a = Some a' /\ b = Some b' /\ wf_label l = true /\ canonical l = true /\
    pord (bits_of l) (bits_of (tlabel a')) = Some false /\ pord (bits_of l) (bits_of (tlabel b')) = Some true /\
    wf_sub a' = true /\ wf_sub b' = true.
Proof.
  cbn [wf_sub tlabel]. intros H. destruct a as [a'|]; [|rewrite andb_false_r in H; discriminate].
  destruct b as [b'|]; [|rewrite andb_false_r in H; discriminate].
  apply andb_true_iff in H. destruct H as [H0 H]. apply andb_true_iff in H0. destruct H0 as [W C].
  apply andb_true_iff in H. destruct H as [H Hb]. apply andb_true_iff in H. destruct H as [H Ha].
  apply andb_true_iff in H. destruct H as [Pa Pb].
  exists a', b'. repeat split; try assumption.
  - destruct (pord (bits_of l) (bits_of (tlabel a'))) as [[|]|]; try discriminate; reflexivity.
  - destruct (pord (bits_of l) (bits_of (tlabel b'))) as [[|]|]; try discriminate; reflexivity.
Qed.

Lemma wf_sub_leaves_nonempty t : wf_sub t = true -> leaves t <> [].
Proof.
  induction t as [l v e|l le mde a b IHa IHb] using tree_ind'; intros H; [discriminate|].
  destruct (wf_sub_node _ _ _ _ _ H) as (a' & b' & -> & -> & _ & _ & _ & _ & Wa & _).
  cbn [leaves]. intros E. apply app_eq_nil in E. destruct E as [E _]. exact (IHa a' eq_refl Wa E).
Qed.

Lemma bit_at_of_prefix p d x : prefixb (p ++ [d]) (sl_bits x) = true -> bit_at (length p) x = d.
Proof.
  intros H. apply prefixb_nth in H. destruct H as [_ H]. specialize (H (length p)).
  rewrite app_length in H. cbn [length] in H. specialize (H ltac:(lia)).
  rewrite app_nth2, Nat.sub_diag in H by lia. cbn [nth] in H. unfold bit_at. congruence.
Qed.

(* every leaf of a subtree hanging in direction d below p carries bit d at position |p| *)
Lemma sleaves_bit p d c :
  wf_sub c = true -> pord p (bits_of (tlabel c)) = Some d ->
  forall x, In x (sleaves c) -> bit_at (length p) x = d /\ prefixb (p ++ [d]) (sl_bits x) = true.
Proof.
  intros Hw Hp x Hx. unfold sleaves in Hx. apply in_map_iff in Hx. destruct Hx as (y & <- & Hy).
  assert (P : prefixb (p ++ [d]) (sl_bits (sleaf_of y)) = true).
  { cbn [sleaf_of sl_bits]. eapply prefixb_trans; [apply pord_prefix; exact Hp|].
    apply leaves_prefix; [apply wf_sub_wfg; exact Hw | exact Hy]. }
  split; [apply bit_at_of_prefix; exact P | exact P].
Qed.

(* ------------------------------------------------------------------ a canonical subtree is the specification tree of its leaves *)

Lemma sleaves_node l le mde a b : sleaves (Node l le mde (Some a) (Some b)) = sleaves a ++ sleaves b.
Proof. unfold sleaves. cbn [leaves]. apply map_app. Qed.

Lemma sleaves_nonempty t : wf_sub t = true -> sleaves t <> [].
Proof. intros H E. apply map_eq_nil in E. exact (wf_sub_leaves_nonempty t H E). Qed.

Lemma two_or_more {A} (a b : list A) : a <> [] -> b <> [] -> exists x y r, a ++ b = x :: y :: r.
Proof.
  destruct a as [|x a]; [congruence|]. destruct b as [|y b]; [congruence|]. intros _ _.
  destruct a as [|z a]; cbn; eauto.
Qed.

Theorem canon_spec_sub : forall t, canon t ->
  max_epoch (sleaves t) = t_last_epoch t /\ min_epoch (sleaves t) = t_min_desc t /\
  forall fuel, (257 <= fuel + length (bits_of (tlabel t)))%nat -> spec_sub fuel (sleaves t) = Some t.
Proof.
  induction t as [l v e|l le mde a b IHa IHb] using tree_ind'; intros [Hw Ha].
  - cbn [sleaves leaves map sleaf_of lf_label lf_value lf_epoch t_last_epoch t_min_desc tlabel].
    split; [apply max_epoch_single|]. split; [reflexivity|].
    intros fuel Hf.
    assert (WC : WF l /\ canonical l = true).
    { cbn [wf_sub tlabel] in Hw. apply andb_true_iff in Hw. destruct Hw as [Hw _]. apply andb_true_iff in Hw. exact Hw. }
    destruct WC as [W C].
    assert (Hlen : (length (bits_of l) <= 256)%nat).
    { rewrite length_bits_of by exact W. destruct (WF_parts l W) as (_ & H & _). lia. }
    destruct fuel as [|fuel]; [lia|]. cbn [spec_sub sl_bits sl_value sl_epoch sleaf_of lf_label lf_value lf_epoch].
    rewrite nl_of_bits_bits_of by assumption. reflexivity.
  - destruct (wf_sub_node _ _ _ _ _ Hw) as (a' & b' & -> & -> & W & C & Pa & Pb & Wa & Wb).
    cbn [ann_ok] in Ha. destruct Ha as (Ele & Emde & Aa & Ab).
    destruct (IHa a' eq_refl (conj Wa Aa)) as (Ma & Na & Sa).
    destruct (IHb b' eq_refl (conj Wb Ab)) as (Mb & Nb & Sb).
    rewrite sleaves_node. cbn [t_last_epoch t_min_desc tlabel].
    pose proof (sleaves_nonempty a' Wa) as NEa. pose proof (sleaves_nonempty b' Wb) as NEb.
    split; [rewrite max_epoch_app, Ma, Mb; symmetry; exact Ele|].
    split; [rewrite min_epoch_app, Na, Nb by assumption; symmetry; exact Emde|].
    intros fuel Hf.
    assert (Hlen : (length (bits_of l) <= 256)%nat).
    { rewrite length_bits_of by exact W. destruct (WF_parts l W) as (_ & H & _). lia. }
    destruct fuel as [|fuel]; [lia|].
    destruct (two_or_more _ _ NEa NEb) as (x & y & r & E2).
    cbn [spec_sub]. rewrite E2. rewrite <- E2.
    (* the common prefix is the node's label *)
    destruct (sleaves a') as [|xa ra] eqn:Ea; [congruence|].
    destruct (sleaves b') as [|xb rb] eqn:Eb; [congruence|].
    rewrite <- Ea, <- Eb in *.
    assert (Hxa : In xa (sleaves a')) by (rewrite Ea; left; reflexivity).
    assert (Hxb : In xb (sleaves b')) by (rewrite Eb; left; reflexivity).
    assert (Hlcp : lcp_all (sleaves a' ++ sleaves b') = bits_of l).
    { apply (lcp_all_branch _ (bits_of l) xa xb).
      - intros z Hz. apply in_app_or in Hz. destruct Hz as [Hz|Hz].
        + eapply prefixb_trans; [apply prefixb_app | apply (sleaves_bit _ _ _ Wa Pa z Hz)].
        + eapply prefixb_trans; [apply prefixb_app | apply (sleaves_bit _ _ _ Wb Pb z Hz)].
      - apply in_or_app. left. exact Hxa.
      - apply in_or_app. right. exact Hxb.
      - apply (sleaves_bit _ _ _ Wa Pa xa Hxa).
      - apply (sleaves_bit _ _ _ Wb Pb xb Hxb). }
    rewrite Hlcp. rewrite nl_of_bits_bits_of by assumption.
    rewrite max_epoch_app, min_epoch_app by assumption. rewrite Ma, Mb, Na, Nb, <- Ele, <- Emde.
    rewrite !filter_app.
    rewrite (filter_all _ (sleaves a')) by (intros z Hz; rewrite (proj1 (sleaves_bit _ _ _ Wa Pa z Hz)); reflexivity).
    rewrite (filter_none _ (sleaves b')) by (intros z Hz; rewrite (proj1 (sleaves_bit _ _ _ Wb Pb z Hz)); reflexivity).
    rewrite (filter_none _ (sleaves a')) by (intros z Hz; apply (proj1 (sleaves_bit _ _ _ Wa Pa z Hz))).
    rewrite (filter_all _ (sleaves b')) by (intros z Hz; apply (proj1 (sleaves_bit _ _ _ Wb Pb z Hz))).
    rewrite app_nil_r. cbn [app].
    assert (La : (length (bits_of l) < length (bits_of (tlabel a')))%nat).
    { unfold pord in Pa. destruct (length (bits_of (tlabel a')) <=? length (bits_of l))%nat eqn:E; [discriminate|]. apply Nat.leb_gt in E. exact E. }
    assert (Lb : (length (bits_of l) < length (bits_of (tlabel b')))%nat).
    { unfold pord in Pb. destruct (length (bits_of (tlabel b')) <=? length (bits_of l))%nat eqn:E; [discriminate|]. apply Nat.leb_gt in E. exact E. }
    rewrite Sa by lia. rewrite Sb by lia. reflexivity.
Qed.

(* ------------------------------------------------------------------ the root *)

Definition olast (o : option tree) : N := match o with Some c => t_last_epoch c | None => 0 end.
Definition omin (a b : option tree) : N :=
  match a, b with
  | Some x, Some y => N.min (t_min_desc x) (t_min_desc y)
  | Some x, None => t_min_desc x
  | None, Some y => t_min_desc y
  | None, None => 0
  end.
Definition canon_child (dir : bool) (o : option tree) : Prop :=
  match o with Some c => pord [] (bits_of (tlabel c)) = Some dir /\ canon c | None => True end.
Definition canon_root (t : tree) : Prop :=
  match t with
  | Node l le mde a b =>
    l = nl_root /\ canon_child false a /\ canon_child true b /\ le = N.max (olast a) (olast b) /\ mde = omin a b
  | Leaf _ _ _ => False
  end.

Lemma bits_of_root : bits_of nl_root = [].
Proof. reflexivity. Qed.

Lemma spec_child dir c :
  pord [] (bits_of (tlabel c)) = Some dir -> canon c ->
  spec_sub 300 (sleaves c) = Some c /\
  (forall z, In z (sleaves c) -> bit_at 0 z = dir) /\ sleaves c <> [].
Proof.
  intros P Hc. destruct (canon_spec_sub c Hc) as (_ & _ & S). split; [apply S; lia|].
  split; [|apply sleaves_nonempty; apply Hc].
  intros z Hz. exact (proj1 (sleaves_bit [] dir c (proj1 Hc) P z Hz)).
Qed.

Theorem canon_root_spec t : canon_root t -> spec_root (sleaves t) = t.
Proof.
  destruct t as [|l le mde a b]; [intros []|]. intros (-> & Ca & Cb & -> & ->).
  unfold spec_root, sleaves. cbn [leaves]. rewrite map_app.
  destruct a as [a'|]; destruct b as [b'|]; cbn [canon_child] in Ca, Cb.
  - destruct Ca as [Pa Ha]. destruct Cb as [Pb Hb].
    destruct (spec_child false a' Pa Ha) as (Sa & Ba & Na). destruct (spec_child true b' Pb Hb) as (Sb & Bb & Nb).
    destruct (canon_spec_sub a' Ha) as (Ma & Mi & _). destruct (canon_spec_sub b' Hb) as (Mb & Mib & _).
    fold (sleaves a') (sleaves b').
    rewrite max_epoch_app, min_epoch_app by assumption. rewrite Ma, Mb, Mi, Mib.
    rewrite !filter_app.
    rewrite (filter_all _ (sleaves a')) by (intros z Hz; rewrite (Ba z Hz); reflexivity).
    rewrite (filter_none _ (sleaves b')) by (intros z Hz; rewrite (Bb z Hz); reflexivity).
    rewrite (filter_none _ (sleaves a')) by (intros z Hz; apply (Ba z Hz)).
    rewrite (filter_all _ (sleaves b')) by (intros z Hz; apply (Bb z Hz)).
    rewrite app_nil_r. cbn [app]. rewrite Sa, Sb. reflexivity.
  - destruct Ca as [Pa Ha]. destruct (spec_child false a' Pa Ha) as (Sa & Ba & Na).
    destruct (canon_spec_sub a' Ha) as (Ma & Mi & _).
    fold (sleaves a'). cbn [map]. rewrite app_nil_r. rewrite Ma, Mi.
    rewrite (filter_all _ (sleaves a')) by (intros z Hz; rewrite (Ba z Hz); reflexivity).
    rewrite (filter_none _ (sleaves a')) by (intros z Hz; apply (Ba z Hz)).
    rewrite Sa. cbn [olast omin spec_sub]. rewrite N.max_0_r. reflexivity.
  - destruct Cb as [Pb Hb]. destruct (spec_child true b' Pb Hb) as (Sb & Bb & Nb).
    destruct (canon_spec_sub b' Hb) as (Mb & Mib & _).
    fold (sleaves b'). cbn [map app]. rewrite Mb, Mib.
    rewrite (filter_none _ (sleaves b')) by (intros z Hz; rewrite (Bb z Hz); reflexivity).
    rewrite (filter_all _ (sleaves b')) by (intros z Hz; apply (Bb z Hz)).
    rewrite Sb. cbn [olast omin spec_sub]. rewrite N.max_0_l. reflexivity.
  - cbn. reflexivity.
Qed.

(* the published root hash of a canonical tree is the specification's hash of its leaves *)
Corollary canon_root_hash cfg t : canon_root t -> root_hash cfg true t = spec_root_hash cfg (sleaves t).
Proof. intros H. unfold spec_root_hash. rewrite (canon_root_spec t H). reflexivity. Qed.

(* ------------------------------------------------------------------ the specification does not depend on the order of the leaves *)
From Coq Require Import Permutation.

Lemma max_epoch_cons x S : max_epoch (x :: S) = N.max (sl_epoch x) (max_epoch S).
Proof. unfold max_epoch at 1. cbn [fold_left]. rewrite fold_max_acc. lia. Qed.

Lemma max_epoch_perm S S' : Permutation S S' -> max_epoch S = max_epoch S'.
Proof.
  induction 1 as [|x l l' _ IH|x y l|l l' l'' _ IH1 _ IH2]; [reflexivity| | |congruence].
  - rewrite !max_epoch_cons, IH. reflexivity.
  - rewrite !max_epoch_cons. lia.
Qed.

Lemma min_epoch_perm S S' : Permutation S S' -> min_epoch S = min_epoch S'.
Proof.
  induction 1 as [|x l l' HP IH|x y l|l l' l'' _ IH1 _ IH2]; [reflexivity| | |congruence].
  - rewrite !min_epoch_cons. destruct l as [|a l0]; destruct l' as [|b l0']; try reflexivity.
    + apply Permutation_nil in HP. discriminate.
    + apply Permutation_sym, Permutation_nil in HP. discriminate.
    + rewrite IH. reflexivity.
  - rewrite !min_epoch_cons. destruct l as [|a l0]; [lia|]. lia.
Qed.

Lemma lcp_all_perm S S' : Permutation S S' -> lcp_all S = lcp_all S'.
Proof.
  intros HP. destruct S as [|x r].
  - apply Permutation_nil in HP. subst. reflexivity.
  - assert (Hne : x :: r <> []) by discriminate.
    assert (Hne' : S' <> []) by (intros ->; apply Permutation_sym, Permutation_nil in HP; discriminate).
    apply prefixb_antisym.
    + apply lcp_all_greatest; [exact Hne'|]. intros z Hz. apply lcp_all_prefix. eapply Permutation_in; [apply Permutation_sym; exact HP | exact Hz].
    + apply lcp_all_greatest; [exact Hne|]. intros z Hz. apply lcp_all_prefix. eapply Permutation_in; [exact HP | exact Hz].
Qed.

Lemma filter_perm {A} (p : A -> bool) l l' : Permutation l l' -> Permutation (filter p l) (filter p l').
Proof.
  induction 1 as [|x l l' _ IH|x y l|l l' l'' _ IH1 _ IH2]; cbn [filter].
  - constructor.
  - destruct (p x); [constructor|]; exact IH.
  - destruct (p x), (p y); try apply Permutation_refl. apply perm_swap.
  - eapply Permutation_trans; eassumption.
Qed.

Lemma spec_sub_perm : forall fuel S S', Permutation S S' -> spec_sub fuel S = spec_sub fuel S'.
Proof.
  induction fuel as [|f IH]; intros S S' HP; [reflexivity|].
  cbn [spec_sub].
  destruct S as [|x [|y r]].
  - apply Permutation_nil in HP. subst. reflexivity.
  - apply Permutation_length_1_inv in HP. subst. reflexivity.
  - destruct S' as [|x' [|y' r']].
    + apply Permutation_sym, Permutation_nil in HP. discriminate.
    + apply Permutation_sym, Permutation_length_1_inv in HP. discriminate.
    + rewrite (lcp_all_perm _ _ HP), (max_epoch_perm _ _ HP), (min_epoch_perm _ _ HP).
      set (k := length (lcp_all (x' :: y' :: r'))).
      rewrite (IH _ _ (filter_perm (fun z => negb (bit_at k z)) _ _ HP)).
      rewrite (IH _ _ (filter_perm (bit_at k) _ _ HP)). reflexivity.
Qed.

Theorem spec_root_perm S S' : Permutation S S' -> spec_root S = spec_root S'.
Proof.
  intros HP. unfold spec_root. rewrite (max_epoch_perm _ _ HP), (min_epoch_perm _ _ HP).
  rewrite (spec_sub_perm 300 _ _ (filter_perm (fun x => negb (bit_at 0 x)) _ _ HP)).
  rewrite (spec_sub_perm 300 _ _ (filter_perm (bit_at 0) _ _ HP)). reflexivity.
Qed.

Corollary canon_root_unique t t' : canon_root t -> canon_root t' -> Permutation (sleaves t) (sleaves t') -> t = t'.
Proof. intros H H' P. rewrite <- (canon_root_spec t H), <- (canon_root_spec t' H'). apply spec_root_perm. exact P. Qed.
