(* C02 end to end: in every reachable state of the directory, the proof returned for a published
   label is accepted by the client's verifier and yields exactly the label's latest
   (epoch, version, value) - under the stated properties of the VRF table. *)
From Coq Require Import List Bool Arith NArith Lia Permutation.
From Akd Require Import Bits NodeLabel NodeLabelFacts BitsLabel ElemSet Hashing Tree TreeFacts TreeComplete Insert Spec SpecFacts
     InsertRefine NonMemComplete MemComplete Marker MarkerFacts Directory Verify DirFacts DirRefine HistComplete.
Import ListNotations.
Open Scope N_scope.

Section LookupComplete.
  Variable cfg : config.
  Variable ck : bytes.
  Variable vrf_label : bytes -> bool -> N -> option nlabel.
  Variable vrf_proof : bytes -> bool -> N -> option bytes.
  Variable vrf_check : bytes -> bytes -> bytes -> option bytes.
  Variable pk : bytes.
  Hypothesis Ce : canonical (c_empty_label cfg) = false.
  Hypothesis vrf_good : forall l f v nl, vrf_label l f v = Some nl -> WF nl /\ canonical nl = true /\ llen nl = 256.
  Hypothesis vrf_inj : forall l f v l' f' v' nl, vrf_label l f v = Some nl -> vrf_label l' f' v' = Some nl -> l = l' /\ f = f' /\ v = v'.
  (* the proof the server hands out for (l, f, v) verifies under the public key and its output is the
     node label (C18: completeness of the VRF and of proof (de)serialisation) *)
  Hypothesis vrf_complete : forall l f v nl pr, vrf_label l f v = Some nl -> vrf_proof l f v = Some pr ->
    vrf_check pk pr (label_input_hash cfg l f v) = Some (lval nl).

  Notation publish := (publish cfg ck vrf_label).
  Notation DirInv := (DirInv vrf_label).
  Notation ver := (ver).

  (* the fresh leaf of every stored state is in the tree with the committed value and its epoch,
     and every version up to the current one has a stored state *)
  Definition fresh_leaf (s : vrec) : option leaf :=
    match vrf_label (vr_user s) true (vr_version s) with
    | Some nl => Some (LF nl (fresh_value cfg ck nl (vr_version s) (vr_value s)) (vr_epoch s))
    | None => None
    end.
  Record DirInv2 (st : dstate) : Prop := {
    d2_inv : DirInv st;
    d2_leaf : forall s, In s (d_states st) -> exists y, fresh_leaf s = Some y /\ In y (leaves (d_tree st));
    d2_versions : forall l v, 1 <= v -> v <= ver st l -> exists s, In s (d_states st) /\ vr_user s = l /\ vr_version s = v }.

  Lemma dir_new_inv2 : DirInv2 dir_new.
  Proof.
    constructor; [apply dir_new_inv | intros s [] |]. intros l v H1 H2. unfold DirRefine.ver in H2. cbn in H2. lia.
  Qed.

  (* what a request derives: each new state comes with its fresh element *)
  Lemma derive_update_fresh st l v es ns : derive_update cfg ck vrf_label st (l, v) = Some (es, ns) ->
    forall n, In n ns -> exists nl, vrf_label (vr_user n) true (vr_version n) = Some nl /\
                                    In (El nl (fresh_value cfg ck nl (vr_version n) (vr_value n))) es.
  Proof.
    unfold Directory.derive_update. destruct (latest_state (d_states st) l (d_epoch st)) as [s|].
    - destruct (bytes_eqb (vr_value s) v); [intros [= <- <-] n []|].
      destruct (vrf_label l false (vr_version s)) as [sl|]; [|discriminate].
      destruct (vrf_label l true (vr_version s + 1)) as [fl|] eqn:Ef; [|discriminate].
      intros [= <- <-] n [<-|[]]. cbn [vr_user vr_version vr_value]. exists fl. split; [exact Ef | right; left; reflexivity].
    - destruct (vrf_label l true 1) as [nl|] eqn:Ef; [|discriminate].
      intros [= <- <-] n [<-|[]]. cbn [vr_user vr_version vr_value]. exists nl. split; [exact Ef | left; reflexivity].
  Qed.

  Lemma derive_all_fresh st : forall upds elems news, derive_all cfg ck vrf_label st upds = Some (elems, news) ->
    forall n, In n news -> exists nl, vrf_label (vr_user n) true (vr_version n) = Some nl /\
                                      In (El nl (fresh_value cfg ck nl (vr_version n) (vr_value n))) elems.
  Proof.
    induction upds as [|[l v] upds IH]; intros elems news H n Hn.
    - cbn in H. injection H as <- <-. destruct Hn.
    - cbn [Directory.derive_all] in H.
      destruct (derive_update cfg ck vrf_label st (l, v)) as [[e1 s1]|] eqn:E1; [|discriminate].
      destruct (derive_all cfg ck vrf_label st upds) as [[e2 s2]|] eqn:E2; [|discriminate]. injection H as <- <-.
      apply in_app_or in Hn. destruct Hn as [Hn|Hn].
      + destruct (derive_update_fresh st l v e1 s1 E1 n Hn) as (nl & H1 & H2). exists nl. split; [exact H1 | apply in_or_app; left; exact H2].
      + destruct (IH e2 s2 eq_refl n Hn) as (nl & H1 & H2). exists nl. split; [exact H1 | apply in_or_app; right; exact H2].
  Qed.

  Lemma publish_not_ok_same st upds st' r : publish st upds = (st', r) -> (forall x, r <> DOk x) -> st' = st.
  Proof.
    unfold Directory.publish. destruct (has_dup (map fst upds)); [intros [= <- _] _; reflexivity|].
    destruct (derive_all cfg ck vrf_label st upds) as [[elems news]|]; [|intros [= <- _] _; reflexivity].
    destruct elems as [|x xs]; [intros [= <- <-] H; exfalso; exact (H _ eq_refl)|].
    destruct (batch_insert _ _ _) as [[[t' e'] n']|]; [intros [= <- <-] H; exfalso; exact (H _ eq_refl) | intros [= <- _] _; reflexivity].
  Qed.

  Lemma publish_keeps_inv2 st upds : DirInv2 st -> DirInv2 (fst (publish st upds)).
  Proof.
    intros I2. destruct (publish st upds) as [st' res] eqn:E. cbn [fst].
    destruct res as [p| | | | |];
      try (rewrite (publish_not_ok_same st upds st' _ E ltac:(intros x; discriminate)); exact I2).
    destruct p as [e h]. pose proof I2 as [I Ileaf Iv].
    destruct (publish_step cfg ck vrf_label Ce vrf_good vrf_inj st upds st' e h I E) as (I' & _ & _ & [->|(elems & news & Ed & Eep & Est & Pr)]); [exact I2|].
    pose proof I as [Itree Iep Iver Ilv Idist Ivle].
    assert (Hd : has_dup (map fst upds) = false).
    { unfold Directory.publish in E. destruct (has_dup (map fst upds)); [discriminate | reflexivity]. }
    destruct (derive_all_spec cfg ck vrf_label vrf_inj st upds elems news Iver Hd Ed) as (D1 & D2 & D3 & D4 & D5).
    assert (Hnews_ep : forall n, In n news -> vr_epoch n = d_epoch st + 1).
    { intros n Hn. destruct (D3 n Hn) as (l & v & nl & _ & ->). reflexivity. }
    constructor; [exact I'| |].
    - intros s Hs. rewrite Est in Hs. apply in_app_or in Hs. destruct Hs as [Hs|Hs].
      + destruct (Ileaf s Hs) as (y & Hy & Hin). exists y. split; [exact Hy|].
        apply (Permutation_in _ (Permutation_sym Pr)). apply in_or_app. left. exact Hin.
      + destruct (derive_all_fresh st upds elems news Ed s Hs) as (nl & Hl & Hel).
        exists (LF nl (fresh_value cfg ck nl (vr_version s) (vr_value s)) (vr_epoch s)). split; [unfold fresh_leaf; rewrite Hl; reflexivity|].
        apply (Permutation_in _ (Permutation_sym Pr)). apply in_or_app. right. rewrite (Hnews_ep s Hs).
        apply in_map_iff. exists (El nl (fresh_value cfg ck nl (vr_version s) (vr_value s))). split; [reflexivity | exact Hel].
    - intros l v Hv1 Hv2.
      destruct (latest_after cfg vrf_label vrf_good vrf_inj (d_states st) news (d_epoch st) l Iep Hnews_ep D4) as [LA LB].
      assert (Ev : DirRefine.ver st' l = match latest_state (d_states st ++ news) l (d_epoch st + 1) with Some s => vr_version s | None => 0 end).
      { unfold DirRefine.ver. rewrite Est, Eep. reflexivity. }
      rewrite Ev in Hv2.
      destruct (existsb (fun n => bytes_eqb (vr_user n) l) news) eqn:Ex.
      + apply existsb_exists in Ex. destruct Ex as (n & Hn & Hu). apply bytes_eqb_eq in Hu.
        rewrite (LA n Hn Hu) in Hv2. destruct (D3 n Hn) as (l2 & v2 & nl & _ & En). subst n. cbn [vr_user] in Hu. subst l2. cbn [vr_version] in Hv2.
        destruct (N.eq_dec v (DirRefine.ver st l + 1)) as [->|Hne].
        * eexists. split; [rewrite Est; apply in_or_app; right; exact Hn|]. split; reflexivity.
        * destruct (Iv l v Hv1 ltac:(lia)) as (s & Hs & Hu & Hvv). exists s. split; [rewrite Est; apply in_or_app; left; exact Hs | split; assumption].
      + assert (Hnone : forall n, In n news -> vr_user n <> l).
        { intros n Hn Hu. assert (existsb (fun n => bytes_eqb (vr_user n) l) news = true); [|congruence].
          apply existsb_exists. exists n. split; [exact Hn | apply bytes_eqb_eq; exact Hu]. }
        rewrite (LB Hnone) in Hv2.
        destruct (Iv l v Hv1 Hv2) as (s & Hs & Hu & Hvv). exists s. split; [rewrite Est; apply in_or_app; left; exact Hs | split; assumption].
  Qed.

  Theorem inv2_reachable reqs : DirInv2 (run_publishes cfg ck vrf_label dir_new reqs).
  Proof.
    assert (G : forall reqs st, DirInv2 st -> DirInv2 (run_publishes cfg ck vrf_label st reqs)).
    { induction reqs0 as [|r rest IH]; intros st I; [exact I|]. cbn [run_publishes]. apply IH. apply publish_keeps_inv2. exact I. }
    apply G. apply dir_new_inv2.
  Qed.

  Lemma lookup_marker_bounds v : 1 <= v -> 1 <= lookup_marker v /\ lookup_marker v <= v.
  Proof.
    intros Hv. unfold lookup_marker, marker_log2. rewrite shiftl1_pow.
    destruct (N.log2_spec v ltac:(lia)) as [H1 _]. split; [|exact H1].
    apply N.lt_pred_le. apply N.neq_0_lt_0. apply N.pow_nonzero. discriminate.
  Qed.

  Lemma full_label_eta nl : llen nl = 256 -> NL (lval nl) 256 = nl.
  Proof. destruct nl as [v n]. cbn. intros ->. reflexivity. Qed.

  Lemma verify_label_ok l f v nl pr : vrf_label l f v = Some nl -> vrf_proof l f v = Some pr ->
    verify_label cfg vrf_check pk l f v pr nl = true.
  Proof.
    intros Hl Hp. unfold verify_label. rewrite (vrf_complete l f v nl pr Hl Hp).
    rewrite (full_label_eta nl (proj2 (proj2 (vrf_good _ _ _ _ Hl)))). apply nl_eqb_eq. reflexivity.
  Qed.

  (* the fresh leaf of a stored state, found by the prover's walk *)
  Lemma stored_leaf_proof st s nl : DirInv2 st -> In s (d_states st) -> vrf_label (vr_user s) true (vr_version s) = Some nl ->
    mp_label (get_membership_proof cfg (d_tree st) nl) = nl /\
    mp_hash_val (get_membership_proof cfg (d_tree st) nl) = c_leaf_hash cfg (fresh_value cfg ck nl (vr_version s) (vr_value s)) (vr_epoch s).
  Proof.
    intros [I Ileaf _] Hs Hl. destruct (Ileaf s Hs) as (y & Hy & Hin). unfold fresh_leaf in Hy. rewrite Hl in Hy. injection Hy as <-.
    destruct (vrf_good _ _ _ _ Hl) as (W & C & L).
    apply (membership_proof_of_leaf cfg (d_tree st) _ (proj1 (di_tree vrf_label st I)) Hin); cbn [lf_label]; try assumption.
    rewrite length_bits_of by exact W. rewrite L. reflexivity.
  Qed.

  (* C02: the client accepts the proof and obtains the latest (epoch, version, value) *)
  Theorem lookup_complete st l p eh :
    DirInv2 st -> lookup cfg ck vrf_label vrf_proof st l = DOk (p, eh) ->
    exists s, latest_state (d_states st) l (d_epoch st) = Some s /\
              lookup_verify cfg vrf_check pk (snd eh) (fst eh) l p = Some (VRes (vr_epoch s) (vr_version s) (vr_value s)).
  Proof.
    intros I2 Hlk. pose proof I2 as [I Ileaf Iv]. pose proof I as [Itree Iep Iver Ilv Idist Ivle].
    destruct (lookup_tree_parts_verify cfg ck vrf_label vrf_proof Ce vrf_good vrf_inj st l p eh I Hlk) as (Eeh & Vex & Vmk & Vfr).
    unfold Directory.lookup in Hlk.
    destruct (latest_state (d_states st) l (d_epoch st)) as [s|] eqn:El; [|discriminate].
    destruct (vrf_label l true (vr_version s)) as [el|] eqn:Eel; [|discriminate].
    destruct (vrf_label l true (lookup_marker (vr_version s))) as [ml|] eqn:Eml; [|discriminate].
    destruct (vrf_label l false (vr_version s)) as [nl|] eqn:Enl; [|discriminate].
    destruct (vrf_proof l true (vr_version s)) as [ep|] eqn:Eep; [|discriminate].
    destruct (vrf_proof l true (lookup_marker (vr_version s))) as [mp|] eqn:Emp; [|discriminate].
    destruct (vrf_proof l false (vr_version s)) as [np|] eqn:Enp; [|discriminate].
    injection Hlk as <- <-. exists s. split; [reflexivity|].
    cbn [epoch_hash fst snd lp_existence lp_marker lp_freshness] in *.
    destruct (latest_state_max cfg vrf_label vrf_proof vrf_good vrf_inj _ _ _ _ El) as (Hin & Hsel & _).
    unfold sel in Hsel. apply andb_true_iff in Hsel. destruct Hsel as [Hu He]. apply bytes_eqb_eq in Hu. apply N.leb_le in He.
    pose proof (Ivle s Hin) as Hvle. pose proof (Iver l s El) as Hv1.
    unfold lookup_verify. cbn [lp_version lp_value lp_epoch lp_nonce lp_existence_vrf lp_existence lp_marker_vrf lp_marker lp_freshness_vrf lp_freshness].
    assert (E1 : (d_epoch st <? vr_version s) = false) by (apply N.ltb_ge; lia). rewrite E1.
    (* existence with value *)
    rewrite <- Hu in Eel. destruct (stored_leaf_proof st s el I2 Hin Eel) as [Lb Hv]. rewrite Hu in Eel.
    assert (Eex : verify_existence_with_val cfg vrf_check pk (root_hash cfg true (d_tree st)) l (vr_value s) (vr_epoch s)
                    (c_commitment_nonce cfg ck (nl_to_bytes el) (vr_version s) (vr_value s)) true (vr_version s) ep
                    (get_membership_proof cfg (d_tree st) el) = true).
    { unfold verify_existence_with_val, verify_existence. rewrite Hv, Lb.
      unfold leaf_hash_with_value, fresh_value. rewrite (proj2 (bytes_eqb_eq _ _) eq_refl). cbn [andb].
      rewrite (verify_label_ok l true (vr_version s) el ep Eel Eep). exact Vex. }
    rewrite Eex. cbn [negb].
    assert (E0 : (vr_version s =? 0) = false) by (apply N.eqb_neq; lia). rewrite E0.
    (* marker *)
    destruct (lookup_marker_bounds (vr_version s) Hv1) as [Hm1 Hm2].
    assert (Hver : DirRefine.ver st l = vr_version s) by (unfold DirRefine.ver; rewrite El; reflexivity).
    destruct (Iv l (lookup_marker (vr_version s)) Hm1 ltac:(rewrite Hver; exact Hm2)) as (sm & Hsm & Hum & Hvm).
    rewrite <- Hum, <- Hvm in Eml. destruct (stored_leaf_proof st sm ml I2 Hsm Eml) as [Lm _]. rewrite Hum, Hvm in Eml.
    assert (Emk : verify_existence cfg vrf_check pk (root_hash cfg true (d_tree st)) l true (lookup_marker (vr_version s)) mp
                    (get_membership_proof cfg (d_tree st) ml) = true).
    { unfold verify_existence. rewrite Lm. rewrite (verify_label_ok l true _ ml mp Eml Emp). exact Vmk. }
    rewrite Emk. cbn [negb].
    (* freshness *)
    assert (Efr : verify_nonexistence cfg vrf_check pk (root_hash cfg true (d_tree st)) l false (vr_version s) np
                    (get_non_membership_proof cfg (d_tree st) nl) = true).
    { unfold verify_nonexistence.
      assert (Enpl : np_label (get_non_membership_proof cfg (d_tree st) nl) = nl).
      { unfold get_non_membership_proof. destruct (lcp_walk cfg walk_fuel (d_tree st) nl). reflexivity. }
      rewrite Enpl. rewrite (verify_label_ok l false _ nl np Enl Enp). exact Vfr. }
    rewrite Efr. reflexivity.
  Qed.
End LookupComplete.
