(* nl_of_bits / bits_of are mutually inverse on bit strings of at most 256 bits and on well-formed
   canonical labels. *)
From Coq Require Import List Bool Arith NArith Lia.
From Akd Require Import Bits NodeLabel NodeLabelFacts.
Import ListNotations.
Local Open Scope nat_scope.

Definition pad8 (bs : list bool) : list bool := firstn 8 (bs ++ repeat false 8).

Lemma byte_roundtrip bs : byte_bits (bits_to_byte bs 8) = pad8 bs.
Proof.
  unfold pad8.
  destruct bs as [|b0 [|b1 [|b2 [|b3 [|b4 [|b5 [|b6 [|b7 r]]]]]]]];
    repeat match goal with b : bool |- _ => destruct b end; reflexivity.
Qed.

Lemma bits_to_byte_lt bs : (bits_to_byte bs 8 < 256)%N.
Proof.
  destruct bs as [|b0 [|b1 [|b2 [|b3 [|b4 [|b5 [|b6 [|b7 r]]]]]]]];
    repeat match goal with b : bool |- _ => destruct b end; reflexivity.
Qed.

Lemma nth_repeat_false n i : nth i (repeat false n) false = false.
Proof. revert i; induction n as [|n IH]; intros [|i]; cbn; auto. Qed.

Lemma nth_pad8 bs i : i < 8 -> nth i (pad8 bs) false = nth i bs false.
Proof.
  intros Hi. unfold pad8. rewrite nth_firstn by exact Hi.
  destruct (Nat.lt_ge_cases i (length bs)) as [Hl|Hl].
  - apply app_nth1. exact Hl.
  - rewrite app_nth2 by exact Hl. rewrite nth_repeat_false. symmetry. apply nth_overflow. exact Hl.
Qed.

Lemma length_bits_to_bytes : forall n bs, length (bits_to_bytes bs n) = n.
Proof. induction n as [|n IH]; intros bs; cbn [bits_to_bytes length]; [reflexivity | rewrite IH; reflexivity]. Qed.

Lemma nth_val_bits_to_bytes : forall n bs i, i < 8 * n ->
  nth i (val_bits (bits_to_bytes bs n)) false = nth i bs false.
Proof.
  induction n as [|n IH]; intros bs i Hi; [lia|].
  cbn [bits_to_bytes]. unfold val_bits in *. cbn [flat_map].
  destruct (Nat.lt_ge_cases i 8) as [H8|H8].
  - rewrite app_nth1 by (rewrite length_byte_bits; exact H8). rewrite byte_roundtrip. apply nth_pad8. exact H8.
  - rewrite app_nth2 by (rewrite length_byte_bits; exact H8). rewrite length_byte_bits.
    rewrite IH by lia. rewrite nth_skipn'. f_equal. lia.
Qed.

Lemma bits_to_bytes_lt : forall n bs i, (byte_at (bits_to_bytes bs n) i < 256)%N.
Proof.
  induction n as [|n IH]; intros bs i; unfold byte_at; [destruct i; reflexivity|].
  cbn [bits_to_bytes]. destruct i as [|i]; cbn [nth]; [apply bits_to_byte_lt | apply IH].
Qed.

Theorem bits_of_nl_of_bits bs : length bs <= 256 -> bits_of (nl_of_bits bs) = bs.
Proof.
  intros Hl. unfold bits_of, nl_of_bits. cbn [lval llen]. rewrite Nat2N.id.
  apply (list_eq_nth false).
  - rewrite firstn_length, length_val_bits, length_bits_to_bytes. lia.
  - intros i Hi. rewrite firstn_length, length_val_bits, length_bits_to_bytes in Hi.
    rewrite nth_firstn by lia. apply nth_val_bits_to_bytes. lia.
Qed.

Theorem nl_of_bits_WF bs : length bs <= 256 -> WF (nl_of_bits bs) /\ canonical (nl_of_bits bs) = true.
Proof.
  intros Hl. split.
  - unfold WF, wf_label, wf_val, nl_of_bits. cbn [lval llen]. rewrite length_bits_to_bytes.
    apply andb_true_iff. split; [|apply N.leb_le; lia]. apply andb_true_iff. split; [reflexivity|].
    apply forallb_forall. intros x Hx. apply In_nth with (d := 0%N) in Hx. destruct Hx as (i & _ & <-).
    apply N.ltb_lt. apply (bits_to_bytes_lt 32 bs i).
  - unfold canonical, nl_of_bits. cbn [lval llen]. rewrite Nat2N.id.
    rewrite (forallb_nth _ _ false). intros i Hi.
    rewrite skipn_length, length_val_bits, length_bits_to_bytes in Hi.
    rewrite nth_skipn'. rewrite nth_val_bits_to_bytes by lia.
    rewrite nth_overflow by lia. reflexivity.
Qed.

(* a well-formed canonical label is determined by its bits *)
Theorem bits_of_inj a b : WF a -> WF b -> canonical a = true -> canonical b = true ->
  bits_of a = bits_of b -> a = b.
Proof.
  intros Wa Wb Ca Cb E.
  destruct (WF_parts a Wa) as (A1 & A2 & A3). destruct (WF_parts b Wb) as (B1 & B2 & B3).
  assert (El : llen a = llen b).
  { pose proof (f_equal (@length bool) E) as L. rewrite !length_bits_of in L by assumption. lia. }
  destruct a as [va la], b as [vb lb]. cbn [lval llen] in *. subst lb. f_equal.
  apply val_bits_inj; [lia | assumption | assumption |].
  rewrite <- (firstn_skipn (N.to_nat la) (val_bits va)), <- (firstn_skipn (N.to_nat la) (val_bits vb)).
  f_equal; [exact E|].
  unfold canonical in Ca, Cb. cbn [lval llen] in Ca, Cb.
  apply (list_eq_nth false).
  - rewrite !skipn_length, !length_val_bits. lia.
  - intros i Hi. rewrite (forallb_nth _ _ false) in Ca. rewrite (forallb_nth _ _ false) in Cb.
    specialize (Ca i Hi). rewrite skipn_length, length_val_bits, A1 in Hi.
    specialize (Cb i ltac:(rewrite skipn_length, length_val_bits, B1; lia)).
    destruct (nth i (skipn _ (val_bits va)) false), (nth i (skipn _ (val_bits vb)) false); cbn in *; congruence.
Qed.

Theorem nl_of_bits_bits_of a : WF a -> canonical a = true -> nl_of_bits (bits_of a) = a.
Proof.
  intros Wa Ca.
  assert (Hl : length (bits_of a) <= 256).
  { rewrite length_bits_of by exact Wa. destruct (WF_parts a Wa) as (_ & H & _). lia. }
  destruct (nl_of_bits_WF (bits_of a) Hl) as [W C].
  apply bits_of_inj; try assumption. apply bits_of_nl_of_bits. exact Hl.
Qed.
