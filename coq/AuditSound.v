(* C09, the semantic conclusion: if the auditor accepts a single-epoch proof against the root hashes
   of two well-formed trees, every leaf of the earlier tree (label, value AND epoch) is a leaf of the
   later one, and every other leaf of the later tree is one of the proof's inserted nodes stamped
   with the end epoch - or a hash collision (the bad event of the configuration) has been exhibited.
   For every proof an adversary may send (canonical labels; see DESIGN.md for that premise). *)
From Coq Require Import List Bool Arith NArith Lia Permutation.
From Akd Require Import Bits NodeLabel NodeLabelFacts BitsLabel ElemSet ElemSetFacts Hashing Tree TreeFacts Binding
     Spec SpecFacts Insert InsertFacts InsertRefine AuditRebuild Directory Verify VerifyFacts.
Import ListNotations.
Open Scope N_scope.

(* ------------------------------------------------------------------ from the boolean check to nodes_ok *)
Lemma canon_id l : WF l -> canonical l = true -> canon l = l.
Proof.
  intros W C. unfold canon. destruct (WF_parts l W) as (_ & H256 & _).
  destruct (N.eq_dec (llen l) 256) as [E|NE].
  - apply get_prefix_full. lia.
  - assert (Hlt : llen l < 256) by lia.
    destruct (get_prefix_spec l (llen l) W ltac:(lia) Hlt) as (Hb & Hc & Hl).
    apply bits_of_inj; try assumption; [apply get_prefix_wf; assumption|].
    rewrite Hb. rewrite <- (length_bits_of l W). apply firstn_all.
Qed.

Lemma pairwise_free_nodes : forall L, elabs_ok L ->
  pairwise_free (map (fun x => canon (e_label x)) L) = true -> NoDup (map e_label L) /\ pfree L.
Proof.
  induction L as [|x r IH]; intros Hok H.
  - split; [constructor | intros a b []].
  - cbn [map pairwise_free] in H. apply andb_true_iff in H. destruct H as [H1 H2].
    assert (Hokr : elabs_ok r) by (intros z Hz; apply Hok; right; exact Hz).
    destruct (IH Hokr H2) as [Nd Pf].
    destruct (Hok x (or_introl eq_refl)) as [Wx Cx].
    assert (Hx : forall y, In y r -> prefixb (bits_of (e_label x)) (bits_of (e_label y)) = false /\
                                     prefixb (bits_of (e_label y)) (bits_of (e_label x)) = false).
    { intros y Hy. destruct (Hok y (or_intror Hy)) as [Wy Cy]. rewrite forallb_forall in H1.
      specialize (H1 (canon (e_label y)) ltac:(apply in_map_iff; exists y; split; [reflexivity | exact Hy])).
      rewrite !canon_id in H1 by assumption. apply andb_true_iff in H1. destruct H1 as [A B].
      apply negb_true_iff in A, B. rewrite is_prefix_of_spec in A, B by assumption. split; assumption. }
    split.
    + cbn [map]. constructor; [|exact Nd]. intros Hin. apply in_map_iff in Hin. destruct Hin as (y & Ey & Hy).
      destruct (Hx y Hy) as [A _]. rewrite Ey, prefixb_refl in A. discriminate.
    + intros a b Ha Hb Hp. destruct Ha as [<-|Ha]; destruct Hb as [<-|Hb].
      * reflexivity.
      * destruct (Hx b Hb) as [A _]. congruence.
      * destruct (Hx a Ha) as [_ A]. congruence.
      * apply Pf; assumption.
Qed.

Lemma NoDup_app_l {X} (l l' : list X) : NoDup (l ++ l') -> NoDup l.
Proof.
  induction l as [|x l IH]; intros H; [constructor|]. cbn [app] in H. inversion H as [|? ? Hn Hd]; subst.
  constructor; [|apply IH; exact Hd]. intros Hin. apply Hn. apply in_or_app. left. exact Hin.
Qed.

Lemma nodes_ok_app_l A B : nodes_ok (A ++ B) -> nodes_ok A.
Proof.
  intros (Hok & Nd & Pf). split; [|split].
  - intros x Hx. apply Hok. apply in_or_app. left. exact Hx.
  - rewrite map_app in Nd. apply NoDup_app_l in Nd. exact Nd.
  - intros x y Hx Hy. apply Pf; apply in_or_app; left; assumption.
Qed.

(* a prefix-free list holding the zero-length label holds nothing else *)
Lemma empty_label_alone L x : nodes_ok L -> In x L -> bits_of (e_label x) = [] -> L = [x].
Proof.
  intros (Hok & Nd & Pf) Hx Ex.
  assert (Hall : forall y, In y L -> e_label y = e_label x).
  { intros y Hy. symmetry. apply Pf; try assumption. rewrite Ex. reflexivity. }
  destruct L as [|a [|b r]]; [destruct Hx| |].
  - destruct Hx as [->|[]]. reflexivity.
  - exfalso. cbn [map] in Nd. inversion Nd as [|? ? Hn _]; subst. apply Hn. left.
    rewrite (Hall a (or_introl eq_refl)), (Hall b (or_intror (or_introl eq_refl))). reflexivity.
Qed.

Lemma all_or_some_empty (L : list elem) :
  (forall x, In x L -> bits_of (e_label x) <> []) \/ (exists x, In x L /\ bits_of (e_label x) = []).
Proof.
  induction L as [|a r IH]; [left; intros x []|].
  destruct (bits_of (e_label a)) as [|b0 bs] eqn:E; [right; exists a; split; [left; reflexivity | exact E]|].
  destruct IH as [IH|(x & Hx & Ex)]; [left | right; exists x; split; [right; exact Hx | exact Ex]].
  intros x [<-|Hx]; [rewrite E; discriminate | apply IH; exact Hx].
Qed.

(* ------------------------------------------------------------------ hash equality reflects structure *)
Section Sound.
  Variable cfg : config.
  Variable Bad : Prop.
  Hypothesis B : Binding cfg Bad.

  Lemma hv_node we l le mde a b :
    hashval cfg we (Node l le mde (Some a) (Some b)) =
    c_parent_hash cfg (node_value cfg we a) (lvalue cfg (tlabel a)) (node_value cfg we b) (lvalue cfg (tlabel b)).
  Proof. destruct a, b; reflexivity. Qed.

  Lemma nv_D32 we t : tree_ok t -> D32 (node_value cfg we t).
  Proof.
    destruct t as [l v e|l le mde a b]; cbn [node_value tree_ok]; intros H.
    - destruct we; [apply (b_leaf_D32 _ _ B) | apply H].
    - cbn [hashval]. destruct a, b; first [apply (b_parent_D32 _ _ B) | apply (b_empty_root_D32 _ _ B)].
  Qed.

  Lemma WF_LW l : WF l -> LW l.
  Proof. intros W. destruct (WF_parts l W) as (A & C & D). split; [exact A|]. split; [exact D|]. assert (2 ^ 32 = 4294967296) by reflexivity. lia. Qed.

  Lemma wf_sub_tree_ok t : wf_sub t = true -> (forall y, In y (leaves t) -> D32 (lf_value y)) -> tree_ok t.
  Proof.
    induction t as [l v e|l le mde a b IHa IHb] using tree_ind'; intros W HD.
    - cbn [tree_ok tlabel]. split; [apply WF_LW; apply (wf_sub_label _ W) | apply (HD (LF l v e)); left; reflexivity].
    - pose proof (wf_sub_label _ W) as [Wl _]. destruct (wf_sub_node _ _ _ _ _ W) as (a' & b' & -> & -> & _ & _ & _ & _ & Wa & Wb).
      cbn [tree_ok tlabel]. split; [apply WF_LW; exact Wl|]. split.
      + apply (IHa a' eq_refl Wa). intros y Hy. apply HD. cbn [leaves]. apply in_or_app. left. exact Hy.
      + apply (IHb b' eq_refl Wb). intros y Hy. apply HD. cbn [leaves]. apply in_or_app. right. exact Hy.
  Qed.

  (* R: an auditor-mode tree (leaf values are the hashes the proof claims); T: a directory tree *)
  Fixpoint Abs (R T : tree) : Prop :=
    match R with
    | Leaf l v _ => tlabel T = l /\ node_value cfg true T = v
    | Node l _ _ (Some a) (Some b) =>
      match T with
      | Node l' _ _ (Some a') (Some b') => l = l' /\ Abs a a' /\ Abs b b'
      | _ => False
      end
    | _ => False
    end.

  Lemma value_abs : forall R T,
    wf_sub R = true -> tree_ok R -> wf_sub T = true -> tree_ok T -> tlabel R = tlabel T ->
    node_value cfg false R = node_value cfg true T -> Abs R T \/ Bad.
  Proof.
    induction R as [l v e|l le mde a b IHa IHb] using tree_ind'; intros T WR OR WT OT EL EV.
    - left. cbn [Abs]. cbn [tlabel] in EL. cbn [node_value] in EV. split; [symmetry; exact EL | symmetry; exact EV].
    - destruct (wf_sub_node _ _ _ _ _ WR) as (a0 & b0 & -> & -> & _ & _ & _ & _ & Wa & Wb).
      cbn [tree_ok] in OR. destruct OR as (Ll & Oa & Ob).
      cbn [node_value] in EV. rewrite hv_node in EV.
      destruct T as [l' v' e'|l' le' mde' a' b'].
      + right. cbn [node_value] in EV. cbn [tree_ok] in OT. destruct OT as [_ Dv].
        eapply (b_leaf_not_parent _ _ B); [exact Dv | | | | | symmetry; exact EV];
          first [apply nv_D32; assumption | apply tree_ok_label; assumption].
      + destruct (wf_sub_node _ _ _ _ _ WT) as (a1 & b1 & -> & -> & _ & _ & _ & _ & Wa1 & Wb1).
        cbn [tree_ok] in OT. destruct OT as (Ll' & Oa1 & Ob1).
        cbn [node_value] in EV. rewrite hv_node in EV.
        apply (b_parent_inj _ _ B) in EV; try (apply nv_D32; assumption); try (apply tree_ok_label; assumption).
        destruct EV as [(V1 & L1 & V2 & L2)|]; [|right; assumption].
        apply (b_lvalue_inj _ _ B) in L1; try (apply tree_ok_label; assumption).
        apply (b_lvalue_inj _ _ B) in L2; try (apply tree_ok_label; assumption).
        destruct L1 as [L1|]; [|right; assumption]. destruct L2 as [L2|]; [|right; assumption].
        destruct (IHa a0 eq_refl a1 Wa Oa Wa1 Oa1 L1 V1) as [Aa|]; [|right; assumption].
        destruct (IHb b0 eq_refl b1 Wb Ob Wb1 Ob1 L2 V2) as [Ab|]; [|right; assumption].
        left. cbn [Abs]. cbn [tlabel] in EL. split; [exact EL|]. split; assumption.
  Qed.

  Lemma Sub_leaves_in A t : Sub A t -> forall y, In y (leaves A) -> In y (leaves t).
  Proof.
    induction 1 as [t|A l le mde a b HS IH|A l le mde a b HS IH]; intros y Hy; [exact Hy| |].
    - cbn [leaves]. apply in_or_app. left. apply IH. exact Hy.
    - cbn [leaves]. apply in_or_app. right. apply IH. exact Hy.
  Qed.

  (* every leaf of T lies below the image of some leaf of R *)
  Lemma abs_cover : forall R T, Abs R T -> wf_sub T = true ->
    forall y, In y (leaves T) ->
    exists l v e A, In (LF l v e) (leaves R) /\ Sub A T /\ wf_sub A = true /\ tlabel A = l /\ node_value cfg true A = v /\ In y (leaves A).
  Proof.
    induction R as [l v e|l le mde a b IHa IHb] using tree_ind'; intros T HA WT y Hy.
    - cbn [Abs] in HA. destruct HA as [E1 E2]. exists l, v, e, T. split; [left; reflexivity|]. split; [apply Sub_refl|]. auto.
    - destruct a as [a0|]; [|destruct HA]. destruct b as [b0|]; [|destruct HA].
      destruct T as [|l' le' mde' [a1|] [b1|]]; try (cbn [Abs] in HA; destruct HA; fail).
      cbn [Abs] in HA. destruct HA as (_ & Aa & Ab).
      destruct (wf_sub_node _ _ _ _ _ WT) as (a2 & b2 & Ea & Eb & _ & _ & _ & _ & Wa & Wb). injection Ea as <-. injection Eb as <-.
      cbn [leaves] in Hy. apply in_app_or in Hy. destruct Hy as [Hy|Hy].
      + destruct (IHa a0 eq_refl a1 Aa Wa y Hy) as (l0 & v0 & e0 & A & H1 & H2 & H3 & H4 & H5 & H6).
        exists l0, v0, e0, A. split; [cbn [leaves]; apply in_or_app; left; exact H1|]. split; [apply Sub_l; exact H2|]. auto.
      + destruct (IHb b0 eq_refl b1 Ab Wb y Hy) as (l0 & v0 & e0 & A & H1 & H2 & H3 & H4 & H5 & H6).
        exists l0, v0, e0, A. split; [cbn [leaves]; apply in_or_app; right; exact H1|]. split; [apply Sub_r; exact H2|]. auto.
  Qed.

  (* every leaf of R has an image in T *)
  Lemma abs_image : forall R T, Abs R T -> wf_sub T = true ->
    forall l v e, In (LF l v e) (leaves R) ->
    exists A, Sub A T /\ wf_sub A = true /\ tlabel A = l /\ node_value cfg true A = v.
  Proof.
    induction R as [l v e|l le mde a b IHa IHb] using tree_ind'; intros T HA WT l0 v0 e0 Hy.
    - cbn [Abs] in HA. destruct HA as [E1 E2]. destruct Hy as [Hy|[]]. injection Hy as <- <- <-.
      exists T. split; [apply Sub_refl|]. auto.
    - destruct a as [a0|]; [|destruct HA]. destruct b as [b0|]; [|destruct HA].
      destruct T as [|l' le' mde' [a1|] [b1|]]; try (cbn [Abs] in HA; destruct HA; fail).
      cbn [Abs] in HA. destruct HA as (_ & Aa & Ab).
      destruct (wf_sub_node _ _ _ _ _ WT) as (a2 & b2 & Ea & Eb & _ & _ & _ & _ & Wa & Wb). injection Ea as <-. injection Eb as <-.
      cbn [leaves] in Hy. apply in_app_or in Hy. destruct Hy as [Hy|Hy].
      + destruct (IHa a0 eq_refl a1 Aa Wa l0 v0 e0 Hy) as (A & H2 & H3 & H4 & H5).
        exists A. split; [apply Sub_l; exact H2|]. auto.
      + destruct (IHb b0 eq_refl b1 Ab Wb l0 v0 e0 Hy) as (A & H2 & H3 & H4 & H5).
        exists A. split; [apply Sub_r; exact H2|]. auto.
  Qed.

  Definition epochs_ok (t : tree) : Prop := forall y, In y (leaves t) -> lf_epoch y < 2 ^ 64.

  (* two directory subtrees with one label and one value have the same leaves *)
  Lemma value_eq_leaves : forall A A',
    wf_sub A = true -> tree_ok A -> epochs_ok A -> wf_sub A' = true -> tree_ok A' -> epochs_ok A' ->
    tlabel A = tlabel A' -> node_value cfg true A = node_value cfg true A' -> leaves A = leaves A' \/ Bad.
  Proof.
    induction A as [l v e|l le mde a b IHa IHb] using tree_ind'; intros A' WA OA EA WA' OA' EA' EL EV.
    - destruct A' as [l' v' e'|l' le' mde' a' b'].
      + cbn [node_value] in EV. cbn [tree_ok] in OA, OA'.
        apply (b_leaf_inj _ _ B) in EV; [| apply OA | apply OA' | apply (EA (LF l v e)); left; reflexivity | apply (EA' (LF l' v' e')); left; reflexivity].
        destruct EV as [[-> ->]|]; [|right; assumption]. cbn [tlabel] in EL. subst l'. left. reflexivity.
      + right. destruct (wf_sub_node _ _ _ _ _ WA') as (a1 & b1 & -> & -> & _ & _ & _ & _ & Wa1 & Wb1).
        cbn [tree_ok] in OA, OA'. destruct OA' as (_ & Oa1 & Ob1).
        cbn [node_value] in EV. rewrite hv_node in EV.
        eapply (b_leaf_not_parent _ _ B); [apply OA | | | | | exact EV];
          first [apply nv_D32; assumption | apply tree_ok_label; assumption].
    - destruct (wf_sub_node _ _ _ _ _ WA) as (a0 & b0 & -> & -> & _ & _ & _ & _ & Wa & Wb).
      cbn [tree_ok] in OA. destruct OA as (_ & Oa & Ob).
      cbn [node_value] in EV. rewrite hv_node in EV.
      assert (Ea0 : epochs_ok a0) by (intros y Hy; apply EA; cbn [leaves]; apply in_or_app; left; exact Hy).
      assert (Eb0 : epochs_ok b0) by (intros y Hy; apply EA; cbn [leaves]; apply in_or_app; right; exact Hy).
      destruct A' as [l' v' e'|l' le' mde' a' b'].
      + right. cbn [node_value] in EV. cbn [tree_ok] in OA'.
        eapply (b_leaf_not_parent _ _ B); [apply OA' | | | | | symmetry; exact EV];
          first [apply nv_D32; assumption | apply tree_ok_label; assumption].
      + destruct (wf_sub_node _ _ _ _ _ WA') as (a1 & b1 & -> & -> & _ & _ & _ & _ & Wa1 & Wb1).
        cbn [tree_ok] in OA'. destruct OA' as (_ & Oa1 & Ob1).
        assert (Ea1 : epochs_ok a1) by (intros y Hy; apply EA'; cbn [leaves]; apply in_or_app; left; exact Hy).
        assert (Eb1 : epochs_ok b1) by (intros y Hy; apply EA'; cbn [leaves]; apply in_or_app; right; exact Hy).
        cbn [node_value] in EV. rewrite hv_node in EV.
        apply (b_parent_inj _ _ B) in EV; try (apply nv_D32; assumption); try (apply tree_ok_label; assumption).
        destruct EV as [(V1 & L1 & V2 & L2)|]; [|right; assumption].
        apply (b_lvalue_inj _ _ B) in L1; try (apply tree_ok_label; assumption).
        apply (b_lvalue_inj _ _ B) in L2; try (apply tree_ok_label; assumption).
        destruct L1 as [L1|]; [|right; assumption]. destruct L2 as [L2|]; [|right; assumption].
        destruct (IHa a0 eq_refl a1 Wa Oa Ea0 Wa1 Oa1 Ea1 L1 V1) as [Aa|]; [|right; assumption].
        destruct (IHb b0 eq_refl b1 Wb Ob Eb0 Wb1 Ob1 Eb1 L2 V2) as [Ab|]; [|right; assumption].
        left. cbn [leaves]. rewrite Aa, Ab. reflexivity.
  Qed.
End Sound.

(* ------------------------------------------------------------------ the root, and one audited step *)
Section Step.
  Variable cfg : config.
  Variable Bad : Prop.
  Hypothesis B : Binding cfg Bad.

  Definition slotv (we : bool) (o : option tree) : bytes := match o with Some c => node_value cfg we c | None => c_empty_node_hash cfg end.
  Definition slotl (o : option tree) : nlabel := match o with Some c => tlabel c | None => c_empty_label cfg end.

  Lemma hv_root we l le mde a b : (a <> None \/ b <> None) ->
    hashval cfg we (Node l le mde a b) = c_parent_hash cfg (slotv we a) (lvalue cfg (slotl a)) (slotv we b) (lvalue cfg (slotl b)).
  Proof.
    intros H. unfold slotv, slotl, node_value. destruct a as [[?|?]|], b as [[?|?]|]; cbn [hashval]; try reflexivity.
    destruct H; congruence.
  Qed.

  Definition slot_abs (r t : option tree) : Prop :=
    match r, t with None, None => True | Some a, Some a' => Abs cfg a a' | _, _ => False end.
  Definition root_abs (R T : tree) : Prop :=
    match R, T with Node _ _ _ ra rb, Node _ _ _ ta tb => slot_abs ra ta /\ slot_abs rb tb | _, _ => False end.

  Definition oslot_ok (o : option tree) : Prop := match o with Some c => wf_sub c = true /\ tree_ok c | None => True end.

  Lemma slotv_D32 we o : oslot_ok o -> D32 (slotv we o).
  Proof. destruct o as [c|]; cbn [slotv oslot_ok]; intros H; [apply (nv_D32 cfg Bad B); apply H | apply (b_empty_node_D32 _ _ B)]. Qed.
  Lemma slotl_LW o : oslot_ok o -> LW (slotl o).
  Proof. destruct o as [c|]; cbn [slotl oslot_ok]; intros H; [apply tree_ok_label; apply H | apply (b_empty_label_LW _ _ B)]. Qed.

  Lemma slot_match r t : oslot_ok r -> oslot_ok t -> slotl r = slotl t -> slotv false r = slotv true t -> slot_abs r t \/ Bad.
  Proof.
    destruct r as [r|], t as [t|]; cbn [oslot_ok slotl slotv slot_abs]; intros Hr Ht EL EV.
    - apply (value_abs cfg Bad B); try apply Hr; try apply Ht; assumption.
    - exfalso. destruct Hr as [Wr _]. destruct (wf_sub_label _ Wr) as [_ C]. rewrite EL in C.
      rewrite (b_empty_label_not_canonical _ _ B) in C. discriminate.
    - exfalso. destruct Ht as [Wt _]. destruct (wf_sub_label _ Wt) as [_ C]. rewrite <- EL in C.
      rewrite (b_empty_label_not_canonical _ _ B) in C. discriminate.
    - left. exact I.
  Qed.

  Lemma wf_child_sub l dir o : wf_child l dir o = true -> match o with Some c => wf_sub c = true | None => True end.
  Proof. destruct o as [c|]; [|intros _; exact I]. cbn [wf_child]. intros H. apply andb_true_iff in H. apply H. Qed.

  Lemma wf_root_parts t : wf_root t = true ->
    exists le mde a b, t = Node nl_root le mde a b /\
      (match a with Some c => wf_sub c = true | None => True end) /\ (match b with Some c => wf_sub c = true | None => True end).
  Proof.
    destruct t as [|l le mde a b]; cbn [wf_root]; [discriminate|]. intros H.
    apply andb_true_iff in H. destruct H as [H Hb]. apply andb_true_iff in H. destruct H as [Hl Ha].
    apply nl_eqb_eq in Hl. subst l. exists le, mde, a, b. split; [reflexivity|].
    split; [apply (wf_child_sub nl_root false a Ha) | apply (wf_child_sub nl_root true b Hb)].
  Qed.

  Theorem root_hash_abs R T :
    wf_root R = true -> tree_ok R -> wf_root T = true -> tree_ok T ->
    root_hash cfg false R = root_hash cfg true T -> root_abs R T \/ Bad.
  Proof.
    intros WR OR WT OT E.
    destruct (wf_root_parts R WR) as (le & mde & ra & rb & -> & Wra & Wrb).
    destruct (wf_root_parts T WT) as (le' & mde' & ta & tb & -> & Wta & Wtb).
    cbn [tree_ok] in OR, OT. destruct OR as (_ & Ora & Orb). destruct OT as (_ & Ota & Otb).
    assert (Sra : oslot_ok ra) by (destruct ra; cbn [oslot_ok]; auto).
    assert (Srb : oslot_ok rb) by (destruct rb; cbn [oslot_ok]; auto).
    assert (Sta : oslot_ok ta) by (destruct ta; cbn [oslot_ok]; auto).
    assert (Stb : oslot_ok tb) by (destruct tb; cbn [oslot_ok]; auto).
    unfold root_hash in E.
    assert (DR : D32 (hashval cfg false (Node nl_root le mde ra rb))).
    { change (D32 (node_value cfg false (Node nl_root le mde ra rb))). apply (nv_D32 cfg Bad B). cbn [tree_ok]. split; [apply (WF_LW); apply nl_root_wf|]. split; assumption. }
    assert (DT : D32 (hashval cfg true (Node nl_root le' mde' ta tb))).
    { change (D32 (node_value cfg true (Node nl_root le' mde' ta tb))). apply (nv_D32 cfg Bad B). cbn [tree_ok]. split; [apply (WF_LW); apply nl_root_wf|]. split; assumption. }
    apply (b_root_inj _ _ B) in E; [|exact DR|exact DT]. destruct E as [E|]; [|right; assumption].
    assert (CR : (ra = None /\ rb = None) \/ (ra <> None \/ rb <> None)).
    { destruct ra; [right; left; discriminate|]. destruct rb; [right; right; discriminate|]. left. split; reflexivity. }
    assert (CT : (ta = None /\ tb = None) \/ (ta <> None \/ tb <> None)).
    { destruct ta; [right; left; discriminate|]. destruct tb; [right; right; discriminate|]. left. split; reflexivity. }
    destruct CR as [[-> ->]|CR]; destruct CT as [[-> ->]|CT].
    - left. cbn [root_abs slot_abs]. split; exact I.
    - right. rewrite (hv_root true _ _ _ _ _ CT) in E. cbn [hashval] in E.
      eapply (b_empty_root_not_parent _ _ B); [| | | | exact E]; first [apply slotv_D32; assumption | apply slotl_LW; assumption].
    - right. rewrite (hv_root false _ _ _ _ _ CR) in E. cbn [hashval] in E.
      eapply (b_empty_root_not_parent _ _ B); [| | | | symmetry; exact E]; first [apply slotv_D32; assumption | apply slotl_LW; assumption].
    - rewrite (hv_root false _ _ _ _ _ CR), (hv_root true _ _ _ _ _ CT) in E.
      apply (b_parent_inj _ _ B) in E; try (apply slotv_D32; assumption); try (apply slotl_LW; assumption).
      destruct E as [(V1 & L1 & V2 & L2)|]; [|right; assumption].
      apply (b_lvalue_inj _ _ B) in L1; try (apply slotl_LW; assumption).
      apply (b_lvalue_inj _ _ B) in L2; try (apply slotl_LW; assumption).
      destruct L1 as [L1|]; [|right; assumption]. destruct L2 as [L2|]; [|right; assumption].
      destruct (slot_match ra ta Sra Sta L1 V1) as [A1|]; [|right; assumption].
      destruct (slot_match rb tb Srb Stb L2 V2) as [A2|]; [|right; assumption].
      left. cbn [root_abs]. split; assumption.
  Qed.

  Lemma wf_root_tree_ok t : wf_root t = true -> (forall y, In y (leaves t) -> D32 (lf_value y)) -> tree_ok t.
  Proof.
    intros W HD. destruct (wf_root_parts t W) as (le & mde & a & b & -> & Wa & Wb).
    cbn [tree_ok tlabel]. split; [apply WF_LW; apply nl_root_wf|]. split.
    - destruct a as [c|]; [|exact I]. apply wf_sub_tree_ok; [exact Wa|]. intros y Hy. apply HD. cbn [leaves]. apply in_or_app. left. exact Hy.
    - destruct b as [c|]; [|exact I]. apply wf_sub_tree_ok; [exact Wb|]. intros y Hy. apply HD. cbn [leaves]. apply in_or_app. right. exact Hy.
  Qed.

  Lemma root_cover R T : root_abs R T -> wf_root T = true ->
    forall y, In y (leaves T) ->
    exists l v e A, In (LF l v e) (leaves R) /\ Sub A T /\ wf_sub A = true /\ tlabel A = l /\ node_value cfg true A = v /\ In y (leaves A).
  Proof.
    intros HA WT y Hy. destruct (wf_root_parts T WT) as (le' & mde' & ta & tb & -> & Wta & Wtb).
    destruct R as [|lr le mde ra rb]; [destruct HA|]. cbn [root_abs] in HA. destruct HA as [Ha Hb].
    cbn [leaves] in Hy. apply in_app_or in Hy. destruct Hy as [Hy|Hy].
    - destruct ta as [t|]; [|destruct Hy]. destruct ra as [r|]; [|destruct Ha]. cbn [slot_abs] in Ha.
      destruct (abs_cover cfg r t Ha Wta y Hy) as (l0 & v0 & e0 & A & H1 & H2 & H3 & H4 & H5 & H6).
      exists l0, v0, e0, A. split; [cbn [leaves]; apply in_or_app; left; exact H1|]. split; [apply Sub_l; exact H2|]. auto.
    - destruct tb as [t|]; [|destruct Hy]. destruct rb as [r|]; [|destruct Hb]. cbn [slot_abs] in Hb.
      destruct (abs_cover cfg r t Hb Wtb y Hy) as (l0 & v0 & e0 & A & H1 & H2 & H3 & H4 & H5 & H6).
      exists l0, v0, e0, A. split; [cbn [leaves]; apply in_or_app; right; exact H1|]. split; [apply Sub_r; exact H2|]. auto.
  Qed.

  Lemma root_image R T : root_abs R T -> wf_root T = true ->
    forall l v e, In (LF l v e) (leaves R) ->
    exists A, Sub A T /\ wf_sub A = true /\ tlabel A = l /\ node_value cfg true A = v.
  Proof.
    intros HA WT l0 v0 e0 Hy. destruct (wf_root_parts T WT) as (le' & mde' & ta & tb & -> & Wta & Wtb).
    destruct R as [|lr le mde ra rb]; [destruct HA|]. cbn [root_abs] in HA. destruct HA as [Ha Hb].
    cbn [leaves] in Hy. apply in_app_or in Hy. destruct Hy as [Hy|Hy].
    - destruct ra as [r|]; [|destruct Hy]. destruct ta as [t|]; [|destruct Ha]. cbn [slot_abs] in Ha.
      destruct (abs_image cfg r t Ha Wta l0 v0 e0 Hy) as (A & H2 & H3 & H4 & H5).
      exists A. split; [apply Sub_l; exact H2|]. auto.
    - destruct rb as [r|]; [|destruct Hy]. destruct tb as [t|]; [|destruct Hb]. cbn [slot_abs] in Hb.
      destruct (abs_image cfg r t Hb Wtb l0 v0 e0 Hy) as (A & H2 & H3 & H4 & H5).
      exists A. split; [apply Sub_r; exact H2|]. auto.
  Qed.

  Lemma root_abs_empty T : root_abs empty_root T -> leaves T = [].
  Proof.
    destruct T as [|l le mde ta tb]; [intros []|]. cbn [root_abs empty_root]. intros [Ha Hb].
    destruct ta; [destruct Ha|]. destruct tb; [destruct Hb|]. reflexivity.
  Qed.
End Step.

(* ------------------------------------------------------------------ one accepted single-epoch proof *)
Section Audit.
  Variable cfg : config.
  Variable Bad : Prop.
  Hypothesis B : Binding cfg Bad.

  Definition troot_ok (T : tree) : Prop := tree_ok T /\ wf_root T = true /\ epochs_ok T.

  (* what the Rust types guarantee about a proof (32-byte values and digests, NodeLabel), plus the
     one model-level premise: labels carry no stray bits beyond their length *)
  Definition proof_ok (p : list elem * list elem) : Prop :=
    elabs_ok (snd p ++ fst p) /\ (forall x, In x (snd p ++ fst p) -> D32 (e_value x)).

  Definition stamp (e : N) (x : elem) : elem := El (e_label x) (c_leaf_hash cfg (e_value x) e).

  Lemma empty_rebuild latest : batch_insert (c_empty_label cfg) (empty_root, latest, 1) [] = Some (empty_root, latest + 1, 1).
  Proof. reflexivity. Qed.

  Lemma empty_root_ok : wf_root empty_root = true /\ tree_ok empty_root.
  Proof. split; [reflexivity|]. cbn [tree_ok empty_root tlabel]. split; [apply WF_LW; apply nl_root_wf | split; exact I]. Qed.

  (* the two rebuilt trees and how they relate to the two real ones *)
  Lemma step_views ins unch T0 T1 e :
    troot_ok T0 -> troot_ok T1 -> proof_ok (ins, unch) ->
    verify_consecutive cfg true (ins, unch) (root_hash cfg true T0) (root_hash cfg true T1) e = true ->
    Bad \/ (leaves T0 = [] /\ leaves T1 = []) \/
    exists R0 R1 e1,
      Permutation (leaves R0) (map (lf_of 1) unch) /\
      Permutation (leaves R1) (map (lf_of e1) (unch ++ map (stamp e) ins)) /\
      root_abs cfg R0 T0 /\ root_abs cfg R1 T1.
  Proof.
    intros (O0 & W0 & E0) (O1 & W1 & E1) (Hok & HD) H.
    unfold verify_consecutive in H. apply andb_true_iff in H. destruct H as [H A1]. apply andb_true_iff in H. destruct H as [Hpf A0].
    apply opt_bytes_eqb_eq in A0, A1. unfold rebuild_root in A0, A1. fold (stamp e) in A1.
    cbn [fst snd] in Hok, HD.
    set (L' := unch ++ map (stamp e) ins) in *.
    assert (Hok' : elabs_ok L').
    { intros x Hx. unfold L' in Hx. apply in_app_or in Hx. destruct Hx as [Hx|Hx].
      - apply Hok. apply in_or_app. left. exact Hx.
      - apply in_map_iff in Hx. destruct Hx as (i & <- & Hi). cbn [stamp e_label]. apply Hok. apply in_or_app. right. exact Hi. }
    assert (HD' : forall x, In x L' -> D32 (e_value x)).
    { intros x Hx. unfold L' in Hx. apply in_app_or in Hx. destruct Hx as [Hx|Hx].
      - apply HD. apply in_or_app. left. exact Hx.
      - apply in_map_iff in Hx. destruct Hx as (i & <- & Hi). cbn [stamp e_value]. apply (b_leaf_D32 _ _ B). }
    assert (Hno : nodes_ok L').
    { unfold prefix_free_labels in Hpf. apply andb_true_iff in Hpf. destruct Hpf as [_ Hpf].
      assert (Em : map (fun x => canon (e_label x)) (unch ++ ins) = map (fun x => canon (e_label x)) L').
      { unfold L'. rewrite !map_app, map_map. reflexivity. }
      rewrite Em in Hpf. destruct (pairwise_free_nodes L' Hok' Hpf) as [Nd Pf]. split; [exact Hok'|]. split; assumption. }
    pose proof (nodes_ok_app_l _ _ Hno) as Hnu.
    pose proof (b_empty_label_not_canonical _ _ B) as Ce.
    destruct (all_or_some_empty L') as [Hnz|(x & Hx & Ex)].
    - (* the general case *)
      assert (Hnzu : forall x, In x unch -> bits_of (e_label x) <> []) by (intros x Hx; apply Hnz; apply in_or_app; left; exact Hx).
      destruct (rebuild_spec (c_empty_label cfg) Ce 0 unch Hnu Hnzu) as (R0 & n0 & EB0 & WR0 & P0).
      destruct (rebuild_spec (c_empty_label cfg) Ce (e - 1) L' Hno Hnz) as (R1 & n1 & EB1 & WR1 & P1).
      rewrite EB0 in A0. rewrite EB1 in A1. injection A0 as A0. injection A1 as A1.
      assert (OR0 : tree_ok R0).
      { apply wf_root_tree_ok; [exact WR0|]. intros y Hy. apply (Permutation_in _ P0) in Hy. apply in_map_iff in Hy.
        destruct Hy as (u & <- & Hu). cbn [lf_of lf_value]. apply HD. apply in_or_app. left. exact Hu. }
      assert (OR1 : tree_ok R1).
      { apply wf_root_tree_ok; [exact WR1|]. intros y Hy. apply (Permutation_in _ P1) in Hy. apply in_map_iff in Hy.
        destruct Hy as (u & <- & Hu). cbn [lf_of lf_value]. apply HD'. exact Hu. }
      destruct (root_hash_abs cfg Bad B R0 T0 WR0 OR0 W0 O0 A0) as [Ab0|]; [|left; assumption].
      destruct (root_hash_abs cfg Bad B R1 T1 WR1 OR1 W1 O1 A1) as [Ab1|]; [|left; assumption].
      right. right. exists R0, R1, (e - 1 + 1). auto.
    - (* a node with the zero-length label: both rebuilt trees are the empty tree *)
      pose proof (empty_label_alone L' x Hno Hx Ex) as EL.
      assert (Wx : WF (e_label x)) by (apply Hok'; exact Hx).
      assert (EB1 : batch_insert (c_empty_label cfg) (empty_root, e - 1, 1) L' = Some (empty_root, e - 1 + 1, 1)).
      { rewrite EL. apply rebuild_root_only; assumption. }
      assert (EB0 : batch_insert (c_empty_label cfg) (empty_root, 0, 1) unch = Some (empty_root, 0 + 1, 1)).
      { destruct unch as [|u r].
        - apply empty_rebuild.
        - unfold L' in EL. cbn [app] in EL. injection EL as -> EL'. apply app_eq_nil in EL'. destruct EL' as [-> _].
          apply rebuild_root_only; assumption. }
      rewrite EB0 in A0. rewrite EB1 in A1. injection A0 as A0. injection A1 as A1.
      destruct empty_root_ok as [We Oe].
      destruct (root_hash_abs cfg Bad B empty_root T0 We Oe W0 O0 A0) as [Ab0|]; [|left; assumption].
      destruct (root_hash_abs cfg Bad B empty_root T1 We Oe W1 O1 A1) as [Ab1|]; [|left; assumption].
      right. left. split; apply (root_abs_empty cfg); assumption.
  Qed.

  Lemma sub_epochs_ok A T : Sub A T -> epochs_ok T -> epochs_ok A.
  Proof. intros S E y Hy. apply E. apply (Sub_leaves_in A T S). exact Hy. Qed.

  (* NOTHING REMOVED OR ALTERED: every leaf the start hash commits to - label, value and epoch - is
     committed to by the end hash *)
  Theorem audit_step_keeps ins unch T0 T1 e :
    troot_ok T0 -> troot_ok T1 -> proof_ok (ins, unch) ->
    verify_consecutive cfg true (ins, unch) (root_hash cfg true T0) (root_hash cfg true T1) e = true ->
    (forall y, In y (leaves T0) -> In y (leaves T1)) \/ Bad.
  Proof.
    intros HT0 HT1 Hp H. destruct (step_views ins unch T0 T1 e HT0 HT1 Hp H) as [Hb|[[L0 L1]|(R0 & R1 & e1 & P0 & P1 & Ab0 & Ab1)]].
    - right. exact Hb.
    - left. intros y Hy. rewrite L0 in Hy. destruct Hy.
    - destruct HT0 as (O0 & W0 & E0). destruct HT1 as (O1 & W1 & E1).
      (* classical-free: decide leaf by leaf, collecting a possible bad event *)
      assert (G : forall y, In y (leaves T0) -> In y (leaves T1) \/ Bad).
      { intros y Hy.
        destruct (root_cover cfg R0 T0 Ab0 W0 y Hy) as (l & v & e0 & A & HR & SA & WA & LA & VA & YA).
        apply (Permutation_in _ P0) in HR. apply in_map_iff in HR. destruct HR as (u & Eu & Hu).
        unfold lf_of in Eu. injection Eu as El Ev Ee.
        assert (HR1 : In (LF l v e1) (leaves R1)).
        { apply (Permutation_in _ (Permutation_sym P1)). apply in_map_iff. exists u. split; [unfold lf_of; rewrite El, Ev; reflexivity|].
          apply in_or_app. left. exact Hu. }
        destruct (root_image cfg R1 T1 Ab1 W1 l v e1 HR1) as (A' & SA' & WA' & LA' & VA').
        destruct (value_eq_leaves cfg Bad B A A' WA (Sub_ok _ _ SA O0) (sub_epochs_ok _ _ SA E0) WA' (Sub_ok _ _ SA' O1) (sub_epochs_ok _ _ SA' E1)
                    ltac:(congruence) ltac:(congruence)) as [EQ|]; [|right; assumption].
        left. apply (Sub_leaves_in A' T1 SA'). rewrite <- EQ. exact YA. }
      clear - G. induction (leaves T0) as [|y r IH].
      + left. intros y [].
      + destruct (G y (or_introl eq_refl)) as [Hy|]; [|right; assumption].
        destruct IH as [IH|]; [intros z Hz; apply G; right; exact Hz | | right; assumption].
        left. intros z [<-|Hz]; [exact Hy | apply IH; exact Hz].
  Qed.

  (* NOTHING ELSE ADDED: a leaf the end hash commits to is a leaf of the start tree or one of the
     proof's inserted nodes, stamped with the end epoch *)
  Theorem audit_step_adds_only ins unch T0 T1 e :
    troot_ok T0 -> troot_ok T1 -> proof_ok (ins, unch) -> e < 2 ^ 64 ->
    verify_consecutive cfg true (ins, unch) (root_hash cfg true T0) (root_hash cfg true T1) e = true ->
    (forall y, In y (leaves T1) -> In y (leaves T0) \/ exists i, In i ins /\ y = LF (e_label i) (e_value i) e) \/ Bad.
  Proof.
    intros HT0 HT1 Hp He H. destruct (step_views ins unch T0 T1 e HT0 HT1 Hp H) as [Hb|[[L0 L1]|(R0 & R1 & e1 & P0 & P1 & Ab0 & Ab1)]].
    - right. exact Hb.
    - left. intros y Hy. rewrite L1 in Hy. destruct Hy.
    - destruct HT0 as (O0 & W0 & E0). destruct HT1 as (O1 & W1 & E1). destruct Hp as [Hok HD]. cbn [fst snd] in Hok, HD.
      assert (G : forall y, In y (leaves T1) -> (In y (leaves T0) \/ exists i, In i ins /\ y = LF (e_label i) (e_value i) e) \/ Bad).
      { intros y Hy.
        destruct (root_cover cfg R1 T1 Ab1 W1 y Hy) as (l & v & e0 & A' & HR & SA' & WA' & LA' & VA' & YA').
        apply (Permutation_in _ P1) in HR. apply in_map_iff in HR. destruct HR as (u & Eu & Hu).
        unfold lf_of in Eu. injection Eu as El Ev Ee. apply in_app_or in Hu. destruct Hu as [Hu|Hu].
        - (* below an unchanged node: the same subtree hangs in the start tree *)
          assert (HR0 : In (LF l v 1) (leaves R0)).
          { apply (Permutation_in _ (Permutation_sym P0)). apply in_map_iff. exists u. split; [unfold lf_of; rewrite El, Ev; reflexivity | exact Hu]. }
          destruct (root_image cfg R0 T0 Ab0 W0 l v 1 HR0) as (A & SA & WA & LA & VA).
          destruct (value_eq_leaves cfg Bad B A' A WA' (Sub_ok _ _ SA' O1) (sub_epochs_ok _ _ SA' E1) WA (Sub_ok _ _ SA O0) (sub_epochs_ok _ _ SA E0)
                      ltac:(congruence) ltac:(congruence)) as [EQ|]; [|right; assumption].
          left. left. apply (Sub_leaves_in A T0 SA). rewrite <- EQ. exact YA'.
        - (* below an inserted node: it is that node, a leaf with the end epoch *)
          apply in_map_iff in Hu. destruct Hu as (i & <- & Hi). cbn [stamp e_label e_value] in El, Ev.
          pose proof (Sub_ok _ _ SA' O1) as OA'.
          destruct A' as [l' v' e'|l' le' mde' a' b'].
          + cbn [node_value] in VA'. cbn [tlabel] in LA'. cbn [tree_ok] in OA'. rewrite <- Ev in VA'.
            apply (b_leaf_inj _ _ B) in VA'; [| apply OA' | apply HD; apply in_or_app; right; exact Hi
                                              | apply (sub_epochs_ok _ _ SA' E1 (LF l' v' e')); left; reflexivity | exact He].
            destruct VA' as [[-> ->]|]; [|right; assumption].
            left. right. exists i. split; [exact Hi|]. destruct YA' as [<-|[]]. rewrite LA', <- El. reflexivity.
          + right. destruct (wf_sub_node _ _ _ _ _ WA') as (a1 & b1 & -> & -> & _ & _ & _ & _ & Wa1 & Wb1).
            cbn [tree_ok] in OA'. destruct OA' as (_ & Oa1 & Ob1).
            cbn [node_value] in VA'. rewrite hv_node in VA'. rewrite <- Ev in VA'.
            eapply (b_leaf_not_parent _ _ B); [apply HD; apply in_or_app; right; exact Hi | | | | | symmetry; exact VA'];
              first [apply (nv_D32 cfg Bad B); assumption | apply tree_ok_label; assumption]. }
      clear - G. induction (leaves T1) as [|y r IH].
      + left. intros y [].
      + destruct (G y (or_introl eq_refl)) as [Hy|]; [|right; assumption].
        destruct IH as [IH|]; [intros z Hz; apply G; right; exact Hz | | right; assumption].
        left. intros z [<-|Hz]; [exact Hy | apply IH; exact Hz].
  Qed.
End Audit.

(* ------------------------------------------------------------------ chains of epochs *)
Section Chain.
  Variable cfg : config.
  Variable Bad : Prop.
  Hypothesis B : Binding cfg Bad.

  Fixpoint grows (Ts : list tree) : Prop :=
    match Ts with
    | T0 :: ((T1 :: _) as r) => (forall y, In y (leaves T0) -> In y (leaves T1)) /\ grows r
    | _ => True
    end.

  Theorem audit_chain_keeps : forall Ts proofs epochs,
    Forall (troot_ok) Ts -> Forall proof_ok proofs ->
    verify_chain cfg true (map (root_hash cfg true) Ts) proofs epochs = true ->
    grows Ts \/ Bad.
  Proof.
    induction Ts as [|T0 r IH]; intros proofs epochs HT HP H; [left; exact I|].
    destruct r as [|T1 r']; [left; exact I|].
    cbn [map verify_chain] in H. destruct proofs as [|p ps]; [discriminate|]. destruct epochs as [|e es]; [discriminate|].
    apply andb_true_iff in H. destruct H as [H1 H2].
    inversion HT as [|? ? HT0 HTr]; subst. inversion HP as [|? ? Hp Hps]; subst.
    assert (HT1 : troot_ok T1) by (inversion HTr; assumption).
    destruct p as [ins unch].
    destruct (audit_step_keeps cfg Bad B ins unch T0 T1 (e + 1) HT0 HT1 Hp H1) as [K|]; [|right; assumption].
    destruct (IH ps es HTr Hps H2) as [G|]; [|right; assumption].
    left. cbn [grows]. split; assumption.
  Qed.

  (* the first tree's leaves are in every later tree *)
  Lemma grows_first : forall r T0, grows (T0 :: r) -> forall T, In T r -> forall y, In y (leaves T0) -> In y (leaves T).
  Proof.
    induction r as [|T1 r IH]; intros T0 G T HT y Hy; [destruct HT|].
    cbn [grows] in G. destruct G as [G1 G2]. destruct HT as [<-|HT]; [apply G1; exact Hy|].
    apply (IH T1 G2 T HT). apply G1. exact Hy.
  Qed.

  (* audit_verify over the whole range: whatever the first root hash commits to, the last one does *)
  Theorem audit_verify_keeps Ts p :
    Forall (troot_ok) Ts -> Forall proof_ok (ap_proofs p) ->
    audit_verify_gen cfg true (map (root_hash cfg true) Ts) p = true ->
    (forall T0 r, Ts = T0 :: r -> forall T, In T r -> forall y, In y (leaves T0) -> In y (leaves T)) \/ Bad.
  Proof.
    intros HT HP H. unfold audit_verify_gen in H. apply andb_true_iff in H. destruct H as [_ H].
    destruct (audit_chain_keeps Ts _ _ HT HP H) as [G|]; [|right; assumption].
    left. intros T0 r -> T HTr y Hy. apply (grows_first r T0 G T HTr y Hy).
  Qed.
End Chain.
