(* C12: the protocol skeleton of concurrent publishes (directory.rs:104-265 after fix F7) as a
   small-step system under an arbitrary schedule.  A publish (i) takes the publish mutex (tokio
   Mutex: FIFO hand-over), (ii) reads the current epoch e, (iii) commits epoch e+1 and releases the
   mutex, (iv) returns e+1.  Every step of the model is one or more storage operations of the
   implementation; the X-sched correspondence drives the real code under explicit schedules.
   Executable model and its theorem in one file (the model is tiny). *)
From Coq Require Import List Bool Arith NArith Lia.
Import ListNotations.
Open Scope N_scope.

Inductive pc := Idle | Waiting | Locked | Read (e : N) | Done (r : N).

Record world := W {
  w_epoch : N;
  w_log : list (N * nat);       (* (epoch, task) in commit order *)
  w_holder : option nat;
  w_queue : list nat }.

Definition upd (pcs : nat -> pc) (i : nat) (p : pc) : nat -> pc := fun j => if Nat.eqb j i then p else pcs j.

(* [locking] = false is the code before fix F7: no mutex at all *)
Definition step (locking : bool) (s : world * (nat -> pc)) (i : nat) : world * (nat -> pc) :=
  let '(w, pcs) := s in
  match pcs i with
  | Idle =>
    if negb locking then (w, upd pcs i Locked)
    else match w_holder w, w_queue w with
         | None, [] => (W (w_epoch w) (w_log w) (Some i) [], upd pcs i Locked)
         | _, _ => (W (w_epoch w) (w_log w) (w_holder w) (w_queue w ++ [i]), upd pcs i Waiting)
         end
  | Waiting =>
    match w_holder w with
    | Some h => if Nat.eqb h i then (w, upd pcs i Locked) else s
    | None => s
    end
  | Locked => (w, upd pcs i (Read (w_epoch w)))
  | Read e =>
    let log' := w_log w ++ [(e + 1, i)] in
    let w' := if negb locking then W (e + 1) log' (w_holder w) (w_queue w)
              else match w_queue w with
                   | [] => W (e + 1) log' None []
                   | j :: q => W (e + 1) log' (Some j) q
                   end in
    (w', upd pcs i (Done (e + 1)))
  | Done _ => s
  end.

Definition run (locking : bool) (e0 : N) (sched : list nat) : world * (nat -> pc) :=
  fold_left (step locking) sched (W e0 [] None [], fun _ => Idle).

(* epochs returned by the tasks 0..n-1 (0 = not finished) *)
Definition results (s : world * (nat -> pc)) (n : nat) : list N :=
  map (fun i => match snd s i with Done r => r | _ => 0 end) (seq 0 n).

(* ------------------------------------------------------------------ the invariant *)

Inductive log_ok (e0 : N) : list (N * nat) -> N -> Prop :=
| lo_nil : log_ok e0 [] e0
| lo_snoc l e i : log_ok e0 l e -> log_ok e0 (l ++ [(e + 1, i)]) (e + 1).

Definition in_cs (p : pc) : Prop := p = Locked \/ exists e, p = Read e.

Record Inv (e0 : N) (w : world) (pcs : nat -> pc) : Prop := {
  i_cs : forall j, in_cs (pcs j) -> w_holder w = Some j;
  i_read : forall j e, pcs j = Read e -> e = w_epoch w;
  i_log : log_ok e0 (w_log w) (w_epoch w);
  i_done : forall j r, pcs j = Done r <-> In (r, j) (w_log w);
  i_queue : forall j, In j (w_queue w) -> pcs j = Waiting;
  i_free : w_holder w = None -> w_queue w = [];
  i_holder : forall h, w_holder w = Some h -> pcs h = Waiting \/ in_cs (pcs h);
  i_nodup : NoDup (w_queue w);
  i_hq : forall h, w_holder w = Some h -> ~ In h (w_queue w) }.

Lemma upd_same pcs i p : upd pcs i p i = p.
Proof. unfold upd. now rewrite Nat.eqb_refl. Qed.
Lemma upd_other pcs i p j : j <> i -> upd pcs i p j = pcs j.
Proof. intros H. unfold upd. destruct (Nat.eqb_spec j i); [contradiction|reflexivity]. Qed.

Lemma log_ok_bounds e0 l e : log_ok e0 l e -> e0 <= e /\ forall r j, In (r, j) l -> e0 < r /\ r <= e.
Proof.
  induction 1 as [|l e i H IH]; [split; [lia|intros r j []]|].
  destruct IH as [I1 I2]. split; [lia|]. intros r j Hin. apply in_app_or in Hin. destruct Hin as [Hin|[[= <- <-]|[]]].
  - specialize (I2 r j Hin). lia.
  - lia.
Qed.

Lemma log_ok_functional e0 l e : log_ok e0 l e -> forall r j k, In (r, j) l -> In (r, k) l -> j = k.
Proof.
  induction 1 as [|l e i H IH]; intros r j k Hj Hk; [destruct Hj|].
  destruct (log_ok_bounds _ _ _ H) as [_ B].
  apply in_app_or in Hj. apply in_app_or in Hk.
  destruct Hj as [Hj|[Ej|[]]]; destruct Hk as [Hk|[Ek|[]]].
  - eapply IH; eauto.
  - exfalso. inversion Ek; subst. specialize (B _ _ Hj). lia.
  - exfalso. inversion Ej; subst. specialize (B _ _ Hk). lia.
  - congruence.
Qed.

Lemma log_ok_length e0 l e : log_ok e0 l e -> e = e0 + N.of_nat (length l).
Proof. induction 1 as [|l e i H IH]; [simpl; lia|]. rewrite app_length. simpl. lia. Qed.

Lemma NoDup_app_snoc {A} (l : list A) x : NoDup l /\ ~ In x l -> NoDup (l ++ [x]).
Proof.
  intros [Hd Hx]. induction l as [|y l IH]; simpl; [constructor; [intros []|constructor]|].
  inversion Hd as [|? ? Hy Hd']; subst. constructor.
  - intros Hin. apply in_app_or in Hin. destruct Hin as [Hin|[<-|[]]]; [contradiction|]. apply Hx. now left.
  - apply IH; [exact Hd'|]. intros Hin. apply Hx. now right.
Qed.

Lemma Inv_init e0 : Inv e0 (W e0 [] None []) (fun _ => Idle).
Proof.
  constructor; cbn; try (intros; discriminate).
  - intros j [H|[e H]]; discriminate.
  - constructor.
  - intros j r. split; [discriminate|intros []].
  - intros j [].
  - reflexivity.
  - constructor.
Qed.

Ltac split_task j i := destruct (Nat.eq_dec j i) as [->|?]; [rewrite ?upd_same in *|rewrite ?upd_other in * by assumption].

Lemma not_cs_idle p : p = Idle \/ p = Waiting \/ (exists r, p = Done r) -> ~ in_cs p.
Proof. intros [->|[->|[r ->]]] [H|[e H]]; discriminate. Qed.

Lemma Inv_step e0 w pcs i : Inv e0 w pcs -> Inv e0 (fst (step true (w, pcs) i)) (snd (step true (w, pcs) i)).
Proof.
  intros I. unfold step. cbn [negb]. destruct (pcs i) eqn:Ei.
  - (* Idle *)
    destruct (w_holder w) as [h|] eqn:Eh; [|destruct (w_queue w) as [|q0 q] eqn:Eq].
    + (* the mutex is held: enqueue *)
      cbn [fst snd]. constructor; cbn [w_holder w_queue w_epoch w_log].
      * intros j Hj. split_task j i; [destruct Hj as [Hj|[e Hj]]; discriminate|]. rewrite <- Eh. now apply (i_cs _ _ _ I).
      * intros j e Hj. split_task j i; [discriminate|]. now apply (i_read _ _ _ I j).
      * apply (i_log _ _ _ I).
      * intros j r. split_task j i; [|apply (i_done _ _ _ I)]. split; [discriminate|]. intros Hin. apply (i_done _ _ _ I) in Hin. congruence.
      * intros j Hj. apply in_app_or in Hj. destruct Hj as [Hj|[<-|[]]]; [|apply upd_same].
        pose proof (i_queue _ _ _ I j Hj) as Hw. split_task j i; [congruence|exact Hw].
      * try rewrite Eh; discriminate.
      * intros h' Hh'. try rewrite Eh in Hh'. injection Hh' as <-. pose proof (i_holder _ _ _ I h Eh) as Hh.
        split_task h i; [|exact Hh]. exfalso. destruct Hh as [Hh|[Hh|[e Hh]]]; congruence.
      * apply NoDup_app_snoc. split; [apply (i_nodup _ _ _ I)|]. intros Hin. apply (i_queue _ _ _ I) in Hin. congruence.
      * intros h' Hh' Hin. try rewrite Eh in Hh'. injection Hh' as <-. apply in_app_or in Hin. destruct Hin as [Hin|[<-|[]]].
        -- exact (i_hq _ _ _ I h Eh Hin).
        -- destruct (i_holder _ _ _ I i Eh) as [Hh|[Hh|[e Hh]]]; congruence.
    + (* free: acquire *)
      cbn [fst snd]. constructor; cbn [w_holder w_queue w_epoch w_log].
      * intros j Hj. split_task j i; [reflexivity|]. apply (i_cs _ _ _ I) in Hj. congruence.
      * intros j e Hj. split_task j i; [discriminate|]. now apply (i_read _ _ _ I j).
      * apply (i_log _ _ _ I).
      * intros j r. split_task j i; [|apply (i_done _ _ _ I)]. split; [discriminate|]. intros Hin. apply (i_done _ _ _ I) in Hin. congruence.
      * intros j [].
      * reflexivity.
      * intros h [= <-]. right. left. apply upd_same.
      * constructor.
      * intros h _ [].
    + exfalso. pose proof (i_free _ _ _ I Eh). congruence.
  - (* Waiting *)
    destruct (w_holder w) as [h|] eqn:Eh; [|exact I].
    destruct (Nat.eqb_spec h i) as [->|Hne]; [|exact I].
    cbn [fst snd]. constructor.
    + intros j Hj. split_task j i; [exact Eh|]. now apply (i_cs _ _ _ I).
    + intros j e Hj. split_task j i; [discriminate|]. now apply (i_read _ _ _ I j).
    + apply (i_log _ _ _ I).
    + intros j r. split_task j i; [|apply (i_done _ _ _ I)]. split; [discriminate|]. intros Hin. apply (i_done _ _ _ I) in Hin. congruence.
    + intros j Hj. pose proof (i_queue _ _ _ I j Hj) as Hw. split_task j i; [|exact Hw]. exfalso. exact (i_hq _ _ _ I i Eh Hj).
    + apply (i_free _ _ _ I).
    + intros h' Hh'. try rewrite Eh in Hh'. injection Hh' as <-. right. left. apply upd_same.
    + apply (i_nodup _ _ _ I).
    + apply (i_hq _ _ _ I).
  - (* Locked: read the epoch *)
    cbn [fst snd]. assert (Eh : w_holder w = Some i) by (apply (i_cs _ _ _ I); left; exact Ei).
    constructor.
    + intros j Hj. split_task j i; [exact Eh|]. now apply (i_cs _ _ _ I).
    + intros j e Hj. split_task j i; [congruence|]. now apply (i_read _ _ _ I j).
    + apply (i_log _ _ _ I).
    + intros j r. split_task j i; [|apply (i_done _ _ _ I)]. split; [discriminate|]. intros Hin. apply (i_done _ _ _ I) in Hin. congruence.
    + intros j Hj. pose proof (i_queue _ _ _ I j Hj) as Hw. split_task j i; [congruence|exact Hw].
    + apply (i_free _ _ _ I).
    + intros h' Hh'. try rewrite Eh in Hh'. injection Hh' as <-. right. right. exists (w_epoch w). apply upd_same.
    + apply (i_nodup _ _ _ I).
    + apply (i_hq _ _ _ I).
  - (* Read e: commit epoch e+1 and release *)
    assert (Ee : e = w_epoch w) by (apply (i_read _ _ _ I i); exact Ei).
    assert (Eh : w_holder w = Some i) by (apply (i_cs _ _ _ I); right; eauto).
    assert (Hothers : forall j, j <> i -> ~ in_cs (pcs j)).
    { intros j Hj Hc. apply (i_cs _ _ _ I) in Hc. congruence. }
    assert (Hlog : log_ok e0 (w_log w ++ [(e + 1, i)]) (e + 1)) by (rewrite Ee; constructor; apply (i_log _ _ _ I)).
    assert (Hdone : forall j r, upd pcs i (Done (e + 1)) j = Done r <-> In (r, j) (w_log w ++ [(e + 1, i)])).
    { intros j r. split_task j i.
      - split; [intros [= <-]; apply in_or_app; right; now left|].
        intros Hin. apply in_app_or in Hin. destruct Hin as [Hin|[[= <-]|[]]]; [|reflexivity].
        apply (i_done _ _ _ I) in Hin. congruence.
      - rewrite (i_done _ _ _ I). split; [intros Hin; apply in_or_app; now left|].
        intros Hin. apply in_app_or in Hin. destruct Hin as [Hin|[[= _ E]|[]]]; [exact Hin|congruence]. }
    assert (Hnocs : forall j, ~ in_cs (upd pcs i (Done (e + 1)) j)).
    { intros j. split_task j i; [apply not_cs_idle; right; right; eauto|now apply Hothers]. }
    destruct (w_queue w) as [|j0 q] eqn:Eq; cbn [fst snd].
    + constructor; cbn [w_holder w_queue w_epoch w_log].
      * intros j Hj. exfalso. exact (Hnocs j Hj).
      * intros j e' Hj. exfalso. apply (Hnocs j). right. eauto.
      * exact Hlog.
      * exact Hdone.
      * intros j [].
      * reflexivity.
      * intros h Hh. discriminate.
      * constructor.
      * intros h Hh. discriminate.
    + pose proof (i_nodup _ _ _ I) as Hnd. rewrite Eq in Hnd. inversion Hnd as [|? ? Hj0 Hq]; subst.
      assert (Hj0w : pcs j0 = Waiting) by (apply (i_queue _ _ _ I); rewrite Eq; now left).
      assert (Hj0i : j0 <> i) by congruence.
      constructor; cbn [w_holder w_queue w_epoch w_log].
      * intros j Hj. exfalso. exact (Hnocs j Hj).
      * intros j e' Hj. exfalso. apply (Hnocs j). right. eauto.
      * exact Hlog.
      * exact Hdone.
      * intros j Hj. assert (Hw : pcs j = Waiting) by (apply (i_queue _ _ _ I); rewrite Eq; now right).
        split_task j i; [congruence|exact Hw].
      * discriminate.
      * intros h Hh. injection Hh as <-. left. rewrite upd_other by exact Hj0i. exact Hj0w.
      * exact Hq.
      * intros h Hh. injection Hh as <-. exact Hj0.
  - exact I.
Qed.

Lemma Inv_run e0 sched : let s := run true e0 sched in Inv e0 (fst s) (snd s).
Proof.
  unfold run. set (s0 := (W e0 [] None [], fun _ : nat => Idle)).
  assert (H0 : Inv e0 (fst s0) (snd s0)) by apply Inv_init. clearbody s0.
  revert s0 H0. induction sched as [|i sched IH]; intros s0 H0; simpl; [exact H0|].
  apply IH. destruct s0 as [w pcs]. apply Inv_step. exact H0.
Qed.

(* C12: under every schedule, the epochs returned by finished publishes are pairwise distinct, lie
   in (e0, current epoch], and the current epoch is e0 + the number of commits: the successful
   publishes receive the distinct consecutive epochs e0+1 ... in commit order *)
Theorem publishes_serialize e0 sched :
  let s := run true e0 sched in
  (forall j k r, snd s j = Done r -> snd s k = Done r -> j = k) /\
  (forall j r, snd s j = Done r -> e0 < r /\ r <= w_epoch (fst s)) /\
  w_epoch (fst s) = e0 + N.of_nat (length (w_log (fst s))) /\
  (forall r, e0 < r -> r <= w_epoch (fst s) -> exists j, snd s j = Done r).
Proof.
  intros s. pose proof (Inv_run e0 sched) as I. fold s in I. cbv zeta in I.
  split; [|split; [|split]].
  - intros j k r Hj Hk. apply (i_done _ _ _ I) in Hj, Hk. eapply log_ok_functional; eauto using (i_log _ _ _ I).
  - intros j r Hj. apply (i_done _ _ _ I) in Hj. destruct (log_ok_bounds _ _ _ (i_log _ _ _ I)) as [_ B]. exact (B _ _ Hj).
  - apply log_ok_length. apply (i_log _ _ _ I).
  - intros r H1 H2. assert (Hex : exists j, In (r, j) (w_log (fst s))).
    { pose proof (i_log _ _ _ I) as HL. revert r H1 H2. induction HL as [|l e i HL IH]; intros r H1 H2; [lia|].
      destruct (N.eq_dec r (e + 1)) as [->|Hne].
      - exists i. apply in_or_app. right. now left.
      - destruct (IH r H1 ltac:(lia)) as [j Hj]. exists j. apply in_or_app. now left. }
    destruct Hex as [j Hj]. exists j. now apply (i_done _ _ _ I).
Qed.

(* before fix F7 (no mutex) two overlapping publishes both return the same epoch *)
Theorem without_mutex_refuted : results (run false 2 [0; 1; 0; 1; 0; 1]%nat) 2 = [3; 3].
Proof. vm_compute. reflexivity. Qed.

Example with_mutex_example : results (run true 2 [0; 1; 0; 1; 0; 1; 1; 1; 1]%nat) 2 = [3; 4].
Proof. vm_compute. reflexivity. Qed.
