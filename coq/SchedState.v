(* C12, second half: what the concurrent publishes do to the directory.  The protocol model of
   Sched.v is extended with the directory's state: a publish reads the state together with the epoch
   (after taking the mutex), computes its commit from what it read, and commits; [apply d i] is the
   state after task i's batch has been applied to state d - any function.  Theorems: the extension
   does not change the protocol (its projection IS Sched.run); under every schedule the state is
   the result of applying the committed batches one after another in epoch order, and the state each
   commit produced (whose epoch and root hash the call returns) is the state of the serial
   application up to and including that batch; without the mutex an update is lost. *)
From Coq Require Import List Bool Arith NArith Lia.
From Akd Require Import Sched.
Import ListNotations.
Open Scope N_scope.

Section State.
  Variable St : Type.
  Variable apply : St -> nat -> St.

  (* protocol state; current directory state; what each task read; (ghost) the state each commit
     produced, in commit order *)
  Record xstate := X { x_w : world; x_pcs : nat -> pc; x_d : St; x_snap : nat -> St; x_hist : list St }.

  Definition supd (snap : nat -> St) (i : nat) (d : St) : nat -> St := fun j => if Nat.eqb j i then d else snap j.

  Definition step_st (locking : bool) (x : xstate) (i : nat) : xstate :=
    let s' := step locking (x_w x, x_pcs x) i in
    match x_pcs x i with
    | Locked => X (fst s') (snd s') (x_d x) (supd (x_snap x) i (x_d x)) (x_hist x)
    | Read _ => let d' := apply (x_snap x i) i in X (fst s') (snd s') d' (x_snap x) (x_hist x ++ [d'])
    | _ => X (fst s') (snd s') (x_d x) (x_snap x) (x_hist x)
    end.

  Definition xinit (e0 : N) (d0 : St) : xstate := X (W e0 [] None []) (fun _ => Idle) d0 (fun _ => d0) [].
  Definition run_st (locking : bool) (e0 : N) (d0 : St) (sched : list nat) : xstate :=
    fold_left (step_st locking) sched (xinit e0 d0).

  Definition proto (x : xstate) : world * (nat -> pc) := (x_w x, x_pcs x).

  (* the protocol is untouched *)
  Lemma step_st_proto locking x i : proto (step_st locking x i) = step locking (proto x) i.
  Proof.
    unfold step_st, proto. destruct (x_pcs x i); cbn [x_w x_pcs];
      destruct (step locking (x_w x, x_pcs x) i); reflexivity.
  Qed.

  Theorem run_st_projects locking e0 d0 sched : proto (run_st locking e0 d0 sched) = run locking e0 sched.
  Proof.
    unfold run_st, run.
    assert (G : forall sched x, proto (fold_left (step_st locking) sched x) = fold_left (step locking) sched (proto x)).
    { induction sched0 as [|i rest IH]; intros x; [reflexivity|]. cbn [fold_left]. rewrite IH, step_st_proto. reflexivity. }
    rewrite G. reflexivity.
  Qed.

  (* the committed batches, in commit (= epoch) order *)
  Definition committed_tasks (w : world) : list nat := map snd (w_log w).

  (* the states of the serial application: after the first batch, after the first two, ... *)
  Fixpoint serial_states (d : St) (tasks : list nat) : list St :=
    match tasks with
    | [] => []
    | i :: rest => apply d i :: serial_states (apply d i) rest
    end.

  Lemma serial_states_app d l1 l2 : serial_states d (l1 ++ l2) = serial_states d l1 ++ serial_states (fold_left apply l1 d) l2.
  Proof. revert d. induction l1 as [|i l1 IH]; intros d; [reflexivity|]. cbn [app serial_states fold_left]. rewrite IH. reflexivity. Qed.

  Record SInv (e0 : N) (d0 : St) (x : xstate) : Prop := {
    s_inv : Inv e0 (x_w x) (x_pcs x);
    s_snap : forall j e, x_pcs x j = Read e -> x_snap x j = x_d x;
    s_state : x_d x = fold_left apply (committed_tasks (x_w x)) d0;
    s_hist : x_hist x = serial_states d0 (committed_tasks (x_w x)) }.

  Lemma SInv_init e0 d0 : SInv e0 d0 (xinit e0 d0).
  Proof. constructor; cbn; [apply Inv_init | discriminate | reflexivity | reflexivity]. Qed.

  Lemma SInv_step e0 d0 x i : SInv e0 d0 x -> SInv e0 d0 (step_st true x i).
  Proof.
    destruct x as [w pcs d snap hist]. intros [I Sn Sd Sh]. cbn [x_w x_pcs x_d x_snap x_hist] in *.
    pose proof (Inv_step e0 w pcs i I) as I'.
    unfold step_st. cbn [x_w x_pcs x_d x_snap x_hist].
    destruct (pcs i) as [| | |e|r] eqn:Ei.
    - (* Idle *)
      constructor; cbn [x_w x_pcs x_d x_snap x_hist]; [exact I' | | | ].
      + intros j e Hj. apply (Sn j e). revert Hj. unfold step. rewrite Ei. cbn [negb].
        destruct (w_holder w), (w_queue w); cbn [snd]; unfold upd; destruct (Nat.eqb j i); try discriminate; auto.
      + revert Sd. unfold step. rewrite Ei. cbn [negb]. destruct (w_holder w), (w_queue w); cbn [fst]; auto.
      + revert Sh. unfold step. rewrite Ei. cbn [negb]. destruct (w_holder w), (w_queue w); cbn [fst]; auto.
    - (* Waiting *)
      constructor; cbn [x_w x_pcs x_d x_snap x_hist]; [exact I' | | | ].
      + intros j e Hj. apply (Sn j e). revert Hj. unfold step. rewrite Ei.
        destruct (w_holder w) as [h|]; [|auto]. destruct (Nat.eqb h i); [|auto].
        cbn [snd]. unfold upd. destruct (Nat.eqb j i); [discriminate | auto].
      + revert Sd. unfold step. rewrite Ei. destruct (w_holder w) as [h|]; [|auto]. destruct (Nat.eqb h i); auto.
      + revert Sh. unfold step. rewrite Ei. destruct (w_holder w) as [h|]; [|auto]. destruct (Nat.eqb h i); auto.
    - (* Locked: reads epoch and state *)
      constructor; cbn [x_w x_pcs x_d x_snap x_hist]; [exact I' | | | ].
      + intros j e Hj. unfold supd. destruct (Nat.eqb_spec j i) as [->|Nj]; [reflexivity|].
        apply (Sn j e). revert Hj. unfold step. rewrite Ei. cbn [snd]. rewrite upd_other by exact Nj. auto.
      + revert Sd. unfold step. rewrite Ei. cbn [fst]. auto.
      + revert Sh. unfold step. rewrite Ei. cbn [fst]. auto.
    - (* Read e: commits what it computed from its snapshot *)
      assert (Hsn : snap i = d) by (apply (Sn i e Ei)).
      assert (Hh : w_holder w = Some i) by (apply (i_cs _ _ _ I i); right; exists e; exact Ei).
      constructor; cbn [x_w x_pcs x_d x_snap x_hist]; [exact I' | | | ].
      + intros j e' Hj. exfalso. revert Hj. unfold step. rewrite Ei. cbn [negb snd].
        unfold upd. destruct (Nat.eqb_spec j i) as [->|Nj]; [discriminate|]. intros Hj.
        assert (Hhj : w_holder w = Some j) by (apply (i_cs _ _ _ I j); right; exists e'; exact Hj).
        congruence.
      + rewrite Hsn, Sd. unfold step. rewrite Ei. cbn [negb fst].
        destruct (w_queue w); unfold committed_tasks; cbn [w_log fst]; rewrite map_app, fold_left_app; reflexivity.
      + rewrite Hsn, Sh, Sd. unfold step. rewrite Ei. cbn [negb fst].
        destruct (w_queue w); unfold committed_tasks; cbn [w_log fst]; rewrite map_app, serial_states_app; reflexivity.
    - (* Done *)
      constructor; cbn [x_w x_pcs x_d x_snap x_hist]; [exact I' | | | ].
      + intros j e Hj. apply (Sn j e). revert Hj. unfold step. rewrite Ei. auto.
      + revert Sd. unfold step. rewrite Ei. auto.
      + revert Sh. unfold step. rewrite Ei. auto.
  Qed.

  Theorem publishes_apply_in_epoch_order e0 d0 sched :
    let x := run_st true e0 d0 sched in
    x_d x = fold_left apply (committed_tasks (x_w x)) d0 /\
    x_hist x = serial_states d0 (committed_tasks (x_w x)) /\
    log_ok e0 (w_log (x_w x)) (w_epoch (x_w x)).
  Proof.
    cbv zeta. unfold run_st.
    assert (G : forall sched x, SInv e0 d0 x -> SInv e0 d0 (fold_left (step_st true) sched x)).
    { induction sched0 as [|i rest IH]; intros x Hx; [exact Hx|]. cbn [fold_left]. apply IH. apply SInv_step. exact Hx. }
    pose proof (G sched _ (SInv_init e0 d0)) as [I _ Sd Sh]. split; [exact Sd|]. split; [exact Sh | apply (i_log _ _ _ I)].
  Qed.
End State.

(* without the mutex (the code before the fix) an update is lost: both tasks compute from the state
   they read at the start, the second commit overwrites the first *)
Theorem without_mutex_update_lost :
  let x := run_st (list nat) (fun d i => d ++ [i]) false 2 [] [0; 1; 0; 1; 0; 1]%nat in
  committed_tasks (x_w _ x) = [0; 1]%nat /\ x_d _ x = [1]%nat.
Proof. vm_compute. split; reflexivity. Qed.
