(* C12, second half: what the concurrent publishes do to the directory.  The protocol model of
   Sched.v is extended with the directory's state: a publish reads the state together with the epoch
   (after taking the mutex), computes its commit from what it read, and commits; [apply d i] is the
   state after task i's batch has been applied to state d - any function.  Theorems: the extension
   does not change the protocol (its projection IS Sched.run), and under every schedule the state is
   the result of applying the committed batches one after another in epoch order; without the mutex
   an update is lost. *)
From Coq Require Import List Bool Arith NArith Lia.
From Akd Require Import Sched.
Import ListNotations.
Open Scope N_scope.

Section State.
  Variable St : Type.
  Variable apply : St -> nat -> St.

  Definition xstate : Type := (world * (nat -> pc)) * (St * (nat -> St)).

  Definition supd (snap : nat -> St) (i : nat) (d : St) : nat -> St := fun j => if Nat.eqb j i then d else snap j.

  Definition step_st (locking : bool) (x : xstate) (i : nat) : xstate :=
    let '(s, (d, snap)) := x in
    let s' := step locking s i in
    match snd s i with
    | Locked => (s', (d, supd snap i d))
    | Read _ => (s', (apply (snap i) i, snap))
    | _ => (s', (d, snap))
    end.

  Definition run_st (locking : bool) (e0 : N) (d0 : St) (sched : list nat) : xstate :=
    fold_left (step_st locking) sched ((W e0 [] None [], fun _ => Idle), (d0, fun _ => d0)).

  (* the protocol is untouched *)
  Lemma step_st_fst locking x i : fst (step_st locking x i) = step locking (fst x) i.
  Proof. destruct x as [s [d snap]]. unfold step_st. cbn [fst]. destruct (snd s i); reflexivity. Qed.

  Theorem run_st_projects locking e0 d0 sched : fst (run_st locking e0 d0 sched) = run locking e0 sched.
  Proof.
    unfold run_st, run.
    assert (G : forall sched x, fst (fold_left (step_st locking) sched x) = fold_left (step locking) sched (fst x)).
    { induction sched0 as [|i rest IH]; intros x; [reflexivity|]. cbn [fold_left]. rewrite IH, step_st_fst. reflexivity. }
    rewrite G. reflexivity.
  Qed.

  (* the committed batches, in commit (= epoch) order *)
  Definition committed_tasks (w : world) : list nat := map snd (w_log w).

  Record SInv (e0 : N) (d0 : St) (x : xstate) : Prop := {
    s_inv : Inv e0 (fst (fst x)) (snd (fst x));
    s_snap : forall j e, snd (fst x) j = Read e -> snd (snd x) j = fst (snd x);
    s_state : fst (snd x) = fold_left apply (committed_tasks (fst (fst x))) d0 }.

  Lemma SInv_init e0 d0 : SInv e0 d0 ((W e0 [] None [], fun _ => Idle), (d0, fun _ => d0)).
  Proof. constructor; cbn; [apply Inv_init | discriminate | reflexivity]. Qed.

  Lemma SInv_step e0 d0 x i : SInv e0 d0 x -> SInv e0 d0 (step_st true x i).
  Proof.
    destruct x as [[w pcs] [d snap]]. intros [I Sn Sd]. cbn [fst snd] in *.
    pose proof (Inv_step e0 w pcs i I) as I'.
    unfold step_st. cbn [snd].
    destruct (pcs i) as [| | |e|r] eqn:Ei.
    - (* Idle *)
      constructor; cbn [fst snd]; [exact I' | | ].
      + intros j e Hj. apply (Sn j e). revert Hj. unfold step. rewrite Ei. cbn [negb].
        destruct (w_holder w), (w_queue w); cbn [snd]; unfold upd; destruct (Nat.eqb j i); try discriminate; auto.
      + revert Sd. unfold step. rewrite Ei. cbn [negb]. destruct (w_holder w), (w_queue w); cbn [fst]; auto.
    - (* Waiting *)
      constructor; cbn [fst snd]; [exact I' | | ].
      + intros j e Hj. apply (Sn j e). revert Hj. unfold step. rewrite Ei.
        destruct (w_holder w) as [h|]; [|auto]. destruct (Nat.eqb h i); [|auto].
        cbn [snd]. unfold upd. destruct (Nat.eqb j i); [discriminate | auto].
      + revert Sd. unfold step. rewrite Ei. destruct (w_holder w) as [h|]; [|auto]. destruct (Nat.eqb h i); auto.
    - (* Locked: reads epoch and state *)
      constructor; cbn [fst snd]; [exact I' | | ].
      + intros j e Hj. unfold supd. destruct (Nat.eqb_spec j i) as [->|Nj]; [reflexivity|].
        apply (Sn j e). revert Hj. unfold step. rewrite Ei. cbn [snd]. rewrite upd_other by exact Nj. auto.
      + revert Sd. unfold step. rewrite Ei. cbn [fst]. auto.
    - (* Read e: commits what it computed from its snapshot *)
      assert (Hsn : snap i = d) by (apply (Sn i e Ei)).
      assert (Hh : w_holder w = Some i) by (apply (i_cs _ _ _ I i); right; exists e; exact Ei).
      constructor; cbn [fst snd]; [exact I' | | ].
      + intros j e' Hj. exfalso. revert Hj. unfold step. rewrite Ei. cbn [negb snd].
        unfold upd. destruct (Nat.eqb_spec j i) as [->|Nj]; [discriminate|]. intros Hj.
        assert (Hhj : w_holder w = Some j) by (apply (i_cs _ _ _ I j); right; exists e'; exact Hj).
        congruence.
      + rewrite Hsn, Sd. unfold step. rewrite Ei. cbn [negb fst].
        destruct (w_queue w); unfold committed_tasks; cbn [w_log fst]; rewrite map_app, fold_left_app; reflexivity.
    - (* Done *)
      constructor; cbn [fst snd]; [exact I' | | ].
      + intros j e Hj. apply (Sn j e). revert Hj. unfold step. rewrite Ei. auto.
      + revert Sd. unfold step. rewrite Ei. auto.
  Qed.

  Theorem publishes_apply_in_epoch_order e0 d0 sched :
    let x := run_st true e0 d0 sched in
    fst (snd x) = fold_left apply (committed_tasks (fst (fst x))) d0 /\
    log_ok e0 (w_log (fst (fst x))) (w_epoch (fst (fst x))).
  Proof.
    cbv zeta. unfold run_st.
    assert (G : forall sched x, SInv e0 d0 x -> SInv e0 d0 (fold_left (step_st true) sched x)).
    { induction sched0 as [|i rest IH]; intros x Hx; [exact Hx|]. cbn [fold_left]. apply IH. apply SInv_step. exact Hx. }
    pose proof (G sched _ (SInv_init e0 d0)) as [I _ Sd]. split; [exact Sd | apply (i_log _ _ _ I)].
  Qed.
End State.

(* without the mutex (the code before the fix) an update is lost: both tasks compute from the state
   they read at the start, the second commit overwrites the first *)
Theorem without_mutex_update_lost :
  let x := run_st (list nat) (fun d i => d ++ [i]) false 2 [] [0; 1; 0; 1; 0; 1]%nat in
  committed_tasks (fst (fst x)) = [0; 1]%nat /\ fst (snd x) = [1]%nat.
Proof. vm_compute. split; reflexivity. Qed.
