(* C12 - Concurrent publishes take effect one after another.
   Protocol model Sched.v (mutex with FIFO hand-over, read epoch, commit, release) under an
   arbitrary schedule; every model step is one or more storage operations of the implementation. *)
From Coq Require Import List Bool NArith.
From Akd Require Import Sched SchedState.
Import ListNotations.
Open Scope N_scope.

Theorem C12_publishes_serialize : forall e0 sched,
  let s := run true e0 sched in
  (forall j k r, snd s j = Done r -> snd s k = Done r -> j = k) /\
  (forall j r, snd s j = Done r -> e0 < r /\ r <= w_epoch (fst s)) /\
  w_epoch (fst s) = e0 + N.of_nat (length (w_log (fst s))) /\
  (forall r, e0 < r -> r <= w_epoch (fst s) -> exists j, snd s j = Done r).
Proof. exact publishes_serialize. Qed.
Print Assumptions C12_publishes_serialize.

(* the code before fix F7 (no mutex): two overlapping publishes both return epoch 3 *)
Theorem C12_without_mutex_refuted : results (run false 2 [0; 1; 0; 1; 0; 1]%nat) 2 = [3; 3].
Proof. exact without_mutex_refuted. Qed.
Print Assumptions C12_without_mutex_refuted.

(* ---- what the publishes do to the directory (SchedState.v): the protocol model extended with the
   directory's state; a publish computes its commit from the state it read after taking the mutex;
   [apply d i] (the state after task i's batch is applied to d) is ANY function *)

(* the extension leaves the protocol as it is: its projection is the run of the model that is tied to the code *)
Theorem C12_state_extension_projects : forall (St : Type) (apply : St -> nat -> St) locking e0 d0 sched,
  proto St (run_st St apply locking e0 d0 sched) = run locking e0 sched.
Proof. exact run_st_projects. Qed.
Print Assumptions C12_state_extension_projects.

(* for every schedule the state is the committed batches applied one after another, in epoch order,
   and the state each commit produced - whose (epoch, root hash) the call returns - is the state of
   that serial application up to and including its batch *)
Theorem C12_final_state_is_serial_application : forall (St : Type) (apply : St -> nat -> St) e0 d0 sched,
  let x := run_st St apply true e0 d0 sched in
  x_d St x = fold_left apply (committed_tasks (x_w St x)) d0 /\
  x_hist St x = serial_states St apply d0 (committed_tasks (x_w St x)) /\
  log_ok e0 (w_log (x_w St x)) (w_epoch (x_w St x)).
Proof. exact publishes_apply_in_epoch_order. Qed.
Print Assumptions C12_final_state_is_serial_application.

(* without the mutex an update is lost *)
Theorem C12_without_mutex_update_lost :
  let x := run_st (list nat) (fun d i => d ++ [i]%nat) false 2 [] [0; 1; 0; 1; 0; 1]%nat in
  committed_tasks (x_w _ x) = [0; 1]%nat /\ x_d _ x = [1]%nat.
Proof. exact without_mutex_update_lost. Qed.
Print Assumptions C12_without_mutex_update_lost.
