(* C12 - Concurrent publishes take effect one after another.
   Protocol model Sched.v (mutex with FIFO hand-over, read epoch, commit, release) under an
   arbitrary schedule; every model step is one or more storage operations of the implementation. *)
From Coq Require Import List Bool NArith.
From Akd Require Import Sched.
Import ListNotations.
Open Scope N_scope.

Theorem C12_publishes_serialize : forall e0 sched,
  let s := run true e0 sched in
  (forall j k r, snd s j = Done r -> snd s k = Done r -> j = k) /\
  (forall j r, snd s j = Done r -> e0 < r /\ r <= w_epoch (fst s)) /\
  w_epoch (fst s) = e0 + N.of_nat (length (w_log (fst s))) /\
  (forall r, e0 < r -> r <= w_epoch (fst s) -> exists j, snd s j = Done r).
Proof. exact publishes_serialize. Qed.
Print Assumptions C12_publishes_serialize.

(* the code before fix F7 (no mutex): two overlapping publishes both return epoch 3 *)
Theorem C12_without_mutex_refuted : results (run false 2 [0; 1; 0; 1; 0; 1]%nat) 2 = [3; 3].
Proof. exact without_mutex_refuted. Qed.
Print Assumptions C12_without_mutex_refuted.
