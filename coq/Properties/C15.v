(* C15 - Reads inside a storage transaction see pending writes exactly as after commit.
   [merged s] is the database as it will be once the log is committed. *)
From Coq Require Import List Bool NArith.
From Akd Require Import Manager ManagerFacts MgrBatch.
Import ListNotations.
Open Scope N_scope.

Theorem C15_get : forall s k, Inv s -> m_active s = true ->
  snd (get_record s k false) = match kget (merged s) k with Some r => Ok r | None => Err ENotFound end.
Proof. exact txn_get_is_committed_get. Qed.
Print Assumptions C15_get.

(* user-state queries (all five retrieval flags): the answer is selected from the committed set
   of the user's states; NotFound only when that set has nothing to select.  [sel] determines the
   answer uniquely because the states of one user have distinct epochs (they are keyed by
   (user, epoch)) and, for SpecificVersion, distinct versions on well-formed data. *)
Theorem C15_user_state : forall s u f x, Inv s -> m_active s = true -> rewrite_keeps_version s u ->
  snd (get_user_state s u f false) = Ok x -> sel f (user_states (merged s) u) x.
Proof. exact txn_user_state_sound. Qed.
Print Assumptions C15_user_state.

Theorem C15_user_state_notfound : forall s u f, Inv s -> m_active s = true ->
  snd (get_user_state s u f false) = Err ENotFound -> forall x, ~ sel f (user_states (merged s) u) x.
Proof. exact txn_user_state_notfound. Qed.
Print Assumptions C15_user_state_notfound.

Theorem C15_user_data : forall s u, Inv s -> m_active s = true ->
  exists l, snd (get_user_data s u false) = Ok l /\ forall v, In v l <-> In v (user_states (merged s) u).
Proof. exact txn_user_data. Qed.
Print Assumptions C15_user_data.

(* commit hands the database exactly the pending records, the epoch record last; afterwards the
   database is [merged s], the log is empty and no transaction is open *)
Theorem C15_commit : forall s, Inv s -> m_active s = true ->
  forall s' n, commit_transaction s false = (s', Ok n) ->
  let records := sort_by_priority (map snd (m_mods s)) in
  (forall k, kget (m_db s') k = kget (merged s) k) /\
  (records = [] \/ exists e num, last records (RNode 0 0) = RAzks e num) /\
  (forall r, In r records <-> In r (map snd (m_mods s))) /\ length records = length (m_mods s) /\
  m_active s' = false /\ m_mods s' = [].
Proof. exact commit_spec. Qed.
Print Assumptions C15_commit.

(* the behaviour of the code when the log holds no epoch record, stated rather than hidden *)
Theorem C15_commit_without_epoch_record : forall s, m_active s = true ->
  let records := sort_by_priority (map snd (m_mods s)) in
  records <> [] -> (forall e n, last records (RNode 0 0) <> RAzks e n) ->
  forall f, commit_transaction s f = (MS (m_db s) (m_cache s) false [] (m_ops s), Err ETransaction).
Proof. exact commit_without_epoch_record. Qed.
Print Assumptions C15_commit_without_epoch_record.

Theorem C15_rollback : forall s, m_active s = true ->
  rollback_transaction s = (MS (m_db s) (m_cache s) false [] (m_ops s), Ok tt).
Proof. exact rollback_spec. Qed.
Print Assumptions C15_rollback.

Theorem C15_begin_twice : forall s, m_active s = true -> snd (begin_transaction s) = false.
Proof. exact begin_twice_refused. Qed.
Print Assumptions C15_begin_twice.

(* batch reads: exactly the records the requested keys have in the database as it will be after the
   commit (keys without a record contribute nothing; the order is the code's: pending and cached
   records in request order, then the database's answers) *)
Theorem C15_batch_get : forall s ks, Inv s -> m_active s = true ->
  exists l, snd (batch_get s ks false) = Ok l /\
            forall r, In r l <-> exists k, In k ks /\ kget (merged s) k = Some r.
Proof. exact txn_batch_get_is_committed. Qed.
Print Assumptions C15_batch_get.

(* the bulk version query answers per user what the single query answers, when versions follow
   epochs among the user's stored and pending states (the bulk query can only compare versions) *)
Theorem C15_versions_as_single_query : forall s u f, versions_follow_epochs s u ->
  user_state_versions_one s u f =
  match snd (get_user_state s u f false) with Ok x => Some (vs_version x, vs_value x) | Err _ => None end.
Proof. exact versions_one_agrees. Qed.
Print Assumptions C15_versions_as_single_query.

Theorem C15_versions : forall s u f vv, Inv s -> m_active s = true -> rewrite_keeps_version s u ->
  versions_follow_epochs s u -> user_state_versions_one s u f = Some vv ->
  exists x, sel f (user_states (merged s) u) x /\ vv = (vs_version x, vs_value x).
Proof. exact txn_versions_sound. Qed.
Print Assumptions C15_versions.

Example C15_hyp_sat :
  let s := fst (set_record (fst (begin_transaction (fst (set_record (init_state true) (RVal (VS 1 1 1 5)) false)))) (RVal (VS 1 2 2 6)) false) in
  Inv s /\ m_active s = true /\ snd (get_user_state s 1 MaxEpoch false) = Ok (VS 1 2 2 6).
Proof. split; [repeat (apply Inv_set || apply Inv_begin || apply Inv_init)|]. split; reflexivity. Qed.

Example C15_versions_hyp_sat :
  let s := fst (set_record (fst (begin_transaction (fst (set_record (init_state true) (RVal (VS 1 1 1 5)) false)))) (RVal (VS 1 2 2 6)) false) in
  versions_follow_epochs s 1 /\ user_state_versions_one s 1 MaxEpoch = Some (2, 6).
Proof.
  split; [|reflexivity]. intros d m Hd Hm. cbn in Hd, Hm.
  destruct Hd as [<-|[]]. destruct Hm as [<-|[]]. split; reflexivity.
Qed.
