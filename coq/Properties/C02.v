(* C02 - Lookup returns a verifying proof of the latest value for every published label. *)
From Coq Require Import List Bool NArith.
From Akd Require Import NodeLabel Hashing Tree Directory Verify DirFacts.
From Akd Require DirRefine NodeLabelFacts LookupComplete.
Import ListNotations.
Open Scope N_scope.

Theorem C02_unpublished_refused : forall cfg ck vl vp st l,
  latest_state (d_states st) l (d_epoch st) = None -> lookup cfg ck vl vp st l = DErrNotFound.
Proof. exact lookup_absent. Qed.
Print Assumptions C02_unpublished_refused.

(* the proof reports the latest state, comes with the current epoch hash, and its existence and
   marker membership proofs verify against that hash (for every tree and hash function) *)
Theorem C02_lookup_reports_latest : forall cfg ck vl vp st l p eh,
  tlabel (d_tree st) = nl_root -> is_leaf (d_tree st) = false ->
  lookup cfg ck vl vp st l = DOk (p, eh) ->
  eh = epoch_hash cfg st /\
  (exists s, latest_state (d_states st) l (d_epoch st) = Some s /\
             lp_epoch p = vr_epoch s /\ lp_version p = vr_version s /\ lp_value p = vr_value s) /\
  verify_membership cfg (snd eh) (lp_existence p) = true /\
  verify_membership cfg (snd eh) (lp_marker p) = true.
Proof. exact lookup_ok. Qed.
Print Assumptions C02_lookup_reports_latest.

(* under non-colliding, well-formed VRF outputs every tree-related part of the proof an honest
   directory returns verifies against the returned root hash - including the freshness part
   (non-membership of the stale label of the current version), in every reachable state *)
Theorem C02_tree_parts_verify : forall cfg ck (vl : bytes -> bool -> N -> option nlabel) vp,
  canonical (c_empty_label cfg) = false ->
  (forall l f v nl, vl l f v = Some nl -> NodeLabelFacts.WF nl /\ canonical nl = true /\ llen nl = 256) ->
  (forall l f v l' f' v' nl, vl l f v = Some nl -> vl l' f' v' = Some nl -> l = l' /\ f = f' /\ v = v') ->
  forall st l p eh, DirRefine.DirInv vl st -> lookup cfg ck vl vp st l = DOk (p, eh) ->
  eh = epoch_hash cfg st /\
  verify_membership cfg (snd eh) (lp_existence p) = true /\
  verify_membership cfg (snd eh) (lp_marker p) = true /\
  verify_nonmembership cfg (snd eh) (lp_freshness p) = true.
Proof. exact DirRefine.lookup_tree_parts_verify. Qed.
Print Assumptions C02_tree_parts_verify.

(* the invariant holds in every state reachable by publish requests *)
Theorem C02_invariant_reachable : forall cfg ck (vl : bytes -> bool -> N -> option nlabel),
  canonical (c_empty_label cfg) = false ->
  (forall l f v nl, vl l f v = Some nl -> NodeLabelFacts.WF nl /\ canonical nl = true /\ llen nl = 256) ->
  (forall l f v l' f' v' nl, vl l f v = Some nl -> vl l' f' v' = Some nl -> l = l' /\ f = f' /\ v = v') ->
  forall reqs, DirRefine.DirInv vl (DirRefine.run_publishes cfg ck vl dir_new reqs).
Proof. exact DirRefine.invariant_reachable. Qed.
Print Assumptions C02_invariant_reachable.

(* END TO END: in every state reachable by publish requests, the proof returned for a published
   label is accepted by the client's verifier (lookup_verify) against the returned epoch hash and
   yields exactly the label's latest (epoch, version, value).  Premises: the properties of the VRF
   layer (C18): outputs are well-formed 256-bit labels, do not collide, and the server's proof
   verifies under the public key to the output. *)
Theorem C02_lookup_accepted_and_latest :
  forall cfg ck (vl : bytes -> bool -> N -> option nlabel) (vp : bytes -> bool -> N -> option bytes)
         (vc : bytes -> bytes -> bytes -> option bytes) pk,
  canonical (c_empty_label cfg) = false ->
  (forall l f v nl, vl l f v = Some nl -> NodeLabelFacts.WF nl /\ canonical nl = true /\ llen nl = 256) ->
  (forall l f v l' f' v' nl, vl l f v = Some nl -> vl l' f' v' = Some nl -> l = l' /\ f = f' /\ v = v') ->
  (forall l f v nl pr, vl l f v = Some nl -> vp l f v = Some pr -> vc pk pr (label_input_hash cfg l f v) = Some (lval nl)) ->
  forall st l p eh, LookupComplete.DirInv2 cfg ck vl st -> lookup cfg ck vl vp st l = DOk (p, eh) ->
  exists s, latest_state (d_states st) l (d_epoch st) = Some s /\
            lookup_verify cfg vc pk (snd eh) (fst eh) l p = Some (VRes (vr_epoch s) (vr_version s) (vr_value s)).
Proof. exact LookupComplete.lookup_complete. Qed.
Print Assumptions C02_lookup_accepted_and_latest.

Theorem C02_invariant2_reachable :
  forall cfg ck (vl : bytes -> bool -> N -> option nlabel) (vp : bytes -> bool -> N -> option bytes)
         (vc : bytes -> bytes -> bytes -> option bytes) pk,
  canonical (c_empty_label cfg) = false ->
  (forall l f v nl, vl l f v = Some nl -> NodeLabelFacts.WF nl /\ canonical nl = true /\ llen nl = 256) ->
  (forall l f v l' f' v' nl, vl l f v = Some nl -> vl l' f' v' = Some nl -> l = l' /\ f = f' /\ v = v') ->
  (forall l f v nl pr, vl l f v = Some nl -> vp l f v = Some pr -> vc pk pr (label_input_hash cfg l f v) = Some (lval nl)) ->
  forall reqs, LookupComplete.DirInv2 cfg ck vl (DirRefine.run_publishes cfg ck vl dir_new reqs).
Proof. exact LookupComplete.inv2_reachable. Qed.
Print Assumptions C02_invariant2_reachable.
