(* C02 - Lookup returns a verifying proof of the latest value for every published label. *)
From Coq Require Import List Bool NArith.
From Akd Require Import NodeLabel Hashing Tree Directory Verify DirFacts.
Import ListNotations.
Open Scope N_scope.

Theorem C02_unpublished_refused : forall cfg ck vl vp st l,
  latest_state (d_states st) l (d_epoch st) = None -> lookup cfg ck vl vp st l = DErrNotFound.
Proof. exact lookup_absent. Qed.
Print Assumptions C02_unpublished_refused.

(* the proof reports the latest state, comes with the current epoch hash, and its existence and
   marker membership proofs verify against that hash (for every tree and hash function) *)
Theorem C02_lookup_reports_latest : forall cfg ck vl vp st l p eh,
  tlabel (d_tree st) = nl_root -> is_leaf (d_tree st) = false ->
  lookup cfg ck vl vp st l = DOk (p, eh) ->
  eh = epoch_hash cfg st /\
  (exists s, latest_state (d_states st) l (d_epoch st) = Some s /\
             lp_epoch p = vr_epoch s /\ lp_version p = vr_version s /\ lp_value p = vr_value s) /\
  verify_membership cfg (snd eh) (lp_existence p) = true /\
  verify_membership cfg (snd eh) (lp_marker p) = true.
Proof. exact lookup_ok. Qed.
Print Assumptions C02_lookup_reports_latest.
