(* C18 - A node label is bound to the label, freshness and version it was derived from.
   Models: Vrf.v (algebraic skeleton of ECVRF over an abstract prime-order group: group laws and
   the byte encoding of points are the premises [GroupLaws] / [PointCodec]; curve arithmetic and
   SHA-512 are not modelled), Hashing.label_input_hash (the VRF input), Verify.verify_label
   (truncation to a 256-bit node label), Hashing.fresh_value (commitments under the key-derived
   commitment key).  Bad events are explicit: Collision H (BLAKE3), ChallengeCollision (the
   128-bit challenge hash of ECVRF); VRF uniqueness is a premise where it is needed. *)
From Coq Require Import List Bool NArith ZArith.
From Akd Require Import NodeLabel Hashing TreeFacts HashingFacts Binding Verify Vrf VrfFacts.
Import ListNotations.

Section Group.
  Variable G : Type.
  Variables (gadd : G -> G -> G) (gneg : G -> G) (gzero : G) (smul : Z -> G -> G) (q : Z) (B : G).
  Variable encode_to_curve : bytes -> bytes -> G.
  Variable challenge : bytes -> G -> G -> G -> G -> Z.
  Variable nonce : Z -> G -> Z.
  Variable output : G -> bytes.
  Variables (pk_bytes point_bytes : G -> bytes) (point_of_bytes : bytes -> option G).

  Definition GroupLaws : Prop :=
    (forall a b c, gadd (gadd a b) c = gadd a (gadd b c)) /\ (forall a, gadd a gzero = a) /\
    (forall a, gadd a (gneg a) = gzero) /\
    (forall a b P, smul (a + b) P = gadd (smul a P) (smul b P)) /\
    (forall a b P, smul (a * b) P = smul a (smul b P)) /\ (forall a P, smul (a mod q) P = smul a P).
  Definition PointCodec : Prop :=
    (forall g, point_of_bytes (point_bytes g) = Some g) /\ (forall g, length (point_bytes g) = 32%nat) /\
    (2 ^ 128 <= q)%Z /\ (q <= 2 ^ 256)%Z.

  (* for every key, input and nonce: the server's proof verifies under its public key and yields
     exactly the output from which the server derived the node label it placed in the tree *)
  Theorem C18_complete : GroupLaws -> forall x alpha,
    verify G gadd gneg smul B encode_to_curve challenge output pk_bytes
           (public_key G smul B x) (prove G smul q B encode_to_curve challenge nonce pk_bytes x alpha) alpha
    = Some (evaluate G smul B encode_to_curve output pk_bytes x alpha).
  Proof. intros (L1 & L2 & L3 & L4 & L5 & L6). exact (ecvrf_complete G gadd gneg gzero smul q B encode_to_curve challenge nonce output pk_bytes L1 L2 L3 L4 L5 L6). Qed.

  (* a proof accepted for two (key, input) pairs with different key bytes or curve inputs exhibits a
     collision of the challenge hash; and the output depends on gamma only *)
  Theorem C18_binds_key_and_input : forall Y Y' p alpha alpha' o o',
    verify G gadd gneg smul B encode_to_curve challenge output pk_bytes Y p alpha = Some o ->
    verify G gadd gneg smul B encode_to_curve challenge output pk_bytes Y' p alpha' = Some o' ->
    (pk_bytes Y, encode_to_curve (pk_bytes Y) alpha) <> (pk_bytes Y', encode_to_curve (pk_bytes Y') alpha') ->
    ChallengeCollision G challenge.
  Proof. exact (verify_binds_key_and_input G gadd gneg smul B encode_to_curve challenge output pk_bytes). Qed.

  Theorem C18_output_from_gamma : forall Y p alpha o,
    verify G gadd gneg smul B encode_to_curve challenge output pk_bytes Y p alpha = Some o -> o = output (vp_gamma G p).
  Proof. exact (verify_output_from_gamma G gadd gneg smul B encode_to_curve challenge output pk_bytes). Qed.

  (* proof bytes: gamma || c (16 bytes) || s parse back to the same proof *)
  Theorem C18_proof_bytes : PointCodec -> forall g c s, (0 <= c < 2 ^ 128)%Z -> (0 <= s < q)%Z ->
    proof_of_bytes G q point_of_bytes (proof_bytes G point_bytes (VP G g c s)) = Some (VP G g c s).
  Proof. intros (P1 & P2 & P3 & P4). exact (proof_bytes_roundtrip G q point_bytes point_of_bytes P1 P2 P3 P4). Qed.
End Group.
Print Assumptions C18_complete.
Print Assumptions C18_binds_key_and_input.
Print Assumptions C18_output_from_gamma.
Print Assumptions C18_proof_bytes.

Open Scope N_scope.

(* the VRF input determines (label, freshness, version) up to a collision of the hash *)
Theorem C18_input_binding : forall H domain l f v l' f' v',
  Len64 l -> Len64 l' -> v < 2 ^ 64 -> v' < 2 ^ 64 ->
  (label_input_hash (whatsapp H) l f v = label_input_hash (whatsapp H) l' f' v' -> (l = l' /\ f = f' /\ v = v') \/ Collision H) /\
  (label_input_hash (experimental H domain) l f v = label_input_hash (experimental H domain) l' f' v' -> (l = l' /\ f = f' /\ v = v') \/ Collision H).
Proof. intros H domain l f v l' f' v' L L' V V'. exact (conj (w_label_input_binding H l f v l' f' v' L L' V V') (e_label_input_binding H domain l f v l' f' v' L L' V V')). Qed.
Print Assumptions C18_input_binding.

(* verify_label accepts exactly the 256-bit label made of the VRF output; another claimed label
   fails; and under VRF uniqueness no choice of proof bytes makes a different label verify *)
Theorem C18_verify_label : forall cfg vc pk l f v proof nl,
  verify_label cfg vc pk l f v proof nl = true ->
  (exists out, vc pk proof (label_input_hash cfg l f v) = Some out /\ nl = NL out 256) /\
  (forall nl', nl' <> nl -> verify_label cfg vc pk l f v proof nl' = false).
Proof. intros cfg vc pk l f v proof nl E. exact (conj (verify_label_sound cfg vc pk l f v proof nl E) (fun nl' => verify_label_rejects_other_label cfg vc pk l f v proof nl nl' E)). Qed.
Print Assumptions C18_verify_label.

Theorem C18_no_other_label : forall cfg vc pk,
  (forall alpha p p' o o', vc pk p alpha = Some o -> vc pk p' alpha = Some o' -> o = o') ->
  forall l f v proof proof' nl nl',
  verify_label cfg vc pk l f v proof nl = true -> verify_label cfg vc pk l f v proof' nl' = true -> nl = nl'.
Proof. exact verify_label_unique. Qed.
Print Assumptions C18_no_other_label.

(* commitment keys and commitments derived under different secret keys differ *)
Theorem C18_key_separation : forall H domain, (forall x, length (H x) = 32%nat) ->
  (forall sk sk', c_hash (whatsapp H) sk = c_hash (whatsapp H) sk' -> sk = sk' \/ Collision H) /\
  (forall sk sk', c_hash (experimental H domain) sk = c_hash (experimental H domain) sk' -> sk = sk' \/ Collision H) /\
  (forall ck ck' l v val, D32 ck -> D32 ck' -> Len64 val ->
     fresh_value (whatsapp H) ck l v val = fresh_value (whatsapp H) ck' l v val -> ck = ck' \/ Collision H) /\
  (forall ck ck' l v val, D32 ck -> D32 ck' -> Len64 val ->
     fresh_value (experimental H domain) ck l v val = fresh_value (experimental H domain) ck' l v val -> ck = ck' \/ Collision H).
Proof.
  intros H domain HL.
  exact (conj (w_commitment_key_binding H) (conj (e_commitment_key_binding H domain)
        (conj (w_commitment_key_separation H HL) (e_commitment_key_separation H HL domain)))).
Qed.
Print Assumptions C18_key_separation.

(* non-vacuity: Z/2 (xor on booleans, scalar = parity) satisfies GroupLaws *)
Example C18_hyp_sat : GroupLaws bool xorb id false z2_smul 2%Z.
Proof. exact z2_group_laws. Qed.
