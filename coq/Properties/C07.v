(* C07 - A verifying history proof cannot hide, reorder, invent or misdate versions.
   Proved (Default mode, complete history): an accepted proof yields exactly the true account, newest
   first.  Same setting as C06 (without its premise on stale leaves) plus: the tree holds the fresh leaf of every version 1..n. *)
From Coq Require Import List Bool NArith.
From Akd Require Import NodeLabel NodeLabelFacts Hashing Tree TreeFacts Binding Directory Verify DirSound.
Import ListNotations.
Open Scope N_scope.

Theorem C07_complete_history_sound :
  forall (cfg : config) (Bad : Prop), Binding cfg Bad ->
  forall (vrf_check : bytes -> bytes -> bytes -> option bytes) (pk ck l : bytes) (t : tree),
  tree_ok t -> wf_root t = true ->
  forall nlabel_of : bool -> N -> nlabel,
  (forall f v, llen (nlabel_of f v) = 256 /\ WF (nlabel_of f v) /\ LW (nlabel_of f v)) ->
  (forall proof f v out, v < 2 ^ 64 -> vrf_check pk proof (label_input_hash cfg l f v) = Some out -> NL out 256 = nlabel_of f v) ->
  forall (n : N) (val_of : N -> bytes) (ep_of : N -> N),
  (forall v, Len64 (val_of v)) -> (forall v, ep_of v < 2 ^ 64) ->
  (forall y v, v < 2 ^ 64 -> In y (leaves t) -> lf_label y = nlabel_of true v ->
     1 <= v /\ v <= n /\ lf_value y = fresh_value cfg ck (nlabel_of true v) v (val_of v) /\ lf_epoch y = ep_of v) ->
  (forall v, Len64 (c_commitment_nonce cfg ck (nl_to_bytes (nlabel_of true v)) v (val_of v))) ->
  (forall v, 1 <= v -> v <= n -> In (nlabel_of true v) (map lf_label (leaves t))) ->
  forall (E : N) (p : history_proof) (rs : list verify_result), hp_ok p ->
  1 <= n -> n <= E -> E < 2 ^ 64 ->
  key_history_verify cfg vrf_check pk (root_hash cfg true t) E l p HComplete false = Some rs ->
  rs = map (true_entry val_of ep_of) (map (fun i => n - N.of_nat i) (seq 0 (N.to_nat n))) \/ Bad.
Proof. exact history_complete_sound. Qed.
Print Assumptions C07_complete_history_sound.

(* every entry accepted in Default mode - whatever the parameter - is a true version with its true
   value and epoch *)
Theorem C07_entries_true :
  forall (cfg : config) (Bad : Prop), Binding cfg Bad ->
  forall (vrf_check : bytes -> bytes -> bytes -> option bytes) (pk ck l : bytes) (t : tree),
  tree_ok t -> wf_root t = true ->
  forall nlabel_of : bool -> N -> nlabel,
  (forall f v, llen (nlabel_of f v) = 256 /\ WF (nlabel_of f v) /\ LW (nlabel_of f v)) ->
  (forall proof f v out, v < 2 ^ 64 -> vrf_check pk proof (label_input_hash cfg l f v) = Some out -> NL out 256 = nlabel_of f v) ->
  forall (n : N) (val_of : N -> bytes) (ep_of : N -> N),
  (forall v, Len64 (val_of v)) -> (forall v, ep_of v < 2 ^ 64) ->
  (forall y v, v < 2 ^ 64 -> In y (leaves t) -> lf_label y = nlabel_of true v ->
     1 <= v /\ v <= n /\ lf_value y = fresh_value cfg ck (nlabel_of true v) v (val_of v) /\ lf_epoch y = ep_of v) ->
  (forall v, Len64 (c_commitment_nonce cfg ck (nl_to_bytes (nlabel_of true v)) v (val_of v))) ->
  forall us prev rs, Forall up_ok us ->
  verify_updates cfg vrf_check pk (root_hash cfg true t) l false prev us = Some rs ->
  (rs = map (fun u => true_entry val_of ep_of (up_version u)) us /\
   forall u, In u us -> 1 <= up_version u /\ up_version u <= n) \/ Bad.
Proof. exact updates_sound. Qed.
Print Assumptions C07_entries_true.

(* Default mode, MostRecent(r): an accepted proof yields exactly the newest min(r, n) entries of the
   true account, newest first - the latest version cannot be hidden, nothing is skipped, reordered,
   invented or misdated *)
Theorem C07_recent_history_sound :
  forall (cfg : config) (Bad : Prop), Binding cfg Bad ->
  forall (vrf_check : bytes -> bytes -> bytes -> option bytes) (pk ck l : bytes) (t : tree),
  tree_ok t -> wf_root t = true ->
  forall nlabel_of : bool -> N -> nlabel,
  (forall f v, llen (nlabel_of f v) = 256 /\ WF (nlabel_of f v) /\ LW (nlabel_of f v)) ->
  (forall proof f v out, v < 2 ^ 64 -> vrf_check pk proof (label_input_hash cfg l f v) = Some out -> NL out 256 = nlabel_of f v) ->
  forall (n : N) (val_of : N -> bytes) (ep_of : N -> N),
  (forall v, Len64 (val_of v)) -> (forall v, ep_of v < 2 ^ 64) ->
  (forall y v, v < 2 ^ 64 -> In y (leaves t) -> lf_label y = nlabel_of true v ->
     1 <= v /\ v <= n /\ lf_value y = fresh_value cfg ck (nlabel_of true v) v (val_of v) /\ lf_epoch y = ep_of v) ->
  (forall v, Len64 (c_commitment_nonce cfg ck (nl_to_bytes (nlabel_of true v)) v (val_of v))) ->
  (forall v, 1 <= v -> v <= n -> In (nlabel_of true v) (map lf_label (leaves t))) ->
  forall (E : N) (p : history_proof) (rs : list verify_result) (r : N), hp_ok p ->
  1 <= n -> n <= E -> E < 2 ^ 64 ->
  key_history_verify cfg vrf_check pk (root_hash cfg true t) E l p (HMostRecent r) false = Some rs ->
  (rs = map (true_entry val_of ep_of) (map (fun i => n - N.of_nat i) (seq 0 (length rs))) /\
   N.of_nat (length rs) = N.min r n) \/ Bad.
Proof. exact history_recent_sound. Qed.
Print Assumptions C07_recent_history_sound.

(* AllowMissingValues (the client opted in): an accepted proof still covers exactly the true
   versions, newest first, each reported either as it is or as a tombstone (empty value) with the
   TRUE epoch - with one exception, spelled out in [amrel]: a tombstoned version 1 may carry any
   epoch (nothing binds it once the value check is skipped: the known finding K2).
   Additional premises: the stale leaf of version v carries the stale value and the epoch of
   version v+1 (honest tree), and the stale value is a digest. *)
Theorem C07_complete_history_sound_allow_missing :
  forall (cfg : config) (Bad : Prop), Binding cfg Bad ->
  forall (vrf_check : bytes -> bytes -> bytes -> option bytes) (pk ck l : bytes) (t : tree),
  tree_ok t -> wf_root t = true ->
  forall nlabel_of : bool -> N -> nlabel,
  (forall f v, llen (nlabel_of f v) = 256 /\ WF (nlabel_of f v) /\ LW (nlabel_of f v)) ->
  (forall proof f v out, v < 2 ^ 64 -> vrf_check pk proof (label_input_hash cfg l f v) = Some out -> NL out 256 = nlabel_of f v) ->
  forall (n : N) (val_of : N -> bytes) (ep_of : N -> N),
  (forall v, Len64 (val_of v)) -> (forall v, ep_of v < 2 ^ 64) ->
  (forall y v, v < 2 ^ 64 -> In y (leaves t) -> lf_label y = nlabel_of true v ->
     1 <= v /\ v <= n /\ lf_value y = fresh_value cfg ck (nlabel_of true v) v (val_of v) /\ lf_epoch y = ep_of v) ->
  (forall v, Len64 (c_commitment_nonce cfg ck (nl_to_bytes (nlabel_of true v)) v (val_of v))) ->
  (forall v, 1 <= v -> v <= n -> In (nlabel_of true v) (map lf_label (leaves t))) ->
  (forall y v, v < 2 ^ 64 -> In y (leaves t) -> lf_label y = nlabel_of false v ->
     lf_value y = c_stale_value cfg /\ lf_epoch y = ep_of (v + 1)) ->
  D32 (c_stale_value cfg) ->
  (forall y, In y (leaves t) -> lf_epoch y < 2 ^ 64) ->
  forall (E : N) (p : history_proof) (rs : list verify_result), hp_ok2 p ->
  1 <= n -> n <= E -> E < 2 ^ 64 ->
  key_history_verify cfg vrf_check pk (root_hash cfg true t) E l p HComplete true = Some rs ->
  Forall2 amrel rs (map (true_entry val_of ep_of) (map (fun i => n - N.of_nat i) (seq 0 (N.to_nat n)))) \/ Bad.
Proof. exact history_complete_sound_am. Qed.
Print Assumptions C07_complete_history_sound_allow_missing.

Theorem C07_recent_history_sound_allow_missing :
  forall (cfg : config) (Bad : Prop), Binding cfg Bad ->
  forall (vrf_check : bytes -> bytes -> bytes -> option bytes) (pk ck l : bytes) (t : tree),
  tree_ok t -> wf_root t = true ->
  forall nlabel_of : bool -> N -> nlabel,
  (forall f v, llen (nlabel_of f v) = 256 /\ WF (nlabel_of f v) /\ LW (nlabel_of f v)) ->
  (forall proof f v out, v < 2 ^ 64 -> vrf_check pk proof (label_input_hash cfg l f v) = Some out -> NL out 256 = nlabel_of f v) ->
  forall (n : N) (val_of : N -> bytes) (ep_of : N -> N),
  (forall v, Len64 (val_of v)) -> (forall v, ep_of v < 2 ^ 64) ->
  (forall y v, v < 2 ^ 64 -> In y (leaves t) -> lf_label y = nlabel_of true v ->
     1 <= v /\ v <= n /\ lf_value y = fresh_value cfg ck (nlabel_of true v) v (val_of v) /\ lf_epoch y = ep_of v) ->
  (forall v, Len64 (c_commitment_nonce cfg ck (nl_to_bytes (nlabel_of true v)) v (val_of v))) ->
  (forall v, 1 <= v -> v <= n -> In (nlabel_of true v) (map lf_label (leaves t))) ->
  (forall y v, v < 2 ^ 64 -> In y (leaves t) -> lf_label y = nlabel_of false v ->
     lf_value y = c_stale_value cfg /\ lf_epoch y = ep_of (v + 1)) ->
  D32 (c_stale_value cfg) ->
  (forall y, In y (leaves t) -> lf_epoch y < 2 ^ 64) ->
  forall (E : N) (p : history_proof) (rs : list verify_result) (r : N), hp_ok2 p ->
  1 <= n -> n <= E -> E < 2 ^ 64 ->
  key_history_verify cfg vrf_check pk (root_hash cfg true t) E l p (HMostRecent r) true = Some rs ->
  (Forall2 amrel rs (map (true_entry val_of ep_of) (map (fun i => n - N.of_nat i) (seq 0 (length rs)))) /\
   N.of_nat (length rs) = N.min r n) \/ Bad.
Proof. exact history_recent_sound_am. Qed.
Print Assumptions C07_recent_history_sound_allow_missing.

(* what [amrel] allows, spelled out *)
Theorem C07_allow_missing_relation : forall r tr, amrel r tr <->
  r_version r = r_version tr /\
  ((r_value r = r_value tr /\ r_epoch r = r_epoch tr) \/
   (r_value r = GenConsts.TOMBSTONE /\ (r_epoch r = r_epoch tr \/ r_version r = 1))).
Proof. exact amrel_spelled. Qed.
Print Assumptions C07_allow_missing_relation.

(* the stale value of both real configurations is a digest *)
Theorem C07_stale_value_is_digest : forall (H : bytes -> bytes), (forall x, length (H x) = 32%nat) ->
  forall domain, D32 (c_stale_value (whatsapp H)) /\ D32 (c_stale_value (experimental H domain)).
Proof. exact stale_value_digest. Qed.
Print Assumptions C07_stale_value_is_digest.

(* The property's second sentence: "If the tree itself fails to retire a superseded version in the
   very epoch of its replacement, history verification for that label fails."  As a theorem, without
   ANY premise on the stale leaves: if a complete history verifies in Default mode, then for every
   version v >= 2 the tree holds the stale leaf of v-1, with the stale value, stamped with the epoch
   of v.  (Contrapositive: missing or late stale marker => verification fails, or a collision.) *)
Theorem C07_late_or_missing_stale_marker_fails :
  forall (cfg : config) (Bad : Prop), Binding cfg Bad ->
  forall (vrf_check : bytes -> bytes -> bytes -> option bytes) (pk ck l : bytes) (t : tree),
  tree_ok t -> wf_root t = true ->
  forall nlabel_of : bool -> N -> nlabel,
  (forall f v, llen (nlabel_of f v) = 256 /\ WF (nlabel_of f v) /\ LW (nlabel_of f v)) ->
  (forall proof f v out, v < 2 ^ 64 -> vrf_check pk proof (label_input_hash cfg l f v) = Some out -> NL out 256 = nlabel_of f v) ->
  forall (n : N) (val_of : N -> bytes) (ep_of : N -> N),
  (forall v, Len64 (val_of v)) -> (forall v, ep_of v < 2 ^ 64) ->
  (forall y v, v < 2 ^ 64 -> In y (leaves t) -> lf_label y = nlabel_of true v ->
     1 <= v /\ v <= n /\ lf_value y = fresh_value cfg ck (nlabel_of true v) v (val_of v) /\ lf_epoch y = ep_of v) ->
  (forall v, Len64 (c_commitment_nonce cfg ck (nl_to_bytes (nlabel_of true v)) v (val_of v))) ->
  (forall v, 1 <= v -> v <= n -> In (nlabel_of true v) (map lf_label (leaves t))) ->
  D32 (c_stale_value cfg) ->
  (forall y, In y (leaves t) -> lf_epoch y < 2 ^ 64) ->
  forall (E : N) (p : history_proof) (rs : list verify_result), hp_ok2 p ->
  1 <= n -> n <= E -> E < 2 ^ 64 ->
  key_history_verify cfg vrf_check pk (root_hash cfg true t) E l p HComplete false = Some rs ->
  (forall v, 2 <= v -> v <= n -> In (LF (nlabel_of false (v - 1)) (c_stale_value cfg) (ep_of v)) (leaves t)) \/ Bad.
Proof. exact history_needs_timely_stale. Qed.
Print Assumptions C07_late_or_missing_stale_marker_fails.

(* ------------------------------------------------------------------ the known finding K2, as a witness *)
(* The exception in [amrel] is real: a user published at epoch 1 with the empty value; the honest
   history proof with its epoch replaced by 0 is ACCEPTED under AllowMissingValues and reports epoch
   0, while Default mode rejects it.  Evaluated inside Coq with a transparent 32-byte "hash" that
   keeps the epoch bytes (reversal + truncation) and a finite VRF table; the same input shape is
   replayed against the implementation by the harness (KNOWN-FINDING K2). *)
From Akd Require Import BitsLabel DirRefine.
Definition k2_H (x : bytes) : bytes := firstn 32 (rev x ++ repeat 0 32).
Definition k2_user : bytes := [1].
Definition k2_bits (f : bool) (v : N) : list bool := f :: N.testbit v 1 :: N.testbit v 0 :: repeat false 253.
Definition k2_vrf_label (l : bytes) (f : bool) (v : N) : option nlabel :=
  if bytes_eqb l k2_user && (v <? 4) then Some (nl_of_bits (k2_bits f v)) else None.
Definition k2_vrf_proof (l : bytes) (f : bool) (v : N) : option bytes :=
  match k2_vrf_label l f v with Some nl => Some (lval nl) | None => None end.
Definition k2_vrf_check (pk pr alpha : bytes) : option bytes := Some pr.
Definition k2_st := run_publishes (whatsapp k2_H) [9] k2_vrf_label dir_new [[(k2_user, [])]].
Definition k2_forge (p : history_proof) : history_proof :=
  HP (map (fun u => UP 0 (up_version u) (up_value u) (up_existence_vrf u) (up_existence u) (up_prev_vrf u) (up_prev u) (up_nonce u)) (hp_updates p))
     (hp_past_vrf p) (hp_past p) (hp_future_vrf p) (hp_future p).

Example C07_K2_witness :
  exists p eh, key_history (whatsapp k2_H) [9] k2_vrf_label k2_vrf_proof k2_st k2_user HComplete = DOk (p, eh) /\
    key_history_verify (whatsapp k2_H) k2_vrf_check [] (snd eh) (fst eh) k2_user p HComplete true = Some [VRes 1 1 []] /\
    key_history_verify (whatsapp k2_H) k2_vrf_check [] (snd eh) (fst eh) k2_user (k2_forge p) HComplete true = Some [VRes 0 1 []] /\
    key_history_verify (whatsapp k2_H) k2_vrf_check [] (snd eh) (fst eh) k2_user (k2_forge p) HComplete false = None.
Proof. eexists. eexists. split; [vm_compute; reflexivity|]. split; [vm_compute; reflexivity|]. split; vm_compute; reflexivity. Qed.

(* ------------------------------------------------------------------ at the directory level *)
From Akd Require DirSoundReach.
(* After ANY sequence of publish requests: whatever complete-history proof is presented against the
   served epoch hash - if it verifies in Default mode, its result IS the label's stored account,
   newest first (the list C03 shows the honest server's proof to yield); with AllowMissingValues it is
   that account up to [amrel].  Premises as for C06_lookup_sound_in_every_reachable_state. *)
Theorem C07_history_sound_in_every_reachable_state :
  forall (cfg : config) (Bad : Prop), Binding cfg Bad ->
  forall (ck : bytes) (vrf_label : bytes -> bool -> N -> option nlabel),
  (forall l f v nl, vrf_label l f v = Some nl -> WF nl /\ canonical nl = true /\ llen nl = 256) ->
  (forall l f v l' f' v' nl, vrf_label l f v = Some nl -> vrf_label l' f' v' = Some nl -> l = l' /\ f = f' /\ v = v') ->
  forall (vrf_check : bytes -> bytes -> bytes -> option bytes) (pk l : bytes) (F : bool -> N -> nlabel),
  (forall f v, llen (F f v) = 256 /\ WF (F f v) /\ LW (F f v)) ->
  (forall f v nl, vrf_label l f v = Some nl -> nl = F f v) ->
  (forall f v l' f' v', v < 2 ^ 64 -> vrf_label l' f' v' = Some (F f v) -> l' = l /\ f' = f /\ v' = v) ->
  (forall proof f v out, v < 2 ^ 64 -> vrf_check pk proof (label_input_hash cfg l f v) = Some out -> NL out 256 = F f v) ->
  (forall key lb ver value, Len64 (c_commitment_nonce cfg key lb ver value)) ->
  D32 (c_stale_value cfg) ->
  forall reqs,
  let st := run_publishes cfg ck vrf_label dir_new reqs in
  (forall s, In s (d_states st) -> Len64 (vr_value s)) -> d_epoch st < 2 ^ 64 ->
  forall E p rs, hp_ok p ->
  user_history (d_states st) l (d_epoch st) <> [] -> d_epoch st <= E -> E < 2 ^ 64 ->
  key_history_verify cfg vrf_check pk (snd (epoch_hash cfg st)) E l p HComplete false = Some rs ->
  rs = map DirSoundReach.entry_of_state (user_history (d_states st) l (d_epoch st)) \/ Bad.
Proof. exact DirSoundReach.history_sound_reachable. Qed.
Print Assumptions C07_history_sound_in_every_reachable_state.

Theorem C07_history_sound_in_every_reachable_state_allow_missing :
  forall (cfg : config) (Bad : Prop), Binding cfg Bad ->
  forall (ck : bytes) (vrf_label : bytes -> bool -> N -> option nlabel),
  (forall l f v nl, vrf_label l f v = Some nl -> WF nl /\ canonical nl = true /\ llen nl = 256) ->
  (forall l f v l' f' v' nl, vrf_label l f v = Some nl -> vrf_label l' f' v' = Some nl -> l = l' /\ f = f' /\ v = v') ->
  forall (vrf_check : bytes -> bytes -> bytes -> option bytes) (pk l : bytes) (F : bool -> N -> nlabel),
  (forall f v, llen (F f v) = 256 /\ WF (F f v) /\ LW (F f v)) ->
  (forall f v nl, vrf_label l f v = Some nl -> nl = F f v) ->
  (forall f v l' f' v', v < 2 ^ 64 -> vrf_label l' f' v' = Some (F f v) -> l' = l /\ f' = f /\ v' = v) ->
  (forall proof f v out, v < 2 ^ 64 -> vrf_check pk proof (label_input_hash cfg l f v) = Some out -> NL out 256 = F f v) ->
  (forall key lb ver value, Len64 (c_commitment_nonce cfg key lb ver value)) ->
  D32 (c_stale_value cfg) ->
  forall reqs,
  let st := run_publishes cfg ck vrf_label dir_new reqs in
  (forall s, In s (d_states st) -> Len64 (vr_value s)) -> d_epoch st < 2 ^ 64 ->
  forall E p rs, hp_ok2 p ->
  user_history (d_states st) l (d_epoch st) <> [] -> d_epoch st <= E -> E < 2 ^ 64 ->
  key_history_verify cfg vrf_check pk (snd (epoch_hash cfg st)) E l p HComplete true = Some rs ->
  Forall2 amrel rs (map DirSoundReach.entry_of_state (user_history (d_states st) l (d_epoch st))) \/ Bad.
Proof. exact DirSoundReach.history_sound_reachable_am. Qed.
Print Assumptions C07_history_sound_in_every_reachable_state_allow_missing.

(* MostRecent(r) at the directory level: exactly the first min(r, n) entries of the stored account -
   the list C03's hist_data names for the same parameter *)
Theorem C07_recent_history_sound_in_every_reachable_state :
  forall (cfg : config) (Bad : Prop), Binding cfg Bad ->
  forall (ck : bytes) (vrf_label : bytes -> bool -> N -> option nlabel),
  (forall l f v nl, vrf_label l f v = Some nl -> WF nl /\ canonical nl = true /\ llen nl = 256) ->
  (forall l f v l' f' v' nl, vrf_label l f v = Some nl -> vrf_label l' f' v' = Some nl -> l = l' /\ f = f' /\ v = v') ->
  forall (vrf_check : bytes -> bytes -> bytes -> option bytes) (pk l : bytes) (F : bool -> N -> nlabel),
  (forall f v, llen (F f v) = 256 /\ WF (F f v) /\ LW (F f v)) ->
  (forall f v nl, vrf_label l f v = Some nl -> nl = F f v) ->
  (forall f v l' f' v', v < 2 ^ 64 -> vrf_label l' f' v' = Some (F f v) -> l' = l /\ f' = f /\ v' = v) ->
  (forall proof f v out, v < 2 ^ 64 -> vrf_check pk proof (label_input_hash cfg l f v) = Some out -> NL out 256 = F f v) ->
  (forall key lb ver value, Len64 (c_commitment_nonce cfg key lb ver value)) ->
  D32 (c_stale_value cfg) ->
  forall reqs,
  let st := run_publishes cfg ck vrf_label dir_new reqs in
  (forall s, In s (d_states st) -> Len64 (vr_value s)) -> d_epoch st < 2 ^ 64 ->
  forall E p rs r, hp_ok p ->
  user_history (d_states st) l (d_epoch st) <> [] -> d_epoch st <= E -> E < 2 ^ 64 ->
  key_history_verify cfg vrf_check pk (snd (epoch_hash cfg st)) E l p (HMostRecent r) false = Some rs ->
  rs = map DirSoundReach.entry_of_state (firstn (N.to_nat r) (user_history (d_states st) l (d_epoch st))) \/ Bad.
Proof. exact DirSoundReach.history_recent_sound_reachable. Qed.
Print Assumptions C07_recent_history_sound_in_every_reachable_state.

(* the premises of the directory-level theorems have a model in which history proofs verify
   (Witness.v; the full list of premises is spelled out in C06_reachable_premises_satisfiable) *)
From Akd Require Import LookupComplete Witness.
Example C07_reachable_premises_satisfiable :
  exists p eh, key_history s6_cfg [9] s6_vrf_label s6_vrf_proof s6_st s6_user HComplete = DOk (p, eh) /\
    key_history_verify s6_cfg s6_check [] (snd eh) (fst eh) s6_user p HComplete false = Some [VRes 2 2 [6]; VRes 1 1 [5]] /\
    key_history_verify s6_cfg s6_check [] (snd eh) (fst eh) s6_user p HComplete true = Some [VRes 2 2 [6]; VRes 1 1 [5]].
Proof. destruct s6_premises as (_ & _ & _ & _ & _ & _ & _ & _ & _ & _ & _ & H & _). exact H. Qed.

(* MostRecent(r) with AllowMissingValues, at the directory level *)
Theorem C07_recent_history_sound_in_every_reachable_state_allow_missing :
  forall (cfg : config) (Bad : Prop), Binding cfg Bad ->
  forall (ck : bytes) (vrf_label : bytes -> bool -> N -> option nlabel),
  (forall l f v nl, vrf_label l f v = Some nl -> WF nl /\ canonical nl = true /\ llen nl = 256) ->
  (forall l f v l' f' v' nl, vrf_label l f v = Some nl -> vrf_label l' f' v' = Some nl -> l = l' /\ f = f' /\ v = v') ->
  forall (vrf_check : bytes -> bytes -> bytes -> option bytes) (pk l : bytes) (F : bool -> N -> nlabel),
  (forall f v, llen (F f v) = 256 /\ WF (F f v) /\ LW (F f v)) ->
  (forall f v nl, vrf_label l f v = Some nl -> nl = F f v) ->
  (forall f v l' f' v', v < 2 ^ 64 -> vrf_label l' f' v' = Some (F f v) -> l' = l /\ f' = f /\ v' = v) ->
  (forall proof f v out, v < 2 ^ 64 -> vrf_check pk proof (label_input_hash cfg l f v) = Some out -> NL out 256 = F f v) ->
  (forall key lb ver value, Len64 (c_commitment_nonce cfg key lb ver value)) ->
  D32 (c_stale_value cfg) ->
  forall reqs,
  let st := run_publishes cfg ck vrf_label dir_new reqs in
  (forall s, In s (d_states st) -> Len64 (vr_value s)) -> d_epoch st < 2 ^ 64 ->
  forall E p rs r, hp_ok2 p ->
  user_history (d_states st) l (d_epoch st) <> [] -> d_epoch st <= E -> E < 2 ^ 64 ->
  key_history_verify cfg vrf_check pk (snd (epoch_hash cfg st)) E l p (HMostRecent r) true = Some rs ->
  Forall2 amrel rs (map DirSoundReach.entry_of_state (firstn (N.to_nat r) (user_history (d_states st) l (d_epoch st)))) \/ Bad.
Proof. exact DirSoundReach.history_recent_sound_reachable_am. Qed.
Print Assumptions C07_recent_history_sound_in_every_reachable_state_allow_missing.
