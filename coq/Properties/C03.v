(* C03 - Key history returns a verifying, complete account of a label's versions. *)
From Coq Require Import List Bool NArith.
From Akd Require Import NodeLabel Hashing Tree Directory Verify DirFacts.
Import ListNotations.
Open Scope N_scope.

Theorem C03_unpublished_refused : forall cfg ck vl vp st l params,
  user_history (d_states st) l (d_epoch st) = [] -> key_history cfg ck vl vp st l params = DErrNotFound.
Proof. exact key_history_absent. Qed.
Print Assumptions C03_unpublished_refused.
