(* C03 - Key history returns a verifying, complete account of a label's versions. *)
From Coq Require Import List Bool NArith.
From Akd Require Import NodeLabel Hashing Tree Directory Verify DirFacts.
From Akd Require DirRefine HistComplete NodeLabelFacts MarkerBounds Marker.
Import ListNotations.
Open Scope N_scope.

Theorem C03_unpublished_refused : forall cfg ck vl vp st l params,
  user_history (d_states st) l (d_epoch st) = [] -> key_history cfg ck vl vp st l params = DErrNotFound.
Proof. exact key_history_absent. Qed.
Print Assumptions C03_unpublished_refused.

(* in every reachable state (C02_invariant_reachable), under non-colliding well-formed VRF outputs,
   every tree-related part of the history proof an honest directory returns - for Complete and for
   MostRecent(n) - verifies against the returned root hash: each entry's existence proof and the
   stale proof of its predecessor, the past-marker existence proofs, and the non-membership proofs
   of all future markers (they are versions above the latest one, MarkerBounds) *)
Theorem C03_tree_parts_verify : forall cfg ck (vl : bytes -> bool -> N -> option nlabel) vp,
  canonical (c_empty_label cfg) = false ->
  (forall l f v nl, vl l f v = Some nl -> NodeLabelFacts.WF nl /\ canonical nl = true /\ llen nl = 256) ->
  (forall l f v l' f' v' nl, vl l f v = Some nl -> vl l' f' v' = Some nl -> l = l' /\ f = f' /\ v = v') ->
  forall st l params p eh, DirRefine.DirInv vl st -> key_history cfg ck vl vp st l params = DOk (p, eh) ->
  eh = epoch_hash cfg st /\
  Forall (fun u => verify_membership cfg (snd eh) (up_existence u) = true /\
                   match up_prev u with Some m => verify_membership cfg (snd eh) m = true | None => True end) (hp_updates p) /\
  Forall (fun m => verify_membership cfg (snd eh) m = true) (hp_past p) /\
  Forall (fun m => verify_nonmembership cfg (snd eh) m = true) (hp_future p).
Proof. exact HistComplete.history_tree_parts_verify. Qed.
Print Assumptions C03_tree_parts_verify.

Theorem C03_future_markers_are_later_versions : forall s n E past future,
  n <> 0 -> n <= E -> Marker.get_marker_versions s n E = Some (past, future) ->
  forall x, In x future -> n < x /\ x <= E.
Proof. exact MarkerBounds.get_marker_versions_future. Qed.
Print Assumptions C03_future_markers_are_later_versions.
