(* C03 - Key history returns a verifying, complete account of a label's versions. *)
From Coq Require Import List Bool NArith.
From Akd Require Import NodeLabel Hashing Tree Directory Verify DirFacts.
From Akd Require DirRefine HistComplete NodeLabelFacts MarkerBounds Marker.
Import ListNotations.
Open Scope N_scope.

Theorem C03_unpublished_refused : forall cfg ck vl vp st l params,
  user_history (d_states st) l (d_epoch st) = [] -> key_history cfg ck vl vp st l params = DErrNotFound.
Proof. exact key_history_absent. Qed.
Print Assumptions C03_unpublished_refused.

(* in every reachable state (C02_invariant_reachable), under non-colliding well-formed VRF outputs,
   every tree-related part of the history proof an honest directory returns - for Complete and for
   MostRecent(n) - verifies against the returned root hash: each entry's existence proof and the
   stale proof of its predecessor, the past-marker existence proofs, and the non-membership proofs
   of all future markers (they are versions above the latest one, MarkerBounds) *)
Theorem C03_tree_parts_verify : forall cfg ck (vl : bytes -> bool -> N -> option nlabel) vp,
  canonical (c_empty_label cfg) = false ->
  (forall l f v nl, vl l f v = Some nl -> NodeLabelFacts.WF nl /\ canonical nl = true /\ llen nl = 256) ->
  (forall l f v l' f' v' nl, vl l f v = Some nl -> vl l' f' v' = Some nl -> l = l' /\ f = f' /\ v = v') ->
  forall st l params p eh, DirRefine.DirInv vl st -> key_history cfg ck vl vp st l params = DOk (p, eh) ->
  eh = epoch_hash cfg st /\
  Forall (fun u => verify_membership cfg (snd eh) (up_existence u) = true /\
                   match up_prev u with Some m => verify_membership cfg (snd eh) m = true | None => True end) (hp_updates p) /\
  Forall (fun m => verify_membership cfg (snd eh) m = true) (hp_past p) /\
  Forall (fun m => verify_nonmembership cfg (snd eh) m = true) (hp_future p).
Proof. exact HistComplete.history_tree_parts_verify. Qed.
Print Assumptions C03_tree_parts_verify.

Theorem C03_future_markers_are_later_versions : forall s n E past future,
  n <> 0 -> n <= E -> Marker.get_marker_versions s n E = Some (past, future) ->
  forall x, In x future -> n < x /\ x <= E.
Proof. exact MarkerBounds.get_marker_versions_future. Qed.
Print Assumptions C03_future_markers_are_later_versions.

(* ------------------------------------------------------------------ END TO END *)
From Akd Require HistEnd.

(* After ANY sequence of publish requests: the history proof returned for a label - for Complete and
   for MostRecent(n), verified in Default mode (am = false) or with AllowMissingValues (am = true) -
   is ACCEPTED by key_history_verify against the returned epoch hash, and the result is exactly
   the requested part of the label's stored account (hist_data: all of the label's states, newest
   first, or the first n of them), each entry with its epoch, version and value.
   Premises: the VRF layer (C18) - outputs are well-formed non-colliding 256-bit labels and the
   server's proof verifies to its output. *)
Theorem C03_history_accepted_and_exact :
  forall cfg ck (vrf_label : bytes -> bool -> N -> option nlabel) (vrf_proof : bytes -> bool -> N -> option bytes)
         (vrf_check : bytes -> bytes -> bytes -> option bytes) (pk : bytes),
  canonical (c_empty_label cfg) = false ->
  (forall l f v nl, vrf_label l f v = Some nl -> NodeLabelFacts.WF nl /\ canonical nl = true /\ llen nl = 256) ->
  (forall l f v l' f' v' nl, vrf_label l f v = Some nl -> vrf_label l' f' v' = Some nl -> l = l' /\ f = f' /\ v = v') ->
  (forall l f v nl pr, vrf_label l f v = Some nl -> vrf_proof l f v = Some pr ->
     vrf_check pk pr (label_input_hash cfg l f v) = Some (lval nl)) ->
  forall reqs l params am p eh,
  let st := DirRefine.run_publishes cfg ck vrf_label dir_new reqs in
  key_history cfg ck vrf_label vrf_proof st l params = DOk (p, eh) ->
  key_history_verify cfg vrf_check pk (snd eh) (fst eh) l p params am =
  Some (map HistEnd.entry (HistEnd.hist_data st l params)).
Proof. exact HistEnd.key_history_reachable. Qed.
Print Assumptions C03_history_accepted_and_exact.

(* ... and that stored account is complete: in every reachable state the label's states, newest
   first, carry the versions N, N-1, ..., 1 (N = their number) with strictly decreasing epochs *)
Theorem C03_account_is_every_version :
  forall cfg ck (vrf_label : bytes -> bool -> N -> option nlabel) (vrf_proof : bytes -> bool -> N -> option bytes)
         (vrf_check : bytes -> bytes -> bytes -> option bytes) (pk : bytes),
  canonical (c_empty_label cfg) = false ->
  (forall l f v nl, vrf_label l f v = Some nl -> NodeLabelFacts.WF nl /\ canonical nl = true /\ llen nl = 256) ->
  (forall l f v l' f' v' nl, vrf_label l f v = Some nl -> vrf_label l' f' v' = Some nl -> l = l' /\ f = f' /\ v = v') ->
  (forall l f v nl pr, vrf_label l f v = Some nl -> vrf_proof l f v = Some pr ->
     vrf_check pk pr (label_input_hash cfg l f v) = Some (lval nl)) ->
  forall reqs, HistEnd.Inv3 cfg ck vrf_label (DirRefine.run_publishes cfg ck vrf_label dir_new reqs).
Proof. exact HistEnd.inv3_reachable. Qed.
Print Assumptions C03_account_is_every_version.

Theorem C03_account_shape : forall cfg ck (vrf_label : bytes -> bool -> N -> option nlabel) st,
  HistEnd.Inv3 cfg ck vrf_label st -> forall l,
  let h := user_history (d_states st) l (d_epoch st) in
  map vr_version h = HistEnd.countdown (N.of_nat (length h)) (length h) /\ HistEnd.sdesc h.
Proof. exact HistEnd.i3_hist. Qed.
Print Assumptions C03_account_shape.

(* ------------------------------------------------------------------ the premises are satisfiable *)
(* a finite VRF table (one user, versions below 4), a transparent 32-byte "hash", three publishes:
   the table meets the three premises, and the directory then serves a history proof - so the
   end-to-end theorems above (and those of C01, C02, C04, which share the premises) speak about
   something *)
From Coq Require Import Lia.
From Akd Require Import NodeLabelFacts BitsLabel.
Definition toyH (x : bytes) : bytes := firstn 32 (x ++ repeat 0 32).
Definition ex_user : bytes := [1].
Definition ex_bits (f : bool) (v : N) : list bool := f :: N.testbit v 1 :: N.testbit v 0 :: repeat false 253.
Definition ex_vrf_label (l : bytes) (f : bool) (v : N) : option nlabel :=
  if bytes_eqb l ex_user && (v <? 4) then Some (nl_of_bits (ex_bits f v)) else None.
Definition ex_vrf_proof (l : bytes) (f : bool) (v : N) : option bytes :=
  match ex_vrf_label l f v with Some nl => Some (lval nl) | None => None end.
Definition ex_vrf_check (pk pr alpha : bytes) : option bytes := Some pr.
Definition ex_st := DirRefine.run_publishes (whatsapp toyH) [9] ex_vrf_label dir_new [[(ex_user, [5])]; [(ex_user, [6])]; [(ex_user, [7])]].

Example C03_premises_satisfiable :
  (forall l f v nl, ex_vrf_label l f v = Some nl -> WF nl /\ canonical nl = true /\ llen nl = 256) /\
  (forall l f v l' f' v' nl, ex_vrf_label l f v = Some nl -> ex_vrf_label l' f' v' = Some nl -> l = l' /\ f = f' /\ v = v') /\
  (forall l f v nl pr, ex_vrf_label l f v = Some nl -> ex_vrf_proof l f v = Some pr ->
     ex_vrf_check [] pr (label_input_hash (whatsapp toyH) l f v) = Some (lval nl)) /\
  exists p eh, key_history (whatsapp toyH) [9] ex_vrf_label ex_vrf_proof ex_st ex_user HComplete = DOk (p, eh) /\ fst eh = 3.
Proof.
  assert (Hlen : forall f v, length (ex_bits f v) = 256%nat) by (intros; cbn [ex_bits length]; rewrite repeat_length; reflexivity).
  assert (Hsome : forall l f v nl, ex_vrf_label l f v = Some nl -> l = ex_user /\ v < 4 /\ nl = nl_of_bits (ex_bits f v)).
  { intros l f v nl H. unfold ex_vrf_label in H. destruct (bytes_eqb l ex_user) eqn:E1; [|discriminate].
    destruct (N.ltb_spec v 4); [|discriminate]. injection H as <-. apply NodeLabelFacts.bytes_eqb_eq in E1. auto. }
  split; [|split; [|split]].
  - intros l f v nl H. destruct (Hsome _ _ _ _ H) as (_ & _ & ->).
    destruct (nl_of_bits_WF (ex_bits f v) ltac:(rewrite Hlen; lia)) as [W C]. split; [exact W|]. split; [exact C|].
    unfold nl_of_bits. cbn [llen]. rewrite Hlen. reflexivity.
  - intros l f v l' f' v' nl H H'. destruct (Hsome _ _ _ _ H) as (-> & Hv & ->). destruct (Hsome _ _ _ _ H') as (-> & Hv' & E).
    split; [reflexivity|].
    assert (Eb : ex_bits f v = ex_bits f' v').
    { rewrite <- (bits_of_nl_of_bits (ex_bits f v)) by (rewrite Hlen; lia). rewrite E. apply bits_of_nl_of_bits. rewrite Hlen. lia. }
    unfold ex_bits in Eb. injection Eb as E0 E1 E2. split; [exact E0|].
    assert (C : v = 0 \/ v = 1 \/ v = 2 \/ v = 3) by lia. assert (C' : v' = 0 \/ v' = 1 \/ v' = 2 \/ v' = 3) by lia.
    destruct C as [->|[->|[->| ->]]]; destruct C' as [->|[->|[->| ->]]]; cbn in E1, E2; try reflexivity; discriminate.
  - intros l f v nl pr H H'. unfold ex_vrf_proof in H'. rewrite H in H'. injection H' as <-. reflexivity.
  - eexists. eexists. split; [vm_compute; reflexivity | reflexivity].
Qed.
