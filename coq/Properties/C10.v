(* C10 - A publish that returns an error leaves the directory exactly as it was.
   Storage side, generic in the program a publish runs inside its transaction: any sequence of
   storage operations, with any database call rejected and any cache entries evicted, followed by
   the rollback or by a commit that fails, restores the database, closes the transaction, empties
   the log and keeps the cache consistent with the database - so the same instance, cached or not,
   answers every later read as before.  (The insertion tasks of a publish are joined before the
   error is returned - fix F9 - and the root hash is computed before the commit - fix F6; both are
   decided on the implementation by the fault enumeration, see DESIGN.md.) *)
From Coq Require Import List Bool NArith.
From Akd Require Import Manager ManagerFacts.
Import ListNotations.
Open Scope N_scope.

Theorem C10_failed_publish_restores : forall s ops s',
  Inv s -> m_active s = false ->
  let s1 := fold_left run_op ops (fst (begin_transaction s)) in
  (s' = fst (rollback_transaction s1) \/ s' = fst (commit_transaction s1 true) \/
   (exists e, commit_transaction s1 false = (s', Err e))) ->
  m_db s' = m_db s /\ m_active s' = false /\ m_mods s' = [] /\ Inv s'.
Proof. exact failed_publish_restores. Qed.
Print Assumptions C10_failed_publish_restores.

(* nothing reaches the database while the transaction is open *)
Theorem C10_transaction_isolated : forall ops s, m_active s = true -> Inv s ->
  m_db (fold_left run_op ops s) = m_db s /\ m_active (fold_left run_op ops s) = true /\ Inv (fold_left run_op ops s).
Proof. exact run_ops_in_txn. Qed.
Print Assumptions C10_transaction_isolated.

(* and afterwards every read is answered from the (unchanged) database *)
Theorem C10_reads_after_failure : forall s k, Inv s -> m_active s = false ->
  snd (get_record s k false) = match kget (m_db s) k with Some r => Ok r | None => Err ENotFound end.
Proof. intros s k HI Ha. rewrite get_record_spec by exact HI. rewrite Ha. reflexivity. Qed.
Print Assumptions C10_reads_after_failure.
