(* C04 - Every epoch range can be audited against the published root hashes. *)
From Coq Require Import List Bool NArith.
From Akd Require Import NodeLabel Hashing Tree Directory Verify DirFacts.
From Akd Require Import Spec SpecFacts DirRefine AuditComplete AuditDir.
From Akd Require NodeLabelFacts.
Import ListNotations.
Open Scope N_scope.

Theorem C04_bad_range_refused : forall cfg st s e,
  e <= s \/ d_epoch st < e -> audit cfg st s e = DErrInvalidEpoch.
Proof. exact audit_range. Qed.
Print Assumptions C04_bad_range_refused.

Theorem C04_one_proof_per_epoch : forall cfg st s e p, audit cfg st s e = DOk p ->
  s < e /\ e <= d_epoch st /\ ap_epochs p = Nrange' s (N.to_nat (e - s)) /\
  length (ap_proofs p) = length (ap_epochs p) /\ length (ap_epochs p) = N.to_nat (e - s).
Proof. exact audit_shape. Qed.
Print Assumptions C04_one_proof_per_epoch.

Theorem C04_lengths_checked : forall cfg pf hashes p,
  audit_verify_gen cfg pf hashes p = true ->
  length hashes = S (length (ap_epochs p)) /\ length (ap_proofs p) = length (ap_epochs p).
Proof. exact audit_verify_lengths. Qed.
Print Assumptions C04_lengths_checked.

(* ------------------------------------------------------------------ completeness *)

(* for every valid range the server answers with a proof *)
Theorem C04_proof_available : forall cfg st s e, s < e -> e <= d_epoch st -> exists p, audit cfg st s e = DOk p.
Proof. exact audit_available. Qed.
Print Assumptions C04_proof_available.

(* tree level: for ANY canonical tree (what the directory's tree always is, C01) and any epoch s
   below its newest leaf, the single-epoch proof which the server's walk over the LATEST tree yields
   is accepted by the auditor against the hashes of the trees as of s and s+1 (the specification
   tries over the leaves inserted up to s, resp. s+1) - every hash configuration, every history *)
Theorem C04_single_epoch_proof_verifies : forall cfg, canonical (c_empty_label cfg) = false ->
  forall T s, canon_root T -> s < t_last_epoch T ->
  let w := ao_walk cfg 300 true T s (s + 1) in
  verify_consecutive cfg true (snd w, fst w) (spec_root_hash cfg (as_of s T)) (spec_root_hash cfg (as_of (s + 1) T)) (s + 1) = true.
Proof. exact audit_step_complete. Qed.
Print Assumptions C04_single_epoch_proof_verifies.

(* directory level: after ANY sequence of publish requests, every proof that [audit] returns is
   accepted by [audit_verify] against the hashes of the epochs s..e ... *)
Theorem C04_every_range_audits : forall cfg ck (vrf_label : bytes -> bool -> N -> option nlabel),
  canonical (c_empty_label cfg) = false ->
  (forall l f v nl, vrf_label l f v = Some nl -> NodeLabelFacts.WF nl /\ canonical nl = true /\ llen nl = 256) ->
  (forall l f v l' f' v' nl, vrf_label l f v = Some nl -> vrf_label l' f' v' = Some nl -> l = l' /\ f = f' /\ v = v') ->
  forall reqs s e p,
  let st := run_publishes cfg ck vrf_label dir_new reqs in
  audit cfg st s e = DOk p ->
  audit_verify_gen cfg true (map (hash_as_of cfg st) (Nrange' s (S (N.to_nat (e - s))))) p = true.
Proof. exact audit_reachable. Qed.
Print Assumptions C04_every_range_audits.

(* ... and those hashes are the ones the publishes returned: the epoch hash served when the
   directory stood at an earlier point of its history is the hash of that epoch read off any later
   state *)
Theorem C04_hashes_are_the_published_ones : forall cfg ck (vrf_label : bytes -> bool -> N -> option nlabel),
  canonical (c_empty_label cfg) = false ->
  (forall l f v nl, vrf_label l f v = Some nl -> NodeLabelFacts.WF nl /\ canonical nl = true /\ llen nl = 256) ->
  (forall l f v l' f' v' nl, vrf_label l f v = Some nl -> vrf_label l' f' v' = Some nl -> l = l' /\ f = f' /\ v = v') ->
  forall earlier later,
  let st1 := run_publishes cfg ck vrf_label dir_new earlier in
  let st := run_publishes cfg ck vrf_label dir_new (earlier ++ later) in
  d_epoch st1 <= d_epoch st /\ epoch_hash cfg st1 = (d_epoch st1, hash_as_of cfg st (d_epoch st1)).
Proof. exact published_hashes. Qed.
Print Assumptions C04_hashes_are_the_published_ones.

(* the premises are met by a concrete tree (two leaves, inserted at epochs 1 and 2) *)
Definition ex_T : tree :=
  Node nl_root 2 1 (Some (Leaf (nl_of_bits (repeat false 256)) (repeat 7 32) 1))
                   (Some (Leaf (nl_of_bits (true :: repeat false 255)) (repeat 9 32) 2)).
Example C04_premises_satisfiable : canon_root ex_T /\ 1 < t_last_epoch ex_T.
Proof.
  split; [|reflexivity]. cbn [canon_root ex_T]. split; [reflexivity|].
  split; [split; [vm_compute; reflexivity | split; [vm_compute; reflexivity | exact I]]|].
  split; [split; [vm_compute; reflexivity | split; [vm_compute; reflexivity | exact I]]|].
  split; reflexivity.
Qed.
