(* C04 - Every epoch range can be audited against the published root hashes. *)
From Coq Require Import List Bool NArith.
From Akd Require Import NodeLabel Hashing Tree Directory Verify DirFacts.
Import ListNotations.
Open Scope N_scope.

Theorem C04_bad_range_refused : forall cfg st s e,
  e <= s \/ d_epoch st < e -> audit cfg st s e = DErrInvalidEpoch.
Proof. exact audit_range. Qed.
Print Assumptions C04_bad_range_refused.

Theorem C04_one_proof_per_epoch : forall cfg st s e p, audit cfg st s e = DOk p ->
  s < e /\ e <= d_epoch st /\ ap_epochs p = Nrange' s (N.to_nat (e - s)) /\
  length (ap_proofs p) = length (ap_epochs p) /\ length (ap_epochs p) = N.to_nat (e - s).
Proof. exact audit_shape. Qed.
Print Assumptions C04_one_proof_per_epoch.

Theorem C04_lengths_checked : forall cfg pf hashes p,
  audit_verify_gen cfg pf hashes p = true ->
  length hashes = S (length (ap_epochs p)) /\ length (ap_proofs p) = length (ap_epochs p).
Proof. exact audit_verify_lengths. Qed.
Print Assumptions C04_lengths_checked.
