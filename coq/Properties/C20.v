(* C20 - Tombstoning old values never changes what the directory has committed to. *)
From Coq Require Import List Bool NArith.
From Akd Require Import NodeLabel Hashing Tree Manager ManagerFacts Directory Verify DirFacts.
Import ListNotations.
Open Scope N_scope.

(* storage side: only the value field of the user's value states with epoch <= c changes; node
   records, the epoch record, other users' states and the key set are exactly as before *)
Theorem C20_frame : forall s u c, Inv s -> m_active s = false ->
  forall k, kget (m_db (fst (tombstone s u c false false))) k =
            match kget (m_db s) k with Some r => Some (tombstoned u c r) | None => None end.
Proof. exact tombstone_frame. Qed.
Print Assumptions C20_frame.

(* directory side: the epoch hash is the same value, not merely a verifying one *)
Theorem C20_epoch_hash : forall cfg st l c, epoch_hash cfg (d_tombstone st l c) = epoch_hash cfg st.
Proof. exact tombstone_epoch_hash. Qed.
Print Assumptions C20_epoch_hash.

(* other labels' lookups, and the label's own lookup when the cut-off is before its latest update,
   return the very same proof *)
Theorem C20_lookups : forall cfg ck vl vp st l c l',
  (bytes_eqb l' l = false \/ exists s, latest_state (d_states st) l' (d_epoch st) = Some s /\ c < vr_epoch s) ->
  lookup cfg ck vl vp (d_tombstone st l c) l' = lookup cfg ck vl vp st l'.
Proof. exact tombstone_lookup. Qed.
Print Assumptions C20_lookups.

(* further publishes commute with tombstoning *)
Theorem C20_publish_commutes : forall cfg ck vl st l c upds st' r,
  c <= d_epoch st ->
  (forall u, In u (map fst upds) ->
     latest_state (map (tomb_state l c) (d_states st)) u (d_epoch st) = latest_state (d_states st) u (d_epoch st)) ->
  publish cfg ck vl st upds = (st', r) ->
  publish cfg ck vl (d_tombstone st l c) upds = (d_tombstone st' l c, r).
Proof. exact tombstone_publish_commute. Qed.
Print Assumptions C20_publish_commutes.
