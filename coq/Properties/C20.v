(* C20 - Tombstoning old values never changes what the directory has committed to. *)
From Coq Require Import List Bool NArith.
From Akd Require Import NodeLabel Hashing Tree Manager ManagerFacts Directory Verify DirFacts.
Import ListNotations.
Open Scope N_scope.

(* storage side: only the value field of the user's value states with epoch <= c changes; node
   records, the epoch record, other users' states and the key set are exactly as before *)
Theorem C20_frame : forall s u c, Inv s -> m_active s = false ->
  forall k, kget (m_db (fst (tombstone s u c false false))) k =
            match kget (m_db s) k with Some r => Some (tombstoned u c r) | None => None end.
Proof. exact tombstone_frame. Qed.
Print Assumptions C20_frame.

(* directory side: the epoch hash is the same value, not merely a verifying one *)
Theorem C20_epoch_hash : forall cfg st l c, epoch_hash cfg (d_tombstone st l c) = epoch_hash cfg st.
Proof. exact tombstone_epoch_hash. Qed.
Print Assumptions C20_epoch_hash.

(* other labels' lookups, and the label's own lookup when the cut-off is before its latest update,
   return the very same proof *)
Theorem C20_lookups : forall cfg ck vl vp st l c l',
  (bytes_eqb l' l = false \/ exists s, latest_state (d_states st) l' (d_epoch st) = Some s /\ c < vr_epoch s) ->
  lookup cfg ck vl vp (d_tombstone st l c) l' = lookup cfg ck vl vp st l'.
Proof. exact tombstone_lookup. Qed.
Print Assumptions C20_lookups.

(* further publishes commute with tombstoning *)
Theorem C20_publish_commutes : forall cfg ck vl st l c upds st' r,
  c <= d_epoch st ->
  (forall u, In u (map fst upds) ->
     latest_state (map (tomb_state l c) (d_states st)) u (d_epoch st) = latest_state (d_states st) u (d_epoch st)) ->
  publish cfg ck vl st upds = (st', r) ->
  publish cfg ck vl (d_tombstone st l c) upds = (d_tombstone st' l c, r).
Proof. exact tombstone_publish_commute. Qed.
Print Assumptions C20_publish_commutes.

(* ------------------------------------------------------------------ the label's history after tombstoning *)
From Akd Require Import NodeLabelFacts TreeFacts Binding DirRefine HistEnd TombHist.

(* After ANY sequence of publish requests and tombstoning of label l up to epoch c: the history proof
   served for any label l' (Complete or MostRecent n) verifies when missing values are allowed and
   reports the same versions and epochs - tombstoned values empty, the others intact; a verifier in
   Default mode still accepts it as long as no requested entry was tombstoned.  VRF premises as for
   C02/C03. *)
Theorem C20_history_verifies_after_tombstone :
  forall cfg ck (vrf_label : bytes -> bool -> N -> option nlabel) (vrf_proof : bytes -> bool -> N -> option bytes)
         (vrf_check : bytes -> bytes -> bytes -> option bytes) (pk : bytes),
  canonical (c_empty_label cfg) = false ->
  (forall l f v nl, vrf_label l f v = Some nl -> WF nl /\ canonical nl = true /\ llen nl = 256) ->
  (forall l f v l' f' v' nl, vrf_label l f v = Some nl -> vrf_label l' f' v' = Some nl -> l = l' /\ f = f' /\ v = v') ->
  (forall l f v nl pr, vrf_label l f v = Some nl -> vrf_proof l f v = Some pr ->
     vrf_check pk pr (label_input_hash cfg l f v) = Some (lval nl)) ->
  forall reqs l c l' params am p eh,
  let st := run_publishes cfg ck vrf_label dir_new reqs in
  key_history cfg ck vrf_label vrf_proof (d_tombstone st l c) l' params = DOk (p, eh) ->
  (am = true \/ forall s, In s (hist_data st l' params) -> vr_value (tomb_state l c s) = vr_value s) ->
  key_history_verify cfg vrf_check pk (snd eh) (fst eh) l' p params am =
  Some (map entry (map (tomb_state l c) (hist_data st l' params))).
Proof. exact tombstoned_history_verifies. Qed.
Print Assumptions C20_history_verifies_after_tombstone.

(* ... while a verifier that does not allow missing values rejects every history that includes an
   entry whose value was replaced (or the bad event of the configuration occurred) *)
Theorem C20_default_mode_rejects_tombstoned_history :
  forall cfg ck (vrf_label : bytes -> bool -> N -> option nlabel) (vrf_proof : bytes -> bool -> N -> option bytes)
         (vrf_check : bytes -> bytes -> bytes -> option bytes) (pk : bytes),
  canonical (c_empty_label cfg) = false ->
  (forall l f v nl, vrf_label l f v = Some nl -> WF nl /\ canonical nl = true /\ llen nl = 256) ->
  (forall l f v l' f' v' nl, vrf_label l f v = Some nl -> vrf_label l' f' v' = Some nl -> l = l' /\ f = f' /\ v = v') ->
  (forall l f v nl pr, vrf_label l f v = Some nl -> vrf_proof l f v = Some pr ->
     vrf_check pk pr (label_input_hash cfg l f v) = Some (lval nl)) ->
  forall reqs (Bad : Prop), Binding cfg Bad ->
  (forall key lb ver value, Len64 (c_commitment_nonce cfg key lb ver value)) ->
  forall l c l' params p eh,
  let st := run_publishes cfg ck vrf_label dir_new reqs in
  key_history cfg ck vrf_label vrf_proof (d_tombstone st l c) l' params = DOk (p, eh) ->
  (forall s, In s (d_states st) -> Len64 (vr_value s)) -> d_epoch st < 2 ^ 64 ->
  (exists s, In s (hist_data st l' params) /\ vr_value (tomb_state l c s) <> vr_value s) ->
  key_history_verify cfg vrf_check pk (snd eh) (fst eh) l' p params false = None \/ Bad.
Proof. exact tombstoned_history_rejected. Qed.
Print Assumptions C20_default_mode_rejects_tombstoned_history.
