(* C11 - A reader of a partially written commit still sees the previous epoch intact.
   [commit_shape base E r] is what a record of the commit of epoch E+1 looks like relative to the
   store [base] at epoch E (new label / updated node whose previous version is the old latest /
   the old record itself).  The correspondence check evaluates it on every real commit batch. *)
From Coq Require Import List Bool NArith.
From Akd Require Import NodeLabel Hashing Tree Store StoreFacts Directory DirFacts.
Import ListNotations.
Open Scope N_scope.

(* whatever part of the batch has reached storage, every node lookup as of epoch E is unchanged *)
Theorem C11_node_lookups_unchanged : forall base E written,
  (forall r, In r written -> commit_shape base E r = true) ->
  forall l, node_at (overlay written base) l E = node_at base l E.
Proof. exact node_at_overlay. Qed.
Print Assumptions C11_node_lookups_unchanged.

(* hence the tree a second instance reconstructs, and the root hash it reports, are the previous epoch's *)
Theorem C11_view_unchanged : forall fuel base E batch written l,
  (forall r, In r batch -> commit_shape base E r = true) -> (forall r, In r written -> In r batch) ->
  view fuel (overlay written base) E l = view fuel base E l.
Proof. exact view_partial_commit. Qed.
Print Assumptions C11_view_unchanged.

Theorem C11_root_hash_unchanged : forall cfg base E written,
  (forall r, In r written -> commit_shape base E r = true) ->
  root_hash_at cfg (overlay written base) E = root_hash_at cfg base E.
Proof. exact root_hash_overlay. Qed.
Print Assumptions C11_root_hash_unchanged.

(* values of the unfinished epoch are invisible: states stamped with a later epoch do not change
   the latest state at or before E *)
Theorem C11_values_invisible : forall sts news u E,
  (forall s, In s news -> E < vr_epoch s) -> latest_state (sts ++ news) u E = latest_state sts u E.
Proof. exact latest_state_future. Qed.
Print Assumptions C11_values_invisible.
