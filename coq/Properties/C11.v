(* C11 - A reader of a partially written commit still sees the previous epoch intact.
   [commit_shape base E r] is what a record of the commit of epoch E+1 looks like relative to the
   store [base] at epoch E (new label / updated node whose previous version is the old latest /
   the old record itself).  The correspondence check evaluates it on every real commit batch. *)
From Coq Require Import List Bool NArith.
From Akd Require Import NodeLabel Hashing Tree Store StoreFacts StoreWrite Directory DirFacts.
Import ListNotations.
Open Scope N_scope.

(* whatever part of the batch has reached storage, every node lookup as of epoch E is unchanged *)
Theorem C11_node_lookups_unchanged : forall base E written,
  (forall r, In r written -> commit_shape base E r = true) ->
  forall l, node_at (overlay written base) l E = node_at base l E.
Proof. exact node_at_overlay. Qed.
Print Assumptions C11_node_lookups_unchanged.

(* hence the tree a second instance reconstructs, and the root hash it reports, are the previous epoch's *)
Theorem C11_view_unchanged : forall fuel base E batch written l,
  (forall r, In r batch -> commit_shape base E r = true) -> (forall r, In r written -> In r batch) ->
  view fuel (overlay written base) E l = view fuel base E l.
Proof. exact view_partial_commit. Qed.
Print Assumptions C11_view_unchanged.

Theorem C11_root_hash_unchanged : forall cfg base E written,
  (forall r, In r written -> commit_shape base E r = true) ->
  root_hash_at cfg (overlay written base) E = root_hash_at cfg base E.
Proof. exact root_hash_overlay. Qed.
Print Assumptions C11_root_hash_unchanged.

(* values of the unfinished epoch are invisible: states stamped with a later epoch do not change
   the latest state at or before E *)
Theorem C11_values_invisible : forall sts news u E,
  (forall s, In s news -> E < vr_epoch s) -> latest_state (sts ++ news) u E = latest_state sts u E.
Proof. exact latest_state_future. Qed.
Print Assumptions C11_values_invisible.

(* ---- where the shape comes from, and crashes followed by retries (StoreWrite.v): a node record is
   written with the node of the new epoch as latest version and, as previous version, the stored
   record's version AS OF THE EPOCH BEFORE.  Such a record has the shape assumed above; writing it
   again over the record of an attempt at the same epoch that died half-way gives the same record as
   a first attempt - so the theorems above cover whatever part of dead attempts and retries has
   reached storage.  Selecting the previous version as of the node's own epoch (seeded change C11-5)
   is refuted. *)
Theorem C11_written_records_have_the_shape : forall base E l n, store_at base E -> sn_le n = E + 1 ->
  forall r', rotate false (base l) (match base l with None => true | Some _ => false end) l n = Some r' ->
  commit_shape base E r' = true.
Proof. exact rotate_shape. Qed.
Print Assumptions C11_written_records_have_the_shape.

Theorem C11_retry_writes_the_same_record : forall base E l n1 n2 r r1, store_at base E -> base l = Some r ->
  sn_le n1 = E + 1 -> sn_le n2 = E + 1 ->
  rotate false (Some r) false l n1 = Some r1 ->
  rotate false (Some r1) false l n2 = rotate false (Some r) false l n2.
Proof. exact rotate_again. Qed.
Print Assumptions C11_retry_writes_the_same_record.

Theorem C11_dead_attempt_and_retry_keep_the_shape : forall base E l n1 n2 r r1 r2, store_at base E -> base l = Some r ->
  sn_le n1 = E + 1 -> sn_le n2 = E + 1 ->
  rotate false (Some r) false l n1 = Some r1 -> rotate false (Some r1) false l n2 = Some r2 ->
  commit_shape base E r1 = true /\ commit_shape base E r2 = true.
Proof. exact retry_records_keep_shape. Qed.
Print Assumptions C11_dead_attempt_and_retry_keep_the_shape.

Theorem C11_rotation_as_of_own_epoch_refuted :
  let l := nl_root in
  let base : Store.lookup := fun k => if nl_eqb k l then Some (SR l (sn0 1 10) None) else None in
  exists r1 r2,
    rotate true (base l) false l (sn0 2 20) = Some r1 /\ rotate true (Some r1) false l (sn0 2 21) = Some r2 /\
    sr_prev r2 = Some (sn0 2 20) /\ commit_shape base 1 r2 = false /\
    node_at (overlay [r2] base) l 1 <> node_at base l 1.
Proof. exact rotate_as_of_own_epoch_refuted. Qed.
Print Assumptions C11_rotation_as_of_own_epoch_refuted.

(* whatever part of a dead attempt at epoch E+1 and, on top of it, of its retry has reached storage:
   the tree a reader reconstructs as of E, and every node lookup, are those before the crash *)
Theorem C11_dead_attempts_and_retries_invisible : forall fuel base E dead retry l,
  (forall r, In r dead -> commit_shape base E r = true) ->
  (forall r, In r retry -> commit_shape base E r = true) ->
  view fuel (overlay retry (overlay dead base)) E l = view fuel base E l /\
  (forall k, node_at (overlay retry (overlay dead base)) k E = node_at base k E).
Proof. exact dead_attempts_and_retries_invisible. Qed.
Print Assumptions C11_dead_attempts_and_retries_invisible.
