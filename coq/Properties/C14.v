(* C14 - Results do not depend on parallelism, caching, preloading, batching or restarts.
   The model has no parallelism, cache, feature or object-state parameter at all: every configuration
   of the implementation is compared with the one model (and the cache is transparent by C16).
   Proved here: the tree does not depend on the order in which a batch of distinct equal-length leaves
   is handed to batch insertion. *)
From Coq Require Import List Bool NArith Permutation.
From Akd Require Import Bits NodeLabel ElemSet Hashing Tree Insert InsertFacts InsertRefine SpecFacts Spec ParallelIns.
Import ListNotations.
Open Scope N_scope.

Theorem C14_insertion_order_irrelevant : forall empty st elems elems' (len : N),
  Permutation elems elems' -> distinct_labels elems ->
  (forall x, In x elems -> llen (e_label x) = len) ->
  batch_insert empty st elems = batch_insert empty st elems'.
Proof. exact batch_insert_order. Qed.
Print Assumptions C14_insertion_order_irrelevant.

(* whole histories: permuting the elements inside every batch (the order in which parallel VRF
   evaluation or any front end happens to deliver them) yields the identical tree *)
Theorem C14_history_order_irrelevant : forall empty, canonical empty = false -> forall (cfg : config) bs bs',
  (forall b, In b bs -> batch_ok b) -> NoDup (map e_label (concat bs)) ->
  Forall2 (@Permutation elem) bs bs' ->
  exists t t' num num', run_batches empty azks_new bs = Some (t, N.of_nat (length bs), num) /\
    run_batches empty azks_new bs' = Some (t', N.of_nat (length bs), num') /\ t = t'.
Proof. exact azks_history_order. Qed.
Print Assumptions C14_history_order_irrelevant.

(* the tree depends on the set of leaves only: it is the specification trie, whose definition has no
   notion of batching, parallelism or insertion order *)
Theorem C14_tree_is_function_of_leaves : forall t t', canon_root t -> canon_root t' ->
  Permutation (sleaves t) (sleaves t') -> t = t'.
Proof. exact canon_root_unique. Qed.
Print Assumptions C14_tree_is_function_of_leaves.

(* one epoch inserted in pieces: the caller puts the epoch counter back between the calls (which is
   how sub-batches of one epoch are inserted through Azks::batch_insert_nodes); the tree is that of
   the single batch.  [bound] is the newest epoch the tree may already hold. *)
Theorem C14_sub_batches_two : forall empty, canonical empty = false -> forall root latest bound num b1 b2,
  root_inv bound root -> bound <= latest + 1 -> batch_ok (b1 ++ b2) ->
  (forall x y, In x (b1 ++ b2) -> In y (leaves root) -> e_label x <> lf_label y) ->
  exists r1 n1 r n2 n12,
    batch_insert empty (root, latest, num) b1 = Some (r1, latest + 1, n1) /\
    batch_insert empty (r1, latest, n1) b2 = Some (r, latest + 1, n2) /\
    batch_insert empty (root, latest, num) (b1 ++ b2) = Some (r, latest + 1, n12) /\
    root_inv (latest + 1) r1 /\
    (forall x y, In x b2 -> In y (leaves r1) -> e_label x <> lf_label y).
Proof. exact batch_insert_split. Qed.
Print Assumptions C14_sub_batches_two.

Theorem C14_sub_batches : forall empty, canonical empty = false -> forall ps root latest bound num,
  root_inv bound root -> bound <= latest + 1 -> batch_ok (concat ps) ->
  (forall x y, In x (concat ps) -> In y (leaves root) -> e_label x <> lf_label y) ->
  exists r n n', run_pieces empty root latest num ps = Some (r, n) /\
                 batch_insert empty (root, latest, num) (concat ps) = Some (r, latest + 1, n').
Proof. exact pieces_as_one. Qed.
Print Assumptions C14_sub_batches.

(* ---- parallel insertion (ParallelIns.v).  The two children of an interior node are handled
   independently (the left one in a spawned task); the values they compute are those of the pure
   model; what a parallel run can change is the order in which their node records reach the shared
   store.  The node labels of the two sides are disjoint, and writes to disjoint key sets commute
   under every interleaving: the store is that of the sequential run (left, then right), and what a
   side reads of its own keys meanwhile does not depend on the other side's progress. *)
Theorem C14_sides_disjoint : forall l le mde a b,
  wf_sub (Node l le mde (Some a) (Some b)) = true ->
  forall x y, In x (node_labels a) -> In y (node_labels b) -> bits_of x <> bits_of y.
Proof. exact sides_disjoint. Qed.
Print Assumptions C14_sides_disjoint.

Theorem C14_disjoint_writes_commute : forall (V : Type) w1 w2 w st,
  interleave V w1 w2 w -> (forall k, In k (keys V w1) -> ~ In k (keys V w2)) ->
  forall k, apply_writes V w st k = apply_writes V (w1 ++ w2) st k.
Proof. exact disjoint_writes_commute. Qed.
Print Assumptions C14_disjoint_writes_commute.

Theorem C14_parallel_sides_as_sequential : forall (V : Type) l le mde a b (wa wb w : list (bits * V)) st,
  wf_sub (Node l le mde (Some a) (Some b)) = true ->
  (forall k, In k (keys V wa) -> exists x, In x (node_labels a) /\ k = bits_of x) ->
  (forall k, In k (keys V wb) -> exists y, In y (node_labels b) /\ k = bits_of y) ->
  interleave V wa wb w ->
  forall k, apply_writes V w st k = apply_writes V (wa ++ wb) st k.
Proof. exact parallel_sides_as_sequential. Qed.
Print Assumptions C14_parallel_sides_as_sequential.

Theorem C14_own_keys_unaffected : forall (V : Type) w_other st k,
  ~ In k (keys V w_other) -> apply_writes V w_other st k = st k.
Proof. exact own_keys_unaffected. Qed.
Print Assumptions C14_own_keys_unaffected.

Example C14_sides_premise_sat :
  let a := Leaf (nl_of_bits (repeat false 256)) [] 1 in
  let b := Leaf (nl_of_bits (true :: repeat false 255)) [] 1 in
  wf_sub (Node nl_root 1 1 (Some a) (Some b)) = true /\
  node_labels a <> [] /\ node_labels b <> [].
Proof. exact sides_premise_sat. Qed.
