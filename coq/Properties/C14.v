(* C14 - Results do not depend on parallelism, caching, preloading, batching or restarts.
   The model has no parallelism, cache, feature or object-state parameter at all: every configuration
   of the implementation is compared with the one model (and the cache is transparent by C16).
   Proved here: the tree does not depend on the order in which a batch of distinct equal-length leaves
   is handed to batch insertion. *)
From Coq Require Import List Bool NArith Permutation.
From Akd Require Import NodeLabel ElemSet Hashing Tree Insert InsertFacts.
Import ListNotations.
Open Scope N_scope.

Theorem C14_insertion_order_irrelevant : forall empty st elems elems' (len : N),
  Permutation elems elems' -> distinct_labels elems ->
  (forall x, In x elems -> llen (e_label x) = len) ->
  batch_insert empty st elems = batch_insert empty st elems'.
Proof. exact batch_insert_order. Qed.
Print Assumptions C14_insertion_order_irrelevant.
