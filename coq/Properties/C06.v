(* C06 - A verifying lookup proof can only report the label's latest version.
   [t] is the tree of the honestly maintained directory at the epoch in question, described only
   through what it holds at the VRF labels of the queried label l (tree_fresh, tree_stale).  The VRF
   is the function nlabel_of with the uniqueness hypothesis VrfUnique (a Section-style premise, not an
   axiom); the hash enters through Binding, proved for both real configurations below. *)
From Coq Require Import List Bool NArith.
From Akd Require Import NodeLabel NodeLabelFacts Hashing Tree TreeFacts Binding HashingFacts HashingBinding Directory Verify DirSound.
Import ListNotations.
Open Scope N_scope.

Theorem C06_lookup_sound :
  forall (cfg : config) (Bad : Prop), Binding cfg Bad ->
  forall (vrf_check : bytes -> bytes -> bytes -> option bytes) (pk ck l : bytes) (t : tree),
  tree_ok t -> wf_root t = true ->
  forall nlabel_of : bool -> N -> nlabel,
  (forall f v, llen (nlabel_of f v) = 256 /\ WF (nlabel_of f v) /\ LW (nlabel_of f v)) ->
  (* VrfUnique *)
  (forall proof f v out, vrf_check pk proof (label_input_hash cfg l f v) = Some out -> NL out 256 = nlabel_of f v) ->
  forall (n : N) (val_of : N -> bytes) (ep_of : N -> N),
  (forall v, Len64 (val_of v)) -> (forall v, ep_of v < 2 ^ 64) ->
  (* honest tree: a leaf at a fresh label of l is the prescribed one; superseded versions are retired *)
  (forall y v, In y (leaves t) -> lf_label y = nlabel_of true v ->
     1 <= v /\ v <= n /\ lf_value y = fresh_value cfg ck (nlabel_of true v) v (val_of v) /\ lf_epoch y = ep_of v) ->
  (forall v, 1 <= v -> v < n -> In (nlabel_of false v) (map lf_label (leaves t))) ->
  (forall v, Len64 (c_commitment_nonce cfg ck (nl_to_bytes (nlabel_of true v)) v (val_of v))) ->
  forall (E : N) (p : lookup_proof) (r : verify_result), lp_ok p ->
  lookup_verify cfg vrf_check pk (root_hash cfg true t) E l p = Some r ->
  (r_version r = n /\ r_value r = val_of n /\ r_epoch r = ep_of n) \/ Bad.
Proof. exact lookup_sound. Qed.
Print Assumptions C06_lookup_sound.

Theorem C06_binding_whatsapp : forall H, (forall x, length (H x) = 32%nat) -> Binding (whatsapp H) (Collision H).
Proof. exact whatsapp_binding. Qed.
Print Assumptions C06_binding_whatsapp.

Theorem C06_binding_experimental : forall H, (forall x, length (H x) = 32%nat) ->
  forall domain, Binding (experimental H domain) (BadE H).
Proof. exact experimental_binding. Qed.
Print Assumptions C06_binding_experimental.
