(* C06 - A verifying lookup proof can only report the label's latest version.
   [t] is the tree of the honestly maintained directory at the epoch in question, described only
   through what it holds at the VRF labels of the queried label l (tree_fresh, tree_stale).  The VRF
   is the function nlabel_of with the uniqueness hypothesis VrfUnique (a Section-style premise, not an
   axiom); the hash enters through Binding, proved for both real configurations below. *)
From Coq Require Import List Bool NArith.
From Akd Require Import NodeLabel NodeLabelFacts Hashing Tree TreeFacts Binding HashingFacts HashingBinding Directory Verify DirSound.
Import ListNotations.
Open Scope N_scope.

Theorem C06_lookup_sound :
  forall (cfg : config) (Bad : Prop), Binding cfg Bad ->
  forall (vrf_check : bytes -> bytes -> bytes -> option bytes) (pk ck l : bytes) (t : tree),
  tree_ok t -> wf_root t = true ->
  forall nlabel_of : bool -> N -> nlabel,
  (forall f v, llen (nlabel_of f v) = 256 /\ WF (nlabel_of f v) /\ LW (nlabel_of f v)) ->
  (* VrfUnique *)
  (forall proof f v out, v < 2 ^ 64 -> vrf_check pk proof (label_input_hash cfg l f v) = Some out -> NL out 256 = nlabel_of f v) ->
  forall (n : N) (val_of : N -> bytes) (ep_of : N -> N),
  (forall v, Len64 (val_of v)) -> (forall v, ep_of v < 2 ^ 64) ->
  (* honest tree: a leaf at a fresh label of l is the prescribed one; superseded versions are retired *)
  (forall y v, v < 2 ^ 64 -> In y (leaves t) -> lf_label y = nlabel_of true v ->
     1 <= v /\ v <= n /\ lf_value y = fresh_value cfg ck (nlabel_of true v) v (val_of v) /\ lf_epoch y = ep_of v) ->
  (forall v, 1 <= v -> v < n -> In (nlabel_of false v) (map lf_label (leaves t))) ->
  (forall v, Len64 (c_commitment_nonce cfg ck (nl_to_bytes (nlabel_of true v)) v (val_of v))) ->
  forall (E : N) (p : lookup_proof) (r : verify_result), lp_ok p ->
  lookup_verify cfg vrf_check pk (root_hash cfg true t) E l p = Some r ->
  (r_version r = n /\ r_value r = val_of n /\ r_epoch r = ep_of n) \/ Bad.
Proof. exact lookup_sound. Qed.
Print Assumptions C06_lookup_sound.

Theorem C06_binding_whatsapp : forall H, (forall x, length (H x) = 32%nat) -> Binding (whatsapp H) (Collision H).
Proof. exact whatsapp_binding. Qed.
Print Assumptions C06_binding_whatsapp.

Theorem C06_binding_experimental : forall H, (forall x, length (H x) = 32%nat) ->
  forall domain, Binding (experimental H domain) (BadE H).
Proof. exact experimental_binding. Qed.
Print Assumptions C06_binding_experimental.

(* ------------------------------------------------------------------ at the directory level *)
From Akd Require DirRefine DirSoundReach.
(* The honest-tree premises above are what the directory model builds: after ANY sequence of publish
   requests, whatever lookup proof is presented against the served epoch hash - if it verifies, it
   names exactly the label's latest stored state (epoch, version, value); for an unpublished label
   nothing verifies.  Or the bad event of the configuration occurred.
   Premises: the server's VRF table (well-formed, non-colliding 256-bit outputs); the verifier's side
   of the VRF for this label as a total function F which the table agrees with, whose values no other
   table entry takes, and which every verifying VRF proof outputs (uniqueness); nonces and stored
   values shorter than 2^64 bytes, the stale value a digest, the epoch a u64. *)
Theorem C06_lookup_sound_in_every_reachable_state :
  forall (cfg : config) (Bad : Prop), Binding cfg Bad ->
  forall (ck : bytes) (vrf_label : bytes -> bool -> N -> option nlabel),
  (forall l f v nl, vrf_label l f v = Some nl -> WF nl /\ canonical nl = true /\ llen nl = 256) ->
  (forall l f v l' f' v' nl, vrf_label l f v = Some nl -> vrf_label l' f' v' = Some nl -> l = l' /\ f = f' /\ v = v') ->
  forall (vrf_check : bytes -> bytes -> bytes -> option bytes) (pk l : bytes) (F : bool -> N -> nlabel),
  (forall f v, llen (F f v) = 256 /\ WF (F f v) /\ LW (F f v)) ->
  (forall f v nl, vrf_label l f v = Some nl -> nl = F f v) ->
  (forall f v l' f' v', v < 2 ^ 64 -> vrf_label l' f' v' = Some (F f v) -> l' = l /\ f' = f /\ v' = v) ->
  (forall proof f v out, v < 2 ^ 64 -> vrf_check pk proof (label_input_hash cfg l f v) = Some out -> NL out 256 = F f v) ->
  (forall key lb ver value, Len64 (c_commitment_nonce cfg key lb ver value)) ->
  D32 (c_stale_value cfg) ->
  forall reqs,
  let st := DirRefine.run_publishes cfg ck vrf_label dir_new reqs in
  (forall s, In s (d_states st) -> Len64 (vr_value s)) -> d_epoch st < 2 ^ 64 ->
  forall E p r, lp_ok p ->
  lookup_verify cfg vrf_check pk (snd (epoch_hash cfg st)) E l p = Some r ->
  (exists s, latest_state (d_states st) l (d_epoch st) = Some s /\ r = DirSoundReach.entry_of_state s) \/ Bad.
Proof. exact DirSoundReach.lookup_sound_reachable. Qed.
Print Assumptions C06_lookup_sound_in_every_reachable_state.

(* the two configuration-level premises hold for both real configurations *)
Theorem C06_config_premises_real : forall (H : bytes -> bytes), (forall x, length (H x) = 32%nat) ->
  forall domain key lb ver value,
    Len64 (c_commitment_nonce (whatsapp H) key lb ver value) /\ Len64 (c_commitment_nonce (experimental H domain) key lb ver value).
Proof. exact nonce_len_real. Qed.
Print Assumptions C06_config_premises_real.

(* ------------------------------------------------------------------ the premises are satisfiable, with a verifying proof *)
(* A finite VRF table (one user, versions below 4), the verifier-side function F extending it, a VRF
   check that accepts exactly the table's proofs, a transparent 32-byte "hash" that keeps its (short)
   input: every premise of C06_lookup_sound_in_every_reachable_state holds, and the honest lookup
   proof verifies - the premises are not contradictory in the presence of a verifying proof.  (With a
   transparent hash the bad event is of course true; the point here is the premises.) *)
From Coq Require Import Lia Arith.
From Akd Require Import BitsLabel HashingFacts HashingBinding DirRefine LookupComplete.
Definition s6_H (x : bytes) : bytes := firstn 32 (rev x ++ repeat 0 32).
Definition s6_user : bytes := [1].
Definition s6_bits (f : bool) (v : N) : list bool := f :: N.testbit v 1 :: N.testbit v 0 :: repeat false 253.
Definition s6_vrf_label (l : bytes) (f : bool) (v : N) : option nlabel :=
  if bytes_eqb l s6_user && (v <? 4) then Some (nl_of_bits (s6_bits f v)) else None.
Definition s6_F (f : bool) (v : N) : nlabel := if v <? 4 then nl_of_bits (s6_bits f v) else nl_of_bits (repeat true 256).
Definition s6_cands : list (bool * N) := [(true, 0); (true, 1); (true, 2); (true, 3); (false, 0); (false, 1); (false, 2); (false, 3)].
Definition s6_cfg : config := whatsapp s6_H.
Definition s6_check (pk pr alpha : bytes) : option bytes :=
  if existsb (fun c => bytes_eqb alpha (label_input_hash s6_cfg s6_user (fst c) (snd c)) && bytes_eqb pr (lval (s6_F (fst c) (snd c)))) s6_cands
  then Some pr else None.
Definition s6_vrf_proof (l : bytes) (f : bool) (v : N) : option bytes :=
  match s6_vrf_label l f v with Some nl => Some (lval nl) | None => None end.
Definition s6_st := run_publishes s6_cfg [9] s6_vrf_label dir_new [[(s6_user, [5])]; [(s6_user, [6])]].

Lemma s6_H_len x : length (s6_H x) = 32%nat.
Proof. unfold s6_H. rewrite firstn_length, app_length, repeat_length. lia. Qed.

Lemma s6_H_short x y : (length x <= 32)%nat -> length y = length x -> s6_H x = s6_H y -> x = y.
Proof.
  intros Lx Ly E. unfold s6_H in E.
  assert (Ex : firstn (length x) (firstn 32 (rev x ++ repeat 0 32)) = rev x).
  { rewrite firstn_firstn, Nat.min_l by lia. rewrite firstn_app, rev_length, Nat.sub_diag, firstn_O, app_nil_r. rewrite <- (rev_length x). apply firstn_all. }
  assert (Ey : firstn (length x) (firstn 32 (rev y ++ repeat 0 32)) = rev y).
  { rewrite <- Ly. rewrite firstn_firstn, Nat.min_l by lia. rewrite firstn_app, rev_length, Nat.sub_diag, firstn_O, app_nil_r. rewrite <- (rev_length y). apply firstn_all. }
  rewrite E in Ex. rewrite Ex in Ey. rewrite <- (rev_involutive x), <- (rev_involutive y), Ey. reflexivity.
Qed.

Lemma s6_input_inj f v f' v' : v < 2 ^ 64 -> v' < 2 ^ 64 ->
  label_input_hash s6_cfg s6_user f v = label_input_hash s6_cfg s6_user f' v' -> f = f' /\ v = v'.
Proof.
  intros Hv Hv' E. unfold label_input_hash, s6_cfg in E. cbn [c_hash whatsapp] in E.
  apply s6_H_short in E.
  - apply app_inv_head in E. apply HashingFacts.app_eq_len in E; [|reflexivity]. destruct E as [E1 E2].
    split; [destruct f, f'; try reflexivity; discriminate|].
    apply (be_bytes_inj 8); [exact Hv | exact Hv' | exact E2].
  - rewrite !app_length. unfold i2osp_array, be64. rewrite !app_length, !length_be_bytes. cbn. lia.
  - rewrite !app_length. unfold be64. rewrite !length_be_bytes. reflexivity.
Qed.

Example C06_reachable_premises_satisfiable :
  (forall l f v nl, s6_vrf_label l f v = Some nl -> WF nl /\ canonical nl = true /\ llen nl = 256) /\
  (forall l f v l' f' v' nl, s6_vrf_label l f v = Some nl -> s6_vrf_label l' f' v' = Some nl -> l = l' /\ f = f' /\ v = v') /\
  (forall f v, llen (s6_F f v) = 256 /\ WF (s6_F f v) /\ LW (s6_F f v)) /\
  (forall f v nl, s6_vrf_label s6_user f v = Some nl -> nl = s6_F f v) /\
  (forall f v l' f' v', v < 2 ^ 64 -> s6_vrf_label l' f' v' = Some (s6_F f v) -> l' = s6_user /\ f' = f /\ v' = v) /\
  (forall proof f v out, v < 2 ^ 64 -> s6_check [] proof (label_input_hash s6_cfg s6_user f v) = Some out -> NL out 256 = s6_F f v) /\
  (forall key lb ver value, Len64 (c_commitment_nonce s6_cfg key lb ver value)) /\ D32 (c_stale_value s6_cfg) /\
  (forall s, In s (d_states s6_st) -> Len64 (vr_value s)) /\ d_epoch s6_st < 2 ^ 64 /\
  exists p eh, lookup s6_cfg [9] s6_vrf_label s6_vrf_proof s6_st s6_user = DOk (p, eh) /\
    lookup_verify s6_cfg s6_check [] (snd eh) (fst eh) s6_user p = Some (VRes 2 2 [6]).
Proof.
  assert (Hlen : forall f v, length (s6_bits f v) = 256%nat) by (intros; cbn [s6_bits length]; rewrite repeat_length; reflexivity).
  assert (Hones : length (repeat true 256) = 256%nat) by apply repeat_length.
  assert (Hsome : forall l f v nl, s6_vrf_label l f v = Some nl -> l = s6_user /\ v < 4 /\ nl = nl_of_bits (s6_bits f v)).
  { intros l f v nl H. unfold s6_vrf_label in H. destruct (bytes_eqb l s6_user) eqn:E1; [|discriminate].
    destruct (N.ltb_spec v 4); [|discriminate]. injection H as <-. apply NodeLabelFacts.bytes_eqb_eq in E1. auto. }
  assert (Hbits : forall f v f' v', v < 4 -> v' < 4 -> s6_bits f v = s6_bits f' v' -> f = f' /\ v = v').
  { intros f v f' v' Hv Hv' Eb. unfold s6_bits in Eb. injection Eb as E0 E1 E2. split; [exact E0|].
    assert (C : v = 0 \/ v = 1 \/ v = 2 \/ v = 3) by lia. assert (C' : v' = 0 \/ v' = 1 \/ v' = 2 \/ v' = 3) by lia.
    destruct C as [->|[->|[->| ->]]]; destruct C' as [->|[->|[->| ->]]]; cbn in E1, E2; try reflexivity; discriminate. }
  assert (Hnl_inj : forall a b, length a = 256%nat -> length b = 256%nat -> nl_of_bits a = nl_of_bits b -> a = b).
  { intros a b La Lb E. rewrite <- (bits_of_nl_of_bits a) by lia. rewrite E. apply bits_of_nl_of_bits. lia. }
  assert (HF : forall f v, llen (s6_F f v) = 256 /\ WF (s6_F f v) /\ LW (s6_F f v)).
  { intros f v. unfold s6_F. destruct (v <? 4).
    - destruct (nl_of_bits_WF (s6_bits f v) ltac:(rewrite Hlen; lia)) as [W C]. split; [unfold nl_of_bits; cbn [llen]; rewrite Hlen; reflexivity|]. split; [exact W | apply AuditSound.WF_LW; exact W].
    - destruct (nl_of_bits_WF (repeat true 256) ltac:(rewrite Hones; lia)) as [W C]. split; [unfold nl_of_bits; cbn [llen]; rewrite Hones; reflexivity|]. split; [exact W | apply AuditSound.WF_LW; exact W]. }
  assert (HFinj : forall f v l' f' v', v < 2 ^ 64 -> s6_vrf_label l' f' v' = Some (s6_F f v) -> l' = s6_user /\ f' = f /\ v' = v).
  { intros f v l' f' v' _ H. destruct (Hsome _ _ _ _ H) as (-> & Hv' & E). split; [reflexivity|]. unfold s6_F in E.
    destruct (N.ltb_spec v 4) as [Hv|Hv].
    - apply Hnl_inj in E; try apply Hlen. destruct (Hbits _ _ _ _ Hv Hv' E) as [-> ->]. split; reflexivity.
    - exfalso. apply Hnl_inj in E; [|exact Hones|apply Hlen]. unfold s6_bits in E. cbn in E. discriminate. }
  split; [|split; [|split; [|split; [|split; [|split; [|split; [|split; [|split; [|split]]]]]]]]].
  - intros l f v nl H. destruct (Hsome _ _ _ _ H) as (_ & _ & ->).
    destruct (nl_of_bits_WF (s6_bits f v) ltac:(rewrite Hlen; lia)) as [W C]. split; [exact W|]. split; [exact C|].
    unfold nl_of_bits. cbn [llen]. rewrite Hlen. reflexivity.
  - intros l f v l' f' v' nl H H'. destruct (Hsome _ _ _ _ H) as (-> & Hv & ->). destruct (Hsome _ _ _ _ H') as (-> & Hv' & E).
    split; [reflexivity|]. apply Hnl_inj in E; try apply Hlen. apply (Hbits _ _ _ _ Hv Hv' E).
  - exact HF.
  - intros f v nl H. destruct (Hsome _ _ _ _ H) as (_ & Hv & ->). unfold s6_F. apply N.ltb_lt in Hv. rewrite Hv. reflexivity.
  - exact HFinj.
  - intros proof f v out Hv H. unfold s6_check in H.
    destruct (existsb _ s6_cands) eqn:Ex; [|discriminate]. injection H as <-.
    apply existsb_exists in Ex. destruct Ex as ([f' v'] & Hc & Hb). cbn [fst snd] in Hb.
    apply andb_true_iff in Hb. destruct Hb as [Ha Hp]. apply NodeLabelFacts.bytes_eqb_eq in Ha, Hp.
    assert (Hv' : v' < 2 ^ 64).
    { assert (v' < 4) by (unfold s6_cands in Hc; cbn [In] in Hc; repeat (destruct Hc as [Hc|Hc]; [injection Hc as _ <-; lia|]); destruct Hc).
      assert (4 < 2 ^ 64) by (vm_compute; reflexivity). lia. }
    destruct (s6_input_inj f v f' v' Hv Hv' Ha) as [-> ->]. rewrite Hp.
    apply (full_label_eta (s6_F f' v')). apply HF.
  - intros key lb ver value. apply (nonce_len_real s6_H s6_H_len []).
  - apply s6_H_len.
  - intros s Hs. vm_compute in Hs. repeat (destruct Hs as [<-|Hs]; [unfold Len64; vm_compute; reflexivity|]). destruct Hs.
  - vm_compute. reflexivity.
  - eexists. eexists. split; [vm_compute; reflexivity | vm_compute; reflexivity].
Qed.
