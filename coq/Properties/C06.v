(* C06 - A verifying lookup proof can only report the label's latest version.
   [t] is the tree of the honestly maintained directory at the epoch in question, described only
   through what it holds at the VRF labels of the queried label l (tree_fresh, tree_stale).  The VRF
   is the function nlabel_of with the uniqueness hypothesis VrfUnique (a Section-style premise, not an
   axiom); the hash enters through Binding, proved for both real configurations below. *)
From Coq Require Import List Bool NArith.
From Akd Require Import NodeLabel NodeLabelFacts Hashing Tree TreeFacts Binding HashingFacts HashingBinding Directory Verify DirSound.
Import ListNotations.
Open Scope N_scope.

Theorem C06_lookup_sound :
  forall (cfg : config) (Bad : Prop), Binding cfg Bad ->
  forall (vrf_check : bytes -> bytes -> bytes -> option bytes) (pk ck l : bytes) (t : tree),
  tree_ok t -> wf_root t = true ->
  forall nlabel_of : bool -> N -> nlabel,
  (forall f v, llen (nlabel_of f v) = 256 /\ WF (nlabel_of f v) /\ LW (nlabel_of f v)) ->
  (* VrfUnique *)
  (forall proof f v out, v < 2 ^ 64 -> vrf_check pk proof (label_input_hash cfg l f v) = Some out -> NL out 256 = nlabel_of f v) ->
  forall (n : N) (val_of : N -> bytes) (ep_of : N -> N),
  (forall v, Len64 (val_of v)) -> (forall v, ep_of v < 2 ^ 64) ->
  (* honest tree: a leaf at a fresh label of l is the prescribed one; superseded versions are retired *)
  (forall y v, v < 2 ^ 64 -> In y (leaves t) -> lf_label y = nlabel_of true v ->
     1 <= v /\ v <= n /\ lf_value y = fresh_value cfg ck (nlabel_of true v) v (val_of v) /\ lf_epoch y = ep_of v) ->
  (forall v, 1 <= v -> v < n -> In (nlabel_of false v) (map lf_label (leaves t))) ->
  (forall v, Len64 (c_commitment_nonce cfg ck (nl_to_bytes (nlabel_of true v)) v (val_of v))) ->
  forall (E : N) (p : lookup_proof) (r : verify_result), lp_ok p ->
  lookup_verify cfg vrf_check pk (root_hash cfg true t) E l p = Some r ->
  (r_version r = n /\ r_value r = val_of n /\ r_epoch r = ep_of n) \/ Bad.
Proof. exact lookup_sound. Qed.
Print Assumptions C06_lookup_sound.

Theorem C06_binding_whatsapp : forall H, (forall x, length (H x) = 32%nat) -> Binding (whatsapp H) (Collision H).
Proof. exact whatsapp_binding. Qed.
Print Assumptions C06_binding_whatsapp.

Theorem C06_binding_experimental : forall H, (forall x, length (H x) = 32%nat) ->
  forall domain, Binding (experimental H domain) (BadE H).
Proof. exact experimental_binding. Qed.
Print Assumptions C06_binding_experimental.

(* ------------------------------------------------------------------ at the directory level *)
From Akd Require DirRefine DirSoundReach.
(* The honest-tree premises above are what the directory model builds: after ANY sequence of publish
   requests, whatever lookup proof is presented against the served epoch hash - if it verifies, it
   names exactly the label's latest stored state (epoch, version, value); for an unpublished label
   nothing verifies.  Or the bad event of the configuration occurred.
   Premises: the server's VRF table (well-formed, non-colliding 256-bit outputs); the verifier's side
   of the VRF for this label as a total function F which the table agrees with, whose values no other
   table entry takes, and which every verifying VRF proof outputs (uniqueness); nonces and stored
   values shorter than 2^64 bytes, the stale value a digest, the epoch a u64. *)
Theorem C06_lookup_sound_in_every_reachable_state :
  forall (cfg : config) (Bad : Prop), Binding cfg Bad ->
  forall (ck : bytes) (vrf_label : bytes -> bool -> N -> option nlabel),
  (forall l f v nl, vrf_label l f v = Some nl -> WF nl /\ canonical nl = true /\ llen nl = 256) ->
  (forall l f v l' f' v' nl, vrf_label l f v = Some nl -> vrf_label l' f' v' = Some nl -> l = l' /\ f = f' /\ v = v') ->
  forall (vrf_check : bytes -> bytes -> bytes -> option bytes) (pk l : bytes) (F : bool -> N -> nlabel),
  (forall f v, llen (F f v) = 256 /\ WF (F f v) /\ LW (F f v)) ->
  (forall f v nl, vrf_label l f v = Some nl -> nl = F f v) ->
  (forall f v l' f' v', v < 2 ^ 64 -> vrf_label l' f' v' = Some (F f v) -> l' = l /\ f' = f /\ v' = v) ->
  (forall proof f v out, v < 2 ^ 64 -> vrf_check pk proof (label_input_hash cfg l f v) = Some out -> NL out 256 = F f v) ->
  (forall key lb ver value, Len64 (c_commitment_nonce cfg key lb ver value)) ->
  D32 (c_stale_value cfg) ->
  forall reqs,
  let st := DirRefine.run_publishes cfg ck vrf_label dir_new reqs in
  (forall s, In s (d_states st) -> Len64 (vr_value s)) -> d_epoch st < 2 ^ 64 ->
  forall E p r, lp_ok p ->
  lookup_verify cfg vrf_check pk (snd (epoch_hash cfg st)) E l p = Some r ->
  (exists s, latest_state (d_states st) l (d_epoch st) = Some s /\ r = DirSoundReach.entry_of_state s) \/ Bad.
Proof. exact DirSoundReach.lookup_sound_reachable. Qed.
Print Assumptions C06_lookup_sound_in_every_reachable_state.

(* the two configuration-level premises hold for both real configurations *)
Theorem C06_config_premises_real : forall (H : bytes -> bytes), (forall x, length (H x) = 32%nat) ->
  forall domain key lb ver value,
    Len64 (c_commitment_nonce (whatsapp H) key lb ver value) /\ Len64 (c_commitment_nonce (experimental H domain) key lb ver value).
Proof. exact nonce_len_real. Qed.
Print Assumptions C06_config_premises_real.

(* ------------------------------------------------------------------ the premises are satisfiable, with verifying proofs *)
(* Witness.v: a finite VRF table, the verifier-side F, a VRF check accepting exactly the table's
   proofs, a transparent 32-byte "hash": every premise of C06_lookup_sound_in_every_reachable_state
   holds AND the honest lookup / history proofs verify - the premises are not contradictory in the
   presence of verifying proofs (they were, before the u64 guards; see DESIGN.md 12.5) *)
From Akd Require Import DirRefine LookupComplete Witness.
Example C06_reachable_premises_satisfiable :
  (forall l f v nl, s6_vrf_label l f v = Some nl -> WF nl /\ canonical nl = true /\ llen nl = 256) /\
  (forall l f v l' f' v' nl, s6_vrf_label l f v = Some nl -> s6_vrf_label l' f' v' = Some nl -> l = l' /\ f = f' /\ v = v') /\
  (forall f v, llen (s6_F f v) = 256 /\ WF (s6_F f v) /\ LW (s6_F f v)) /\
  (forall f v nl, s6_vrf_label s6_user f v = Some nl -> nl = s6_F f v) /\
  (forall f v l' f' v', v < 2 ^ 64 -> s6_vrf_label l' f' v' = Some (s6_F f v) -> l' = s6_user /\ f' = f /\ v' = v) /\
  (forall proof f v out, v < 2 ^ 64 -> s6_check [] proof (label_input_hash s6_cfg s6_user f v) = Some out -> NL out 256 = s6_F f v) /\
  (forall key lb ver value, Len64 (c_commitment_nonce s6_cfg key lb ver value)) /\ D32 (c_stale_value s6_cfg) /\
  (forall s, In s (d_states s6_st) -> Len64 (vr_value s)) /\ d_epoch s6_st < 2 ^ 64 /\
  (exists p eh, lookup s6_cfg [9] s6_vrf_label s6_vrf_proof s6_st s6_user = DOk (p, eh) /\
    lookup_verify s6_cfg s6_check [] (snd eh) (fst eh) s6_user p = Some (VRes 2 2 [6])) /\
  (exists p eh, key_history s6_cfg [9] s6_vrf_label s6_vrf_proof s6_st s6_user HComplete = DOk (p, eh) /\
    key_history_verify s6_cfg s6_check [] (snd eh) (fst eh) s6_user p HComplete false = Some [VRes 2 2 [6]; VRes 1 1 [5]] /\
    key_history_verify s6_cfg s6_check [] (snd eh) (fst eh) s6_user p HComplete true = Some [VRes 2 2 [6]; VRes 1 1 [5]]) /\
  (exists p eh, key_history s6_cfg [9] s6_vrf_label s6_vrf_proof s6_st s6_user (HMostRecent 1) = DOk (p, eh) /\
    key_history_verify s6_cfg s6_check [] (snd eh) (fst eh) s6_user p (HMostRecent 1) false = Some [VRes 2 2 [6]]).
Proof. exact s6_premises. Qed.
