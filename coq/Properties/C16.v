(* C16 - The object cache never changes what a read returns.
   Model: Manager.v (cache = arbitrary partial copy of the database; eviction by expiry or memory
   pressure is the environment step [evict] with ANY key list, so the theorems hold for every
   choice the clock and the memory-pressure arithmetic could make). *)
From Coq Require Import List Bool NArith.
From Akd Require Import Manager ManagerFacts.
Import ListNotations.
Open Scope N_scope.

(* the invariant ([coherent]: every cached record equals the database's record for that key)
   holds initially and is preserved by every operation - whatever the database rejects - and by
   every eviction and flush *)
Theorem C16_inv_init : forall cached, Inv (init_state cached).
Proof. exact Inv_init. Qed.
Print Assumptions C16_inv_init.

Theorem C16_inv_steps : forall s, Inv s ->
  (forall ks, Inv (evict s ks)) /\ Inv (flush s) /\ Inv (fst (begin_transaction s)) /\
  (forall f, Inv (fst (commit_transaction s f))) /\ Inv (fst (rollback_transaction s)) /\
  (forall r f, Inv (fst (set_record s r f))) /\ (forall rs f, Inv (fst (batch_set s rs f))) /\
  (forall k f, Inv (fst (get_record s k f))) /\ (forall ks f, Inv (fst (batch_get s ks f))) /\
  (forall u fl f, Inv (fst (get_user_state s u fl f))) /\ (forall u f, Inv (fst (get_user_data s u f))) /\
  (forall us fl f, Inv (fst (get_user_state_versions s us fl f))) /\
  (forall u e f1 f2, Inv (fst (tombstone s u e f1 f2))).
Proof. exact Inv_steps. Qed.
Print Assumptions C16_inv_steps.

(* a read returns the pending transaction value if there is one, else exactly what the database
   holds - independently of the cache content *)
Theorem C16_read : forall s k, Inv s ->
  snd (get_record s k false) =
  match (if m_active s then kget (m_mods s) k else None) with
  | Some r => Ok r
  | None => match kget (m_db s) k with Some r => Ok r | None => Err ENotFound end
  end.
Proof. exact get_record_spec. Qed.
Print Assumptions C16_read.

(* after a flush the next read of the epoch record reflects storage *)
Theorem C16_flush : forall s, m_active s = false ->
  snd (get_record (flush s) KAzks false) = match kget (m_db s) KAzks with Some r => Ok r | None => Err ENotFound end.
Proof. exact flush_then_get_azks. Qed.
Print Assumptions C16_flush.

Example C16_hyp_sat : exists s, Inv s /\ m_cache s <> None /\ m_db s <> [] /\
  s = fst (set_record (init_state true) (RAzks 1 1) false).
Proof. eexists. split; [apply Inv_set; apply Inv_init|]. repeat split; discriminate. Qed.
