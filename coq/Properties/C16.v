(* C16 - The object cache never changes what a read returns.
   Model: Manager.v (cache = arbitrary partial copy of the database; eviction by expiry or memory
   pressure is the environment step [evict] with ANY key list, so the theorems hold for every
   choice the clock and the memory-pressure arithmetic could make). *)
From Coq Require Import List Bool NArith.
From Akd Require Import Manager ManagerFacts MgrBatch.
Import ListNotations.
Open Scope N_scope.

(* the invariant ([coherent]: every cached record equals the database's record for that key)
   holds initially and is preserved by every operation - whatever the database rejects - and by
   every eviction and flush *)
Theorem C16_inv_init : forall cached, Inv (init_state cached).
Proof. exact Inv_init. Qed.
Print Assumptions C16_inv_init.

Theorem C16_inv_steps : forall s, Inv s ->
  (forall ks, Inv (evict s ks)) /\ Inv (flush s) /\ Inv (fst (begin_transaction s)) /\
  (forall f, Inv (fst (commit_transaction s f))) /\ Inv (fst (rollback_transaction s)) /\
  (forall r f, Inv (fst (set_record s r f))) /\ (forall rs f, Inv (fst (batch_set s rs f))) /\
  (forall k f, Inv (fst (get_record s k f))) /\ (forall ks f, Inv (fst (batch_get s ks f))) /\
  (forall u fl f, Inv (fst (get_user_state s u fl f))) /\ (forall u f, Inv (fst (get_user_data s u f))) /\
  (forall us fl f, Inv (fst (get_user_state_versions s us fl f))) /\
  (forall u e f1 f2, Inv (fst (tombstone s u e f1 f2))).
Proof. exact Inv_steps. Qed.
Print Assumptions C16_inv_steps.

(* a read returns the pending transaction value if there is one, else exactly what the database
   holds - independently of the cache content *)
Theorem C16_read : forall s k, Inv s ->
  snd (get_record s k false) =
  match (if m_active s then kget (m_mods s) k else None) with
  | Some r => Ok r
  | None => match kget (m_db s) k with Some r => Ok r | None => Err ENotFound end
  end.
Proof. exact get_record_spec. Qed.
Print Assumptions C16_read.

(* batch reads outside a transaction: exactly the database's records of the requested keys, whatever
   part of them the cache holds *)
Theorem C16_batch_read : forall s ks, Inv s -> m_active s = false ->
  exists l, snd (batch_get s ks false) = Ok l /\
            forall r, In r l <-> exists k, In k ks /\ kget (m_db s) k = Some r.
Proof. exact batch_get_is_db. Qed.
Print Assumptions C16_batch_read.

(* reads of what is committed (the way requests read the epoch record): the database's record,
   whatever the cache holds and whatever an open transaction has pending *)
Theorem C16_read_committed : forall s k, Inv s ->
  snd (get_committed s k false) = match kget (m_db s) k with Some r => Ok r | None => Err ENotFound end /\
  m_db (fst (get_committed s k false)) = m_db s /\ m_mods (fst (get_committed s k false)) = m_mods s /\
  m_active (fst (get_committed s k false)) = m_active s.
Proof. exact get_committed_spec. Qed.
Print Assumptions C16_read_committed.

(* after a flush the next read of the epoch record reflects storage *)
Theorem C16_flush : forall s, m_active s = false ->
  snd (get_record (flush s) KAzks false) = match kget (m_db s) KAzks with Some r => Ok r | None => Err ENotFound end.
Proof. exact flush_then_get_azks. Qed.
Print Assumptions C16_flush.

Example C16_hyp_sat : exists s, Inv s /\ m_cache s <> None /\ m_db s <> [] /\
  s = fst (set_record (init_state true) (RAzks 1 1) false).
Proof. eexists. split; [apply Inv_set; apply Inv_init|]. repeat split; discriminate. Qed.

(* ---- the concurrent case: a read's cache fill against a write-through, any number of tasks,
   every step of every task a scheduling point (CacheProto.v; TicketLocked = the protocol of the code) *)
From Akd Require Import CacheProto CacheRegular.
Close Scope N_scope.

(* in every reachable state in which no write is in progress the cache holds nothing or what the data
   layer holds *)
Theorem C16_concurrent_coherent : forall d rs ws sched,
  let s := prun TicketLocked (pinit d rs ws) sched in
  PInv s /\ (p_started s = p_completed s -> p_cache s = None \/ p_cache s = Some (p_db s)).
Proof. exact ticket_protocol_coherent. Qed.
Print Assumptions C16_concurrent_coherent.

Theorem C16_cached_read_is_current : forall d rs ws sched v,
  let s := prun TicketLocked (pinit d rs ws) sched in
  p_started s = p_completed s -> p_cache s = Some v -> v = p_db s.
Proof. exact cached_read_is_current. Qed.
Print Assumptions C16_cached_read_is_current.

(* in any such state (the invariant holds in every reachable one) a read that runs while no write is in
   progress returns the data layer's record, whether the cache serves it or not *)
Theorem C16_quiet_read_returns_db : forall s i,
  PInv s -> p_started s = p_completed s -> nth_error (p_readers s) i = Some RS ->
  let s' := prun TicketLocked s [AR i; AR i; AR i; AR i; AR i] in
  nth_error (p_readers s') i = Some (RDone (p_db s)) /\ p_db s' = p_db s.
Proof. exact quiet_read_returns_db. Qed.
Print Assumptions C16_quiet_read_returns_db.

(* the same for tasks (sequences of reads and writes) parked and released at the data layer's calls -
   the executions the correspondence harness drives on the real storage manager *)
Theorem C16_concurrent_tasks_coherent : forall d rs ws tasks sched,
  let s := fst (trun TicketLocked d rs ws tasks sched) in
  p_started s = p_completed s -> p_cache s = None \/ p_cache s = Some (p_db s).
Proof. exact task_runs_coherent. Qed.
Print Assumptions C16_concurrent_tasks_coherent.

(* the two weaker protocols are refuted: the code before the fix (K3), and the ticket checked outside
   the cache's lock *)
Theorem C16_fill_without_ticket_refuted :
  let s := prun NoTicket (pinit 0 [false] [1]) k3_schedule in
  p_started s = p_completed s /\ p_db s = 1 /\ p_cache s = Some 0.
Proof. exact without_ticket_refuted. Qed.
Print Assumptions C16_fill_without_ticket_refuted.

Theorem C16_check_outside_lock_refuted :
  let s := prun TicketSplit (pinit 0 [false] [1]) split_schedule in
  p_started s = p_completed s /\ p_db s = 1 /\ p_cache s = Some 0.
Proof. exact split_check_refuted. Qed.
Print Assumptions C16_check_outside_lock_refuted.

(* ---- what a read may return WHILE writes are going on (CacheRegular.v).  The run carries a ghost
   state: for every read its admissible values - the value of the last completed write and the data
   layer's value when the read starts, plus every value put into the data layer while the read is
   active.  Under every schedule a finished read has returned one of them: reads through the cache
   are regular (old or new of an overlapping write, the data layer's value otherwise). *)
Theorem C16_reads_are_regular : forall d rs ws sched,
  let x := grun (ginit d rs ws) sched in
  forall i v, nth_error (p_readers (fst x)) i = Some (RDone v) -> In v (g_adm (snd x) i).
Proof. exact reads_are_regular. Qed.
Print Assumptions C16_reads_are_regular.

(* the ghost state does not influence the run *)
Theorem C16_ghost_run_projects : forall d rs ws sched,
  fst (grun (ginit d rs ws) sched) = prun TicketLocked (pinit d rs ws) sched.
Proof. exact grun_projects. Qed.
Print Assumptions C16_ghost_run_projects.

(* ---- many keys (CacheMulti.v): the counters of started and completed writes are shared by all keys,
   the data layer and the cache are maps; under every schedule, evictions included, whenever no write
   is in progress the cache holds, for EVERY key, nothing or what the data layer holds *)
From Akd Require Import CacheMulti.
Theorem C16_many_keys_coherent : forall d rs ws sched,
  let s := mrun (minit d rs ws) sched in
  m_started s = m_completed s -> forall x, m_cache s x = None \/ m_cache s x = Some (m_db s x).
Proof. exact many_keys_coherent. Qed.
Print Assumptions C16_many_keys_coherent.
