(* C13 - Every answer names a published epoch hash and verifies against it, or errors.
   Store-level core: version selection never returns a node version newer than the epoch the
   request read at the start (fix F5: an instance lagging two or more epochs gets an error, never
   a node of a later epoch), and while a publish is in flight every lookup as of the request's
   epoch is the same as before the publish started (C11). *)
From Coq Require Import List Bool NArith.
From Akd Require Import NodeLabel Hashing Tree Store StoreFacts StoreConc.
Import ListNotations.
Open Scope N_scope.

Theorem C13_no_newer_version : forall r E n, determine r E = SOk n ->
  sn_le n <= E /\ (n = sr_latest r \/ (sr_prev r = Some n /\ E < sn_le (sr_latest r))).
Proof. exact determine_sound. Qed.
Print Assumptions C13_no_newer_version.

Theorem C13_lagging_reader_errors : forall r E p,
  sr_prev r = Some p -> E < sn_le p -> E < sn_le (sr_latest r) -> determine r E = SOther.
Proof. exact determine_lagging. Qed.
Print Assumptions C13_lagging_reader_errors.

Theorem C13_reads_during_publish : forall fuel base E written l,
  (forall r, In r written -> commit_shape base E r = true) ->
  view fuel (overlay written base) E l = view fuel base E l.
Proof. exact view_overlay. Qed.
Print Assumptions C13_reads_during_publish.

(* ---- readers concurrent with ANY number of publishes, at the granularity of single record writes
   (StoreConc.v).  [visible base E g]: g is the store at epoch E followed by zero or more whole
   commits and any part of the next one. *)

(* every fetch "as of E" returns what the store frozen at E returns, or the error of a reader that
   has fallen two epochs behind *)
Theorem C13_fetch_frozen_or_error : forall base E g, visible base E g ->
  forall l, node_at g l E = node_at base l E \/ node_at g l E = SOther.
Proof. exact visible_agree. Qed.
Print Assumptions C13_fetch_frozen_or_error.

(* hence ANY request - an arbitrary decision tree over the records it fetches, the i-th fetch seeing
   its own store - returns exactly what it returns on the frozen store, or fails: never an answer
   stitched together from two epochs *)
Theorem C13_request_frozen_or_error : forall (A : Type) (p : prog A) base E stores,
  (forall i, visible base E (stores i)) ->
  forall i, exec p E stores i = exec p E (fun _ => base) i \/ exec p E stores i = None.
Proof. exact @concurrent_request_frozen_or_error. Qed.
Print Assumptions C13_request_frozen_or_error.

(* the model's tree walk, every fetch of the walk seeing its own store *)
Theorem C13_view_concurrent : forall fuel base E at_ l,
  (forall p, visible base E (at_ p)) ->
  view_v fuel at_ E l = view fuel base E l \/ view_v fuel at_ E l = VErr.
Proof. exact view_concurrent. Qed.
Print Assumptions C13_view_concurrent.

(* the reported root hash is the one published for E, or the request errors *)
Theorem C13_root_hash_concurrent : forall cfg base E g, visible base E g ->
  root_hash_at cfg g E = root_hash_at cfg base E \/ root_hash_at cfg g E = None.
Proof. exact root_hash_concurrent. Qed.
Print Assumptions C13_root_hash_concurrent.

(* the premise is met by the store itself and by partial commits *)
Example C13_visible_sat : forall base E batch written,
  (forall r, In r batch -> commit_shape base E r = true) -> incl written batch ->
  visible base E base /\ visible base E (overlay written base).
Proof.
  intros base E batch written Hs Hi. split; [apply visible_base|].
  exists base, E, batch, written. split; [apply c_base|]. split; [apply N.le_refl|]. split; [exact Hs|]. split; [exact Hi | reflexivity].
Qed.

(* ---- the change poller (PollProto.v): a cached instance whose data layer is advanced by somebody else;
   requests read the epoch record through the cache; the poller flushes, re-reads and signals.  With
   the directory's cache lock (requests shared, poller exclusive) a request that starts after the
   poller has signalled epoch e is answered from an epoch >= e, for every schedule; a request that
   does not take the lock (get_epoch_hash before the fix) refutes it. *)
From Akd Require Import PollProto.
Close Scope N_scope.

Theorem C13_after_signal_at_least_that_new : forall e0 n sched,
  let s := qrun true (qinit e0 n) sched in
  forall i lo v, nth_error (q_reqs s) i = Some (QDone lo v) -> lo <= v.
Proof. exact after_signal_at_least_that_new. Qed.
Print Assumptions C13_after_signal_at_least_that_new.

Theorem C13_cache_at_least_signalled : forall e0 n sched,
  let s := qrun true (qinit e0 n) sched in
  forall v, q_cache s = Some v -> q_signalled s <= v.
Proof. exact cache_at_least_signalled. Qed.
Print Assumptions C13_cache_at_least_signalled.

Theorem C13_request_without_cache_lock_refuted :
  let s := qrun false (cold 2 2) [QR 0; QR 0; QX; QF; QR 0; QR 1] in
  q_signalled s = 3 /\ nth_error (q_reqs s) 1 = Some (QDone 3 2).
Proof. exact without_lock_refuted. Qed.
Print Assumptions C13_request_without_cache_lock_refuted.

(* the same with the two records of the failure found on the code: the epoch record and a node record
   that retains two versions, selected "as of" the epoch the request read.  With the lock every answer
   names (a, version a) or is an error; without it: (a + 1, version a), on the code (3, root hash of epoch 2) *)
Theorem C13_answers_name_their_epoch : forall e0 n sched,
  let s := trun2 true (tinit e0 n) sched in
  forall i a r, nth_error (t_reqs s) i = Some (TDone a r) -> r = Some a \/ r = None.
Proof. exact answers_name_their_epoch. Qed.
Print Assumptions C13_answers_name_their_epoch.

Theorem C13_two_records_without_lock_refuted :
  let s := trun2 false (tinit 2 2) [QR 0; QR 0; QR 0; QX; QF; QR 0; QR 1; QR 1] in
  t_azks s = 3 /\ nth_error (t_reqs s) 1 = Some (TDone 3 (Some 2)).
Proof. exact two_records_without_lock_refuted. Qed.
Print Assumptions C13_two_records_without_lock_refuted.

(* ---- requests on the WRITING instance while a publish has its transaction open (TxnProto.v): reads see
   the transaction's log; a request reads the epoch record and then node records as of it.  With the
   epoch record read as committed (the fix) every answer names a committed epoch a with version a of
   the node, or is an error - for every schedule, commits that succeed or are rejected.  With the epoch
   record read through the log (the code before) three schedules found on the code are refuted. *)
From Akd Require Import TxnProto.

Theorem C13_requests_answer_committed_epochs : forall e0 n sched,
  let s := xrun false (xinit e0 n) sched in
  forall i a r, nth_error (x_reqs s) i = Some (UDone a r) -> a <= x_db s /\ (r = Some a \/ r = None).
Proof. exact requests_answer_committed_epochs. Qed.
Print Assumptions C13_requests_answer_committed_epochs.

Theorem C13_dirty_epoch_read_refuted_early_close :
  let s := xrun true (xinit 2 1) [XP; XP; XP; XR 0; XP; XR 0; XP] in
  x_db s = 3 /\ nth_error (x_reqs s) 0 = Some (UDone 3 (Some 2)).
Proof. exact dirty_epoch_read_refuted_early_close. Qed.
Print Assumptions C13_dirty_epoch_read_refuted_early_close.

Theorem C13_dirty_epoch_read_refuted_rejected_commit :
  let s := xrun true (xinit 2 1) [XP; XP; XP; XR 0; XReject; XR 0] in
  x_db s = 2 /\ nth_error (x_reqs s) 0 = Some (UDone 3 (Some 2)).
Proof. exact dirty_epoch_read_refuted_rejected_commit. Qed.
Print Assumptions C13_dirty_epoch_read_refuted_rejected_commit.

Theorem C13_dirty_epoch_read_refuted_unpublished_epoch :
  let s := xrun true (xinit 2 1) [XP; XP; XP; XR 0; XR 0; XReject] in
  x_db s = 2 /\ nth_error (x_reqs s) 0 = Some (UDone 3 (Some 3)).
Proof. exact dirty_epoch_read_refuted_unpublished_epoch. Qed.
Print Assumptions C13_dirty_epoch_read_refuted_unpublished_epoch.
