(* C13 - Every answer names a published epoch hash and verifies against it, or errors.
   Store-level core: version selection never returns a node version newer than the epoch the
   request read at the start (fix F5: an instance lagging two or more epochs gets an error, never
   a node of a later epoch), and while a publish is in flight every lookup as of the request's
   epoch is the same as before the publish started (C11). *)
From Coq Require Import List Bool NArith.
From Akd Require Import NodeLabel Hashing Tree Store StoreFacts.
Import ListNotations.
Open Scope N_scope.

Theorem C13_no_newer_version : forall r E n, determine r E = SOk n ->
  sn_le n <= E /\ (n = sr_latest r \/ (sr_prev r = Some n /\ E < sn_le (sr_latest r))).
Proof. exact determine_sound. Qed.
Print Assumptions C13_no_newer_version.

Theorem C13_lagging_reader_errors : forall r E p,
  sr_prev r = Some p -> E < sn_le p -> E < sn_le (sr_latest r) -> determine r E = SOther.
Proof. exact determine_lagging. Qed.
Print Assumptions C13_lagging_reader_errors.

Theorem C13_reads_during_publish : forall fuel base E written l,
  (forall r, In r written -> commit_shape base E r = true) ->
  view fuel (overlay written base) E l = view fuel base E l.
Proof. exact view_overlay. Qed.
Print Assumptions C13_reads_during_publish.
