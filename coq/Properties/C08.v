(* C08 - Lookup and history verifiers agree on a label's latest version under one root.
   The property is the arithmetic of the marker sets (past / future marker versions computed by the
   model of get_marker_versions, tied to the code by the X-marker correspondence). *)
From Coq Require Import List Bool NArith.
From Akd Require Import Marker MarkerFacts.
Import ListNotations.
Open Scope N_scope.

(* history vs history: a verifying proof with latest version n shows every v in future_of n E
   absent; a verifying proof for the range [s', m], m > n, shows the versions s'..m and the past
   markers of s' present.  For all epochs, versions and ranges the two sets intersect. *)
Theorem C08_hist_hist : forall E n m s',
  1 <= n -> n < m -> m <= E -> 1 <= s' -> s' <= m ->
  exists v, In v (future_of n E) /\ ((s' <= v /\ v <= m) \/ In v (past_of s')).
Proof. exact hist_hist_conflict. Qed.
Print Assumptions C08_hist_hist.

(* lookup for version m < n vs complete history [1, n]: the history shows stale(v-1) present for
   every v in [2, n], the lookup shows stale(m) absent *)
Theorem C08_lookup_lt : forall n m, 1 <= m -> m < n -> exists v, 2 <= v /\ v <= n /\ v - 1 = m.
Proof. exact lookup_lt_conflict. Qed.
Print Assumptions C08_lookup_lt.

(* lookup for version m > n vs history with latest n: conflict on fresh(m) or on the lookup's
   marker, for every triple outside the known-finding class K1 *)
Theorem C08_lookup_gt_outside_K1 : forall E n m,
  n < m -> m <= E -> K1_class E n m = false ->
  exists v, In v (future_of n E) /\ (v = m \/ v = lookup_marker m).
Proof. exact lookup_gt_conflict. Qed.
Print Assumptions C08_lookup_gt_outside_K1.

(* the class is inhabited (the known finding) ... *)
Theorem C08_K1_witness : K1_class 7 4 7 = true.
Proof. exact K1_witness. Qed.
Print Assumptions C08_K1_witness.

(* ... but never by the immediate successor version *)
Theorem C08_K1_not_successor : forall E n, 1 <= n -> n + 1 <= E -> K1_class E n (n + 1) = false.
Proof. exact K1_not_successor. Qed.
Print Assumptions C08_K1_not_successor.

(* dropping the newest version is always caught: n+1 is a future marker of n *)
Theorem C08_next_is_future : forall n E, 1 <= n -> n + 1 <= E -> In (n + 1) (future_of n E).
Proof. exact next_is_future. Qed.
Print Assumptions C08_next_is_future.

Example C08_hyp_sat : get_marker_versions 85 85 65537 = Some ([16; 64; 80; 84], [86; 88; 96; 128; 256; 65536]).
Proof. vm_compute. reflexivity. Qed.
