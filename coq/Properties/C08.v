(* C08 - Lookup and history verifiers agree on a label's latest version under one root.
   The property is the arithmetic of the marker sets (past / future marker versions computed by the
   model of get_marker_versions, tied to the code by the X-marker correspondence). *)
From Coq Require Import List Bool NArith.
From Akd Require Import Marker MarkerFacts.
Import ListNotations.
Open Scope N_scope.

(* history vs history: a verifying proof with latest version n shows every v in future_of n E
   absent; a verifying proof for the range [s', m], m > n, shows the versions s'..m and the past
   markers of s' present.  For all epochs, versions and ranges the two sets intersect. *)
Theorem C08_hist_hist : forall E n m s',
  1 <= n -> n < m -> m <= E -> 1 <= s' -> s' <= m ->
  exists v, In v (future_of n E) /\ ((s' <= v /\ v <= m) \/ In v (past_of s')).
Proof. exact hist_hist_conflict. Qed.
Print Assumptions C08_hist_hist.

(* lookup for version m < n vs complete history [1, n]: the history shows stale(v-1) present for
   every v in [2, n], the lookup shows stale(m) absent *)
Theorem C08_lookup_lt : forall n m, 1 <= m -> m < n -> exists v, 2 <= v /\ v <= n /\ v - 1 = m.
Proof. exact lookup_lt_conflict. Qed.
Print Assumptions C08_lookup_lt.

(* lookup for version m > n vs history with latest n: conflict on fresh(m) or on the lookup's
   marker, for every triple outside the known-finding class K1 *)
Theorem C08_lookup_gt_outside_K1 : forall E n m,
  n < m -> m <= E -> K1_class E n m = false ->
  exists v, In v (future_of n E) /\ (v = m \/ v = lookup_marker m).
Proof. exact lookup_gt_conflict. Qed.
Print Assumptions C08_lookup_gt_outside_K1.

(* the class is inhabited (the known finding) ... *)
Theorem C08_K1_witness : K1_class 7 4 7 = true.
Proof. exact K1_witness. Qed.
Print Assumptions C08_K1_witness.

(* ... but never by the immediate successor version *)
Theorem C08_K1_not_successor : forall E n, 1 <= n -> n + 1 <= E -> K1_class E n (n + 1) = false.
Proof. exact K1_not_successor. Qed.
Print Assumptions C08_K1_not_successor.

(* dropping the newest version is always caught: n+1 is a future marker of n *)
Theorem C08_next_is_future : forall n E, 1 <= n -> n + 1 <= E -> In (n + 1) (future_of n E).
Proof. exact next_is_future. Qed.
Print Assumptions C08_next_is_future.

Example C08_hyp_sat : get_marker_versions 85 85 65537 = Some ([16; 64; 80; 84], [86; 88; 96; 128; 256; 65536]).
Proof. vm_compute. reflexivity. Qed.

(* ------------------------------------------------------------------ at the directory level *)
From Akd Require Import NodeLabel NodeLabelFacts Hashing Tree TreeFacts Binding Directory Verify DirSound DirRefine.
From Akd Require DirSoundReach.
(* Under the epoch hash of ANY reachable state of the directory the two verifiers cannot disagree
   (K1 concerns roots of trees no honest directory builds): a verifying lookup proof's result is the
   first entry of a verifying complete history's result.  Premises as for C06/C07 at this level. *)
Theorem C08_verifiers_agree_in_every_reachable_state :
  forall (cfg : config) (Bad : Prop), Binding cfg Bad ->
  forall (ck : bytes) (vrf_label : bytes -> bool -> N -> option nlabel),
  (forall l f v nl, vrf_label l f v = Some nl -> WF nl /\ canonical nl = true /\ llen nl = 256) ->
  (forall l f v l' f' v' nl, vrf_label l f v = Some nl -> vrf_label l' f' v' = Some nl -> l = l' /\ f = f' /\ v = v') ->
  forall (vrf_check : bytes -> bytes -> bytes -> option bytes) (pk l : bytes) (F : bool -> N -> nlabel),
  (forall f v, llen (F f v) = 256 /\ WF (F f v) /\ LW (F f v)) ->
  (forall f v nl, vrf_label l f v = Some nl -> nl = F f v) ->
  (forall f v l' f' v', v < 2 ^ 64 -> vrf_label l' f' v' = Some (F f v) -> l' = l /\ f' = f /\ v' = v) ->
  (forall proof f v out, v < 2 ^ 64 -> vrf_check pk proof (label_input_hash cfg l f v) = Some out -> NL out 256 = F f v) ->
  (forall key lb ver value, Len64 (c_commitment_nonce cfg key lb ver value)) ->
  D32 (c_stale_value cfg) ->
  forall reqs,
  let st := run_publishes cfg ck vrf_label dir_new reqs in
  (forall s, In s (d_states st) -> Len64 (vr_value s)) -> d_epoch st < 2 ^ 64 ->
  forall E p r hp rs, lp_ok p -> hp_ok hp -> d_epoch st <= E -> E < 2 ^ 64 ->
  lookup_verify cfg vrf_check pk (snd (epoch_hash cfg st)) E l p = Some r ->
  key_history_verify cfg vrf_check pk (snd (epoch_hash cfg st)) E l hp HComplete false = Some rs ->
  (exists rest, rs = r :: rest) \/ Bad.
Proof. exact DirSoundReach.lookup_history_agree_reachable. Qed.
Print Assumptions C08_verifiers_agree_in_every_reachable_state.
