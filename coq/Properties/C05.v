(* C05 - Tree membership and non-membership proofs are sound and complete.
   Statements over the tree-level model (Tree.v), for both real configurations, for ALL candidate
   proofs (not only those the honest prover emits).  H is the underlying byte hash (BLAKE3 in the
   code); the only facts used about it are its 32-byte output length and, as an explicit disjunct,
   the absence of the bad event (a collision; for the experimental configuration also a preimage of
   the all-zero digest, because that configuration uses the zero digest as its empty value). *)
From Coq Require Import List Bool NArith.
From Akd Require Import Bits NodeLabel NodeLabelFacts Hashing Tree TreeFacts HashingFacts TreeComplete.
From Akd Require SpecFacts NonMemComplete.
Import ListNotations.
Open Scope N_scope.

Section C05.
  Variable H : bytes -> bytes.
  Hypothesis H_len : forall x, length (H x) = 32%nat.
  Variable domain : bytes.

  (* Membership soundness: a verifying membership proof names a node of the tree (label and
     value), or - only for the pair (empty label, empty node hash) - an empty child slot. *)
  Theorem C05_mem_sound_whatsapp : forall t mp,
    tree_ok t -> tlabel t = nl_root -> is_leaf t = false -> mp_ok mp ->
    verify_membership (whatsapp H) (root_hash (whatsapp H) true t) mp = true ->
    Origin (whatsapp H) (mp_label mp) (mp_hash_val mp) t \/ Collision H.
  Proof. exact (w_mem_sound H H_len). Qed.

  Theorem C05_mem_sound_experimental : forall t mp,
    tree_ok t -> tlabel t = nl_root -> is_leaf t = false -> mp_ok mp ->
    verify_membership (experimental H domain) (root_hash (experimental H domain) true t) mp = true ->
    Origin (experimental H domain) (mp_label mp) (mp_hash_val mp) t \/ BadE H.
  Proof. exact (e_mem_sound H H_len domain). Qed.

  (* Non-membership soundness (after fix F1): against the root hash of a well-formed tree no
     non-membership proof verifies for the label of a leaf. *)
  Theorem C05_nonmem_sound_whatsapp : forall t p,
    tree_ok t -> wf_root t = true -> nmp_ok p -> WF (np_label p) ->
    verify_nonmembership (whatsapp H) (root_hash (whatsapp H) true t) p = true ->
    ~ In (np_label p) (map lf_label (leaves t)) \/ Collision H.
  Proof. exact (w_nonmem_sound H H_len). Qed.

  Theorem C05_nonmem_sound_experimental : forall t p,
    tree_ok t -> wf_root t = true -> nmp_ok p -> WF (np_label p) ->
    verify_nonmembership (experimental H domain) (root_hash (experimental H domain) true t) p = true ->
    ~ In (np_label p) (map lf_label (leaves t)) \/ BadE H.
  Proof. exact (e_nonmem_sound H H_len domain). Qed.

  (* Completeness (membership side): the proof the honest prover returns always verifies, for
     every configuration and hash function. *)
  Theorem C05_gen_membership_verifies : forall cfg t x,
    tlabel t = nl_root -> is_leaf t = false ->
    verify_membership cfg (root_hash cfg true t) (get_membership_proof cfg t x) = true.
  Proof. exact gen_membership_verifies. Qed.
End C05.
Print Assumptions C05_mem_sound_whatsapp.
Print Assumptions C05_mem_sound_experimental.
Print Assumptions C05_nonmem_sound_whatsapp.
Print Assumptions C05_nonmem_sound_experimental.
Print Assumptions C05_gen_membership_verifies.

(* Why the child-prefix check (fix F1) is needed: without it the D1 shape is accepted.  The
   witness is evaluated with a transparent "hash" (concatenation) so that it runs inside Coq. *)

(* Completeness (non-membership side): on a canonical tree whose leaves carry 256-bit labels - which
   is what the directory's tree always is (C01) - the proof the honest prover returns for an absent
   256-bit label verifies, for every configuration whose empty label is not canonical and every
   hash function. *)
Theorem C05_gen_nonmembership_verifies : forall cfg, canonical (c_empty_label cfg) = false ->
  forall x, NodeLabelFacts.WF x -> canonical x = true -> length (bits_of x) = 256%nat ->
  forall t, SpecFacts.canon_root t ->
  (forall y, In y (leaves t) -> length (bits_of (lf_label y)) = 256%nat) ->
  (forall y, In y (leaves t) -> lf_label y <> x) ->
  verify_nonmembership cfg (root_hash cfg true t) (get_non_membership_proof cfg t x) = true.
Proof. exact NonMemComplete.nonmembership_complete. Qed.
Print Assumptions C05_gen_nonmembership_verifies.

(* ------------------------------------------------------------------ at the directory level *)
From Akd Require Import Binding Directory DirRefine.
From Akd Require DirSoundReach.
(* After ANY sequence of publish requests: the leaf of a stored version cannot be shown absent against
   the served epoch hash - a verifying non-membership proof for its node label exhibits the bad event
   of the configuration.  (The well-formed-tree premise of the theorems above is discharged for the
   directory's tree.) *)
Theorem C05_published_version_cannot_be_denied :
  forall (cfg : config) (Bad : Prop), Binding cfg Bad ->
  forall (ck : bytes) (vrf_label : bytes -> bool -> N -> option nlabel),
  (forall l f v nl, vrf_label l f v = Some nl -> WF nl /\ canonical nl = true /\ llen nl = 256) ->
  (forall l f v l' f' v' nl, vrf_label l f v = Some nl -> vrf_label l' f' v' = Some nl -> l = l' /\ f = f' /\ v = v') ->
  (bytes -> bytes -> bytes -> option bytes) -> bytes ->
  D32 (c_stale_value cfg) ->
  forall reqs s nl p,
  let st := run_publishes cfg ck vrf_label dir_new reqs in
  In s (d_states st) -> vrf_label (vr_user s) true (vr_version s) = Some nl -> np_label p = nl -> nmp_ok p ->
  verify_nonmembership cfg (snd (epoch_hash cfg st)) p = true -> Bad.
Proof. exact DirSoundReach.stored_version_not_deniable_reachable. Qed.
Print Assumptions C05_published_version_cannot_be_denied.
