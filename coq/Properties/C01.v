(* C01 - Each epoch's root hash is determined by the publish history alone.
   The functional content "root hash = hash of the canonical trie over the leaves the history
   prescribes" is decided on every run by the specroot correspondence (Spec.spec_root, defined
   without the insertion algorithm, against the implementation's root hash, bit for bit) and the
   state correspondence; the theorems below cover the parts about publish's control flow. *)
From Coq Require Import List Bool NArith.
From Akd Require Import InsertRefine SpecFacts Spec Insert ElemSet NodeLabel Tree.
From Akd Require Import NodeLabel Hashing Tree Insert Directory DirFacts.
Import ListNotations.
Open Scope N_scope.

Theorem C01_duplicate_rejected : forall cfg ck vrf st upds,
  has_dup (map fst upds) = true -> publish cfg ck vrf st upds = (st, DErrDuplicate).
Proof. exact publish_duplicate. Qed.
Print Assumptions C01_duplicate_rejected.

Theorem C01_resubmission_noop : forall cfg ck vrf st upds news,
  has_dup (map fst upds) = false -> derive_all cfg ck vrf st upds = Some ([], news) ->
  publish cfg ck vrf st upds = (st, DOk (epoch_hash cfg st)).
Proof. exact publish_noop. Qed.
Print Assumptions C01_resubmission_noop.

Theorem C01_changing_publish : forall cfg ck vrf st upds st' e h,
  publish cfg ck vrf st upds = (st', DOk (e, h)) -> st' <> st ->
  d_epoch st' = d_epoch st + 1 /\ e = d_epoch st' /\ h = root_hash cfg true (d_tree st') /\
  exists news, d_states st' = d_states st ++ news.
Proof. exact publish_changes. Qed.
Print Assumptions C01_changing_publish.

(* the functional core: after ANY history of batches of distinct 256-bit labels (what derive_all
   hands to the tree when VRF outputs do not collide), the tree built by the insertion algorithm is
   canonical, holds exactly the prescribed leaves, and its root hash is the hash of the
   specification trie (Spec.v, defined without reference to the algorithm) over those leaves -
   for every hash configuration and every history length *)
Theorem C01_root_hash_is_spec : forall empty, canonical empty = false -> forall (cfg : config) bs,
  (forall b, In b bs -> batch_ok b) -> NoDup (map e_label (concat bs)) ->
  exists t num, run_batches empty azks_new bs = Some (t, N.of_nat (length bs), num) /\
    root_inv (N.of_nat (length bs)) t /\
    Permutation.Permutation (leaves t) (hist_leaves 1 bs) /\
    root_hash cfg true t = spec_root_hash cfg (map sleaf_of (hist_leaves 1 bs)).
Proof. exact azks_history_is_spec. Qed.
Print Assumptions C01_root_hash_is_spec.

(* one publish step: the tree stays canonical and gains exactly the batch, stamped with the new epoch *)
Theorem C01_batch_step : forall empty, canonical empty = false -> forall root latest num elems,
  root_inv latest root -> batch_ok elems ->
  (forall x y, In x elems -> In y (leaves root) -> e_label x <> lf_label y) ->
  exists r num', batch_insert empty (root, latest, num) elems = Some (r, latest + 1, num') /\
    root_inv (latest + 1) r /\
    Permutation.Permutation (leaves r) (leaves root ++ map (lf_of (latest + 1)) elems).
Proof. exact batch_insert_spec. Qed.
Print Assumptions C01_batch_step.

(* both real configurations' empty labels satisfy the premise *)
Example C01_empty_labels : canonical empty_label_whatsapp = false /\ canonical empty_label_experimental = false.
Proof. split; vm_compute; reflexivity. Qed.
