(* C01 - Each epoch's root hash is determined by the publish history alone.
   The functional content "root hash = hash of the canonical trie over the leaves the history
   prescribes" is decided on every run by the specroot correspondence (Spec.spec_root, defined
   without the insertion algorithm, against the implementation's root hash, bit for bit) and the
   state correspondence; the theorems below cover the parts about publish's control flow. *)
From Coq Require Import List Bool NArith.
From Akd Require Import NodeLabel Hashing Tree Insert Directory DirFacts.
Import ListNotations.
Open Scope N_scope.

Theorem C01_duplicate_rejected : forall cfg ck vrf st upds,
  has_dup (map fst upds) = true -> publish cfg ck vrf st upds = (st, DErrDuplicate).
Proof. exact publish_duplicate. Qed.
Print Assumptions C01_duplicate_rejected.

Theorem C01_resubmission_noop : forall cfg ck vrf st upds news,
  has_dup (map fst upds) = false -> derive_all cfg ck vrf st upds = Some ([], news) ->
  publish cfg ck vrf st upds = (st, DOk (epoch_hash cfg st)).
Proof. exact publish_noop. Qed.
Print Assumptions C01_resubmission_noop.

Theorem C01_changing_publish : forall cfg ck vrf st upds st' e h,
  publish cfg ck vrf st upds = (st', DOk (e, h)) -> st' <> st ->
  d_epoch st' = d_epoch st + 1 /\ e = d_epoch st' /\ h = root_hash cfg true (d_tree st') /\
  exists news, d_states st' = d_states st ++ news.
Proof. exact publish_changes. Qed.
Print Assumptions C01_changing_publish.
