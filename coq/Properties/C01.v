(* C01 - Each epoch's root hash is determined by the publish history alone.
   The functional content "root hash = hash of the canonical trie over the leaves the history
   prescribes" is decided on every run by the specroot correspondence (Spec.spec_root, defined
   without the insertion algorithm, against the implementation's root hash, bit for bit) and the
   state correspondence; the theorems below cover the parts about publish's control flow. *)
From Coq Require Import List Bool NArith.
From Akd Require Import InsertRefine SpecFacts Spec Insert ElemSet NodeLabel Tree Hashing.
From Akd Require DirRefine NodeLabelFacts.
From Akd Require Import NodeLabel Hashing Tree Insert Directory DirFacts.
Import ListNotations.
Open Scope N_scope.

Theorem C01_duplicate_rejected : forall cfg ck vrf st upds,
  has_dup (map fst upds) = true -> publish cfg ck vrf st upds = (st, DErrDuplicate).
Proof. exact publish_duplicate. Qed.
Print Assumptions C01_duplicate_rejected.

Theorem C01_resubmission_noop : forall cfg ck vrf st upds news,
  has_dup (map fst upds) = false -> derive_all cfg ck vrf st upds = Some ([], news) ->
  publish cfg ck vrf st upds = (st, DOk (epoch_hash cfg st)).
Proof. exact publish_noop. Qed.
Print Assumptions C01_resubmission_noop.

Theorem C01_changing_publish : forall cfg ck vrf st upds st' e h,
  publish cfg ck vrf st upds = (st', DOk (e, h)) -> st' <> st ->
  d_epoch st' = d_epoch st + 1 /\ e = d_epoch st' /\ h = root_hash cfg true (d_tree st') /\
  exists news, d_states st' = d_states st ++ news.
Proof. exact publish_changes. Qed.
Print Assumptions C01_changing_publish.

(* the functional core: after ANY history of batches of distinct 256-bit labels (what derive_all
   hands to the tree when VRF outputs do not collide), the tree built by the insertion algorithm is
   canonical, holds exactly the prescribed leaves, and its root hash is the hash of the
   specification trie (Spec.v, defined without reference to the algorithm) over those leaves -
   for every hash configuration and every history length *)
Theorem C01_root_hash_is_spec : forall empty, canonical empty = false -> forall (cfg : config) bs,
  (forall b, In b bs -> batch_ok b) -> NoDup (map e_label (concat bs)) ->
  exists t num, run_batches empty azks_new bs = Some (t, N.of_nat (length bs), num) /\
    root_inv (N.of_nat (length bs)) t /\
    Permutation.Permutation (leaves t) (hist_leaves 1 bs) /\
    root_hash cfg true t = spec_root_hash cfg (map sleaf_of (hist_leaves 1 bs)).
Proof. exact azks_history_is_spec. Qed.
Print Assumptions C01_root_hash_is_spec.

(* one publish step: the tree stays canonical and gains exactly the batch, stamped with the new epoch *)
Theorem C01_batch_step : forall empty, canonical empty = false -> forall root latest num elems,
  root_inv latest root -> batch_ok elems ->
  (forall x y, In x elems -> In y (leaves root) -> e_label x <> lf_label y) ->
  exists r num', batch_insert empty (root, latest, num) elems = Some (r, latest + 1, num') /\
    root_inv (latest + 1) r /\
    Permutation.Permutation (leaves r) (leaves root ++ map (lf_of (latest + 1)) elems).
Proof. exact batch_insert_spec. Qed.
Print Assumptions C01_batch_step.

(* both real configurations' empty labels satisfy the premise *)
Example C01_empty_labels : canonical empty_label_whatsapp = false /\ canonical empty_label_experimental = false.
Proof. split; vm_compute; reflexivity. Qed.

(* the directory itself: under VRF outputs that are well-formed 256-bit labels and do not collide
   (C18), after ANY sequence of publish requests - accepted, rejected or no-ops - the directory's
   tree is the specification trie over its leaves and the epoch hash it serves is that trie's hash;
   every accepted changing request adds exactly the elements derived from it, stamped with the
   new epoch *)
Theorem C01_directory_always_spec : forall cfg ck (vrf_label : bytes -> bool -> N -> option nlabel),
  canonical (c_empty_label cfg) = false ->
  (forall l f v nl, vrf_label l f v = Some nl -> NodeLabelFacts.WF nl /\ canonical nl = true /\ llen nl = 256) ->
  (forall l f v l' f' v' nl, vrf_label l f v = Some nl -> vrf_label l' f' v' = Some nl -> l = l' /\ f = f' /\ v = v') ->
  forall reqs,
  let st := DirRefine.run_publishes cfg ck vrf_label dir_new reqs in
  DirRefine.DirInv vrf_label st /\ d_tree st = spec_root (sleaves (d_tree st)) /\
  epoch_hash cfg st = (d_epoch st, spec_root_hash cfg (sleaves (d_tree st))).
Proof. exact DirRefine.directory_always_spec. Qed.
Print Assumptions C01_directory_always_spec.

Theorem C01_publish_step : forall cfg ck (vrf_label : bytes -> bool -> N -> option nlabel),
  canonical (c_empty_label cfg) = false ->
  (forall l f v nl, vrf_label l f v = Some nl -> NodeLabelFacts.WF nl /\ canonical nl = true /\ llen nl = 256) ->
  (forall l f v l' f' v' nl, vrf_label l f v = Some nl -> vrf_label l' f' v' = Some nl -> l = l' /\ f = f' /\ v = v') ->
  forall st upds st' e h,
  DirRefine.DirInv vrf_label st -> publish cfg ck vrf_label st upds = (st', DOk (e, h)) ->
  DirRefine.DirInv vrf_label st' /\ e = d_epoch st' /\ h = spec_root_hash cfg (sleaves (d_tree st')) /\
  (st' = st \/ exists elems news,
      derive_all cfg ck vrf_label st upds = Some (elems, news) /\ d_epoch st' = d_epoch st + 1 /\
      d_states st' = d_states st ++ news /\
      Permutation.Permutation (leaves (d_tree st')) (leaves (d_tree st) ++ map (lf_of (d_epoch st + 1)) elems)).
Proof. exact DirRefine.publish_step. Qed.
Print Assumptions C01_publish_step.
