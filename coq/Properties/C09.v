(* C09 - An accepted audit proof implies nothing committed earlier was removed or altered.
   Proved here: what the auditor's checks establish structurally.  The semantic conclusion (every
   leaf committed by h_i is committed by h_(i+1)) follows from prefix-freeness + the rebuild being the
   canonical trie; that refinement is decided per run by the adversarial correspondence and the
   ground-truth oracle (the rebuilt end tree must contain every claimed element), see DESIGN.md. *)
From Coq Require Import List Bool NArith.
From Akd Require Import NodeLabel ElemSet Hashing Tree Directory Verify VerifyFacts.
Import ListNotations.
Open Scope N_scope.

(* a proof whose node set shadows, duplicates or overlaps part of the earlier tree is rejected
   (fix F2): in an accepted proof no label equals or is a prefix of another *)
Theorem C09_no_overlap : forall cfg proof h0 h1 e,
  verify_consecutive cfg true proof h0 h1 e = true ->
  let labels := map (fun x => canon (e_label x)) (snd proof ++ fst proof) in
  forall i j, (i < length labels)%nat -> (j < length labels)%nat -> i <> j ->
    is_prefix_of (nth i labels nl_root) (nth j labels nl_root) = false.
Proof. exact accepted_no_overlap. Qed.
Print Assumptions C09_no_overlap.

(* inconsistent hash / epoch / proof lists are rejected *)
Theorem C09_lengths : forall cfg pf hashes proofs epochs,
  verify_chain cfg pf hashes proofs epochs = true ->
  length hashes = S (length proofs) /\ length proofs = length epochs.
Proof. exact chain_lengths. Qed.
Print Assumptions C09_lengths.

(* replacing any root hash by a different value makes verification fail: the whole hash list is
   determined by the proof *)
Theorem C09_root_hashes_determined : forall cfg pf proofs epochs hashes hashes',
  verify_chain cfg pf hashes proofs epochs = true -> verify_chain cfg pf hashes' proofs epochs = true ->
  proofs <> [] -> hashes = hashes'.
Proof. exact chain_hashes_determined. Qed.
Print Assumptions C09_root_hashes_determined.
