(* C09 - An accepted audit proof implies nothing committed earlier was removed or altered.
   First the semantic conclusion, for EVERY proof an adversary may present (not only those the
   honest server emits): if the auditor accepts a proof against the root hashes of well-formed
   trees, every leaf (label, value, epoch) of the earlier tree is a leaf of the later one, and the
   later tree holds nothing else than the proof's inserted nodes stamped with the end epoch - or a
   collision of the hash function has been exhibited.  Then what the auditor's checks establish
   structurally. *)
From Coq Require Import List Bool NArith Lia.
From Akd Require Import NodeLabel NodeLabelFacts ElemSet Hashing Tree TreeFacts HashingFacts Binding HashingBinding Directory Verify VerifyFacts.
From Akd Require Import InsertRefine AuditRebuild AuditSound.
Import ListNotations.
Open Scope N_scope.

(* a proof whose node set shadows, duplicates or overlaps part of the earlier tree is rejected
   (fix F2): in an accepted proof no label equals or is a prefix of another *)
Theorem C09_no_overlap : forall cfg proof h0 h1 e,
  verify_consecutive cfg true proof h0 h1 e = true ->
  let labels := map (fun x => canon (e_label x)) (snd proof ++ fst proof) in
  forall i j, (i < length labels)%nat -> (j < length labels)%nat -> i <> j ->
    is_prefix_of (nth i labels nl_root) (nth j labels nl_root) = false.
Proof. exact accepted_no_overlap. Qed.
Print Assumptions C09_no_overlap.

(* inconsistent hash / epoch / proof lists are rejected *)
Theorem C09_lengths : forall cfg pf hashes proofs epochs,
  verify_chain cfg pf hashes proofs epochs = true ->
  length hashes = S (length proofs) /\ length proofs = length epochs.
Proof. exact chain_lengths. Qed.
Print Assumptions C09_lengths.

(* replacing any root hash by a different value makes verification fail: the whole hash list is
   determined by the proof *)
Theorem C09_root_hashes_determined : forall cfg pf proofs epochs hashes hashes',
  verify_chain cfg pf hashes proofs epochs = true -> verify_chain cfg pf hashes' proofs epochs = true ->
  proofs <> [] -> hashes = hashes'.
Proof. exact chain_hashes_determined. Qed.
Print Assumptions C09_root_hashes_determined.

(* ------------------------------------------------------------------ the semantic conclusion *)
Section C09.
  Variable H : bytes -> bytes.
  Hypothesis H_len : forall x, length (H x) = 32%nat.
  Variable domain : bytes.

  (* one audited epoch: nothing removed, nothing altered (label, value and epoch of every earlier leaf) *)
  Theorem C09_step_keeps_whatsapp : forall ins unch T0 T1 e,
    troot_ok T0 -> troot_ok T1 -> proof_ok (ins, unch) ->
    verify_consecutive (whatsapp H) true (ins, unch) (root_hash (whatsapp H) true T0) (root_hash (whatsapp H) true T1) e = true ->
    (forall y, In y (leaves T0) -> In y (leaves T1)) \/ Collision H.
  Proof. exact (audit_step_keeps (whatsapp H) (Collision H) (whatsapp_binding H H_len)). Qed.

  Theorem C09_step_keeps_experimental : forall ins unch T0 T1 e,
    troot_ok T0 -> troot_ok T1 -> proof_ok (ins, unch) ->
    verify_consecutive (experimental H domain) true (ins, unch)
      (root_hash (experimental H domain) true T0) (root_hash (experimental H domain) true T1) e = true ->
    (forall y, In y (leaves T0) -> In y (leaves T1)) \/ BadE H.
  Proof. exact (audit_step_keeps (experimental H domain) (BadE H) (experimental_binding H H_len domain)). Qed.

  (* ... and nothing added but the proof's inserted nodes, stamped with the end epoch *)
  Theorem C09_step_adds_only_whatsapp : forall ins unch T0 T1 e,
    troot_ok T0 -> troot_ok T1 -> proof_ok (ins, unch) -> e < 2 ^ 64 ->
    verify_consecutive (whatsapp H) true (ins, unch) (root_hash (whatsapp H) true T0) (root_hash (whatsapp H) true T1) e = true ->
    (forall y, In y (leaves T1) -> In y (leaves T0) \/ exists i, In i ins /\ y = LF (e_label i) (e_value i) e) \/ Collision H.
  Proof. exact (audit_step_adds_only (whatsapp H) (Collision H) (whatsapp_binding H H_len)). Qed.

  Theorem C09_step_adds_only_experimental : forall ins unch T0 T1 e,
    troot_ok T0 -> troot_ok T1 -> proof_ok (ins, unch) -> e < 2 ^ 64 ->
    verify_consecutive (experimental H domain) true (ins, unch)
      (root_hash (experimental H domain) true T0) (root_hash (experimental H domain) true T1) e = true ->
    (forall y, In y (leaves T1) -> In y (leaves T0) \/ exists i, In i ins /\ y = LF (e_label i) (e_value i) e) \/ BadE H.
  Proof. exact (audit_step_adds_only (experimental H domain) (BadE H) (experimental_binding H H_len domain)). Qed.

  (* audit_verify over a range of epochs: whatever the first root hash commits to, every later one does *)
  Theorem C09_range_keeps_whatsapp : forall Ts p,
    Forall troot_ok Ts -> Forall proof_ok (ap_proofs p) ->
    audit_verify_gen (whatsapp H) true (map (root_hash (whatsapp H) true) Ts) p = true ->
    (forall T0 r, Ts = T0 :: r -> forall T, In T r -> forall y, In y (leaves T0) -> In y (leaves T)) \/ Collision H.
  Proof. exact (audit_verify_keeps (whatsapp H) (Collision H) (whatsapp_binding H H_len)). Qed.

  Theorem C09_range_keeps_experimental : forall Ts p,
    Forall troot_ok Ts -> Forall proof_ok (ap_proofs p) ->
    audit_verify_gen (experimental H domain) true (map (root_hash (experimental H domain) true) Ts) p = true ->
    (forall T0 r, Ts = T0 :: r -> forall T, In T r -> forall y, In y (leaves T0) -> In y (leaves T)) \/ BadE H.
  Proof. exact (audit_verify_keeps (experimental H domain) (BadE H) (experimental_binding H H_len domain)). Qed.
End C09.
Print Assumptions C09_step_keeps_whatsapp.
Print Assumptions C09_step_keeps_experimental.
Print Assumptions C09_step_adds_only_whatsapp.
Print Assumptions C09_step_adds_only_experimental.
Print Assumptions C09_range_keeps_whatsapp.
Print Assumptions C09_range_keeps_experimental.

(* the rebuild the auditor performs: over prefix-free canonical labels of any lengths it is a
   well-formed trie whose leaves are exactly the given nodes (no node is dropped or shadowed) *)
Theorem C09_rebuild_is_the_node_set : forall empty, canonical empty = false -> forall latest nodes,
  nodes_ok nodes -> (forall x, In x nodes -> bits_of (e_label x) <> []) ->
  exists t num, Insert.batch_insert empty (empty_root, latest, 1) nodes = Some (t, latest + 1, num) /\
    wf_root t = true /\ Permutation.Permutation (leaves t) (map (lf_of (latest + 1)) nodes).
Proof. exact rebuild_spec. Qed.
Print Assumptions C09_rebuild_is_the_node_set.

(* the premises are satisfiable and the auditor's acceptance is reachable: a two-leaf example run
   with a transparent 32-byte "hash" (truncation / zero padding), so that it evaluates inside Coq *)
Definition toyH (x : bytes) : bytes := firstn 32 (x ++ repeat 0 32).
Definition ex_la : nlabel := nl_of_bits (repeat false 256).
Definition ex_lb : nlabel := nl_of_bits (true :: repeat false 255).
Definition ex_va : bytes := repeat 7 32.
Definition ex_vb : bytes := repeat 9 32.
Definition ex_T0 : tree := Node nl_root 1 1 (Some (Leaf ex_la ex_va 1)) None.
Definition ex_T1 : tree := Node nl_root 2 1 (Some (Leaf ex_la ex_va 1)) (Some (Leaf ex_lb ex_vb 2)).
Definition ex_proof : list elem * list elem :=
  ([El ex_lb ex_vb], [El ex_la (c_leaf_hash (whatsapp toyH) ex_va 1)]).

Example C09_premises_satisfiable :
  troot_ok ex_T0 /\ troot_ok ex_T1 /\ proof_ok ex_proof /\
  verify_consecutive (whatsapp toyH) true ex_proof (root_hash (whatsapp toyH) true ex_T0) (root_hash (whatsapp toyH) true ex_T1) 2 = true.
Proof.
  assert (La : LW ex_la) by (apply WF_LW; vm_compute; reflexivity).
  assert (Lb : LW ex_lb) by (apply WF_LW; vm_compute; reflexivity).
  assert (Lr : LW nl_root) by (apply WF_LW; vm_compute; reflexivity).
  split; [|split; [|split]].
  - split; [|split].
    + cbn [tree_ok ex_T0 tlabel]. split; [exact Lr|]. split; [split; [exact La | reflexivity] | exact I].
    + vm_compute. reflexivity.
    + intros y Hy. cbn [ex_T0 leaves app] in Hy. destruct Hy as [<-|[]]. vm_compute. reflexivity.
  - split; [|split].
    + cbn [tree_ok ex_T1 tlabel]. split; [exact Lr|]. split; split; first [exact La | exact Lb | reflexivity].
    + vm_compute. reflexivity.
    + intros y Hy. cbn [ex_T1 leaves app] in Hy. destruct Hy as [<-|[<-|[]]]; vm_compute; reflexivity.
  - split.
    + intros x Hx. cbn in Hx. destruct Hx as [<-|[<-|[]]]; split; vm_compute; reflexivity.
    + intros x Hx. cbn [ex_proof fst snd app] in Hx. destruct Hx as [<-|[<-|[]]]; vm_compute; reflexivity.
  - vm_compute. reflexivity.
Qed.
