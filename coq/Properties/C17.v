(* C17 - Node-label operations agree with their bit-string meaning.
   Property theorems only; every proof is [exact <lemma>]. *)
From Coq Require Import List Bool NArith.
From Akd Require Import ElemSet ElemSetFacts ContainsPrefix InsertRefine ContainsPrefixSorted ContainsPrefixFrom BitsLabel.
From Akd Require Import Bits NodeLabel NodeLabelFacts LabelOrder.
Import ListNotations.
Open Scope N_scope.

(* [WF a]: 32 bytes, each < 256, label_len <= 256 - what the Rust types guarantee plus the
   property's "length 0 to 256 bits". [bits_of a] is the bit string a label stands for. *)

Theorem C17_is_prefix_of : forall a b, WF a -> WF b ->
  is_prefix_of a b = prefixb (bits_of a) (bits_of b).
Proof. exact is_prefix_of_spec. Qed.
Print Assumptions C17_is_prefix_of.

Theorem C17_get_prefix : forall a len, WF a -> len <= llen a -> len < 256 ->
  bits_of (get_prefix a len) = firstn (N.to_nat len) (bits_of a) /\
  canonical (get_prefix a len) = true /\ llen (get_prefix a len) = len.
Proof. exact get_prefix_spec. Qed.
Print Assumptions C17_get_prefix.

Theorem C17_get_prefix_full : forall a len, 256 <= len -> get_prefix a len = a.
Proof. exact get_prefix_full. Qed.
Print Assumptions C17_get_prefix_full.

Theorem C17_longest_common_prefix : forall empty a b, WF a -> WF b ->
  (nl_eqb a empty || nl_eqb b empty = true -> get_longest_common_prefix empty a b = empty) /\
  (nl_eqb a empty || nl_eqb b empty = false ->
     bits_of (get_longest_common_prefix empty a b) = lcp (bits_of a) (bits_of b) /\
     N.to_nat (llen (get_longest_common_prefix empty a b)) = length (lcp (bits_of a) (bits_of b))).
Proof. exact get_longest_common_prefix_spec. Qed.
Print Assumptions C17_longest_common_prefix.

Theorem C17_child_direction : forall a b, WF a -> WF b ->
  get_prefix_ordering a b = pord (bits_of a) (bits_of b).
Proof. exact get_prefix_ordering_spec. Qed.
Print Assumptions C17_child_direction.

Theorem C17_ordering : forall a b, WF a -> WF b -> canonical a = true -> canonical b = true ->
  nl_cmp a b = shortlex_cmp (bits_of a) (bits_of b).
Proof. exact nl_cmp_spec. Qed.
Print Assumptions C17_ordering.

(* `impl Ord for NodeLabel` is a total order consistent with equality, for ALL labels (canonical or
   not): Equal exactly on equal labels, antisymmetric, transitive - what sorting and the binary
   searches above rely on *)
Theorem C17_ordering_is_total_order :
  (forall a b, nl_cmp a b = Eq <-> a = b) /\
  (forall a b, nl_cmp b a = CompOpp (nl_cmp a b)) /\
  (forall a b c, nl_cmp a b = Lt -> nl_cmp b c = Lt -> nl_cmp a c = Lt).
Proof. exact (conj nl_cmp_eq_iff (conj nl_cmp_opp nl_cmp_lt_trans)). Qed.
Print Assumptions C17_ordering_is_total_order.

(* element sets: on a sorted set of equal-length labels the binary-search partition and the
   first/last common prefix are the filter-based / fold-based operations of the unsorted form *)
Theorem C17_partition_point : forall (A : Type) (p : A -> bool) d l k,
  boundary p d l k -> partition_point p d l = k.
Proof. exact @partition_point_spec. Qed.
Print Assumptions C17_partition_point.

Theorem C17_set_partition : forall s pl,
  good_set s -> elabs_ok (eset_list s) -> WF pl ->
  (forall x, In x (eset_list s) -> pord (bits_of pl) (bits_of (e_label x)) <> None) ->
  eset_list (fst (eset_partition s pl)) = filter (side (bits_of pl) false) (eset_list s) /\
  eset_list (snd (eset_partition s pl)) = filter (side (bits_of pl) true) (eset_list s) /\
  good_set (fst (eset_partition s pl)) /\ good_set (snd (eset_partition s pl)).
Proof. exact eset_partition_spec. Qed.
Print Assumptions C17_set_partition.

Theorem C17_set_lcp : forall empty s,
  good_set s -> elabs_ok (eset_list s) -> eset_list s <> [] -> canonical empty = false ->
  bits_of (eset_lcp empty s) = Spec.lcp_all (ebits (eset_list s)) /\ WF (eset_lcp empty s) /\ canonical (eset_lcp empty s) = true.
Proof. exact eset_lcp_spec. Qed.
Print Assumptions C17_set_lcp.

(* contains_prefix: the unsorted form IS "some element's label extends the prefix"; the search form
   answers yes only in the three listed ways; for prefixes not longer than the elements (the only
   ones the preloading asks about) a yes of the search form is a yes of the unsorted form.  The
   Example shows the third way is real (a seeded change cannot hide behind it: it needs a prefix
   longer than an element with the same value bytes). *)
Theorem C17_contains_prefix_unsorted : forall p l,
  WF p -> (forall x, In x l -> WF (e_label x)) ->
  eset_contains_prefix (Unsorted l) p = existsb (extends p) l.
Proof. exact contains_prefix_unsorted. Qed.
Print Assumptions C17_contains_prefix_unsorted.

Theorem C17_contains_prefix_search_sound : forall p l,
  WF p -> (forall x, In x l -> WF (e_label x)) ->
  eset_contains_prefix (BinarySearchable l) p = true ->
  (llen p = 0 /\ l <> []) \/ existsb (extends p) l = true \/
  (exists x, In x l /\ lval (e_label x) = lval p /\ llen (e_label x) < llen p).
Proof. exact contains_prefix_sorted_sound. Qed.
Print Assumptions C17_contains_prefix_search_sound.

Theorem C17_contains_prefix_search_sound_leaves : forall p l,
  WF p -> (forall x, In x l -> WF (e_label x)) ->
  (forall x, In x l -> llen p <= llen (e_label x)) -> llen p <> 0 ->
  eset_contains_prefix (BinarySearchable l) p = true ->
  eset_contains_prefix (Unsorted l) p = true.
Proof. exact contains_prefix_sorted_sound_leaves. Qed.
Print Assumptions C17_contains_prefix_search_sound_leaves.

Theorem C17_search_hit_is_an_element : forall (A : Type) (f : A -> comparison) d l,
  fst (binary_search_by f d l) = true -> exists x, In x l /\ f x = Eq.
Proof. exact @binary_search_found_sound. Qed.
Print Assumptions C17_search_hit_is_an_element.

Example C17_contains_prefix_forms_differ_on_longer_prefix :
  let x := El (NL (zeros 32) 8) [] in let p := NL (zeros 32) 9 in
  eset_contains_prefix (BinarySearchable [x]) p = true /\
  eset_contains_prefix (Unsorted [x]) p = false.
Proof. exact contains_prefix_forms_differ_on_longer_prefix. Qed.

(* completeness of the search, for any comparator: the loop only asks "Greater?", so on a slice
   split as (not Greater)* Greater* whose last not-Greater element compares Equal it hits exactly
   that element; instantiated with the comparator of contains_prefix *)
Theorem C17_search_complete : forall (A : Type) (f : A -> comparison) d l j,
  (1 <= j <= length l)%nat ->
  (forall n, (n < j)%nat -> f (nth n l d) <> Gt) ->
  (forall n, (j <= n)%nat -> (n < length l)%nat -> f (nth n l d) = Gt) ->
  f (nth (j - 1) l d) = Eq ->
  binary_search_by f d l = (true, (j - 1)%nat).
Proof. exact @binary_search_complete. Qed.
Print Assumptions C17_search_complete.

Theorem C17_contains_prefix_search_complete : forall p l j,
  let f := fun c => if (llen p =? 0) || is_prefix_of p (e_label c) then Eq
                    else bytes_cmp (lval (e_label c)) (lval p) in
  (1 <= j <= length l)%nat ->
  (forall n, (n < j)%nat -> f (nth n l dummy_elem) <> Gt) ->
  (forall n, (j <= n)%nat -> (n < length l)%nat -> f (nth n l dummy_elem) = Gt) ->
  f (nth (j - 1) l dummy_elem) = Eq ->
  eset_contains_prefix (BinarySearchable l) p = true.
Proof. exact contains_prefix_sorted_complete. Qed.
Print Assumptions C17_contains_prefix_search_complete.

(* its premises on a sorted set: labels 0x10, 0x53, 0x5f, 0x80 (8 bits), prefix 0101 *)
Example C17_search_complete_hyp_sat :
  let e b := El (NL (b :: zeros 31) 8) [] in
  let l := [e 16; e 83; e 95; e 128] in let p := NL (80 :: zeros 31) 4 in
  let f := fun c => if (llen p =? 0) || is_prefix_of p (e_label c) then Eq
                    else bytes_cmp (lval (e_label c)) (lval p) in
  (1 <= 3 <= length l)%nat /\
  (forall n, (n < 3)%nat -> f (nth n l dummy_elem) <> Gt) /\
  (forall n, (3 <= n)%nat -> (n < length l)%nat -> f (nth n l dummy_elem) = Gt) /\
  f (nth (3 - 1) l dummy_elem) = Eq /\ eset_contains_prefix (BinarySearchable l) p = true.
Proof.
  cbv zeta. split; [cbn; auto with arith|]. split.
  - intros n Hn. destruct n as [|[|[|n]]]; [vm_compute; discriminate ..|].
    exfalso. apply (PeanoNat.Nat.lt_irrefl 3). eapply PeanoNat.Nat.le_lt_trans; [|exact Hn].
    repeat apply le_n_S. apply le_0_n.
  - split.
    + intros n Hn1 Hn2. destruct n as [|[|[|[|n]]]].
      * inversion Hn1.
      * inversion Hn1 as [|m Hm]; inversion Hm.
      * inversion Hn1 as [|m Hm]; inversion Hm as [|m2 Hm2]; inversion Hm2.
      * vm_compute. reflexivity.
      * exfalso. cbn [length] in Hn2. do 4 apply PeanoNat.Nat.succ_lt_mono in Hn2. inversion Hn2.
    + split; vm_compute; reflexivity.
Qed.

(* ... and on the sets the code builds - sorted, canonical labels of one length - with a canonical
   prefix not longer than the elements the shape is a theorem: the comparator of the code is
   lex_cmp (first |p| bits of the element) p (`cpf_is_key`), monotone along a slice sorted by bit
   strings, and the search is complete for every monotone comparator (the toolchain's documented
   precondition).  Hence the two representations answer alike. *)
Theorem C17_search_complete_monotone : forall (A : Type) (f : A -> comparison) d l,
  mono (map f l) -> (exists x, In x l /\ f x = Eq) -> fst (binary_search_by f d l) = true.
Proof. exact @binary_search_complete_mono. Qed.
Print Assumptions C17_search_complete_monotone.

Theorem C17_contains_prefix_forms_agree : forall p l,
  WF p -> canonical p = true -> elabs_ok l -> sorted_bits l -> same_len l ->
  (forall x, In x l -> llen p <= llen (e_label x)) ->
  eset_contains_prefix (BinarySearchable l) p = eset_contains_prefix (Unsorted l) p.
Proof. exact contains_prefix_sorted_eq_unsorted. Qed.
Print Assumptions C17_contains_prefix_forms_agree.

(* the same with repeated labels in the slice (sorted, equal neighbours allowed) *)
Theorem C17_contains_prefix_forms_agree_with_repeats : forall p l,
  WF p -> canonical p = true -> elabs_ok l -> sorted_le l -> same_len l ->
  (forall x, In x l -> llen p <= llen (e_label x)) ->
  eset_contains_prefix (BinarySearchable l) p = eset_contains_prefix (Unsorted l) p.
Proof. exact contains_prefix_sorted_eq_unsorted_le. Qed.
Print Assumptions C17_contains_prefix_forms_agree_with_repeats.

Example C17_forms_agree_hyp_sat :
  let e b := El (NL (b :: zeros 31) 8) [] in
  let l := [e 16; e 83; e 95; e 128] in let p := NL (80 :: zeros 31) 4 in
  WF p /\ canonical p = true /\ elabs_ok l /\ sorted_bits l /\ same_len l /\
  (forall x, In x l -> llen p <= llen (e_label x)) /\
  eset_contains_prefix (Unsorted l) p = true.
Proof.
  cbv zeta. split; [vm_compute; reflexivity|]. split; [vm_compute; reflexivity|]. split.
  { intros x Hx. cbn [In] in Hx.
    destruct Hx as [E|[E|[E|[E|[]]]]]; subst x; split; vm_compute; reflexivity. }
  split.
  { repeat (constructor; [intros y Hy; cbn [In] in Hy;
      repeat (destruct Hy as [Hy|Hy]; [subst y; vm_compute; reflexivity|]); destruct Hy|]).
    constructor. }
  split.
  { exists 8. intros x Hx. cbn [In] in Hx.
    destruct Hx as [E|[E|[E|[E|[]]]]]; subst x; reflexivity. }
  split; [|vm_compute; reflexivity].
  intros x Hx. cbn [In] in Hx.
  destruct Hx as [E|[E|[E|[E|[]]]]]; subst x; vm_compute; discriminate.
Qed.

(* whatever representation `AzksElementSet::from` chooses for the given elements *)
Theorem C17_contains_prefix_of_from : forall p elems,
  WF p -> canonical p = true -> elabs_ok elems -> NoDup (map e_label elems) ->
  (forall x, In x elems -> llen p <= llen (e_label x)) ->
  eset_contains_prefix (eset_from elems) p = existsb (extends p) elems.
Proof. exact contains_prefix_of_from. Qed.
Print Assumptions C17_contains_prefix_of_from.

(* partition OUTSIDE its contract ("the label *must* be a common prefix of all nodes in the set",
   append_only_zks.rs): with elements that do not extend the label the two representations
   differ - the search form keeps them at both ends.  This is why C17_set_partition carries the
   premise, and why the harness's oracle compares the forms on extending elements only. *)
Example C17_partition_forms_differ_outside_contract :
  let e b := El (NL (b :: zeros 31) 8) [] in
  let l := [e 16; e 83; e 95; e 128] in let pl := NL (80 :: zeros 31) 4 in
  eset_list (fst (eset_partition (BinarySearchable l) pl)) = [e 16; e 83] /\
  eset_list (fst (eset_partition (Unsorted l) pl)) = [e 83] /\
  eset_list (snd (eset_partition (BinarySearchable l) pl)) = [e 95; e 128] /\
  eset_list (snd (eset_partition (Unsorted l) pl)) = [e 95].
Proof. vm_compute. repeat split; reflexivity. Qed.

Theorem C17_bits_roundtrip : (forall bs, (length bs <= 256)%nat -> bits_of (nl_of_bits bs) = bs) /\
  (forall a, WF a -> canonical a = true -> nl_of_bits (bits_of a) = a).
Proof. exact (conj bits_of_nl_of_bits nl_of_bits_bits_of). Qed.
Print Assumptions C17_bits_roundtrip.

(* non-vacuity: a label crossing a byte boundary meets the hypotheses *)
Example C17_hyp_sat :
  WF (NL (255 :: 128 :: zeros 30) 9) /\ canonical (NL (255 :: 128 :: zeros 30) 9) = true /\
  bits_of (NL (255 :: 128 :: zeros 30) 9) = repeat true 9.
Proof. repeat split; vm_compute; reflexivity. Qed.
