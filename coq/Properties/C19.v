(* C19 - Proofs survive protobuf encoding unchanged; malformed input is rejected cleanly.
   Model: Proto.v (byte-exact encoders, decoders with the conversion layer's checks).
   wf_* : the invariants of the Rust types (32-byte label values and digests, u64 numbers) plus
   label_len <= 256; small: the encoding is shorter than 2^64 bytes. *)
From Coq Require Import List Bool NArith.
From Akd Require Import NodeLabel Hashing ElemSet Tree Directory Verify Proto ProtoFacts.
Import ListNotations.
Open Scope N_scope.

(* every proof type and every component decodes from its encoding to the identical value *)
Theorem C19_lookup_roundtrip : forall p, wf_lookup p -> small (enc_lookup p) -> dec_lookup (enc_lookup p) = POk p.
Proof. exact dec_enc_lookup. Qed.
Print Assumptions C19_lookup_roundtrip.

Theorem C19_history_roundtrip : forall h, wf_history h -> small (enc_history h) -> dec_history (enc_history h) = POk h.
Proof. exact dec_enc_history. Qed.
Print Assumptions C19_history_roundtrip.

Theorem C19_audit_roundtrip : forall a, wf_audit a -> small (enc_audit a) -> dec_audit (enc_audit a) = POk a.
Proof. exact dec_enc_audit. Qed.
Print Assumptions C19_audit_roundtrip.

Theorem C19_components_roundtrip :
  (forall l, wf_label l -> small (enc_label l) -> dec_label (enc_label l) = POk l) /\
  (forall e, wf_elem e -> small (enc_elem e) -> dec_elem (enc_elem e) = POk e) /\
  (forall s, wf_sib s -> small (enc_sib s) -> dec_sib (enc_sib s) = POk s) /\
  (forall p, wf_mp p -> small (enc_mp p) -> dec_mp (enc_mp p) = POk p) /\
  (forall p, wf_nmp p -> small (enc_nmp p) -> dec_nmp (enc_nmp p) = POk p) /\
  (forall u, wf_update u -> small (enc_update u) -> dec_update (enc_update u) = POk u) /\
  (forall s, wf_single s -> small (enc_single s) -> dec_single (enc_single s) = POk s).
Proof. exact (conj dec_enc_label (conj dec_enc_elem (conj dec_enc_sib (conj dec_enc_mp (conj dec_enc_nmp (conj dec_enc_update dec_enc_single)))))). Qed.
Print Assumptions C19_components_roundtrip.

(* verifying what was decoded from the wire is verifying the original *)
Theorem C19_verify_after_decode : forall cfg vc pk root e l hp allow p h,
  wf_lookup p -> small (enc_lookup p) -> wf_history h -> small (enc_history h) ->
  (forall q, dec_lookup (enc_lookup p) = POk q -> lookup_verify cfg vc pk root e l q = lookup_verify cfg vc pk root e l p) /\
  (forall g, dec_history (enc_history h) = POk g ->
             key_history_verify cfg vc pk root e l g hp allow = key_history_verify cfg vc pk root e l h hp allow).
Proof. exact verify_after_decode. Qed.
Print Assumptions C19_verify_after_decode.

(* distinct proofs never share an encoding *)
Theorem C19_encoding_injective : forall p p', wf_lookup p -> wf_lookup p' -> small (enc_lookup p) ->
  enc_lookup p = enc_lookup p' -> p = p'.
Proof. exact enc_lookup_inj. Qed.
Print Assumptions C19_encoding_injective.

(* whatever bytes arrive: if the decoder accepts, the result satisfies the conversion layer's
   constraints (labels of at most 256 bits in 32 bytes, 32-byte digests, u64 numbers, exactly two
   children) - over-long labels, wrong-size digests and missing fields never get through *)
Theorem C19_accepted_is_wellformed :
  (forall bs p, dec_lookup bs = POk p -> wf_lookup p) /\
  (forall bs h, dec_history bs = POk h -> wf_history h) /\
  (forall bs a, dec_audit bs = POk a -> wf_audit a) /\
  (forall bs s, dec_single bs = POk s -> wf_single s).
Proof. exact (conj dec_lookup_wf (conj dec_history_wf (conj dec_audit_wf dec_single_wf))). Qed.
Print Assumptions C19_accepted_is_wellformed.

(* wire primitives *)
Theorem C19_varint_roundtrip : forall n rest, unvarint (varint n ++ rest) = Some (n, length (varint n), rest).
Proof. exact unvarint_varint. Qed.
Print Assumptions C19_varint_roundtrip.

Theorem C19_minimal_label : forall v, length v = 32%nat -> pad32 (strip0 v) = v.
Proof. exact pad32_strip0. Qed.
Print Assumptions C19_minimal_label.

(* audit blob names print and parse *)
Theorem C19_blob_name_roundtrip : forall e p c,
  e < two64 -> length p = 32%nat -> length c = 32%nat ->
  Forall (fun x => x < 256) p -> Forall (fun x => x < 256) c ->
  parse_blob_name (blob_name e p c) = POk (e, p, c).
Proof. exact blob_name_roundtrip. Qed.
Print Assumptions C19_blob_name_roundtrip.

(* the hypotheses are satisfiable: a concrete non-trivial lookup proof *)
Example C19_hyp_sat : exists p, wf_lookup p /\ small (enc_lookup p) /\ mp_sibs (lp_existence p) <> [] /\
  dec_lookup (enc_lookup p) = POk p.
Proof. exact example_lookup_roundtrip. Qed.
