(* C14: the tree does not depend on the order in which a batch of (equal-length, distinct) leaves is
   handed to batch_insert: the element set is sorted first and the sorted list is unique. *)
From Coq Require Import List Bool Arith NArith Lia Permutation.
From Akd Require Import Bits NodeLabel NodeLabelFacts ElemSet Hashing Tree Insert.
Import ListNotations.
Open Scope N_scope.

(* ---------------------------------------------------------------- the order on labels *)

Lemma bytes_cmp_antisym a : forall b, bytes_cmp a b = CompOpp (bytes_cmp b a).
Proof.
  induction a as [|x a IH]; intros [|y b]; simpl; try reflexivity.
  rewrite (N.compare_antisym y x). destruct (y ?= x); simpl; auto.
Qed.

Lemma bytes_cmp_eq a : forall b, length a = length b -> bytes_cmp a b = Eq -> a = b.
Proof.
  induction a as [|x a IH]; intros [|y b] Hl H; simpl in *; try discriminate; try reflexivity.
  destruct (x ?= y) eqn:E; try discriminate. apply N.compare_eq in E. subst. f_equal. apply IH; [lia|exact H].
Qed.

Lemma bytes_cmp_trans a : forall b c, bytes_cmp a b = Lt -> bytes_cmp b c = Lt -> bytes_cmp a c = Lt.
Proof.
  induction a as [|x a IH]; intros [|y b] [|z c] H1 H2; simpl in *; try discriminate; try reflexivity.
  destruct (x ?= y) eqn:E1; try discriminate; destruct (y ?= z) eqn:E2; try discriminate.
  - apply N.compare_eq in E1, E2. subst. rewrite N.compare_refl. eapply IH; eauto.
  - apply N.compare_eq in E1. subst. rewrite E2. reflexivity.
  - apply N.compare_eq in E2. subst. rewrite E1. reflexivity.
  - rewrite N.compare_lt_iff in *. assert (x < z) by lia. apply N.compare_lt_iff in H. rewrite H. reflexivity.
Qed.

Definition lab_lt (a b : elem) : Prop := nl_cmp (e_label a) (e_label b) = Lt.

Lemma nl_cmp_antisym a b : nl_cmp a b = CompOpp (nl_cmp b a).
Proof.
  unfold nl_cmp. rewrite (N.compare_antisym (llen b) (llen a)). destruct (llen b ?= llen a); simpl; auto.
  apply bytes_cmp_antisym.
Qed.

Lemma nl_cmp_eq a b : length (lval a) = length (lval b) -> nl_cmp a b = Eq -> a = b.
Proof.
  unfold nl_cmp. intros Hl H. destruct (llen a ?= llen b) eqn:E; try discriminate. apply N.compare_eq in E.
  apply bytes_cmp_eq in H; [|exact Hl]. destruct a, b; simpl in *; congruence.
Qed.

Lemma nl_cmp_trans a b c : nl_cmp a b = Lt -> nl_cmp b c = Lt -> nl_cmp a c = Lt.
Proof.
  unfold nl_cmp. intros H1 H2.
  destruct (llen a ?= llen b) eqn:E1; try discriminate; destruct (llen b ?= llen c) eqn:E2; try discriminate.
  - apply N.compare_eq in E1, E2. rewrite E1, E2, N.compare_refl. eapply bytes_cmp_trans; eauto.
  - apply N.compare_eq in E1. rewrite E1, E2. reflexivity.
  - apply N.compare_eq in E2. rewrite <- E2, E1. reflexivity.
  - rewrite N.compare_lt_iff in *. assert (H : llen a < llen c) by lia. apply N.compare_lt_iff in H. rewrite H. reflexivity.
Qed.

(* ---------------------------------------------------------------- sorting is canonical *)

Inductive sorted_lt : list elem -> Prop :=
| sl_nil : sorted_lt []
| sl_cons x l : (forall y, In y l -> lab_lt x y) -> sorted_lt l -> sorted_lt (x :: l).

Definition distinct_labels (l : list elem) : Prop :=
  NoDup (map e_label l) /\ forall x, In x l -> length (lval (e_label x)) = 32%nat.

Lemma in_insert_sorted x y l : In y (insert_sorted x l) <-> y = x \/ In y l.
Proof.
  induction l as [|z l IH]; simpl; [intuition|]. destruct (elem_leb x z); simpl; [intuition|]. rewrite IH. intuition.
Qed.

Lemma insert_sorted_sorted x l : sorted_lt l -> (forall y, In y l -> e_label y <> e_label x) ->
  length (lval (e_label x)) = 32%nat -> (forall y, In y l -> length (lval (e_label y)) = 32%nat) ->
  sorted_lt (insert_sorted x l).
Proof.
  induction 1 as [|z l Hz Hs IH]; intros Hne Hx Hl; simpl.
  - constructor; [intros y []|constructor].
  - unfold elem_leb. destruct (nl_cmp (e_label x) (e_label z)) eqn:E.
    + exfalso. apply nl_cmp_eq in E; [|rewrite Hx; symmetry; apply Hl; now left]. apply (Hne z); [now left|auto].
    + constructor; [|now constructor]. intros y [<-|Hy]; [exact E|]. eapply nl_cmp_trans; [exact E|apply Hz; exact Hy].
    + constructor.
      * intros y Hy. apply in_insert_sorted in Hy. destruct Hy as [->|Hy]; [|auto].
        unfold lab_lt. rewrite nl_cmp_antisym, E. reflexivity.
      * apply IH; [intros y Hy; apply Hne; now right|exact Hx|intros y Hy; apply Hl; now right].
Qed.

Lemma sort_elems_in l x : In x (sort_elems l) <-> In x l.
Proof.
  unfold sort_elems. induction l as [|y l IH]; simpl; [tauto|]. rewrite in_insert_sorted, IH. intuition.
Qed.

Lemma sort_elems_sorted l : distinct_labels l -> sorted_lt (sort_elems l).
Proof.
  unfold sort_elems. induction l as [|x l IH]; intros [Hd Hl]; simpl; [constructor|].
  inversion Hd as [|? ? Hn Hd']; subst. apply insert_sorted_sorted.
  - apply IH. split; [exact Hd'|intros y Hy; apply Hl; now right].
  - intros y Hy Heq. apply (proj1 (sort_elems_in l y)) in Hy. apply Hn. rewrite <- Heq. apply in_map. exact Hy.
  - apply Hl. now left.
  - intros y Hy. apply (proj1 (sort_elems_in l y)) in Hy. apply Hl. now right.
Qed.

Lemma lab_lt_irrefl x : ~ lab_lt x x.
Proof.
  unfold lab_lt. intros H. pose proof (nl_cmp_antisym (e_label x) (e_label x)) as A. rewrite H in A. discriminate.
Qed.

(* two strictly sorted lists with the same elements are equal *)
Lemma sorted_lt_unique l1 : forall l2, sorted_lt l1 -> sorted_lt l2 -> (forall x, In x l1 <-> In x l2) -> l1 = l2.
Proof.
  induction l1 as [|x l1 IH]; intros l2 S1 S2 Hin.
  - destruct l2 as [|y l2]; [reflexivity|]. exfalso. apply (Hin y). now left.
  - destruct l2 as [|y l2]; [exfalso; apply (Hin x); now left|].
    inversion S1 as [|? ? Hx S1']; subst. inversion S2 as [|? ? Hy S2']; subst.
    assert (Exy : x = y).
    { destruct (proj1 (Hin x) (or_introl eq_refl)) as [E|Hx2]; [auto|].
      destruct (proj2 (Hin y) (or_introl eq_refl)) as [E|Hy1]; [auto|].
      exfalso. specialize (Hx y Hy1). specialize (Hy x Hx2). unfold lab_lt in *.
      rewrite nl_cmp_antisym, Hy in Hx. discriminate. }
    subst y. f_equal. apply IH; auto. intros z. split; intros Hz.
    + destruct (proj1 (Hin z) (or_intror Hz)) as [E|H]; [|exact H]. subst z. exfalso. exact (lab_lt_irrefl x (Hx x Hz)).
    + destruct (proj2 (Hin z) (or_intror Hz)) as [E|H]; [|exact H]. subst z. exfalso. exact (lab_lt_irrefl x (Hy x Hz)).
Qed.

Theorem sort_elems_permutation l l' : Permutation l l' -> distinct_labels l -> sort_elems l = sort_elems l'.
Proof.
  intros HP HD. assert (HD' : distinct_labels l').
  { destruct HD as [Hd Hl]. split.
    - eapply Permutation_NoDup; [|exact Hd]. now apply Permutation_map.
    - intros x Hx. apply Hl. eapply Permutation_in; [apply Permutation_sym; exact HP|exact Hx]. }
  apply sorted_lt_unique; auto using sort_elems_sorted.
  intros x. rewrite !sort_elems_in. split; intros H; [eapply Permutation_in; eauto|eapply Permutation_in; [apply Permutation_sym; exact HP|exact H]].
Qed.

Lemma forallb_perm {A} (p : A -> bool) l l' : Permutation l l' -> forallb p l = forallb p l'.
Proof. induction 1; simpl; auto; [now rewrite IHPermutation|destruct (p x), (p y); reflexivity|congruence]. Qed.

(* C14: inserting the same set of equal-length, distinct leaves in any order yields the same tree *)
Theorem batch_insert_order empty st elems elems' (len : N) :
  Permutation elems elems' -> distinct_labels elems ->
  (forall x, In x elems -> llen (e_label x) = len) ->
  batch_insert empty st elems = batch_insert empty st elems'.
Proof.
  intros HP HD Hlen. unfold batch_insert. destruct st as [[root latest] num].
  assert (Hset : eset_from elems = eset_from elems').
  { unfold eset_from. destruct elems as [|x l]; [apply Permutation_nil in HP; subst; reflexivity|].
    destruct elems' as [|x' l']; [apply Permutation_sym, Permutation_nil in HP; discriminate|].
    assert (H1 : forallb (fun y => llen (e_label y) =? llen (e_label x)) (x :: l) = true).
    { apply forallb_forall. intros y Hy. rewrite (Hlen y Hy), (Hlen x (or_introl eq_refl)). apply N.eqb_refl. }
    assert (H2 : forallb (fun y => llen (e_label y) =? llen (e_label x')) (x' :: l') = true).
    { apply forallb_forall. intros y Hy.
      assert (Hy' : In y (x :: l)) by (eapply Permutation_in; [apply Permutation_sym; exact HP|exact Hy]).
      assert (Hx' : In x' (x :: l)) by (eapply Permutation_in; [apply Permutation_sym; exact HP|now left]).
      rewrite (Hlen y Hy'), (Hlen x' Hx'). apply N.eqb_refl. }
    rewrite H1, H2. f_equal. now apply sort_elems_permutation. }
  rewrite Hset. reflexivity.
Qed.
