(* C04, completeness of auditing at the tree level: for a canonical tree T (what the directory's tree
   always is, C01) and consecutive epochs s, s+1, the single-epoch proof that the server's walk over
   the LATEST tree produces is accepted by the auditor against the root hashes of the trees as of s
   and s+1 - the specification tries over the leaves inserted up to s, resp. s+1.
   Ingredients: the tree as of an epoch is a restriction of the latest tree (restrict); the walk's
   output is the leaf set of a cut of the latest tree whose auditor-mode hash is the restriction's
   hash (cut); a well-formed trie's auditor hash depends on its leaf set only (norm), so the
   auditor's rebuild (AuditRebuild.v) has that hash. *)
From Coq Require Import List Bool Arith NArith Lia Permutation.
From Akd Require Import Directory Verify VerifyFacts.
From Akd Require Import Bits NodeLabel NodeLabelFacts BitsLabel ElemSet ElemSetFacts Hashing Tree TreeFacts
     Spec SpecFacts Insert InsertFacts InsertRefine AuditRebuild.
From Akd Require AuditSound.
Import ListNotations.
Open Scope N_scope.

(* ------------------------------------------------------------------ epochs of a canonical tree *)
Lemma canon_bounds : forall t, canon t -> forall y, In y (leaves t) -> t_min_desc t <= lf_epoch y /\ lf_epoch y <= t_last_epoch t.
Proof.
  induction t as [l v e|l le mde a b IHa IHb] using tree_ind'; intros [Hw Ha] y Hy.
  - destruct Hy as [<-|[]]. cbn. lia.
  - destruct (wf_sub_node _ _ _ _ _ Hw) as (a' & b' & -> & -> & _ & _ & _ & _ & Wa & Wb).
    cbn [ann_ok] in Ha. destruct Ha as (-> & -> & Aa & Ab). cbn [t_min_desc t_last_epoch].
    cbn [leaves] in Hy. apply in_app_or in Hy. destruct Hy as [Hy|Hy].
    + specialize (IHa a' eq_refl (conj Wa Aa) y Hy). lia.
    + specialize (IHb b' eq_refl (conj Wb Ab) y Hy). lia.
Qed.

Lemma canon_children l le mde a b : canon (Node l le mde a b) ->
  exists a' b', a = Some a' /\ b = Some b' /\ canon a' /\ canon b' /\
    pord (bits_of l) (bits_of (tlabel a')) = Some false /\ pord (bits_of l) (bits_of (tlabel b')) = Some true /\
    le = N.max (t_last_epoch a') (t_last_epoch b') /\ mde = N.min (t_min_desc a') (t_min_desc b') /\
    WF l /\ canonical l = true.
Proof.
  intros [Hw Ha]. destruct (wf_sub_node _ _ _ _ _ Hw) as (a' & b' & -> & -> & Wl & Cl & Pa & Pb & Wa & Wb).
  cbn [ann_ok] in Ha. destruct Ha as (E1 & E2 & Aa & Ab).
  exists a', b'. repeat split; assumption.
Qed.

(* ------------------------------------------------------------------ the tree as of an epoch *)
Section Restrict.
  Variable p : N -> bool.

  Fixpoint restrict (t : tree) : option tree :=
    match t with
    | Leaf l v e => if p e then Some t else None
    | Node l le mde (Some a) (Some b) =>
      match restrict a, restrict b with
      | Some a', Some b' =>
        Some (Node l (N.max (t_last_epoch a') (t_last_epoch b')) (N.min (t_min_desc a') (t_min_desc b')) (Some a') (Some b'))
      | Some a', None => Some a'
      | None, Some b' => Some b'
      | None, None => None
      end
    | Node _ _ _ _ _ => None
    end.

  Definition pl (y : leaf) : bool := p (lf_epoch y).

  Lemma pord_extend q x x' d : pord q x = Some d -> prefixb x x' = true -> pord q x' = Some d.
  Proof. intros H1 H2. apply prefix_pord. eapply prefixb_trans; [apply pord_prefix; exact H1 | exact H2]. Qed.

  Lemma restrict_spec : forall t, canon t ->
    match restrict t with
    | Some r => canon r /\ leaves r = filter pl (leaves t) /\ prefixb (bits_of (tlabel t)) (bits_of (tlabel r)) = true
    | None => filter pl (leaves t) = []
    end.
  Proof.
    induction t as [l v e|l le mde a b IHa IHb] using tree_ind'; intros Hc.
    - cbn [restrict leaves filter]. unfold pl. cbn [lf_epoch]. destruct (p e); [|reflexivity].
      split; [exact Hc|]. split; [reflexivity | apply prefixb_refl].
    - destruct (canon_children _ _ _ _ _ Hc) as (a' & b' & -> & -> & Ca & Cb & Pa & Pb & _ & _ & Wl & Cl).
      specialize (IHa a' eq_refl Ca). specialize (IHb b' eq_refl Cb).
      cbn [restrict leaves]. rewrite filter_app.
      destruct (restrict a') as [ra|]; destruct (restrict b') as [rb|].
      + destruct IHa as (Cra & La & Qa). destruct IHb as (Crb & Lb & Qb).
        split; [|split].
        * split.
          -- cbn [wf_sub tlabel]. unfold WF in Wl. rewrite Wl, Cl, (pord_extend _ _ _ _ Pa Qa), (pord_extend _ _ _ _ Pb Qb), (proj1 Cra), (proj1 Crb). reflexivity.
          -- cbn [ann_ok]. split; [reflexivity|]. split; [reflexivity|]. split; [apply Cra | apply Crb].
        * cbn [leaves]. rewrite La, Lb. reflexivity.
        * cbn [tlabel]. apply prefixb_refl.
      + destruct IHa as (Cra & La & Qa). rewrite IHb, app_nil_r. split; [exact Cra|]. split; [exact La|].
        cbn [tlabel]. eapply prefixb_trans; [|exact Qa]. eapply prefixb_app_l. apply pord_prefix. exact Pa.
      + destruct IHb as (Crb & Lb & Qb). rewrite IHa. cbn [app]. split; [exact Crb|]. split; [exact Lb|].
        cbn [tlabel]. eapply prefixb_trans; [|exact Qb]. eapply prefixb_app_l. apply pord_prefix. exact Pb.
      + rewrite IHa, IHb. reflexivity.
  Qed.

  Lemma restrict_all : forall t, canon t -> (forall y, In y (leaves t) -> pl y = true) -> restrict t = Some t.
  Proof.
    induction t as [l v e|l le mde a b IHa IHb] using tree_ind'; intros Hc Hall.
    - cbn [restrict]. specialize (Hall (LF l v e) (or_introl eq_refl)). unfold pl in Hall. cbn in Hall. rewrite Hall. reflexivity.
    - destruct (canon_children _ _ _ _ _ Hc) as (a' & b' & -> & -> & Ca & Cb & _ & _ & -> & -> & _ & _).
      cbn [restrict].
      rewrite (IHa a' eq_refl Ca) by (intros y Hy; apply Hall; cbn [leaves]; apply in_or_app; left; exact Hy).
      rewrite (IHb b' eq_refl Cb) by (intros y Hy; apply Hall; cbn [leaves]; apply in_or_app; right; exact Hy).
      reflexivity.
  Qed.

  Lemma restrict_none : forall t, canon t -> (forall y, In y (leaves t) -> pl y = false) -> restrict t = None.
  Proof.
    induction t as [l v e|l le mde a b IHa IHb] using tree_ind'; intros Hc Hall.
    - cbn [restrict]. specialize (Hall (LF l v e) (or_introl eq_refl)). unfold pl in Hall. cbn in Hall. rewrite Hall. reflexivity.
    - destruct (canon_children _ _ _ _ _ Hc) as (a' & b' & -> & -> & Ca & Cb & _).
      cbn [restrict].
      rewrite (IHa a' eq_refl Ca) by (intros y Hy; apply Hall; cbn [leaves]; apply in_or_app; left; exact Hy).
      rewrite (IHb b' eq_refl Cb) by (intros y Hy; apply Hall; cbn [leaves]; apply in_or_app; right; exact Hy).
      reflexivity.
  Qed.

  (* the root *)
  Definition orestrict (o : option tree) : option tree := match o with Some c => restrict c | None => None end.
  Definition restrict_root (t : tree) : tree :=
    match t with
    | Node l _ _ a b => let a' := orestrict a in let b' := orestrict b in Node l (N.max (olast a') (olast b')) (omin a' b') a' b'
    | Leaf _ _ _ => t
    end.

  Lemma restrict_root_spec t : canon_root t ->
    canon_root (restrict_root t) /\ leaves (restrict_root t) = filter pl (leaves t).
  Proof.
    destruct t as [|l le mde a b]; [intros []|]. intros (-> & Ca & Cb & _ & _).
    assert (Ha : canon_child false (orestrict a) /\ oleaves (orestrict a) = filter pl (oleaves a)).
    { destruct a as [c|]; [|split; [exact I | reflexivity]]. cbn [canon_child] in Ca. destruct Ca as [Pc Cc].
      pose proof (restrict_spec c Cc) as R. cbn [orestrict oleaves]. destruct (restrict c) as [r|].
      - destruct R as (Cr & Lr & Qr). split; [|exact Lr]. split; [apply (pord_extend _ _ _ _ Pc Qr) | exact Cr].
      - split; [exact I | symmetry; exact R]. }
    assert (Hb : canon_child true (orestrict b) /\ oleaves (orestrict b) = filter pl (oleaves b)).
    { destruct b as [c|]; [|split; [exact I | reflexivity]]. cbn [canon_child] in Cb. destruct Cb as [Pc Cc].
      pose proof (restrict_spec c Cc) as R. cbn [orestrict oleaves]. destruct (restrict c) as [r|].
      - destruct R as (Cr & Lr & Qr). split; [|exact Lr]. split; [apply (pord_extend _ _ _ _ Pc Qr) | exact Cr].
      - split; [exact I | symmetry; exact R]. }
    cbn [restrict_root]. split.
    - cbn [canon_root]. split; [reflexivity|]. split; [apply Ha|]. split; [apply Hb|]. split; reflexivity.
    - change (leaves (Node nl_root le mde a b)) with (oleaves a ++ oleaves b). rewrite filter_app.
      rewrite <- (proj2 Ha), <- (proj2 Hb). reflexivity.
  Qed.
End Restrict.

Lemma sleaves_filter (q : N -> bool) ls : map sleaf_of (filter (pl q) ls) = filter (fun x => q (sl_epoch x)) (map sleaf_of ls).
Proof.
  induction ls as [|y ls IH]; [reflexivity|]. cbn [filter map]. unfold pl at 1. cbn [sleaf_of sl_epoch].
  destruct (q (lf_epoch y)); cbn [map]; rewrite IH; reflexivity.
Qed.

(* the specification trie over the leaves up to an epoch is the restriction of the latest tree *)
Theorem spec_root_as_of (q : N -> bool) t : canon_root t ->
  spec_root (filter (fun x => q (sl_epoch x)) (sleaves t)) = restrict_root q t.
Proof.
  intros Hc. destruct (restrict_root_spec q t Hc) as [Cr Lr].
  rewrite <- (canon_root_spec _ Cr). unfold sleaves. rewrite Lr, sleaves_filter. reflexivity.
Qed.

(* ------------------------------------------------------------------ a trie's auditor hash depends on its leaf set only *)
Fixpoint norm (t : tree) : tree :=
  match t with
  | Leaf l v _ => Leaf l v 0
  | Node l _ _ a b =>
    Node l 0 0 (match a with Some c => Some (norm c) | None => None end)
               (match b with Some c => Some (norm c) | None => None end)
  end.

Lemma norm_label t : tlabel (norm t) = tlabel t.
Proof. destruct t; reflexivity. Qed.
Lemma norm_epochs t : t_last_epoch (norm t) = 0 /\ t_min_desc (norm t) = 0.
Proof. destruct t; split; reflexivity. Qed.

Lemma norm_wf : forall t, wf_sub t = true -> wf_sub (norm t) = true.
Proof.
  induction t as [l v e|l le mde a b IHa IHb] using tree_ind'; intros W; [exact W|].
  destruct (wf_sub_node _ _ _ _ _ W) as (a' & b' & -> & -> & Wl & Cl & Pa & Pb & Wa & Wb).
  cbn [norm wf_sub tlabel]. rewrite Wl, Cl, !norm_label, Pa, Pb, (IHa a' eq_refl Wa), (IHb b' eq_refl Wb). reflexivity.
Qed.

Lemma norm_canon : forall t, wf_sub t = true -> canon (norm t).
Proof.
  intros t W. split; [apply norm_wf; exact W|]. revert W.
  induction t as [l v e|l le mde a b IHa IHb] using tree_ind'; intros W; [exact I|].
  destruct (wf_sub_node _ _ _ _ _ W) as (a' & b' & -> & -> & _ & _ & _ & _ & Wa & Wb).
  cbn [norm ann_ok]. destruct (norm_epochs a') as [-> ->]. destruct (norm_epochs b') as [-> ->].
  split; [reflexivity|]. split; [reflexivity|]. split; [apply (IHa a' eq_refl Wa) | apply (IHb b' eq_refl Wb)].
Qed.

Section NormHash.
  Variable cfg : config.

  Lemma norm_value : forall t, node_value cfg false (norm t) = node_value cfg false t.
  Proof.
    induction t as [l v e|l le mde a b IHa IHb] using tree_ind'; [reflexivity|].
    cbn [norm node_value hashval].
    destruct a as [a'|]; destruct b as [b'|]; try reflexivity.
    - specialize (IHa a' eq_refl). specialize (IHb b' eq_refl). rewrite !norm_label.
      destruct a' as [la va ea|]; destruct b' as [lb vb eb|]; cbn [norm node_value] in *; try rewrite IHa; try rewrite IHb; reflexivity.
    - specialize (IHa a' eq_refl). rewrite !norm_label. destruct a' as [la va ea|]; cbn [norm node_value] in *; try rewrite IHa; reflexivity.
    - specialize (IHb b' eq_refl). rewrite !norm_label. destruct b' as [lb vb eb|]; cbn [norm node_value] in *; try rewrite IHb; reflexivity.
  Qed.

  Lemma norm_root_hash t : root_hash cfg false (norm t) = root_hash cfg false t.
  Proof.
    unfold root_hash. destruct t as [l v e|l le mde a b]; [reflexivity|].
    change (hashval cfg false (norm (Node l le mde a b))) with (node_value cfg false (norm (Node l le mde a b))).
    rewrite norm_value. reflexivity.
  Qed.
End NormHash.

Definition lv0 (y : leaf) : sleaf := SL (bits_of (lf_label y)) (lf_value y) 0.

Lemma norm_sleaves : forall t, sleaves (norm t) = map lv0 (leaves t).
Proof.
  induction t as [l v e|l le mde a b IHa IHb] using tree_ind'; [reflexivity|].
  unfold sleaves in *. cbn [norm leaves]. rewrite !map_app.
  destruct a as [a'|]; destruct b as [b'|]; cbn [map app]; try rewrite (IHa a' eq_refl); try rewrite (IHb b' eq_refl); reflexivity.
Qed.

(* two well-formed subtries with the same (label, value) leaf sets are equal up to epochs *)
Theorem wf_sub_unique R R' :
  wf_sub R = true -> wf_sub R' = true -> Permutation (map lv0 (leaves R)) (map lv0 (leaves R')) -> norm R = norm R'.
Proof.
  intros W W' P.
  destruct (canon_spec_sub (norm R) (norm_canon R W)) as (_ & _ & S).
  destruct (canon_spec_sub (norm R') (norm_canon R' W')) as (_ & _ & S').
  specialize (S 300%nat ltac:(lia)). specialize (S' 300%nat ltac:(lia)).
  rewrite norm_sleaves in S, S'. rewrite (spec_sub_perm 300 _ _ P) in S. congruence.
Qed.

Lemma norm_canon_root t : wf_root t = true -> canon_root (norm t).
Proof.
  destruct t as [|l le mde a b]; [discriminate|]. cbn [wf_root]. intros H.
  apply andb_true_iff in H. destruct H as [H Hb]. apply andb_true_iff in H. destruct H as [Hl Ha].
  apply nl_eqb_eq in Hl. subst l. cbn [norm canon_root]. split; [reflexivity|].
  assert (Ca : canon_child false (match a with Some c => Some (norm c) | None => None end)).
  { destruct a as [c|]; [|exact I]. cbn [wf_child] in Ha. apply andb_true_iff in Ha. destruct Ha as [P W].
    cbn [canon_child]. rewrite norm_label. rewrite bits_of_root in P. split; [|apply norm_canon; exact W].
    destruct (pord [] (bits_of (tlabel c))) as [[|]|]; try discriminate. reflexivity. }
  assert (Cb : canon_child true (match b with Some c => Some (norm c) | None => None end)).
  { destruct b as [c|]; [|exact I]. cbn [wf_child] in Hb. apply andb_true_iff in Hb. destruct Hb as [P W].
    cbn [canon_child]. rewrite norm_label. rewrite bits_of_root in P. split; [|apply norm_canon; exact W].
    destruct (pord [] (bits_of (tlabel c))) as [[|]|]; try discriminate. reflexivity. }
  split; [exact Ca|]. split; [exact Cb|].
  destruct a as [ca|]; destruct b as [cb|]; cbn [olast omin]; try destruct (norm_epochs ca) as [-> ->]; try destruct (norm_epochs cb) as [-> ->]; split; reflexivity.
Qed.

Theorem wf_root_unique cfg R R' :
  wf_root R = true -> wf_root R' = true -> Permutation (map lv0 (leaves R)) (map lv0 (leaves R')) ->
  root_hash cfg false R = root_hash cfg false R'.
Proof.
  intros W W' P. rewrite <- (norm_root_hash cfg R), <- (norm_root_hash cfg R').
  rewrite <- (canon_root_spec _ (norm_canon_root R W)), <- (canon_root_spec _ (norm_canon_root R' W')).
  rewrite !norm_sleaves. rewrite (spec_root_perm _ _ P). reflexivity.
Qed.

(* ------------------------------------------------------------------ the server's walk, without fuel *)
Fixpoint depth (t : tree) : nat :=
  match t with
  | Leaf _ _ _ => O
  | Node _ _ _ a b => S (Nat.max (match a with Some c => depth c | None => O end) (match b with Some c => depth c | None => O end))
  end.

Lemma pord_longer q x d : pord q x = Some d -> (length q < length x)%nat.
Proof. unfold pord. destruct (length x <=? length q)%nat eqn:E; [discriminate|]. intros _. apply Nat.leb_gt in E. exact E. Qed.

Lemma depth_bound : forall t, wf_sub t = true -> (depth t + length (bits_of (tlabel t)) <= 256)%nat.
Proof.
  induction t as [l v e|l le mde a b IHa IHb] using tree_ind'; intros W.
  - cbn [depth tlabel]. destruct (wf_sub_label _ W) as [Wl _]. cbn [tlabel] in Wl. rewrite (length_bits_of l Wl).
    destruct (WF_parts l Wl) as (_ & H & _). lia.
  - destruct (wf_sub_node _ _ _ _ _ W) as (a' & b' & -> & -> & _ & _ & Pa & Pb & Wa & Wb).
    specialize (IHa a' eq_refl Wa). specialize (IHb b' eq_refl Wb).
    apply pord_longer in Pa, Pb. cbn [depth tlabel]. lia.
Qed.

Section Walk.
  Variable cfg : config.
  Variables s e : N.

  Fixpoint walk (t : tree) : list elem * list elem :=
    if t_last_epoch t <=? s then ([El (tlabel t) (node_value cfg true t)], [])
    else if e <? t_min_desc t then ([], [])
    else
      match t with
      | Leaf l v _ => ([], [El l v])
      | Node _ _ _ a b =>
        let wa := match a with Some c => walk c | None => ([], []) end in
        let wb := match b with Some c => walk c | None => ([], []) end in
        (fst wa ++ fst wb, snd wa ++ snd wb)
      end.

  Lemma ao_walk_walk : forall fuel t, (depth t < fuel)%nat -> ao_walk cfg fuel false t s e = walk t.
  Proof.
    induction fuel as [|f IH]; intros t Hd; [lia|].
    destruct t as [l v ep|l le mde a b].
    - reflexivity.
    - cbn [ao_walk walk t_last_epoch t_min_desc tlabel]. cbn [depth] in Hd.
      destruct (le <=? s); [reflexivity|]. destruct (e <? mde); [reflexivity|].
      assert (Ea : match a with Some c => ao_walk cfg f false c s e | None => ([], []) end = match a with Some c => walk c | None => ([], []) end).
      { destruct a as [c|]; [|reflexivity]. apply IH. lia. }
      assert (Eb : match b with Some c => ao_walk cfg f false c s e | None => ([], []) end = match b with Some c => walk c | None => ([], []) end).
      { destruct b as [c|]; [|reflexivity]. apply IH. lia. }
      rewrite Ea, Eb. reflexivity.
  Qed.

  (* the cut of the latest tree along the walk: unchanged subtrees become leaves carrying their hash,
     subtrees inserted later vanish, the leaves of the audited epoch are kept ([wi]) or dropped *)
  Definition combine (l : nlabel) (x y : option tree) : option tree :=
    match x, y with
    | Some a', Some b' => Some (Node l 0 0 (Some a') (Some b'))
    | Some a', None => Some a'
    | None, Some b' => Some b'
    | None, None => None
    end.

  Fixpoint cut (wi : bool) (t : tree) : option tree :=
    if t_last_epoch t <=? s then Some (Leaf (tlabel t) (node_value cfg true t) 0)
    else if e <? t_min_desc t then None
    else
      match t with
      | Leaf l v _ => if wi then Some (Leaf l (c_leaf_hash cfg v e) 0) else None
      | Node l _ _ (Some a) (Some b) => combine l (cut wi a) (cut wi b)
      | Node _ _ _ _ _ => None
      end.

  Definition stamp (x : elem) : elem := El (e_label x) (c_leaf_hash cfg (e_value x) e).

  Lemma combine_leaves l x y : oleaves (combine l x y) = oleaves x ++ oleaves y.
  Proof. destruct x, y; cbn [combine oleaves leaves app]; try reflexivity. rewrite app_nil_r. reflexivity. Qed.

  Lemma cut_leaves_start : forall t, wf_sub t = true -> oleaves (cut false t) = map (lf_of 0) (fst (walk t)).
  Proof.
    induction t as [l v ep|l le mde a b IHa IHb] using tree_ind'; intros W.
    - cbn [cut walk t_last_epoch t_min_desc tlabel]. destruct (ep <=? s); [reflexivity|]. destruct (e <? ep); reflexivity.
    - destruct (wf_sub_node _ _ _ _ _ W) as (a' & b' & -> & -> & _ & _ & _ & _ & Wa & Wb).
      cbn [cut walk t_last_epoch t_min_desc tlabel]. destruct (le <=? s); [reflexivity|]. destruct (e <? mde); [reflexivity|].
      rewrite combine_leaves, (IHa a' eq_refl Wa), (IHb b' eq_refl Wb). cbn [fst]. rewrite map_app. reflexivity.
  Qed.

  Lemma cut_leaves_end : forall t, wf_sub t = true ->
    Permutation (oleaves (cut true t)) (map (lf_of 0) (fst (walk t) ++ map stamp (snd (walk t)))).
  Proof.
    induction t as [l v ep|l le mde a b IHa IHb] using tree_ind'; intros W.
    - cbn [cut walk t_last_epoch t_min_desc tlabel]. destruct (ep <=? s); [apply Permutation_refl|]. destruct (e <? ep); apply Permutation_refl.
    - destruct (wf_sub_node _ _ _ _ _ W) as (a' & b' & -> & -> & _ & _ & _ & _ & Wa & Wb).
      cbn [cut walk t_last_epoch t_min_desc tlabel]. destruct (le <=? s); [apply Permutation_refl|]. destruct (e <? mde); [apply Permutation_refl|].
      rewrite combine_leaves. cbn [fst snd].
      eapply Permutation_trans; [apply Permutation_app; [apply (IHa a' eq_refl Wa) | apply (IHb b' eq_refl Wb)]|].
      rewrite !map_app. apply perm_shuffle.
  Qed.
End Walk.

(* ------------------------------------------------------------------ the cut hashes like the tree as of the epoch *)
Section CutHash.
  Variable cfg : config.
  Variables s e : N.
  Hypothesis He : e = s + 1.

  Lemma hv_node' we l le mde a b :
    hashval cfg we (Node l le mde (Some a) (Some b)) =
    c_parent_hash cfg (node_value cfg we a) (lvalue cfg (tlabel a)) (node_value cfg we b) (lvalue cfg (tlabel b)).
  Proof. destruct a, b; reflexivity. Qed.

  Definition upto (wi : bool) : N -> bool := fun x => x <=? (if wi then e else s).

  Lemma cut_unfold wi t :
    cut cfg s e wi t =
    if t_last_epoch t <=? s then Some (Leaf (tlabel t) (node_value cfg true t) 0)
    else if e <? t_min_desc t then None
    else
      match t with
      | Leaf l v _ => if wi then Some (Leaf l (c_leaf_hash cfg v e) 0) else None
      | Node l _ _ (Some a) (Some b) => combine l (cut cfg s e wi a) (cut cfg s e wi b)
      | Node _ _ _ _ _ => None
      end.
  Proof. destruct t; reflexivity. Qed.

  Lemma cut_restrict wi : forall t, canon t ->
    match cut cfg s e wi t, restrict (upto wi) t with
    | Some c, Some r => wf_sub c = true /\ tlabel c = tlabel r /\ node_value cfg false c = node_value cfg true r
    | None, None => True
    | _, _ => False
    end.
  Proof.
    induction t as [l v ep|l le mde a b IHa IHb] using tree_ind'; intros Hc.
    - cbn [cut restrict t_last_epoch t_min_desc tlabel]. unfold upto.
      destruct (N.leb_spec ep s) as [H1|H1].
      + assert (E : (ep <=? (if wi then e else s)) = true) by (apply N.leb_le; destruct wi; lia). rewrite E.
        split; [apply Hc|]. split; reflexivity.
      + destruct (N.ltb_spec e ep) as [H2|H2].
        * assert (E : (ep <=? (if wi then e else s)) = false) by (apply N.leb_gt; destruct wi; lia). rewrite E. exact I.
        * assert (Ee : ep = e) by (lia). destruct wi.
          -- rewrite Ee, N.leb_refl. split; [apply Hc|]. split; reflexivity.
          -- assert (E : (ep <=? s) = false) by (apply N.leb_gt; lia). rewrite E. exact I.
    - pose proof (canon_bounds _ Hc) as Hbd.
      destruct (canon_children _ _ _ _ _ Hc) as (a' & b' & -> & -> & Ca & Cb & Pa & Pb & Ele & Emde & Wl & Cl).
      specialize (IHa a' eq_refl Ca). specialize (IHb b' eq_refl Cb).
      pose proof (restrict_spec (upto wi) a' Ca) as Ra. pose proof (restrict_spec (upto wi) b' Cb) as Rb.
      rewrite cut_unfold. cbn [t_last_epoch t_min_desc tlabel] in *.
      destruct (N.leb_spec le s) as [H1|H1].
      + rewrite (restrict_all (upto wi) _ Hc).
        * split; [|split; reflexivity]. cbn [wf_sub tlabel]. unfold WF in Wl. rewrite Wl, Cl. reflexivity.
        * intros y Hy. unfold pl, upto. apply N.leb_le. specialize (Hbd y Hy). destruct wi; lia.
      + destruct (N.ltb_spec e mde) as [H2|H2].
        * rewrite (restrict_none (upto wi) _ Hc); [exact I|].
          intros y Hy. unfold pl, upto. apply N.leb_gt. specialize (Hbd y Hy). destruct wi; lia.
        * cbn [restrict].
          destruct (cut cfg s e wi a') as [ca|]; destruct (restrict (upto wi) a') as [ra|]; try (destruct IHa; fail);
          destruct (cut cfg s e wi b') as [cb|]; destruct (restrict (upto wi) b') as [rb|]; try (destruct IHb; fail); cbn [combine].
          -- destruct IHa as (Wa & La & Va). destruct IHb as (Wb & Lb & Vb).
             destruct Ra as (_ & _ & Qa). destruct Rb as (_ & _ & Qb).
             split; [|split].
             ++ cbn [wf_sub tlabel]. unfold WF in Wl. rewrite Wl, Cl, La, Lb, (pord_extend _ _ _ _ Pa Qa), (pord_extend _ _ _ _ Pb Qb), Wa, Wb. reflexivity.
             ++ reflexivity.
             ++ cbn [node_value]. rewrite !hv_node', La, Lb, Va, Vb. reflexivity.
          -- exact IHa.
          -- exact IHb.
          -- exact I.
  Qed.
End CutHash.

(* ------------------------------------------------------------------ the leaf labels of a well-formed trie *)
Definition labels_ok (ls : list nlabel) : Prop :=
  (forall l, In l ls -> WF l /\ canonical l = true) /\ NoDup ls /\
  (forall x y, In x ls -> In y ls -> prefixb (bits_of x) (bits_of y) = true -> x = y).

Lemma labels_ok_perm ls ls' : Permutation ls ls' -> labels_ok ls' -> labels_ok ls.
Proof.
  intros P (H1 & H2 & H3). split; [|split].
  - intros l Hl. apply H1. eapply Permutation_in; eassumption.
  - eapply Permutation_NoDup; [apply Permutation_sym; exact P | exact H2].
  - intros x y Hx Hy. apply H3; eapply Permutation_in; eassumption.
Qed.

Lemma NoDup_app_intro' {A} (a b : list A) : NoDup a -> NoDup b -> (forall x, In x a -> In x b -> False) -> NoDup (a ++ b).
Proof.
  induction a as [|x a IH]; intros Ha Hb Hd; [exact Hb|]. cbn [app]. inversion Ha as [|? ? Hn Ha']; subst.
  constructor.
  - intros Hin. apply in_app_or in Hin. destruct Hin as [Hin|Hin]; [exact (Hn Hin) | exact (Hd x (or_introl eq_refl) Hin)].
  - apply IH; [exact Ha' | exact Hb | intros y Hy; apply Hd; right; exact Hy].
Qed.

Lemma labels_ok_app p la lb :
  labels_ok la -> labels_ok lb ->
  (forall x, In x la -> prefixb (p ++ [false]) (bits_of x) = true) ->
  (forall x, In x lb -> prefixb (p ++ [true]) (bits_of x) = true) ->
  labels_ok (la ++ lb).
Proof.
  intros (A1 & A2 & A3) (B1 & B2 & B3) Pa Pb.
  assert (X : forall x y, In x la -> In y lb -> prefixb (bits_of x) (bits_of y) = true \/ prefixb (bits_of y) (bits_of x) = true -> False).
  { intros x y Hx Hy [H|H].
    - apply (siblings_disjoint p (bits_of x) (bits_of y) (bits_of y)); auto using prefixb_refl.
    - apply (siblings_disjoint p (bits_of x) (bits_of y) (bits_of x)); auto using prefixb_refl. }
  split; [|split].
  - intros l Hl. apply in_app_or in Hl. destruct Hl; auto.
  - apply NoDup_app_intro'; try assumption. intros x Hx Hy. apply (X x x Hx Hy). left. apply prefixb_refl.
  - intros x y Hx Hy Hp. apply in_app_or in Hx, Hy. destruct Hx as [Hx|Hx]; destruct Hy as [Hy|Hy]; auto.
    + exfalso. apply (X x y Hx Hy). left. exact Hp.
    + exfalso. apply (X y x Hy Hx). right. exact Hp.
Qed.

Lemma wf_sub_labels_ok : forall t, wf_sub t = true -> labels_ok (map lf_label (leaves t)).
Proof.
  induction t as [l v e|l le mde a b IHa IHb] using tree_ind'; intros W.
  - cbn [leaves map lf_label]. destruct (wf_sub_label _ W) as [Wl Cl]. cbn [tlabel] in Wl, Cl.
    split; [|split].
    + intros x [<-|[]]. split; assumption.
    + constructor; [intros []|constructor].
    + intros x y [<-|[]] [<-|[]] _. reflexivity.
  - destruct (wf_sub_node _ _ _ _ _ W) as (a' & b' & -> & -> & _ & _ & Pa & Pb & Wa & Wb).
    cbn [leaves]. rewrite map_app. apply (labels_ok_app (bits_of l)).
    + apply (IHa a' eq_refl Wa).
    + apply (IHb b' eq_refl Wb).
    + intros x Hx. apply in_map_iff in Hx. destruct Hx as (y & <- & Hy).
      eapply prefixb_trans; [apply pord_prefix; exact Pa|]. apply leaves_prefix; [apply wf_sub_wfg; exact Wa | exact Hy].
    + intros x Hx. apply in_map_iff in Hx. destruct Hx as (y & <- & Hy).
      eapply prefixb_trans; [apply pord_prefix; exact Pb|]. apply leaves_prefix; [apply wf_sub_wfg; exact Wb | exact Hy].
Qed.

Lemma wf_root_labels_ok t : wf_root t = true ->
  labels_ok (map lf_label (leaves t)) /\ (forall y, In y (leaves t) -> bits_of (lf_label y) <> []).
Proof.
  destruct t as [|l le mde a b]; [discriminate|]. cbn [wf_root]. intros H.
  apply andb_true_iff in H. destruct H as [H Hb]. apply andb_true_iff in H. destruct H as [Hl Ha].
  apply nl_eqb_eq in Hl. subst l.
  assert (Xa : labels_ok (map lf_label (oleaves a)) /\ forall y, In y (oleaves a) -> prefixb ([] ++ [false]) (bits_of (lf_label y)) = true).
  { destruct a as [c|]; [|split; [split; [intros ? []|split; [constructor|intros ? ? []]] | intros ? []]].
    cbn [wf_child] in Ha. apply andb_true_iff in Ha. destruct Ha as [P W]. rewrite bits_of_root in P.
    assert (P' : pord [] (bits_of (tlabel c)) = Some false) by (destruct (pord [] (bits_of (tlabel c))) as [[|]|]; try discriminate; reflexivity).
    split; [apply wf_sub_labels_ok; exact W|]. intros y Hy.
    eapply prefixb_trans; [apply pord_prefix; exact P'|]. apply leaves_prefix; [apply wf_sub_wfg; exact W | exact Hy]. }
  assert (Xb : labels_ok (map lf_label (oleaves b)) /\ forall y, In y (oleaves b) -> prefixb ([] ++ [true]) (bits_of (lf_label y)) = true).
  { destruct b as [c|]; [|split; [split; [intros ? []|split; [constructor|intros ? ? []]] | intros ? []]].
    cbn [wf_child] in Hb. apply andb_true_iff in Hb. destruct Hb as [P W]. rewrite bits_of_root in P.
    assert (P' : pord [] (bits_of (tlabel c)) = Some true) by (destruct (pord [] (bits_of (tlabel c))) as [[|]|]; try discriminate; reflexivity).
    split; [apply wf_sub_labels_ok; exact W|]. intros y Hy.
    eapply prefixb_trans; [apply pord_prefix; exact P'|]. apply leaves_prefix; [apply wf_sub_wfg; exact W | exact Hy]. }
  change (leaves (Node nl_root le mde a b)) with (oleaves a ++ oleaves b). split.
  - rewrite map_app. apply (labels_ok_app []); try apply Xa; try apply Xb.
    + intros x Hx. apply in_map_iff in Hx. destruct Hx as (y & <- & Hy). apply Xa. exact Hy.
    + intros x Hx. apply in_map_iff in Hx. destruct Hx as (y & <- & Hy). apply Xb. exact Hy.
  - intros y Hy E0. apply in_app_or in Hy. destruct Hy as [Hy|Hy].
    + pose proof (proj2 Xa y Hy) as P. rewrite E0 in P. discriminate.
    + pose proof (proj2 Xb y Hy) as P. rewrite E0 in P. discriminate.
Qed.

(* from label lists to the auditor's inputs *)
Lemma nodes_ok_of_labels nodes : labels_ok (map e_label nodes) -> nodes_ok nodes.
Proof.
  intros (H1 & H2 & H3). split; [|split].
  - intros x Hx. apply H1. apply in_map. exact Hx.
  - exact H2.
  - intros x y Hx Hy. apply H3; apply in_map; assumption.
Qed.

Lemma pairwise_free_of : forall ls, labels_ok ls -> pairwise_free (map Verify.canon ls) = true.
Proof.
  induction ls as [|x r IH]; intros (H1 & H2 & H3); [reflexivity|].
  cbn [map pairwise_free]. inversion H2 as [|? ? Hn Hd]; subst.
  destruct (H1 x (or_introl eq_refl)) as [Wx Cx].
  apply andb_true_iff. split.
  - apply forallb_forall. intros m Hm. apply in_map_iff in Hm. destruct Hm as (y & <- & Hy).
    destruct (H1 y (or_intror Hy)) as [Wy Cy]. rewrite !AuditSound.canon_id by assumption.
    rewrite !is_prefix_of_spec by assumption.
    destruct (prefixb (bits_of x) (bits_of y)) eqn:E1.
    + exfalso. apply Hn. rewrite (H3 x y (or_introl eq_refl) (or_intror Hy) E1). exact Hy.
    + destruct (prefixb (bits_of y) (bits_of x)) eqn:E2; [|reflexivity].
      exfalso. apply Hn. rewrite <- (H3 y x (or_intror Hy) (or_introl eq_refl) E2). exact Hy.
  - apply IH. split; [|split].
    + intros l Hl. apply H1. right. exact Hl.
    + exact Hd.
    + intros a b Ha Hb. apply H3; right; assumption.
Qed.

Lemma prefix_free_of nodes : labels_ok (map e_label nodes) -> prefix_free_labels nodes = true.
Proof.
  intros H. unfold prefix_free_labels. apply andb_true_iff. split.
  - apply forallb_forall. intros x Hx. destruct H as (H1 & _). destruct (H1 (e_label x) (in_map e_label _ _ Hx)) as [W _].
    destruct (WF_parts _ W) as (_ & L & _). apply N.leb_le. exact L.
  - rewrite <- (map_map e_label Verify.canon). apply pairwise_free_of. exact H.
Qed.

(* ------------------------------------------------------------------ the root, and one audited epoch *)
Section Root.
  Variable cfg : config.
  Variables s e : N.
  Hypothesis He : e = s + 1.
  Hypothesis Ce : canonical (c_empty_label cfg) = false.

  Definition ocut (wi : bool) (o : option tree) : option tree := match o with Some c => cut cfg s e wi c | None => None end.
  Definition cut_root (wi : bool) (T : tree) : tree :=
    match T with
    | Node l le mde a b => if e <? mde then empty_root else Node nl_root 0 0 (ocut wi a) (ocut wi b)
    | Leaf _ _ _ => T
    end.

  Definition slot_eq (we : bool) (o : option tree) (we' : bool) (o' : option tree) : Prop :=
    match o, o' with
    | Some c, Some c' => tlabel c = tlabel c' /\ node_value cfg we c = node_value cfg we' c'
    | None, None => True
    | _, _ => False
    end.

  Lemma hashval_slots we we' l l' le le' mde mde' a b a' b' :
    slot_eq we a we' a' -> slot_eq we b we' b' ->
    hashval cfg we (Node l le mde a b) = hashval cfg we' (Node l' le' mde' a' b').
  Proof.
    intros Ha Hb.
    assert (Va : AuditSound.slotv cfg we a = AuditSound.slotv cfg we' a' /\ AuditSound.slotl cfg a = AuditSound.slotl cfg a').
    { destruct a, a'; cbn [slot_eq] in Ha; try destruct Ha; cbn [AuditSound.slotv AuditSound.slotl]; split; congruence. }
    assert (Vb : AuditSound.slotv cfg we b = AuditSound.slotv cfg we' b' /\ AuditSound.slotl cfg b = AuditSound.slotl cfg b').
    { destruct b, b'; cbn [slot_eq] in Hb; try destruct Hb; cbn [AuditSound.slotv AuditSound.slotl]; split; congruence. }
    assert (C : (a = None /\ b = None /\ a' = None /\ b' = None) \/ ((a <> None \/ b <> None) /\ (a' <> None \/ b' <> None))).
    { destruct a, a'; cbn [slot_eq] in Ha; try destruct Ha; destruct b, b'; cbn [slot_eq] in Hb; try destruct Hb;
        first [left; repeat split; reflexivity | right; split; first [left; discriminate | right; discriminate]]. }
    destruct C as [(-> & -> & -> & ->)|[C C']]; [reflexivity|].
    rewrite (AuditSound.hv_root cfg we _ _ _ _ _ C), (AuditSound.hv_root cfg we' _ _ _ _ _ C').
    destruct Va as [-> ->]. destruct Vb as [-> ->]. reflexivity.
  Qed.

  Lemma slot_cut wi dir o : canon_child dir o ->
    match ocut wi o, orestrict (upto s e wi) o with
    | Some c, Some r => wf_sub c = true /\ tlabel c = tlabel r /\ node_value cfg false c = node_value cfg true r /\
                        pord [] (bits_of (tlabel c)) = Some dir
    | None, None => True
    | _, _ => False
    end.
  Proof.
    destruct o as [c0|]; [|intros _; exact I]. cbn [canon_child ocut orestrict]. intros [P C].
    pose proof (cut_restrict cfg s e He wi c0 C) as H. pose proof (restrict_spec (upto s e wi) c0 C) as R.
    destruct (cut cfg s e wi c0) as [c|]; destruct (restrict (upto s e wi) c0) as [r|]; try exact H.
    destruct H as (W & L & V). destruct R as (_ & _ & Q). repeat split; try assumption.
    rewrite L. apply (pord_extend _ _ _ _ P Q).
  Qed.

  Lemma omin_le a b c dir : canon_child dir (Some c) -> (a = Some c \/ b = Some c) -> omin a b <= t_min_desc c.
  Proof. intros _ [->| ->]; [destruct b | destruct a]; cbn [omin]; lia. Qed.

  Lemma cut_root_hash wi T : canon_root T ->
    root_hash cfg false (cut_root wi T) = root_hash cfg true (restrict_root (upto s e wi) T).
  Proof.
    destruct T as [|l le mde a b]; [intros []|]. intros (-> & Ca & Cb & Ele & Emde).
    unfold root_hash. f_equal. cbn [cut_root restrict_root].
    destruct (N.ltb_spec e mde) as [H|H].
    - assert (Na : orestrict (upto s e wi) a = None).
      { destruct a as [c|]; [|reflexivity]. cbn [orestrict]. destruct Ca as [_ Cc]. apply restrict_none; [exact Cc|].
        intros y Hy. unfold pl, upto. apply N.leb_gt. pose proof (canon_bounds c Cc y Hy) as Bd.
        assert (mde <= t_min_desc c) by (rewrite Emde; destruct b; cbn [omin]; lia). destruct wi; lia. }
      assert (Nb : orestrict (upto s e wi) b = None).
      { destruct b as [c|]; [|reflexivity]. cbn [orestrict]. destruct Cb as [_ Cc]. apply restrict_none; [exact Cc|].
        intros y Hy. unfold pl, upto. apply N.leb_gt. pose proof (canon_bounds c Cc y Hy) as Bd.
        assert (mde <= t_min_desc c) by (rewrite Emde; destruct a; cbn [omin]; lia). destruct wi; lia. }
      rewrite Na, Nb. reflexivity.
    - apply hashval_slots.
      + pose proof (slot_cut wi false a Ca) as X. unfold slot_eq. destruct (ocut wi a), (orestrict (upto s e wi) a); try exact X.
        destruct X as (_ & L & V & _). split; assumption.
      + pose proof (slot_cut wi true b Cb) as X. unfold slot_eq. destruct (ocut wi b), (orestrict (upto s e wi) b); try exact X.
        destruct X as (_ & L & V & _). split; assumption.
  Qed.

  Lemma cut_root_wf wi T : canon_root T -> wf_root (cut_root wi T) = true.
  Proof.
    destruct T as [|l le mde a b]; [intros []|]. intros (-> & Ca & Cb & _ & _). cbn [cut_root].
    destruct (e <? mde); [reflexivity|]. cbn [wf_root].
    assert (En : nl_eqb nl_root nl_root = true) by (apply nl_eqb_eq; reflexivity). rewrite En. cbn [andb].
    apply andb_true_iff. split.
    - pose proof (slot_cut wi false a Ca) as X. destruct (ocut wi a) as [c|]; [|reflexivity].
      destruct (orestrict (upto s e wi) a); [|destruct X]. destruct X as (W & _ & _ & P). cbn [wf_child]. rewrite bits_of_root, P, W. reflexivity.
    - pose proof (slot_cut wi true b Cb) as X. destruct (ocut wi b) as [c|]; [|reflexivity].
      destruct (orestrict (upto s e wi) b); [|destruct X]. destruct X as (W & _ & _ & P). cbn [wf_child]. rewrite bits_of_root, P, W. reflexivity.
  Qed.

  Lemma ao_walk_S f r t :
    ao_walk cfg (S f) r t s e =
    if t_last_epoch t <=? s then (if r then ([], []) else ([El (tlabel t) (node_value cfg true t)], []))
    else if e <? t_min_desc t then ([], [])
    else
      match t with
      | Leaf l v _ => ([], [El l v])
      | Node _ _ _ a b =>
        let wa := match a with Some c => ao_walk cfg f false c s e | None => ([], []) end in
        let wb := match b with Some c => ao_walk cfg f false c s e | None => ([], []) end in
        (fst wa ++ fst wb, snd wa ++ snd wb)
      end.
  Proof. reflexivity. Qed.

  Lemma cut_root_leaves T : canon_root T -> s < t_last_epoch T ->
    let w := ao_walk cfg 300 true T s e in
    leaves (cut_root false T) = map (lf_of 0) (fst w) /\
    Permutation (leaves (cut_root true T)) (map (lf_of 0) (fst w ++ map (stamp cfg e) (snd w))).
  Proof.
    destruct T as [|l le mde a b]; [intros []|]. intros (-> & Ca & Cb & _ & _) Hs. cbn [t_last_epoch] in Hs.
    cbv zeta. change 300%nat with (S 299). remember 299%nat as f eqn:Ef. rewrite ao_walk_S. cbn [t_last_epoch t_min_desc cut_root].
    assert (E1 : (le <=? s) = false) by (apply N.leb_gt; exact Hs). rewrite E1.
    destruct (e <? mde); [split; [reflexivity | apply Permutation_refl]|].
    assert (Wa : match a with Some c => ao_walk cfg f false c s e | None => ([], []) end = match a with Some c => walk cfg s e c | None => ([], []) end
                 /\ match a with Some c => wf_sub c = true | None => True end).
    { destruct a as [c|]; [|split; [reflexivity | exact I]]. destruct Ca as [_ [W _]]. split; [|exact W].
      apply ao_walk_walk. pose proof (depth_bound c W). lia. }
    assert (Wb : match b with Some c => ao_walk cfg f false c s e | None => ([], []) end = match b with Some c => walk cfg s e c | None => ([], []) end
                 /\ match b with Some c => wf_sub c = true | None => True end).
    { destruct b as [c|]; [|split; [reflexivity | exact I]]. destruct Cb as [_ [W _]]. split; [|exact W].
      apply ao_walk_walk. pose proof (depth_bound c W). lia. }
    destruct Wa as [-> Wa]. destruct Wb as [-> Wb]. cbn [fst snd].
    change (leaves (Node nl_root 0 0 (ocut false a) (ocut false b))) with (oleaves (ocut false a) ++ oleaves (ocut false b)).
    change (leaves (Node nl_root 0 0 (ocut true a) (ocut true b))) with (oleaves (ocut true a) ++ oleaves (ocut true b)).
    split.
    - rewrite map_app. f_equal.
      + destruct a as [c|]; [|reflexivity]. apply cut_leaves_start. exact Wa.
      + destruct b as [c|]; [|reflexivity]. apply cut_leaves_start. exact Wb.
    - eapply Permutation_trans.
      + apply Permutation_app.
        * instantiate (1 := map (lf_of 0) (fst (match a with Some c => walk cfg s e c | None => ([], []) end) ++ map (stamp cfg e) (snd (match a with Some c => walk cfg s e c | None => ([], []) end)))).
          destruct a as [c|]; [|apply Permutation_refl]. apply cut_leaves_end. exact Wa.
        * instantiate (1 := map (lf_of 0) (fst (match b with Some c => walk cfg s e c | None => ([], []) end) ++ map (stamp cfg e) (snd (match b with Some c => walk cfg s e c | None => ([], []) end)))).
          destruct b as [c|]; [|apply Permutation_refl]. apply cut_leaves_end. exact Wb.
      + rewrite !map_app. apply perm_shuffle.
  Qed.
End Root.

(* ------------------------------------------------------------------ the honest single-epoch proof verifies *)
Lemma opt_bytes_eqb_refl b : opt_bytes_eqb (Some b) b = true.
Proof. cbn. apply bytes_eqb_eq. reflexivity. Qed.

Lemma lv0_lf_of e nodes : map lv0 (map (lf_of e) nodes) = map (fun x => SL (bits_of (e_label x)) (e_value x) 0) nodes.
Proof. rewrite map_map. reflexivity. Qed.

Section Complete.
  Variable cfg : config.
  Hypothesis Ce : canonical (c_empty_label cfg) = false.

  Definition as_of (k : N) (T : tree) : list sleaf := filter (fun x => sl_epoch x <=? k) (sleaves T).

  (* what the rebuild of a node list hashes to, given a well-formed trie with those leaves *)
  Lemma rebuild_hash latest nodes C :
    wf_root C = true -> Permutation (leaves C) (map (lf_of 0) nodes) ->
    rebuild_root cfg nodes latest = Some (root_hash cfg false C).
  Proof.
    intros WC PC.
    destruct (wf_root_labels_ok C WC) as [LC NZ].
    assert (Lab : labels_ok (map e_label nodes)).
    { apply (labels_ok_perm _ (map lf_label (leaves C))); [|exact LC].
      apply Permutation_sym. eapply Permutation_trans; [apply Permutation_map; exact PC|]. rewrite map_map. apply Permutation_refl. }
    assert (Hnz : forall x, In x nodes -> bits_of (e_label x) <> []).
    { intros x Hx. apply (NZ (lf_of 0 x)). apply (Permutation_in _ (Permutation_sym PC)). apply in_map. exact Hx. }
    destruct (rebuild_spec (c_empty_label cfg) Ce latest nodes (nodes_ok_of_labels nodes Lab) Hnz) as (R & n & EB & WR & PR).
    unfold rebuild_root. rewrite EB. f_equal. apply wf_root_unique; [exact WR | exact WC|].
    eapply Permutation_trans; [apply Permutation_map; exact PR|].
    eapply Permutation_trans; [|apply Permutation_map; apply Permutation_sym; exact PC].
    rewrite !lv0_lf_of. apply Permutation_refl.
  Qed.

  Theorem audit_step_complete T s :
    canon_root T -> s < t_last_epoch T ->
    let w := ao_walk cfg 300 true T s (s + 1) in
    verify_consecutive cfg true (snd w, fst w) (spec_root_hash cfg (as_of s T)) (spec_root_hash cfg (as_of (s + 1) T)) (s + 1) = true.
  Proof.
    intros HT Hs w. set (e := s + 1) in *. assert (He : e = s + 1) by reflexivity.
    destruct (cut_root_leaves cfg s e He T HT Hs) as [L0 L1]. fold w in L0, L1.
    pose proof (cut_root_wf cfg s e He false T HT) as W0. pose proof (cut_root_wf cfg s e He true T HT) as W1.
    unfold verify_consecutive. fold (stamp cfg e).
    assert (H0 : spec_root_hash cfg (as_of s T) = root_hash cfg false (cut_root cfg s e false T)).
    { unfold spec_root_hash, as_of. rewrite (spec_root_as_of (fun x => x <=? s) T HT). symmetry. apply (cut_root_hash cfg s e He false T HT). }
    assert (H1 : spec_root_hash cfg (as_of e T) = root_hash cfg false (cut_root cfg s e true T)).
    { unfold spec_root_hash, as_of. rewrite (spec_root_as_of (fun x => x <=? e) T HT). symmetry. apply (cut_root_hash cfg s e He true T HT). }
    rewrite H0, H1.
    rewrite (rebuild_hash 0 (fst w) _ W0) by (rewrite L0; apply Permutation_refl).
    rewrite (rebuild_hash (e - 1) (fst w ++ map (stamp cfg e) (snd w)) _ W1 L1).
    rewrite !opt_bytes_eqb_refl, !andb_true_r.
    (* the prefix-free check *)
    destruct (wf_root_labels_ok _ W1) as [LC _].
    apply prefix_free_of. apply (labels_ok_perm _ (map lf_label (leaves (cut_root cfg s e true T)))); [|exact LC].
    apply Permutation_sym. eapply Permutation_trans; [apply Permutation_map; exact L1|].
    rewrite map_map, !map_app, map_map. apply Permutation_refl.
  Qed.
End Complete.
