(* Model of AzksElementSet (akd/src/append_only_zks.rs:72-201), layer L1. Executable. *)
From Coq Require Import List Bool Arith NArith Lia.
From Akd Require Import Bits NodeLabel.
Import ListNotations.
Open Scope N_scope.

Record elem := El { e_label : nlabel; e_value : list N }.

Inductive eset :=
| BinarySearchable (l : list elem)
| Unsorted (l : list elem).

Definition eset_list (s : eset) : list elem :=
  match s with BinarySearchable l => l | Unsorted l => l end.

(* impl Ord for AzksElement: by label only *)
Definition elem_leb (a b : elem) : bool :=
  match nl_cmp (e_label a) (e_label b) with Gt => false | _ => true end.

Fixpoint insert_sorted (x : elem) (l : list elem) : list elem :=
  match l with
  | [] => [x]
  | y :: r => if elem_leb x y then x :: l else y :: insert_sorted x r
  end.
(* sort_unstable: any sort; elements comparing equal may come in any order (the
   correspondence compares canonical multisets) *)
Definition sort_elems (l : list elem) : list elem := fold_right insert_sorted [] l.

(* From<Vec<AzksElement>> *)
Definition eset_from (l : list elem) : eset :=
  match l with
  | [] => Unsorted l
  | x :: _ =>
    if forallb (fun y => llen (e_label y) =? llen (e_label x)) l
    then BinarySearchable (sort_elems l) else Unsorted l
  end.

(* core::slice::binary_search_by of the pinned toolchain (size-halving loop);
   returns (found, index) *)
Fixpoint bs_loop {A} (f : A -> comparison) (d : A) (l : list A) (fuel : nat) (base size : nat) : nat :=
  match fuel with
  | O => base
  | S fu =>
    if (size <=? 1)%nat then base
    else
      let half := Nat.div2 size in
      let mid := (base + half)%nat in
      let base' := match f (nth mid l d) with Gt => base | _ => mid end in
      bs_loop f d l fu base' (size - half)
  end.

Definition binary_search_by {A} (f : A -> comparison) (d : A) (l : list A) : bool * nat :=
  match l with
  | [] => (false, O)
  | _ =>
    let base := bs_loop f d l (length l) O (length l) in
    match f (nth base l d) with
    | Eq => (true, base)
    | Lt => (false, S base)
    | Gt => (false, base)
    end
  end.

Definition partition_point {A} (p : A -> bool) (d : A) (l : list A) : nat :=
  snd (binary_search_by (fun x => if p x then Lt else Gt) d l).

Definition dummy_elem : elem := El nl_root [].

Fixpoint drop_invalid_tail (prefix : nlabel) (rl : list elem) : list elem :=
  (* rl is the reversed left part *)
  match rl with
  | x :: r =>
    match get_prefix_ordering prefix (e_label x) with
    | None => drop_invalid_tail prefix r
    | Some _ => rl
    end
  | [] => []
  end.

Definition eset_partition (s : eset) (prefix : nlabel) : eset * eset :=
  match s with
  | BinarySearchable nodes =>
    let pp := partition_point
                (fun c => match get_prefix_ordering prefix (e_label c) with
                          | Some true => false | _ => true end) dummy_elem nodes in
    let right := skipn pp nodes in
    let left := rev (drop_invalid_tail prefix (rev (firstn pp nodes))) in
    (BinarySearchable left, BinarySearchable right)
  | Unsorted nodes =>
    (Unsorted (filter (fun n => match get_prefix_ordering prefix (e_label n) with Some false => true | _ => false end) nodes),
     Unsorted (filter (fun n => match get_prefix_ordering prefix (e_label n) with Some true => true | _ => false end) nodes))
  end.

Definition eset_lcp (empty : nlabel) (s : eset) : nlabel :=
  match s with
  | BinarySearchable nodes =>
    match nodes with
    | [] => empty
    | first :: _ => get_longest_common_prefix empty (e_label first) (e_label (last nodes first))
    end
  | Unsorted nodes =>
    match nodes with
    | [] => empty
    | n0 :: rest =>
      fold_left (fun acc n => get_longest_common_prefix empty (e_label n) acc) rest (e_label n0)
    end
  end.

Definition eset_contains_prefix (s : eset) (prefix : nlabel) : bool :=
  match s with
  | BinarySearchable nodes =>
    fst (binary_search_by
           (fun c => if (llen prefix =? 0) || is_prefix_of prefix (e_label c) then Eq
                     else bytes_cmp (lval (e_label c)) (lval prefix)) dummy_elem nodes)
  | Unsorted nodes => existsb (fun n => is_prefix_of prefix (e_label n)) nodes
  end.
