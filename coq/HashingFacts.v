(* The hash formulas of both configurations are binding up to an explicit bad event: a collision
   of the underlying hash H (and, for the experimental configuration whose empty values are the
   all-zero digest, a preimage of the zero digest).  Discharges the hypotheses of TreeFacts.Sound. *)
From Coq Require Import List Bool Arith NArith Lia.
From Akd Require Import Bits NodeLabel NodeLabelFacts Hashing Tree TreeFacts.
Import ListNotations.
Open Scope N_scope.

Lemma bytes_eq_dec (x y : bytes) : {x = y} + {x <> y}.
Proof. apply list_eq_dec. apply N.eq_dec. Qed.

Lemma length_be_bytes k n : length (be_bytes k n) = k.
Proof. unfold be_bytes. now rewrite map_length, seq_length. Qed.

Lemma app_eq_len {A} (x y r1 r2 : list A) :
  length x = length y -> x ++ r1 = y ++ r2 -> x = y /\ r1 = r2.
Proof.
  revert y; induction x as [|a x IH]; intros [|b y] Hl H; simpl in *; try lia; auto.
  inversion H; subst. destruct (IH y ltac:(lia) H2) as [-> ->]. auto.
Qed.

Lemma nth_be_bytes k n i : (i < k)%nat ->
  nth i (be_bytes k n) 0 = N.land (N.shiftr n (8 * N.of_nat (k - 1 - i))) 255.
Proof.
  intros Hi. unfold be_bytes.
  set (f := fun i0 : nat => N.land (N.shiftr n (8 * N.of_nat (k - 1 - i0))) 255).
  rewrite (nth_indep _ 0 (f 0%nat)) by (rewrite map_length, seq_length; exact Hi).
  rewrite map_nth. rewrite seq_nth by exact Hi. reflexivity.
Qed.

Lemma be_bytes_inj k n m : n < 2 ^ (8 * N.of_nat k) -> m < 2 ^ (8 * N.of_nat k) ->
  be_bytes k n = be_bytes k m -> n = m.
Proof.
  intros Hn Hm H. apply N.bits_inj. intros j.
  destruct (N.ltb_spec j (8 * N.of_nat k)) as [Hj|Hj].
  - set (i := (k - 1 - N.to_nat (j / 8))%nat).
    assert (Hi : (i < k)%nat) by (subst i; lia).
    pose proof (f_equal (fun l => nth i l 0) H) as Hb. cbv beta in Hb.
    rewrite !nth_be_bytes in Hb by exact Hi.
    assert (Es : 8 * N.of_nat (k - 1 - i) = 8 * (j / 8)) by (subst i; lia).
    rewrite Es in Hb.
    pose proof (f_equal (fun x => N.testbit x (j mod 8)) Hb) as Ht. cbv beta in Ht.
    change 255 with (N.ones 8) in Ht. rewrite !N.land_ones in Ht.
    rewrite !N.mod_pow2_bits_low in Ht by (apply N.mod_lt; lia).
    rewrite !N.shiftr_spec' in Ht.
    replace (j mod 8 + 8 * (j / 8)) with j in Ht by (pose proof (N.div_mod j 8 ltac:(lia)); lia).
    exact Ht.
  - assert (Hz : forall x, x < 2 ^ (8 * N.of_nat k) -> N.testbit x j = false).
    { intros x Hx. destruct (N.eq_dec x 0) as [->|Hx0]; [apply N.bits_0|].
      apply N.bits_above_log2. apply N.log2_lt_pow2 in Hx; lia. }
    rewrite !Hz by assumption. reflexivity.
Qed.

Lemma LW_bytes_len l : LW l -> length (nl_to_bytes l) = 36%nat.
Proof. intros (H & _). unfold nl_to_bytes. rewrite app_length, length_be_bytes, H. reflexivity. Qed.

Lemma nl_to_bytes_inj l l' : LW l -> LW l' -> nl_to_bytes l = nl_to_bytes l' -> l = l'.
Proof.
  intros (L1 & _ & L3) (L1' & _ & L3') H. unfold nl_to_bytes in H.
  apply app_eq_len in H; [|now rewrite !length_be_bytes]. destruct H as [H1 H2].
  apply be_bytes_inj in H1; [|exact L3|exact L3']. destruct l, l'; simpl in *; congruence.
Qed.

Section Facts.
  Variable H : bytes -> bytes.
  Hypothesis H_len : forall x, length (H x) = 32%nat.

  Definition Collision : Prop := exists x y, x <> y /\ H x = H y.
  Definition ZeroPre : Prop := exists x, H x = zero_digest.

  Lemma H_inj x y : H x = H y -> x = y \/ Collision.
  Proof. intros E. destruct (bytes_eq_dec x y) as [|Hn]; [now left|]. right. exists x, y. auto. Qed.

  Lemma H_len_neq x y : length x <> length y -> H x = H y -> Collision.
  Proof. intros Hl E. exists x, y. split; [congruence|exact E]. Qed.

  (* ---------------------------------------------------------------- WhatsAppV1 *)
  Section WhatsApp.
    Let cfg := whatsapp H.

    Lemma w_lvalue l : lvalue cfg l = H (nl_to_bytes l).
    Proof. reflexivity. Qed.
    Lemma w_parent a la b lb : c_parent_hash cfg a la b lb = H (H (a ++ la) ++ H (b ++ lb)).
    Proof. reflexivity. Qed.

    Lemma w_leaf c e : c_leaf_hash cfg c e = H (c ++ be64 e).
    Proof. reflexivity. Qed.
    Lemma w_empty_root : c_empty_root_value cfg = H GenConsts.EMPTY_VALUE.
    Proof. reflexivity. Qed.
    Lemma w_empty_node : c_empty_node_hash cfg = H (H GenConsts.EMPTY_VALUE ++ H (nl_to_bytes empty_label_whatsapp)).
    Proof. reflexivity. Qed.
    Lemma w_root v : c_root_hash_from_val cfg v = H (v ++ H (nl_to_bytes nl_root)).
    Proof. reflexivity. Qed.
    Lemma len_be64 e : length (be64 e) = 8%nat.
    Proof. apply length_be_bytes. Qed.
    Lemma len_EMPTY : length GenConsts.EMPTY_VALUE = 1%nat.
    Proof. reflexivity. Qed.

    Lemma w_parent_inj a la b lb a' la' b' lb' :
      D32 a -> D32 a' -> D32 b -> D32 b' -> LW la -> LW la' -> LW lb -> LW lb' ->
      c_parent_hash cfg a (lvalue cfg la) b (lvalue cfg lb) =
      c_parent_hash cfg a' (lvalue cfg la') b' (lvalue cfg lb') ->
      (a = a' /\ lvalue cfg la = lvalue cfg la' /\ b = b' /\ lvalue cfg lb = lvalue cfg lb') \/ Collision.
    Proof.
      intros Da Da' Db Db' _ _ _ _ E. rewrite !w_parent in E.
      apply H_inj in E. destruct E as [E|]; [|now right].
      apply app_eq_len in E; [|now rewrite !H_len]. destruct E as [E1 E2].
      apply H_inj in E1. destruct E1 as [E1|]; [|now right].
      apply H_inj in E2. destruct E2 as [E2|]; [|now right].
      apply app_eq_len in E1; [|unfold D32 in *; congruence].
      apply app_eq_len in E2; [|unfold D32 in *; congruence]. left. tauto.
    Qed.

    Lemma w_lvalue_inj l l' : LW l -> LW l' -> lvalue cfg l = lvalue cfg l' -> l = l' \/ Collision.
    Proof.
      intros L L' E. rewrite !w_lvalue in E. apply H_inj in E. destruct E as [E|]; [|now right].
      left. now apply nl_to_bytes_inj.
    Qed.

    Lemma w_leaf_not_parent c e a la b lb :
      D32 c -> D32 a -> D32 b -> LW la -> LW lb ->
      c_leaf_hash cfg c e = c_parent_hash cfg a (lvalue cfg la) b (lvalue cfg lb) -> Collision.
    Proof.
      intros Dc _ _ _ _ E. rewrite w_parent, w_leaf in E. apply H_len_neq in E; [exact E|].
      rewrite !app_length, !H_len, len_be64. unfold D32 in Dc. lia.
    Qed.

    Lemma w_root_inj v v' : D32 v -> D32 v' ->
      c_root_hash_from_val cfg v = c_root_hash_from_val cfg v' -> v = v' \/ Collision.
    Proof.
      intros _ _ E. rewrite !w_root in E. apply H_inj in E. destruct E as [E|]; [|now right].
      left. now apply app_inv_tail in E.
    Qed.

    Lemma w_empty_root_not_parent a la b lb : D32 a -> D32 b -> LW la -> LW lb ->
      c_empty_root_value cfg = c_parent_hash cfg a (lvalue cfg la) b (lvalue cfg lb) -> Collision.
    Proof.
      intros _ _ _ _ E. rewrite w_parent, w_empty_root in E. apply H_len_neq in E; [exact E|].
      rewrite !app_length, !H_len, len_EMPTY. lia.
    Qed.

    Lemma w_empty_node_not_parent a la b lb : D32 a -> D32 b -> LW la -> LW lb ->
      c_empty_node_hash cfg = c_parent_hash cfg a (lvalue cfg la) b (lvalue cfg lb) -> Collision.
    Proof.
      intros Da _ _ _ E. rewrite w_parent, w_empty_node in E.
      apply H_inj in E. destruct E as [E|Hc]; [|exact Hc].
      apply app_eq_len in E; [|now rewrite !H_len]. destruct E as [E _].
      apply H_len_neq in E; [exact E|]. rewrite app_length, w_lvalue, H_len, len_EMPTY. unfold D32 in Da. lia.
    Qed.

    Lemma w_leaf_not_empty_root c e : D32 c -> c_leaf_hash cfg c e = c_empty_root_value cfg -> Collision.
    Proof.
      intros Dc E. rewrite w_leaf, w_empty_root in E. apply H_len_neq in E; [exact E|].
      rewrite app_length, len_be64, len_EMPTY. unfold D32 in Dc. lia.
    Qed.

    Lemma w_empty_label_LW : LW (c_empty_label cfg).
    Proof.
      split; [reflexivity|]. split; [|vm_compute; reflexivity].
      intros i. unfold byte_at. do 33 (destruct i as [|i]; [vm_compute; reflexivity|]). simpl. destruct i; vm_compute; reflexivity.
    Qed.
    Lemma w_empty_label_not_root : c_empty_label cfg <> nl_root.
    Proof. discriminate. Qed.
    Lemma w_empty_label_not_canonical : canonical (c_empty_label cfg) = false.
    Proof. vm_compute. reflexivity. Qed.

    (* C05 for the WhatsAppV1 configuration *)
    Theorem w_mem_sound t mp :
      tree_ok t -> tlabel t = nl_root -> is_leaf t = false -> mp_ok mp ->
      verify_membership cfg (root_hash cfg true t) mp = true ->
      Origin cfg (mp_label mp) (mp_hash_val mp) t \/ Collision.
    Proof.
      apply (mem_sound cfg Collision);
      first [ exact w_parent_inj | exact w_leaf_not_parent | exact w_root_inj | exact w_empty_root_not_parent
            | exact w_empty_node_not_parent | exact w_empty_label_LW | (intros; apply H_len) ].
    Qed.

    Theorem w_nonmem_sound t p :
      tree_ok t -> wf_root t = true -> nmp_ok p -> WF (np_label p) ->
      verify_nonmembership cfg (root_hash cfg true t) p = true ->
      ~ In (np_label p) (map lf_label (leaves t)) \/ Collision.
    Proof.
      apply (nonmem_sound cfg Collision);
      first [ exact w_parent_inj | exact w_lvalue_inj | exact w_leaf_not_parent | exact w_root_inj
            | exact w_empty_root_not_parent | exact w_empty_node_not_parent | exact w_leaf_not_empty_root
            | exact w_empty_label_LW | exact w_empty_label_not_root | exact w_empty_label_not_canonical
            | (intros; apply H_len) ].
    Qed.
  End WhatsApp.

  (* ---------------------------------------------------------------- Experimental *)
  Section Experimental.
    Variable domain : bytes.
    Let cfg := experimental H domain.
    Definition BadE : Prop := Collision \/ ZeroPre.

    Lemma e_lvalue l : lvalue cfg l = nl_to_bytes l.
    Proof. reflexivity. Qed.
    Lemma e_parent a la b lb : c_parent_hash cfg a la b lb = H (domain ++ a ++ la ++ b ++ lb).
    Proof. reflexivity. Qed.

    Lemma e_leaf c e : c_leaf_hash cfg c e = H (domain ++ c ++ be64 e).
    Proof. reflexivity. Qed.

    Lemma e_parent_inj a la b lb a' la' b' lb' :
      D32 a -> D32 a' -> D32 b -> D32 b' -> LW la -> LW la' -> LW lb -> LW lb' ->
      c_parent_hash cfg a (lvalue cfg la) b (lvalue cfg lb) =
      c_parent_hash cfg a' (lvalue cfg la') b' (lvalue cfg lb') ->
      (a = a' /\ lvalue cfg la = lvalue cfg la' /\ b = b' /\ lvalue cfg lb = lvalue cfg lb') \/ BadE.
    Proof.
      intros Da Da' Db Db' La La' Lb Lb' E. rewrite !e_parent, !e_lvalue in E.
      apply H_inj in E. destruct E as [E|]; [|right; now left].
      apply app_inv_head in E.
      apply app_eq_len in E; [|unfold D32 in *; congruence]. destruct E as [E1 E].
      apply app_eq_len in E; [|now rewrite !LW_bytes_len]. destruct E as [E2 E].
      apply app_eq_len in E; [|unfold D32 in *; congruence]. destruct E as [E3 E4].
      left. rewrite !e_lvalue. tauto.
    Qed.

    Lemma e_lvalue_inj l l' : LW l -> LW l' -> lvalue cfg l = lvalue cfg l' -> l = l' \/ BadE.
    Proof. intros L L' E. left. rewrite !e_lvalue in E. now apply nl_to_bytes_inj. Qed.

    Lemma e_leaf_not_parent c e a la b lb :
      D32 c -> D32 a -> D32 b -> LW la -> LW lb ->
      c_leaf_hash cfg c e = c_parent_hash cfg a (lvalue cfg la) b (lvalue cfg lb) -> BadE.
    Proof.
      intros Dc Da Db La Lb E. rewrite e_parent, !e_lvalue, e_leaf in E. left.
      apply H_len_neq in E; [exact E|].
      rewrite !app_length, !LW_bytes_len, len_be64 by assumption. unfold D32 in *. lia.
    Qed.

    Lemma e_root_inj v v' : D32 v -> D32 v' ->
      c_root_hash_from_val cfg v = c_root_hash_from_val cfg v' -> v = v' \/ BadE.
    Proof. intros _ _ E. left. exact E. Qed.

    Lemma e_zero_not_parent a la b lb :
      zero_digest = c_parent_hash cfg a la b lb -> BadE.
    Proof. intros E. right. eexists. symmetry. rewrite e_parent in E. exact E. Qed.

    Lemma e_leaf_not_empty_root c e : D32 c -> c_leaf_hash cfg c e = c_empty_root_value cfg -> BadE.
    Proof. intros _ E. right. eexists. exact E. Qed.

    Lemma e_empty_label_LW : LW (c_empty_label cfg).
    Proof.
      split; [reflexivity|]. split; [|vm_compute; reflexivity].
      intros i. unfold byte_at. do 33 (destruct i as [|i]; [vm_compute; reflexivity|]). simpl. destruct i; vm_compute; reflexivity.
    Qed.
    Lemma e_empty_label_not_root : c_empty_label cfg <> nl_root.
    Proof. discriminate. Qed.
    Lemma e_empty_label_not_canonical : canonical (c_empty_label cfg) = false.
    Proof. vm_compute. reflexivity. Qed.
    Lemma zero_D32 : D32 zero_digest.
    Proof. reflexivity. Qed.

    Theorem e_mem_sound t mp :
      tree_ok t -> tlabel t = nl_root -> is_leaf t = false -> mp_ok mp ->
      verify_membership cfg (root_hash cfg true t) mp = true ->
      Origin cfg (mp_label mp) (mp_hash_val mp) t \/ BadE.
    Proof.
      apply (mem_sound cfg BadE);
      first [ exact e_parent_inj | exact e_leaf_not_parent | exact e_root_inj
            | (intros a la b lb _ _ _ _ E; exact (e_zero_not_parent _ _ _ _ E))
            | exact zero_D32 | exact e_empty_label_LW | (intros; apply H_len) ].
    Qed.

    Theorem e_nonmem_sound t p :
      tree_ok t -> wf_root t = true -> nmp_ok p -> WF (np_label p) ->
      verify_nonmembership cfg (root_hash cfg true t) p = true ->
      ~ In (np_label p) (map lf_label (leaves t)) \/ BadE.
    Proof.
      apply (nonmem_sound cfg BadE);
      first [ exact e_parent_inj | exact e_lvalue_inj | exact e_leaf_not_parent | exact e_root_inj
            | (intros a la b lb _ _ _ _ E; exact (e_zero_not_parent _ _ _ _ E))
            | exact e_leaf_not_empty_root | exact e_empty_label_LW | exact e_empty_label_not_root
            | exact e_empty_label_not_canonical | exact zero_D32 | (intros; apply H_len) ].
    Qed.
  End Experimental.
End Facts.
