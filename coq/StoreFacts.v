(* C11 / C13 at the store level: the records of a commit, written in any subset, do not change what
   any node lookup "as of the previous epoch" returns; version selection never returns a node
   version newer than the requested epoch. *)
From Coq Require Import List Bool Arith NArith Lia.
From Akd Require Import Bits NodeLabel NodeLabelFacts Hashing Tree Store.
Import ListNotations.
Open Scope N_scope.

Lemma opt_label_eqb_eq a b : opt_label_eqb a b = true -> a = b.
Proof. destruct a, b; simpl; intros H; try discriminate; auto. apply nl_eqb_eq in H. congruence. Qed.

Lemma snode_eqb_eq a b : snode_eqb a b = true -> a = b.
Proof.
  unfold snode_eqb. rewrite !andb_true_iff. intros [[[[[H1 H2] H3] H4] H5] H6].
  apply N.eqb_eq in H1, H2. apply eqb_prop in H3. apply opt_label_eqb_eq in H4, H5. apply bytes_eqb_eq in H6.
  destruct a, b; simpl in *; congruence.
Qed.

Lemma opt_snode_eqb_eq a b : opt_snode_eqb a b = true -> a = b.
Proof. destruct a, b; simpl; intros H; try discriminate; auto. apply snode_eqb_eq in H. congruence. Qed.

Lemma find_rec_some rs l r : find_rec rs l = Some r -> In r rs /\ sr_label r = l.
Proof.
  induction rs as [|x rs IH]; simpl; [discriminate|]. destruct (nl_eqb (sr_label x) l) eqn:E.
  - intros [= <-]. apply nl_eqb_eq in E. auto.
  - intros H. destruct (IH H). auto.
Qed.

(* C13 / fix F5: version selection never hands out a node version newer than the requested epoch;
   when both retained versions are newer it reports an error instead *)
Theorem determine_sound r E n : determine r E = SOk n ->
  sn_le n <= E /\ (n = sr_latest r \/ (sr_prev r = Some n /\ E < sn_le (sr_latest r))).
Proof.
  unfold determine. destruct (N.ltb_spec E (sn_le (sr_latest r))) as [H|H].
  - destruct (sr_prev r) as [p|]; [|discriminate]. destruct (N.ltb_spec E (sn_le p)); [discriminate|].
    intros [= <-]. split; [lia|]. right. auto.
  - intros [= <-]. split; [lia|]. now left.
Qed.

Theorem determine_lagging r E p : sr_prev r = Some p -> E < sn_le p -> E < sn_le (sr_latest r) -> determine r E = SOther.
Proof.
  intros Hp H1 H2. unfold determine. destruct (N.ltb_spec E (sn_le (sr_latest r))); [|lia]. rewrite Hp.
  destruct (N.ltb_spec E (sn_le p)); [reflexivity|lia].
Qed.

(* C11: records of the commit of epoch E+1 written on top of the store - any subset of them - leave
   every node lookup as of epoch E unchanged *)
Theorem node_at_overlay base E written :
  (forall r, In r written -> commit_shape base E r = true) ->
  forall l, node_at (overlay written base) l E = node_at base l E.
Proof.
  intros Hshape l. unfold node_at, overlay. destruct (find_rec written l) as [r|] eqn:F; [|reflexivity].
  destruct (find_rec_some _ _ _ F) as [Hin Hl]. specialize (Hshape r Hin). unfold commit_shape in Hshape. rewrite Hl in Hshape.
  destruct (base l) as [old|].
  - unfold determine. destruct (N.ltb_spec E (sn_le (sr_latest r))) as [H|H].
    + apply andb_true_iff in Hshape. destruct Hshape as [H1 H2]. apply opt_snode_eqb_eq in H1. apply N.leb_le in H2.
      rewrite H1. destruct (N.ltb_spec E (sn_le (sr_latest old))); [lia|]. reflexivity.
    + apply andb_true_iff in Hshape. destruct Hshape as [H1 H2]. apply snode_eqb_eq in H1. apply opt_snode_eqb_eq in H2.
      rewrite <- H1. destruct (N.ltb_spec E (sn_le (sr_latest r))); [lia|]. reflexivity.
  - apply andb_true_iff in Hshape. destruct Hshape as [H1 H2]. unfold determine. rewrite H1.
    destruct (sr_prev r); [discriminate|reflexivity].
Qed.

Lemma view_ext fuel g1 g2 E : (forall l, node_at g1 l E = node_at g2 l E) -> forall l, view fuel g1 E l = view fuel g2 E l.
Proof.
  intros H. induction fuel as [|f IH]; intros l; simpl; [reflexivity|]. rewrite H.
  destruct (node_at g2 l E) as [n| |]; try reflexivity. destruct (sn_leaf n); [reflexivity|].
  destruct (sn_left n) as [a|], (sn_right n) as [b|]; rewrite ?IH; reflexivity.
Qed.

(* ... hence the whole tree a reader reconstructs as of epoch E, and the root hash it reports, are
   those of the store before the commit started *)
Theorem view_overlay fuel base E written l :
  (forall r, In r written -> commit_shape base E r = true) ->
  view fuel (overlay written base) E l = view fuel base E l.
Proof. intros H. apply view_ext. now apply node_at_overlay. Qed.

Theorem root_hash_overlay cfg base E written :
  (forall r, In r written -> commit_shape base E r = true) ->
  root_hash_at cfg (overlay written base) E = root_hash_at cfg base E.
Proof. intros H. unfold root_hash_at. now rewrite node_at_overlay. Qed.

(* subsets: whatever part of the batch has reached storage *)
Corollary view_partial_commit fuel base E batch written l :
  (forall r, In r batch -> commit_shape base E r = true) -> (forall r, In r written -> In r batch) ->
  view fuel (overlay written base) E l = view fuel base E l.
Proof. intros H Hs. apply view_overlay. intros r Hr. apply H. now apply Hs. Qed.
