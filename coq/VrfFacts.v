(* C18: facts about the VRF layer. *)
From Coq Require Import List Bool Arith NArith ZArith Lia.
From Akd Require GenConsts.
From Akd Require Import Bits NodeLabel NodeLabelFacts Hashing Tree TreeFacts HashingFacts Directory Verify Vrf.
Import ListNotations.

(* ------------------------------------------------------------------ (a) ECVRF algebra *)
Section ECVRFFacts.
  Variable G : Type.
  Variable gadd : G -> G -> G.
  Variable gneg : G -> G.
  Variable gzero : G.
  Variable smul : Z -> G -> G.
  Variable q : Z.
  Variable B : G.
  Variable encode_to_curve : bytes -> bytes -> G.
  Variable challenge : bytes -> G -> G -> G -> G -> Z.
  Variable nonce : Z -> G -> Z.
  Variable output : G -> bytes.
  Variable pk_bytes : G -> bytes.
  Variable point_bytes : G -> bytes.
  Variable point_of_bytes : bytes -> option G.

  Hypothesis gadd_assoc : forall a b c, gadd (gadd a b) c = gadd a (gadd b c).
  Hypothesis gadd_zero_r : forall a, gadd a gzero = a.
  Hypothesis gadd_neg_r : forall a, gadd a (gneg a) = gzero.
  Hypothesis smul_add : forall a b P, smul (a + b) P = gadd (smul a P) (smul b P).
  Hypothesis smul_mul : forall a b P, smul (a * b) P = smul a (smul b P).
  Hypothesis smul_mod : forall a P, smul (a mod q) P = smul a P.

  Notation prove := (prove G smul q B encode_to_curve challenge nonce pk_bytes).
  Notation verify := (verify G gadd gneg smul B encode_to_curve challenge output pk_bytes).
  Notation evaluate := (evaluate G smul B encode_to_curve output pk_bytes).
  Notation public_key := (public_key G smul B).

  Lemma cancel a b : gadd (gadd a b) (gneg b) = a.
  Proof using gadd_assoc gadd_zero_r gadd_neg_r. rewrite gadd_assoc, gadd_neg_r, gadd_zero_r. reflexivity. Qed.

  Lemma schnorr_point k c x P : gadd (smul ((k + c * x) mod q) P) (gneg (smul c (smul x P))) = smul k P.
  Proof using gadd_assoc gadd_zero_r gadd_neg_r smul_add smul_mul smul_mod.
    rewrite smul_mod, smul_add, smul_mul. apply cancel.
  Qed.

  (* the server's proof verifies under its public key and yields exactly the output the server
     derives the node label from (evaluate), for every key, input and nonce choice *)
  Theorem ecvrf_complete x alpha : verify (public_key x) (prove x alpha) alpha = Some (evaluate x alpha).
  Proof using gadd_assoc gadd_zero_r gadd_neg_r smul_add smul_mul smul_mod.
    unfold Vrf.verify, Vrf.prove, Vrf.evaluate. cbn [vp_gamma vp_c vp_s].
    unfold Vrf.public_key. rewrite !schnorr_point. rewrite Z.eqb_refl. reflexivity.
  Qed.

  (* determinism: prove and evaluate are functions of (key, input) *)
  Theorem ecvrf_deterministic x alpha : vp_gamma G (prove x alpha) = smul x (encode_to_curve (pk_bytes (public_key x)) alpha).
  Proof. reflexivity. Qed.

  (* a proof that verifies for two (key, input) pairs mapping to different curve inputs exhibits a
     collision of the challenge hash (SHA-512 truncated to 128 bits in the code) *)
  Definition ChallengeCollision : Prop :=
    exists a h g u v a' h' g' u' v', (a, h, g, u, v) <> (a', h', g', u', v') /\
      challenge a h g u v = challenge a' h' g' u' v'.

  Theorem verify_binds_key_and_input Y Y' p alpha alpha' o o' :
    verify Y p alpha = Some o -> verify Y' p alpha' = Some o' ->
    (pk_bytes Y, encode_to_curve (pk_bytes Y) alpha) <> (pk_bytes Y', encode_to_curve (pk_bytes Y') alpha') ->
    ChallengeCollision.
  Proof.
    unfold Vrf.verify. intros V1 V2 Hne.
    destruct (Z.eqb_spec (vp_c G p) (challenge (pk_bytes Y) (encode_to_curve (pk_bytes Y) alpha) (vp_gamma G p)
      (gadd (smul (vp_s G p) B) (gneg (smul (vp_c G p) Y)))
      (gadd (smul (vp_s G p) (encode_to_curve (pk_bytes Y) alpha)) (gneg (smul (vp_c G p) (vp_gamma G p)))))) as [E1|]; [|discriminate].
    destruct (Z.eqb_spec (vp_c G p) (challenge (pk_bytes Y') (encode_to_curve (pk_bytes Y') alpha') (vp_gamma G p)
      (gadd (smul (vp_s G p) B) (gneg (smul (vp_c G p) Y')))
      (gadd (smul (vp_s G p) (encode_to_curve (pk_bytes Y') alpha')) (gneg (smul (vp_c G p) (vp_gamma G p)))))) as [E2|]; [|discriminate].
    do 10 eexists. split; [|rewrite <- E1; exact E2].
    intros Heq. apply Hne. injection Heq as -> ->. reflexivity.
  Qed.

  (* the output is a function of the proof's gamma alone: altering c or s never changes the label *)
  Theorem verify_output_from_gamma Y p alpha o : verify Y p alpha = Some o -> o = output (vp_gamma G p).
  Proof. unfold Vrf.verify. destruct (_ =? _)%Z; [intros [= <-]; reflexivity | discriminate]. Qed.

  (* ---- proof bytes *)
  Lemma le_bytes_length : forall k z, length (le_bytes k z) = k.
  Proof. induction k as [|k IH]; intros z; cbn [le_bytes length]; [reflexivity | rewrite IH; reflexivity]. Qed.

  Lemma of_le_le_bytes : forall k z, (of_le (le_bytes k z) = z mod 256 ^ Z.of_nat k)%Z.
  Proof.
    induction k as [|k IH]; intros z.
    - cbn [le_bytes of_le]. change (256 ^ Z.of_nat 0)%Z with 1%Z. rewrite Z.mod_1_r. reflexivity.
    - cbn [le_bytes of_le]. rewrite IH. rewrite Z2N.id by (apply Z.mod_pos_bound; reflexivity).
      rewrite Nat2Z.inj_succ, Z.pow_succ_r by apply Nat2Z.is_nonneg.
      rewrite Z.rem_mul_r; [reflexivity | discriminate | apply Z.pow_pos_nonneg; [reflexivity | apply Nat2Z.is_nonneg]].
  Qed.

  Hypothesis point_roundtrip : forall g, point_of_bytes (point_bytes g) = Some g.
  Hypothesis point_length : forall g, length (point_bytes g) = 32%nat.
  Hypothesis q_large : (2 ^ 128 <= q)%Z.
  Hypothesis q_small : (q <= 2 ^ 256)%Z.

  Notation proof_bytes := (proof_bytes G point_bytes).
  Notation proof_of_bytes := (proof_of_bytes G q point_of_bytes).

  Lemma firstn_app_exact {A} n (a b : list A) : length a = n -> firstn n (a ++ b) = a.
  Proof. intros <-. rewrite firstn_app, Nat.sub_diag, firstn_O, app_nil_r, firstn_all. reflexivity. Qed.
  Lemma skipn_app_exact {A} n (a b : list A) : length a = n -> skipn n (a ++ b) = b.
  Proof. intros <-. rewrite skipn_app, Nat.sub_diag, skipn_all. reflexivity. Qed.

  Theorem proof_bytes_roundtrip g c s :
    (0 <= c < 2 ^ 128)%Z -> (0 <= s < q)%Z ->
    proof_of_bytes (proof_bytes (VP G g c s)) = Some (VP G g c s).
  Proof using point_roundtrip point_length q_large q_small.
    intros Hc Hs. unfold Vrf.proof_of_bytes, Vrf.proof_bytes. cbn [vp_gamma vp_c vp_s].
    rewrite !app_length, point_length, !le_bytes_length. cbn [Nat.add Nat.eqb negb].
    rewrite (firstn_app_exact 32) by apply point_length. rewrite point_roundtrip.
    rewrite (skipn_app_exact 32) by apply point_length.
    rewrite (firstn_app_exact 16) by apply le_bytes_length.
    rewrite app_assoc. rewrite (skipn_app_exact 48) by (rewrite app_length, point_length, le_bytes_length; reflexivity).
    rewrite !of_le_le_bytes.
    change (256 ^ Z.of_nat 16)%Z with (2 ^ 128)%Z. change (256 ^ Z.of_nat 32)%Z with (2 ^ 256)%Z.
    assert (E1 : (c mod 2 ^ 128 = c)%Z) by (apply Z.mod_small; clear - Hc; lia).
    assert (E2 : (s mod 2 ^ 256 = s)%Z) by (apply Z.mod_small; clear - Hs q_small; lia).
    assert (E3 : (c mod q = c)%Z) by (apply Z.mod_small; clear - Hc q_large; lia).
    assert (E4 : (s mod q = s)%Z) by (apply Z.mod_small; clear - Hs; lia).
    rewrite E1, E2, E3, E4. reflexivity.
  Qed.
End ECVRFFacts.

(* ------------------------------------------------------------------ (b) what the directory feeds the VRF *)
Open Scope N_scope.
From Akd Require Import Binding HashingBinding.

(* the byte string hashed into the VRF input determines label, freshness and version *)
Lemma label_input_bytes_inj l (f : bool) v l' (f' : bool) v' :
  Len64 l -> Len64 l' -> v < 2 ^ 64 -> v' < 2 ^ 64 ->
  i2osp_array l ++ [if f then 1 else 0] ++ be64 v = i2osp_array l' ++ [if f' then 1 else 0] ++ be64 v' ->
  l = l' /\ f = f' /\ v = v'.
Proof.
  unfold Len64, i2osp_array. intros Ll Ll' Hv Hv' E. rewrite <- !app_assoc in E.
  apply app_eq_len in E; [|now rewrite !length_be_bytes]. destruct E as [E1 E].
  apply be_bytes_inj in E1; [|exact Ll|exact Ll'].
  apply app_eq_len in E; [|lia]. destruct E as [-> E].
  apply app_eq_len in E; [|reflexivity]. destruct E as [Ef Ev].
  unfold be64 in Ev. apply be_bytes_inj in Ev; [|exact Hv|exact Hv'].
  repeat split; try assumption. destruct f, f'; try reflexivity; discriminate.
Qed.

Section InputBinding.
  Variable H : bytes -> bytes.
  Hypothesis H_len : forall x, length (H x) = 32%nat.
  Variable domain : bytes.

  Theorem w_label_input_binding l f v l' f' v' :
    Len64 l -> Len64 l' -> v < 2 ^ 64 -> v' < 2 ^ 64 ->
    label_input_hash (whatsapp H) l f v = label_input_hash (whatsapp H) l' f' v' ->
    (l = l' /\ f = f' /\ v = v') \/ Collision H.
  Proof.
    intros Ll Ll' Hv Hv' E. unfold label_input_hash in E. cbn [c_hash whatsapp] in E.
    apply H_inj in E. destruct E as [E|]; [|now right]. left. now apply label_input_bytes_inj.
  Qed.

  Theorem e_label_input_binding l f v l' f' v' :
    Len64 l -> Len64 l' -> v < 2 ^ 64 -> v' < 2 ^ 64 ->
    label_input_hash (experimental H domain) l f v = label_input_hash (experimental H domain) l' f' v' ->
    (l = l' /\ f = f' /\ v = v') \/ Collision H.
  Proof.
    intros Ll Ll' Hv Hv' E. unfold label_input_hash in E. cbn [c_hash experimental] in E.
    apply H_inj in E. destruct E as [E|]; [|now right]. left. apply app_inv_head in E. now apply label_input_bytes_inj.
  Qed.

  (* ---- commitment keys and commitments under different secret keys (derive_commitment_key =
     TC::hash(secret key bytes); nonce and commitment as in Hashing.fresh_value) *)
  Theorem w_commitment_key_binding sk sk' :
    c_hash (whatsapp H) sk = c_hash (whatsapp H) sk' -> sk = sk' \/ Collision H.
  Proof. cbn [c_hash whatsapp]. apply H_inj. Qed.
  Theorem e_commitment_key_binding sk sk' :
    c_hash (experimental H domain) sk = c_hash (experimental H domain) sk' -> sk = sk' \/ Collision H.
  Proof.
    cbn [c_hash experimental]. intros E. apply H_inj in E. destruct E as [E|]; [|now right]. left. now apply app_inv_head in E.
  Qed.

  Lemma Len64_32 b : length b = 32%nat -> Len64 b.
  Proof. unfold Len64. intros ->. reflexivity. Qed.

  Theorem w_commitment_key_separation ck ck' l v val :
    D32 ck -> D32 ck' -> Len64 val ->
    fresh_value (whatsapp H) ck l v val = fresh_value (whatsapp H) ck' l v val -> ck = ck' \/ Collision H.
  Proof.
    intros D D' Lv E. unfold fresh_value in E.
    apply (w_commit_inj H) in E; try assumption; try (apply Len64_32; cbn [c_commitment_nonce whatsapp]; apply H_len).
    destruct E as [[_ E]|]; [|now right]. cbn [c_commitment_nonce whatsapp] in E.
    apply H_inj in E. destruct E as [E|]; [|now right]. left.
    apply app_eq_len in E; [tauto | unfold D32 in *; congruence].
  Qed.

  Theorem e_commitment_key_separation ck ck' l v val :
    D32 ck -> D32 ck' -> Len64 val ->
    fresh_value (experimental H domain) ck l v val = fresh_value (experimental H domain) ck' l v val -> ck = ck' \/ Collision H.
  Proof.
    intros D D' Lv E. unfold fresh_value, commit in E. cbn [c_hash c_commitment_nonce experimental] in E.
    apply H_inj in E. destruct E as [E|]; [|now right]. apply app_inv_head in E.
    apply i2osp_pair_inj in E; try assumption; try (apply Len64_32; apply H_len).
    destruct E as [_ E]. apply H_inj in E. destruct E as [E|]; [|now right]. left. apply app_inv_head in E.
    apply app_eq_len in E; [tauto | unfold D32 in *; congruence].
  Qed.
End InputBinding.

(* ------------------------------------------------------------------ verify_label *)
Section VerifyLabel.
  Variable cfg : config.
  Variable vrf_check : bytes -> bytes -> bytes -> option bytes.
  Variable pk : bytes.

  Theorem verify_label_sound l f v proof nl :
    verify_label cfg vrf_check pk l f v proof nl = true ->
    exists out, vrf_check pk proof (label_input_hash cfg l f v) = Some out /\ nl = NL out 256.
  Proof.
    unfold verify_label. destruct (vrf_check pk proof _) as [out|]; [|discriminate].
    intros E. apply nl_eqb_eq in E. eauto.
  Qed.

  (* a claimed node label other than the proof's output is rejected *)
  Theorem verify_label_rejects_other_label l f v proof nl nl' :
    verify_label cfg vrf_check pk l f v proof nl = true -> nl' <> nl ->
    verify_label cfg vrf_check pk l f v proof nl' = false.
  Proof.
    unfold verify_label. destruct (vrf_check pk proof _) as [out|]; [|discriminate].
    intros E Hne. apply nl_eqb_eq in E. subst nl.
    destruct (nl_eqb (NL out 256) nl') eqn:E'; [|reflexivity]. apply nl_eqb_eq in E'. congruence.
  Qed.

  (* VRF uniqueness (a property of ECVRF assumed of the primitive): whatever proof bytes are
     presented, a given (key, input) verifies to one output only *)
  Hypothesis vrf_unique : forall alpha p p' o o',
    vrf_check pk p alpha = Some o -> vrf_check pk p' alpha = Some o' -> o = o'.

  Theorem verify_label_unique l f v proof proof' nl nl' :
    verify_label cfg vrf_check pk l f v proof nl = true ->
    verify_label cfg vrf_check pk l f v proof' nl' = true -> nl = nl'.
  Proof using vrf_unique.
    intros V V'. apply verify_label_sound in V, V'.
    destruct V as (o & E & ->). destruct V' as (o' & E' & ->).
    rewrite (vrf_unique _ _ _ _ _ E E'). reflexivity.
  Qed.
End VerifyLabel.

(* ------------------------------------------------------------------ non-vacuity: Z/2 satisfies the group premises *)
Definition z2_smul (k : Z) (p : bool) : bool := if Z.odd k then p else false.
Lemma z2_group_laws :
  (forall a b c, xorb (xorb a b) c = xorb a (xorb b c)) /\ (forall a, xorb a false = a) /\
  (forall a, xorb a (id a) = false) /\
  (forall a b P, z2_smul (a + b) P = xorb (z2_smul a P) (z2_smul b P)) /\
  (forall a b P, z2_smul (a * b) P = z2_smul a (z2_smul b P)) /\ (forall a P, z2_smul (a mod 2) P = z2_smul a P).
Proof.
  repeat split.
  - intros a b c. apply xorb_assoc.
  - intros a. apply xorb_false_r.
  - intros a. apply xorb_nilpotent.
  - intros a b P. unfold z2_smul. rewrite Z.odd_add. destruct (Z.odd a), (Z.odd b), P; reflexivity.
  - intros a b P. unfold z2_smul. rewrite Z.odd_mul. destruct (Z.odd a), (Z.odd b), P; reflexivity.
  - intros a P. unfold z2_smul. replace (Z.odd (a mod 2)) with (Z.odd a); [reflexivity|].
    rewrite Zmod_odd. destruct (Z.odd a); reflexivity.
Qed.
