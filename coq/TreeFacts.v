(* Soundness of membership / non-membership verification against the root hash of a well-formed
   tree (C05), for an arbitrary configuration whose hash formulas are binding up to an explicit
   bad event [Bad] (a hash collision or a zero-digest preimage; HashingFacts.v discharges the
   hypotheses for both real configurations). *)
From Coq Require Import List Bool Arith NArith Lia.
From Akd Require Import Bits NodeLabel NodeLabelFacts Hashing Tree.
Import ListNotations.
Open Scope N_scope.

Definition D32 (b : bytes) : Prop := length b = 32%nat.
(* what the Rust type NodeLabel guarantees: 32 value bytes (each < 256) and a u32 length *)
Definition LW (l : nlabel) : Prop :=
  length (lval l) = 32%nat /\ (forall i, byte_at (lval l) i < 256) /\ llen l < 2 ^ 32.

Lemma tree_ind' (P : tree -> Prop) :
  (forall l v e, P (Leaf l v e)) ->
  (forall l le mde a b, (forall c, a = Some c -> P c) -> (forall c, b = Some c -> P c) -> P (Node l le mde a b)) ->
  forall t, P t.
Proof.
  intros HL HN. fix IH 1. intros [l v e|l le mde a b]; [apply HL|].
  apply HN; intros c Hc.
  - destruct a as [a'|]; [|discriminate]. injection Hc as <-. apply IH.
  - destruct b as [b'|]; [|discriminate]. injection Hc as <-. apply IH.
Qed.

Section Sound.
  Variable cfg : config.
  Variable Bad : Prop.

  Hypothesis parent_inj : forall a la b lb a' la' b' lb',
    D32 a -> D32 a' -> D32 b -> D32 b' -> LW la -> LW la' -> LW lb -> LW lb' ->
    c_parent_hash cfg a (lvalue cfg la) b (lvalue cfg lb) =
    c_parent_hash cfg a' (lvalue cfg la') b' (lvalue cfg lb') ->
    (a = a' /\ lvalue cfg la = lvalue cfg la' /\ b = b' /\ lvalue cfg lb = lvalue cfg lb') \/ Bad.
  Hypothesis lvalue_inj : forall l l', LW l -> LW l' -> lvalue cfg l = lvalue cfg l' -> l = l' \/ Bad.
  Hypothesis leaf_not_parent : forall c e a la b lb,
    D32 c -> D32 a -> D32 b -> LW la -> LW lb ->
    c_leaf_hash cfg c e = c_parent_hash cfg a (lvalue cfg la) b (lvalue cfg lb) -> Bad.
  Hypothesis root_inj : forall v v', D32 v -> D32 v' ->
    c_root_hash_from_val cfg v = c_root_hash_from_val cfg v' -> v = v' \/ Bad.
  Hypothesis empty_root_not_parent : forall a la b lb, D32 a -> D32 b -> LW la -> LW lb ->
    c_empty_root_value cfg = c_parent_hash cfg a (lvalue cfg la) b (lvalue cfg lb) -> Bad.
  Hypothesis empty_node_not_parent : forall a la b lb, D32 a -> D32 b -> LW la -> LW lb ->
    c_empty_node_hash cfg = c_parent_hash cfg a (lvalue cfg la) b (lvalue cfg lb) -> Bad.
  Hypothesis leaf_not_empty_root : forall c e, D32 c -> c_leaf_hash cfg c e = c_empty_root_value cfg -> Bad.
  Hypothesis parent_D32 : forall a la b lb, D32 (c_parent_hash cfg a la b lb).
  Hypothesis leaf_D32 : forall c e, D32 (c_leaf_hash cfg c e).
  Hypothesis empty_root_D32 : D32 (c_empty_root_value cfg).
  Hypothesis empty_node_D32 : D32 (c_empty_node_hash cfg).
  Hypothesis empty_label_LW : LW (c_empty_label cfg).
  Hypothesis empty_label_not_root : c_empty_label cfg <> nl_root.

  (* ---------------------------------------------------------------- trees *)

  (* every stored leaf value is a digest, every label a Rust NodeLabel *)
  Fixpoint tree_ok (t : tree) : Prop :=
    LW (tlabel t) /\
    match t with
    | Leaf _ v _ => D32 v
    | Node _ _ _ a b =>
      (match a with Some c => tree_ok c | None => True end) /\
      (match b with Some c => tree_ok c | None => True end)
    end.

  Inductive Sub : tree -> tree -> Prop :=
  | Sub_refl t : Sub t t
  | Sub_l A l le mde a b : Sub A a -> Sub A (Node l le mde (Some a) b)
  | Sub_r A l le mde a b : Sub A b -> Sub A (Node l le mde a (Some b)).

  Lemma Sub_trans A B C : Sub A B -> Sub B C -> Sub A C.
  Proof. intros H1 H2. induction H2; auto using Sub. Qed.

  Lemma Sub_ok A t : Sub A t -> tree_ok t -> tree_ok A.
  Proof. induction 1; intros Hok; auto; apply IHSub; simpl in Hok; tauto. Qed.

  Lemma node_value_D32 t : tree_ok t -> D32 (node_value cfg true t).
  Proof.
    destruct t as [l v e|l le mde a b]; simpl; intros H; [apply leaf_D32|].
    destruct a, b; auto.
  Qed.

  (* the (label, value) a parent hashes for a child slot *)
  Definition slot_label (o : option tree) : nlabel := match o with Some c => tlabel c | None => c_empty_label cfg end.
  Definition slot_value (o : option tree) : bytes := match o with Some c => node_value cfg true c | None => c_empty_node_hash cfg end.

  Lemma hashval_node l le mde a b :
    (a <> None \/ b <> None) ->
    hashval cfg true (Node l le mde a b) =
    c_parent_hash cfg (slot_value a) (lvalue cfg (slot_label a)) (slot_value b) (lvalue cfg (slot_label b)).
  Proof.
    intros H. unfold slot_value, slot_label, node_value. destruct a as [[?|?]|], b as [[?|?]|]; simpl; try reflexivity.
    destruct H; congruence.
  Qed.

  Lemma slot_value_D32 o : (match o with Some c => tree_ok c | None => True end) -> D32 (slot_value o).
  Proof. destruct o; simpl; intros; [now apply node_value_D32|apply empty_node_D32]. Qed.

  Lemma slot_label_LW o : (match o with Some c => tree_ok c | None => True end) -> LW (slot_label o).
  Proof. destruct o as [c|]; simpl; intros H; [destruct c; simpl in *; tauto|apply empty_label_LW]. Qed.

  (* ---------------------------------------------------------------- membership chains *)

  Definition sib_ok (sp : sibling_proof) : Prop := D32 (sp_sib_val sp) /\ LW (sp_sib_label sp) /\ LW (sp_label sp).

  (* where a verified chain can start *)
  Inductive Origin (cl : nlabel) (cv : bytes) (t : tree) : Prop :=
  | O_node A : Sub A t -> lvalue cfg cl = lvalue cfg (tlabel A) -> cv = node_value cfg true A -> Origin cl cv t
  | O_empty l le mde a b : Sub (Node l le mde a b) t -> (a = None \/ b = None) -> (a <> None \/ b <> None) ->
      lvalue cfg cl = lvalue cfg (c_empty_label cfg) -> cv = c_empty_node_hash cfg -> Origin cl cv t.

  Lemma Origin_up cl cv A t : Sub A t -> Origin cl cv A -> Origin cl cv t.
  Proof.
    intros HS [B HB H1 H2|l le mde a b HB H1 H2 H3 H4].
    - apply O_node with (A := B); auto. eapply Sub_trans; eauto.
    - apply O_empty with (l := l) (le := le) (mde := mde) (a := a) (b := b); auto. eapply Sub_trans; eauto.
  Qed.

  Lemma fold_label sibs cl cv s :
    fst (fold_right (mstep cfg) (cl, cv) (s :: sibs)) = sp_label s.
  Proof. simpl. destruct (fold_right (mstep cfg) (cl, cv) sibs). reflexivity. Qed.

  Lemma fold_D32 sibs cl cv : D32 cv -> D32 (snd (fold_right (mstep cfg) (cl, cv) sibs)).
  Proof.
    intros H. induction sibs as [|s sibs IH]; simpl; auto.
    destruct (fold_right (mstep cfg) (cl, cv) sibs) as [l v]. simpl. destruct (sp_dir s); apply parent_D32.
  Qed.

  Lemma classic_children (a b : option tree) : (a <> None \/ b <> None) \/ (a = None /\ b = None).
  Proof. destruct a, b; [left; left; discriminate|left; left; discriminate|left; right; discriminate|right; auto]. Qed.

  (* the core of membership soundness: a chain of sibling proofs that hashes up to the value of
     a node comes from a node (or an empty child slot) of the tree below it *)
  Lemma fold_LW sibs cl cv : LW cl -> Forall sib_ok sibs -> LW (fst (fold_right (mstep cfg) (cl, cv) sibs)).
  Proof.
    intros H Hs. destruct sibs as [|s sibs]; [exact H|]. rewrite fold_label.
    apply Forall_inv in Hs. destruct Hs as (_ & _ & Hs). exact Hs.
  Qed.

  Lemma chain_sound sibs : forall t cl cv,
    tree_ok t -> Forall sib_ok sibs -> D32 cv -> LW cl ->
    snd (fold_right (mstep cfg) (cl, cv) sibs) = node_value cfg true t ->
    (sibs = [] /\ cv = node_value cfg true t) \/
    (sibs <> [] /\ Origin cl cv t) \/
    Bad.
  Proof.
    induction sibs as [|s rest IH]; intros t cl cv Hok Hs Hcv Hcl Hv.
    - left. simpl in Hv. auto.
    - right. inversion Hs as [|? ? Hs1 Hs2]; subst. destruct Hs1 as (S1 & S2 & S3).
      simpl in Hv. destruct (fold_right (mstep cfg) (cl, cv) rest) as [l v] eqn:E. simpl in Hv.
      assert (Hv32 : D32 v) by (pose proof (fold_D32 rest cl cv Hcv) as H; rewrite E in H; exact H).
      assert (HlW : LW l) by (pose proof (fold_LW rest cl cv Hcl Hs2) as H; rewrite E in H; exact H).
      destruct t as [tl c e|tl le mde a b].
      + (* a leaf is not a parent *)
        right. simpl in Hv. simpl in Hok. destruct Hok as [_ Hc]. destruct (sp_dir s); symmetry in Hv; [exact (leaf_not_parent _ _ _ _ _ _ Hc S1 Hv32 S2 HlW Hv)|exact (leaf_not_parent _ _ _ _ _ _ Hc Hv32 S1 HlW S2 Hv)].
      + simpl in Hok. destruct Hok as (Hl & Ha & Hb).
        destruct (classic_children a b) as [Hne|[-> ->]].
        2:{ right. simpl in Hv. destruct (sp_dir s); [exact (empty_root_not_parent _ _ _ _ S1 Hv32 S2 HlW (eq_sym Hv))|exact (empty_root_not_parent _ _ _ _ Hv32 S1 HlW S2 (eq_sym Hv))]. }
        change (node_value cfg true (Node tl le mde a b)) with (hashval cfg true (Node tl le mde a b)) in Hv.
        rewrite hashval_node in Hv by exact Hne.
        pose proof (slot_value_D32 a Ha) as Da. pose proof (slot_value_D32 b Hb) as Db.
        pose proof (slot_label_LW a Ha) as La. pose proof (slot_label_LW b Hb) as Lb.
        destruct (sp_dir s) eqn:Edir.
        * (* path child is the right child *)
          apply parent_inj in Hv; auto. destruct Hv as [(_ & _ & Hvb & Hlb)|]; [|now right].
          destruct b as [b'|].
          -- specialize (IH b' cl cv Hb Hs2 Hcv Hcl). rewrite E in IH. simpl in IH. specialize (IH Hvb).
             destruct IH as [(Hr & Hc)|[(Hr & Ho)|]]; [| |now right].
             ++ subst rest. simpl in E. injection E as El Ev. subst l v. left. split; [discriminate|].
                apply O_node with (A := b'); [apply Sub_r; apply Sub_refl|exact Hlb|exact Hc].
             ++ left. split; [discriminate|].
                apply Origin_up with (A := b'); [apply Sub_r; apply Sub_refl|exact Ho].
          -- (* empty right slot *)
             simpl in Hvb, Hlb. destruct rest as [|s' rest'].
             ++ simpl in E. injection E as El Ev. subst l v. left. split; [discriminate|].
                eapply O_empty; [apply Sub_refl|right; reflexivity|exact Hne|exact Hlb|exact Hvb].
             ++ right. pose proof (Forall_inv Hs2) as Hs1'. destruct Hs1' as (T1 & T2 & T3).
                simpl in E. destruct (fold_right (mstep cfg) (cl, cv) rest') as [l' v'] eqn:E'.
                assert (Hv' : D32 v') by (pose proof (fold_D32 rest' cl cv Hcv) as H; rewrite E' in H; exact H).
                assert (Hl' : LW l') by (pose proof (fold_LW rest' cl cv Hcl (Forall_inv_tail Hs2)) as H; rewrite E' in H; exact H).
                injection E as El Ev. rewrite Hvb in Ev.
                destruct (sp_dir s'); [exact (empty_node_not_parent _ _ _ _ T1 Hv' T2 Hl' (eq_sym Ev))|exact (empty_node_not_parent _ _ _ _ Hv' T1 Hl' T2 (eq_sym Ev))].
        * apply parent_inj in Hv; auto. destruct Hv as [(Hva & Hla & _ & _)|]; [|now right].
          destruct a as [a'|].
          -- specialize (IH a' cl cv Ha Hs2 Hcv Hcl). rewrite E in IH. simpl in IH. specialize (IH Hva).
             destruct IH as [(Hr & Hc)|[(Hr & Ho)|]]; [| |now right].
             ++ subst rest. simpl in E. injection E as El Ev. subst l v. left. split; [discriminate|].
                apply O_node with (A := a'); [apply Sub_l; apply Sub_refl|exact Hla|exact Hc].
             ++ left. split; [discriminate|].
                apply Origin_up with (A := a'); [apply Sub_l; apply Sub_refl|exact Ho].
          -- simpl in Hva, Hla. destruct rest as [|s' rest'].
             ++ simpl in E. injection E as El Ev. subst l v. left. split; [discriminate|].
                eapply O_empty; [apply Sub_refl|left; reflexivity|exact Hne|exact Hla|exact Hva].
             ++ right. pose proof (Forall_inv Hs2) as Hs1'. destruct Hs1' as (T1 & T2 & T3).
                simpl in E. destruct (fold_right (mstep cfg) (cl, cv) rest') as [l' v'] eqn:E'.
                assert (Hv' : D32 v') by (pose proof (fold_D32 rest' cl cv Hcv) as H; rewrite E' in H; exact H).
                assert (Hl' : LW l') by (pose proof (fold_LW rest' cl cv Hcl (Forall_inv_tail Hs2)) as H; rewrite E' in H; exact H).
                injection E as El Ev. rewrite Hva in Ev.
                destruct (sp_dir s'); [exact (empty_node_not_parent _ _ _ _ T1 Hv' T2 Hl' (eq_sym Ev))|exact (empty_node_not_parent _ _ _ _ Hv' T1 Hl' T2 (eq_sym Ev))].
  Qed.

  (* ---------------------------------------------------------------- tries *)

  (* general well-formedness: children hang in the right direction below their parent *)
  Fixpoint wfg (t : tree) : bool :=
    wf_label (tlabel t) && canonical (tlabel t) &&
    match t with
    | Leaf _ _ _ => true
    | Node l _ _ a b =>
      (match a with
       | None => true
       | Some c => (match pord (bits_of l) (bits_of (tlabel c)) with Some false => true | _ => false end) && wfg c
       end) &&
      (match b with
       | None => true
       | Some c => (match pord (bits_of l) (bits_of (tlabel c)) with Some true => true | _ => false end) && wfg c
       end)
    end.

  Lemma wf_sub_wfg t : wf_sub t = true -> wfg t = true.
  Proof.
    induction t as [l v e|l le mde a b IHa IHb] using tree_ind'; simpl; intros H; [exact H|].
    apply andb_true_iff in H. destruct H as [H1 H2]. rewrite H1. simpl.
    destruct a as [a'|]; [|discriminate]. destruct b as [b'|]; [|discriminate].
    repeat (apply andb_true_iff in H2; destruct H2 as [H2 ?]).
    destruct (pord (bits_of l) (bits_of (tlabel a'))) as [[|]|]; try discriminate.
    destruct (pord (bits_of l) (bits_of (tlabel b'))) as [[|]|]; try discriminate.
    simpl. rewrite (IHa a' eq_refl) by assumption. rewrite (IHb b' eq_refl) by assumption. reflexivity.
  Qed.

  Lemma nl_root_wf : wf_label nl_root = true /\ canonical nl_root = true.
  Proof. split; vm_compute; reflexivity. Qed.

  Lemma wf_root_wfg t : wf_root t = true -> wfg t = true.
  Proof.
    destruct t as [l v e|l le mde a b]; simpl; [discriminate|]. intros H.
    apply andb_true_iff in H. destruct H as [H Hb]. apply andb_true_iff in H. destruct H as [Hl Ha].
    apply nl_eqb_eq in Hl. subst l. destruct nl_root_wf as [-> ->]. simpl.
    apply andb_true_iff. split.
    - destruct a as [a'|]; [|reflexivity]. simpl in Ha. apply andb_true_iff in Ha. destruct Ha as [Ha1 Ha2].
      destruct (pord (bits_of nl_root) (bits_of (tlabel a'))) as [[|]|]; try discriminate. simpl. now apply wf_sub_wfg.
    - destruct b as [b'|]; [|reflexivity]. simpl in Hb. apply andb_true_iff in Hb. destruct Hb as [Hb1 Hb2].
      destruct (pord (bits_of nl_root) (bits_of (tlabel b'))) as [[|]|]; try discriminate. simpl. now apply wf_sub_wfg.
  Qed.

  Lemma wfg_label t : wfg t = true -> WF (tlabel t) /\ canonical (tlabel t) = true.
  Proof.
    intros H. destruct t; simpl in H.
    - apply andb_true_iff in H. destruct H as [H _]. apply andb_true_iff in H. destruct H. auto.
    - apply andb_true_iff in H. destruct H as [H _]. apply andb_true_iff in H. destruct H. auto.
  Qed.

  (* children of a well-formed node *)
  Lemma wfg_child l le mde a b (dir : bool) c :
    wfg (Node l le mde a b) = true -> (if dir then b else a) = Some c ->
    pord (bits_of l) (bits_of (tlabel c)) = Some dir /\ wfg c = true.
  Proof.
    simpl. intros H Hc. apply andb_true_iff in H. destruct H as [_ H]. apply andb_true_iff in H. destruct H as [Ha Hb].
    destruct dir; subst.
    - apply andb_true_iff in Hb. destruct Hb as [Hb1 Hb2].
      destruct (pord (bits_of l) (bits_of (tlabel c))) as [[|]|]; try discriminate. auto.
    - apply andb_true_iff in Ha. destruct Ha as [Ha1 Ha2].
      destruct (pord (bits_of l) (bits_of (tlabel c))) as [[|]|]; try discriminate. auto.
  Qed.

  Lemma pord_prefix p q d : pord p q = Some d -> prefixb (p ++ [d]) q = true.
  Proof. intros H. apply prefixb_Prefix. now apply pord_Some. Qed.

  Lemma prefixb_app_l p d q : prefixb (p ++ [d]) q = true -> prefixb p q = true.
  Proof. intros H. eapply prefixb_trans; [apply prefixb_app|exact H]. Qed.

  (* every leaf below a well-formed node extends the node's label *)
  Lemma leaves_prefix t : wfg t = true ->
    forall y, In y (leaves t) -> prefixb (bits_of (tlabel t)) (bits_of (lf_label y)) = true.
  Proof.
    induction t as [l v e|l le mde a b IHa IHb] using tree_ind'; intros Hw y Hy.
    - simpl in Hy. destruct Hy as [<-|[]]. simpl. apply prefixb_refl.
    - simpl in Hy. apply in_app_or in Hy. destruct Hy as [Hy|Hy].
      + destruct a as [a'|]; [|destruct Hy].
        destruct (wfg_child l le mde (Some a') b false a' Hw eq_refl) as [Hp Hwa].
        eapply prefixb_trans; [|apply (IHa a' eq_refl Hwa y Hy)].
        eapply prefixb_app_l. apply pord_prefix. exact Hp.
      + destruct b as [b'|]; [|destruct Hy].
        destruct (wfg_child l le mde a (Some b') true b' Hw eq_refl) as [Hp Hwb].
        eapply prefixb_trans; [|apply (IHb b' eq_refl Hwb y Hy)].
        eapply prefixb_app_l. apply pord_prefix. exact Hp.
  Qed.

  Lemma Sub_wfg A t : Sub A t -> wfg t = true -> wfg A = true.
  Proof.
    induction 1 as [t|A l le mde a b HS IH|A l le mde a b HS IH]; intros Hw; auto; apply IH.
    - apply (wfg_child l le mde (Some a) b false a Hw eq_refl).
    - apply (wfg_child l le mde a (Some b) true b Hw eq_refl).
  Qed.

  Lemma Sub_prefix A t : Sub A t -> wfg t = true -> prefixb (bits_of (tlabel t)) (bits_of (tlabel A)) = true.
  Proof.
    induction 1 as [t|A l le mde a b HS IH|A l le mde a b HS IH]; intros Hw; [apply prefixb_refl| |].
    - destruct (wfg_child l le mde (Some a) b false a Hw eq_refl) as [Hp Hwa].
      eapply prefixb_trans; [|apply IH; exact Hwa]. eapply prefixb_app_l. apply pord_prefix. exact Hp.
    - destruct (wfg_child l le mde a (Some b) true b Hw eq_refl) as [Hp Hwb].
      eapply prefixb_trans; [|apply IH; exact Hwb]. eapply prefixb_app_l. apply pord_prefix. exact Hp.
  Qed.

  (* the two children of a node cannot both be prefixes of one string *)
  Lemma siblings_disjoint p q1 q2 y :
    prefixb (p ++ [false]) q1 = true -> prefixb (p ++ [true]) q2 = true ->
    prefixb q1 y = true -> prefixb q2 y = true -> False.
  Proof.
    intros H1 H2 H3 H4.
    pose proof (prefixb_trans _ _ _ H1 H3) as A1. pose proof (prefixb_trans _ _ _ H2 H4) as A2.
    assert (E : p ++ [false] = p ++ [true]).
    { apply prefixb_antisym; eapply prefixb_total; eauto; rewrite !app_length; simpl; lia. }
    apply app_inv_head in E. discriminate.
  Qed.

  (* trie property: the leaves of the tree that extend the label of a subtree lie in that subtree *)
  Lemma Sub_leaves A t : Sub A t -> wfg t = true ->
    forall y, In y (leaves t) -> prefixb (bits_of (tlabel A)) (bits_of (lf_label y)) = true -> In y (leaves A).
  Proof.
    induction 1 as [t|A l le mde a b HS IH|A l le mde a b HS IH]; intros Hw y Hy Hp; auto.
    - destruct (wfg_child l le mde (Some a) b false a Hw eq_refl) as [Hpa Hwa].
      simpl in Hy. apply in_app_or in Hy. destruct Hy as [Hy|Hy]; [now apply IH|].
      exfalso. destruct b as [b'|]; [|destruct Hy].
      destruct (wfg_child l le mde (Some a) (Some b') true b' Hw eq_refl) as [Hpb Hwb].
      eapply (siblings_disjoint (bits_of l)); [apply pord_prefix; exact Hpa|apply pord_prefix; exact Hpb| |].
      + eapply prefixb_trans; [apply (Sub_prefix A a HS Hwa)|exact Hp].
      + apply (leaves_prefix b' Hwb y Hy).
    - destruct (wfg_child l le mde a (Some b) true b Hw eq_refl) as [Hpb Hwb].
      simpl in Hy. apply in_app_or in Hy. destruct Hy as [Hy|Hy]; [|now apply IH].
      exfalso. destruct a as [a'|]; [|destruct Hy].
      destruct (wfg_child l le mde (Some a') (Some b) false a' Hw eq_refl) as [Hpa Hwa].
      eapply (siblings_disjoint (bits_of l)); [apply pord_prefix; exact Hpa|apply pord_prefix; exact Hpb| |].
      + apply (leaves_prefix a' Hwa y Hy).
      + eapply prefixb_trans; [apply (Sub_prefix A b HS Hwb)|exact Hp].
  Qed.

  (* ---------------------------------------------------------------- the two soundness theorems *)

  Hypothesis empty_label_not_canonical : canonical (c_empty_label cfg) = false.

  Definition mp_ok (mp : membership_proof) : Prop :=
    LW (mp_label mp) /\ D32 (mp_hash_val mp) /\ Forall sib_ok (mp_sibs mp).

  Lemma hashval_D32 t : tree_ok t -> is_leaf t = false -> D32 (hashval cfg true t).
  Proof.
    destruct t as [|l le mde a b]; [discriminate|]. intros H _.
    change (hashval cfg true (Node l le mde a b)) with (node_value cfg true (Node l le mde a b)).
    now apply node_value_D32.
  Qed.

  Theorem mem_sound t mp :
    tree_ok t -> tlabel t = nl_root -> is_leaf t = false -> mp_ok mp ->
    verify_membership cfg (root_hash cfg true t) mp = true ->
    Origin (mp_label mp) (mp_hash_val mp) t \/ Bad.
  Proof.
    intros Hok Hroot Hleaf (M1 & M2 & M3) Hv. unfold verify_membership in Hv.
    apply andb_true_iff in Hv. destruct Hv as [Hsib Hv]. apply bytes_eqb_eq in Hv.
    unfold root_hash in Hv. apply root_inj in Hv; [|apply fold_D32; exact M2|now apply hashval_D32].
    destruct Hv as [Hv|]; [|now right]. unfold mfold in Hv.
    assert (Hnv : hashval cfg true t = node_value cfg true t) by (destruct t; [discriminate|reflexivity]).
    rewrite Hnv in Hv. apply chain_sound in Hv; auto.
    destruct Hv as [(Hs & Hc)|[(Hs & Ho)|]]; [|now left|now right].
    left. rewrite Hs in Hsib. apply nl_eqb_eq in Hsib.
    apply O_node with (A := t); [apply Sub_refl|rewrite Hsib, Hroot; reflexivity|exact Hc].
  Qed.

  Definition nmp_ok (p : nonmembership_proof) : Prop :=
    LW (np_label p) /\ LW (np_longest_prefix p) /\
    LW (fst (np_child0 p)) /\ D32 (snd (np_child0 p)) /\
    LW (fst (np_child1 p)) /\ D32 (snd (np_child1 p)) /\ mp_ok (np_mp p).

  Lemma tree_ok_label t : tree_ok t -> LW (tlabel t).
  Proof. destruct t; simpl; tauto. Qed.

  Lemma tree_ok_children l le mde a b : tree_ok (Node l le mde a b) ->
    (match a with Some c => tree_ok c | None => True end) /\ (match b with Some c => tree_ok c | None => True end).
  Proof. simpl. tauto. Qed.

  Theorem nonmem_sound t p :
    tree_ok t -> wf_root t = true -> nmp_ok p -> WF (np_label p) ->
    verify_nonmembership cfg (root_hash cfg true t) p = true ->
    ~ In (np_label p) (map lf_label (leaves t)) \/ Bad.
  Proof.
    intros Hok Hwf (P1 & P2 & P3 & P4 & P5 & P6 & P7) Hx Hv.
    unfold verify_nonmembership, verify_nonmembership_gen in Hv.
    destruct (np_child0 p) as [l0 v0] eqn:E0. destruct (np_child1 p) as [l1 v1] eqn:E1.
    cbn [fst snd] in *. set (x := np_label p) in *. set (lp := np_longest_prefix p) in *.
    destruct (nl_eqb x l0 || nl_eqb x l1) eqn:C1; [discriminate|].
    destruct (is_prefix_of lp x) eqn:C2; [|discriminate]. cbn [negb andb] in Hv.
    match type of Hv with (if ?c then false else _) = true => destruct c eqn:C3; [discriminate|] end.
    set (lcp0 := get_longest_common_prefix (c_empty_label cfg) l0 l1) in *.
    set (lcpc := if nl_eqb lcp0 (c_empty_label cfg) then nl_root else lcp0) in *.
    destruct (nl_eqb lp lcpc) eqn:C4; [|discriminate]. cbn [negb] in Hv.
    destruct (nl_eqb lcpc (mp_label (np_mp p))) eqn:C5; [|discriminate]. cbn [negb orb] in Hv.
    match type of Hv with (if negb (bytes_eqb ?h _) then false else _) = true => set (lcp_hash := h) in * end.
    destruct (bytes_eqb lcp_hash (mp_hash_val (np_mp p))) eqn:C6; [|discriminate]. cbn [negb] in Hv.
    apply nl_eqb_eq in C4, C5. apply bytes_eqb_eq in C6.
    assert (Hwg : wfg t = true) by now apply wf_root_wfg.
    assert (Hroot : tlabel t = nl_root /\ is_leaf t = false).
    { destruct t; simpl in Hwf; [discriminate|]. apply andb_true_iff in Hwf. destruct Hwf as [Hwf _].
      apply andb_true_iff in Hwf. destruct Hwf as [Hwf _]. apply nl_eqb_eq in Hwf. auto. }
    destruct Hroot as [Hroot Hleaf].
    apply mem_sound in Hv; auto. destruct Hv as [Ho|]; [|now right].
    destruct P7 as (M1 & M2 & M3).
    destruct Ho as [A HA HlA HvA|l le mde a b HS H1 H2 HlE HvE].
    2:{ (* an empty slot cannot be the anchor: its label is the empty label, the anchor's is not *)
      apply lvalue_inj in HlE; auto. destruct HlE as [HlE|]; [|now right]. exfalso.
      rewrite <- C5 in HlE. unfold lcpc in HlE. destruct (nl_eqb lcp0 (c_empty_label cfg)) eqn:C7.
      - apply empty_label_not_root. congruence.
      - rewrite HlE in C7. assert (nl_eqb (c_empty_label cfg) (c_empty_label cfg) = true) by now apply nl_eqb_eq. congruence. }
    pose proof (Sub_ok A t HA Hok) as HokA. pose proof (Sub_wfg A t HA Hwg) as HwA.
    apply lvalue_inj in HlA; auto using tree_ok_label. destruct HlA as [HlA|]; [|now right].
    assert (HlpA : lp = tlabel A) by congruence.
    rewrite <- C6 in HvA.
    destruct A as [la ca ea|la lea mdea a b].
    - (* a leaf cannot be the anchor *)
      right. simpl in HvA, HokA. destruct HokA as [_ Hca]. unfold lcp_hash in HvA.
      match type of HvA with (if ?c then _ else _) = _ => destruct c end.
      + symmetry in HvA. now apply leaf_not_empty_root in HvA.
      + symmetry in HvA. now apply leaf_not_parent in HvA.
    - destruct (tree_ok_children _ _ _ _ _ HokA) as [Hoa Hob].
      destruct (classic_children a b) as [Hne|[-> ->]].
      2:{ (* the empty root: there are no leaves at all below the anchor *)
        left. intros Hin. apply in_map_iff in Hin. destruct Hin as (y & Hy1 & Hy2).
        assert (Hpre : prefixb (bits_of (tlabel (Node la lea mdea None None))) (bits_of (lf_label y)) = true).
        { rewrite Hy1, <- HlpA. rewrite <- is_prefix_of_spec; auto. rewrite HlpA. apply (wfg_label _ HwA). }
        pose proof (Sub_leaves _ t HA Hwg y Hy2 Hpre) as Hy. simpl in Hy. exact Hy. }
      change (node_value cfg true (Node la lea mdea a b)) with (hashval cfg true (Node la lea mdea a b)) in HvA.
      rewrite hashval_node in HvA by exact Hne. unfold lcp_hash in HvA.
      match type of HvA with (if ?c then _ else _) = _ => destruct c end.
      + right. eapply empty_root_not_parent; [| | | |exact HvA]; auto using slot_value_D32, slot_label_LW.
      + apply parent_inj in HvA; auto using slot_value_D32, slot_label_LW.
        destruct HvA as [(_ & Hl0 & _ & Hl1)|]; [|now right].
        apply lvalue_inj in Hl0; auto using slot_label_LW. destruct Hl0 as [Hl0|]; [|now right].
        apply lvalue_inj in Hl1; auto using slot_label_LW. destruct Hl1 as [Hl1|]; [|now right].
        left. intros Hin. apply in_map_iff in Hin. destruct Hin as (y & Hy1 & Hy2).
        assert (HWlp : WF lp) by (rewrite HlpA; apply (wfg_label _ HwA)).
        assert (Hpre : prefixb (bits_of (tlabel (Node la lea mdea a b))) (bits_of (lf_label y)) = true).
        { rewrite Hy1, <- HlpA. rewrite <- is_prefix_of_spec; auto. }
        pose proof (Sub_leaves _ t HA Hwg y Hy2 Hpre) as Hy. simpl in Hy.
        apply orb_false_iff in C3. destruct C3 as [C3a C3b].
        apply in_app_or in Hy. destruct Hy as [Hy|Hy].
        * destruct a as [a'|]; [|destruct Hy]. simpl in Hl0.
          destruct (wfg_child la lea mdea (Some a') b false a' HwA eq_refl) as [_ Hwa].
          pose proof (leaves_prefix a' Hwa y Hy) as Hpa. rewrite Hy1 in Hpa.
          destruct (wfg_label _ Hwa) as [HWa HCa].
          rewrite <- is_prefix_of_spec in Hpa by assumption. rewrite <- Hl0 in Hpa. rewrite Hpa in C3a.
          rewrite andb_true_r in C3a. apply negb_false_iff in C3a. apply nl_eqb_eq in C3a.
          rewrite Hl0 in C3a. rewrite C3a in HCa. congruence.
        * destruct b as [b'|]; [|destruct Hy]. simpl in Hl1.
          destruct (wfg_child la lea mdea a (Some b') true b' HwA eq_refl) as [_ Hwb].
          pose proof (leaves_prefix b' Hwb y Hy) as Hpb. rewrite Hy1 in Hpb.
          destruct (wfg_label _ Hwb) as [HWb HCb].
          rewrite <- is_prefix_of_spec in Hpb by assumption. rewrite <- Hl1 in Hpb. rewrite Hpb in C3b.
          rewrite andb_true_r in C3b. apply negb_false_iff in C3b. apply nl_eqb_eq in C3b.
          rewrite Hl1 in C3b. rewrite C3b in HCb. congruence.
  Qed.
End Sound.
