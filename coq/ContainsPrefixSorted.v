(* C17, `AzksElementSet::contains_prefix`: on a sorted set of canonical labels of one length and a
   canonical prefix not longer than them the search form answers exactly what the `any` form
   answers.  The search is complete for every comparator that is monotone (Less, then Equal, then
   Greater) along the slice - the precondition the toolchain documents for `binary_search_by`;
   the comparator of the code is `lex_cmp (first |p| bits of the element) p`, monotone on a set
   sorted by its bit strings. *)
From Coq Require Import List Bool Arith NArith Lia.
From Akd Require Import Bits NodeLabel NodeLabelFacts ElemSet ElemSetFacts ContainsPrefix InsertRefine.
Import ListNotations.
Local Open Scope nat_scope.

Definition crank (c : comparison) : nat := match c with Lt => 0 | Eq => 1 | Gt => 2 end.

Inductive mono : list comparison -> Prop :=
| mono_nil : mono []
| mono_cons k ks : (forall k', In k' ks -> crank k <= crank k') -> mono ks -> mono (k :: ks).

Lemma mono_shape ks : mono ks -> exists a b c, ks = repeat Lt a ++ repeat Eq b ++ repeat Gt c.
Proof.
  induction 1 as [|k ks Hk Hm (a & b & c & E)].
  - exists 0, 0, 0. reflexivity.
  - subst ks. destruct k.
    + destruct a as [|a]; [exists 0, (S b), c; reflexivity|].
      exfalso. specialize (Hk Lt (or_introl eq_refl)). cbn in Hk. lia.
    + exists (S a), b, c. reflexivity.
    + destruct a as [|a]; [destruct b as [|b]|].
      * exists 0, 0, (S c). reflexivity.
      * exfalso. specialize (Hk Eq (or_introl eq_refl)). cbn in Hk. lia.
      * exfalso. specialize (Hk Lt (or_introl eq_refl)). cbn in Hk. lia.
Qed.

Lemma nth_repeat_lt {A} (x dflt : A) m n : n < m -> nth n (repeat x m) dflt = x.
Proof. intros H. apply (repeat_spec m x). apply nth_In. rewrite repeat_length. exact H. Qed.

Theorem binary_search_complete_mono {A} (f : A -> comparison) d l :
  mono (map f l) -> (exists x, In x l /\ f x = Eq) -> fst (binary_search_by f d l) = true.
Proof.
  intros Hm [x [Hx Hfx]]. destruct (mono_shape _ Hm) as (a & b & c & E).
  assert (Hb : 1 <= b).
  { destruct b; [|lia]. exfalso.
    assert (Hin : In Eq (map f l)) by (rewrite <- Hfx; apply in_map; exact Hx).
    rewrite E in Hin. cbn [repeat app] in Hin. apply in_app_or in Hin.
    destruct Hin as [Hin|Hin]; apply repeat_spec in Hin; discriminate. }
  assert (Hlen : length l = a + b + c).
  { rewrite <- (map_length f l), E, !app_length, !repeat_length. lia. }
  assert (Hnth : forall n, f (nth n l d) = nth n (repeat Lt a ++ repeat Eq b ++ repeat Gt c) (f d)).
  { intros n. rewrite <- E. symmetry. apply map_nth. }
  rewrite (binary_search_complete f d l (a + b)); [reflexivity | lia | | | ].
  - intros n Hn. rewrite Hnth. destruct (Nat.lt_ge_cases n a) as [Hlt|Hge].
    + rewrite app_nth1 by (rewrite repeat_length; lia). rewrite nth_repeat_lt by lia. discriminate.
    + rewrite app_nth2 by (rewrite repeat_length; lia). rewrite repeat_length.
      rewrite app_nth1 by (rewrite repeat_length; lia). rewrite nth_repeat_lt by lia. discriminate.
  - intros n Hn1 Hn2. rewrite Hnth.
    rewrite app_nth2 by (rewrite repeat_length; lia). rewrite repeat_length.
    rewrite app_nth2 by (rewrite repeat_length; lia). rewrite repeat_length.
    apply nth_repeat_lt. lia.
  - rewrite Hnth. rewrite app_nth2 by (rewrite repeat_length; lia). rewrite repeat_length.
    rewrite app_nth1 by (rewrite repeat_length; lia). apply nth_repeat_lt. lia.
Qed.

(* ------------------------------------------------------------------ the comparator of the code *)
Definition key (q c : bits) : comparison := lex_cmp (firstn (length q) c) q.

Lemma lex_rank_mono : forall a b q, lex_cmp a b <> Gt -> crank (lex_cmp a q) <= crank (lex_cmp b q).
Proof.
  induction a as [|x a IH]; intros [|y b] [|z q] H; cbn [lex_cmp crank] in *; try lia; try congruence.
  destruct x, y, z; cbn [crank]; try lia; try congruence; try (apply IH; exact H);
    repeat match goal with |- context [lex_cmp ?u ?v] => destruct (lex_cmp u v) end; cbn [crank]; lia.
Qed.

Lemma firstn_exact {A} (q r : list A) : firstn (length q) (q ++ r) = q.
Proof. induction q as [|x q IH]; cbn; [reflexivity | f_equal; exact IH]. Qed.

Lemma key_mono q c1 c2 :
  length c1 = length c2 -> lex_cmp c1 c2 <> Gt -> crank (key q c1) <= crank (key q c2).
Proof.
  intros Hl Hc. unfold key. apply lex_rank_mono. intros Hg. apply Hc.
  rewrite <- (firstn_skipn (length q) c1), <- (firstn_skipn (length q) c2).
  rewrite lex_cmp_app by (rewrite !firstn_length; lia).
  rewrite Hg. reflexivity.
Qed.

(* sorted, equal labels allowed (what sort_unstable leaves when labels repeat) *)
Inductive sorted_le : list elem -> Prop :=
| sle_nil : sorted_le []
| sle_cons x l :
    (forall y, In y l -> lex_cmp (bits_of (e_label x)) (bits_of (e_label y)) <> Gt) ->
    sorted_le l -> sorted_le (x :: l).

Lemma sorted_bits_le l : sorted_bits l -> sorted_le l.
Proof.
  induction 1 as [|x l Hhd Htl IH]; constructor; [|exact IH].
  intros y Hy. rewrite (Hhd y Hy). discriminate.
Qed.

Definition cpf (p : nlabel) (c : elem) : comparison :=
  if (llen p =? 0)%N || is_prefix_of p (e_label c) then Eq
  else bytes_cmp (lval (e_label c)) (lval p).

Lemma cpf_is_key p x :
  WF p -> WF (e_label x) -> canonical p = true -> canonical (e_label x) = true ->
  (llen p <= llen (e_label x))%N ->
  cpf p x = key (bits_of p) (bits_of (e_label x)).
Proof.
  intros Hp Hx Cp Cx Hle. unfold cpf, key.
  pose proof (length_bits_of p Hp) as Lq. pose proof (length_bits_of (e_label x) Hx) as Lc.
  destruct (N.eqb_spec (llen p) 0) as [Hz|Hz]; cbn [orb].
  - rewrite Hz in Lq. cbn in Lq. destruct (bits_of p); [|discriminate]. reflexivity.
  - rewrite (is_prefix_of_spec p (e_label x) Hp Hx).
    destruct (prefixb (bits_of p) (bits_of (e_label x))) eqn:Epre.
    + apply prefixb_Prefix in Epre. destruct Epre as [r Hr]. rewrite Hr, firstn_exact.
      symmetry. apply lex_cmp_refl.
    + destruct (WF_parts p Hp) as (A1 & A2 & A3). destruct (WF_parts (e_label x) Hx) as (B1 & B2 & B3).
      rewrite bytes_cmp_bits by (assumption || lia).
      rewrite (canonical_val_bits p Hp Cp), (canonical_val_bits (e_label x) Hx Cx).
      set (q := bits_of p) in *. set (c := bits_of (e_label x)) in *.
      rewrite <- (firstn_skipn (length q) c) at 1. rewrite <- app_assoc.
      rewrite lex_cmp_app by (rewrite firstn_length; lia).
      destruct (lex_cmp (firstn (length q) c) q) eqn:Ek; try reflexivity.
      apply lex_cmp_eq in Ek. rewrite <- Ek, prefixb_firstn in Epre. discriminate.
Qed.

Lemma sorted_cpf_mono p : forall l,
  WF p -> canonical p = true -> elabs_ok l -> sorted_le l -> same_len l ->
  (forall x, In x l -> (llen p <= llen (e_label x))%N) ->
  mono (map (cpf p) l).
Proof.
  intros l Hp Cp. induction l as [|x l IH]; intros Hok Hs Hsl Hlen; cbn [map]; [constructor|].
  inversion Hs as [|x' l' Hhd Htl]; subst x' l'.
  destruct Hsl as [len Hsl].
  constructor.
  - intros k' Hk'. apply in_map_iff in Hk'. destruct Hk' as [y [Ey Hy]]. subst k'.
    destruct (Hok x (or_introl eq_refl)) as [Wx Cx]. destruct (Hok y (or_intror Hy)) as [Wy Cy].
    rewrite (cpf_is_key p x), (cpf_is_key p y); try assumption;
      try (apply Hlen; (left; reflexivity) || (right; exact Hy)).
    apply key_mono; [|apply Hhd; exact Hy].
    rewrite !length_bits_of by assumption.
    rewrite (Hsl x (or_introl eq_refl)), (Hsl y (or_intror Hy)). reflexivity.
  - apply IH; [| exact Htl | exists len |]; intros z Hz;
      [apply Hok | apply Hsl | apply Hlen]; right; exact Hz.
Qed.

Theorem contains_prefix_sorted_complete_on_sets p l :
  WF p -> canonical p = true -> elabs_ok l -> sorted_le l -> same_len l ->
  (forall x, In x l -> (llen p <= llen (e_label x))%N) ->
  existsb (extends p) l = true ->
  eset_contains_prefix (BinarySearchable l) p = true.
Proof.
  intros Hp Cp Hok Hs Hsl Hlen Hex. cbn [eset_contains_prefix].
  change (fst (binary_search_by (cpf p) dummy_elem l) = true).
  apply binary_search_complete_mono; [apply sorted_cpf_mono; assumption|].
  apply existsb_exists in Hex. destruct Hex as [x [Hx He]]. exists x. split; [exact Hx|].
  unfold cpf, extends in *. rewrite (is_prefix_of_spec p (e_label x) Hp (proj1 (Hok x Hx))), He.
  rewrite orb_true_r. reflexivity.
Qed.

(* the two representations answer alike *)
Theorem contains_prefix_sorted_eq_unsorted_le p l :
  WF p -> canonical p = true -> elabs_ok l -> sorted_le l -> same_len l ->
  (forall x, In x l -> (llen p <= llen (e_label x))%N) ->
  eset_contains_prefix (BinarySearchable l) p = eset_contains_prefix (Unsorted l) p.
Proof.
  intros Hp Cp Hok Hs Hsl Hlen.
  assert (Hwf : forall x, In x l -> WF (e_label x)) by (intros x Hx; apply (Hok x Hx)).
  rewrite (contains_prefix_unsorted p l Hp Hwf).
  destruct (existsb (extends p) l) eqn:Ex.
  - apply contains_prefix_sorted_complete_on_sets; assumption.
  - destruct (eset_contains_prefix (BinarySearchable l) p) eqn:Es; [|reflexivity].
    exfalso. destruct (contains_prefix_sorted_sound p l Hp Hwf Es) as [[Hz Hne]|[He|[x [Hx [_ Hlt]]]]].
    + destruct l as [|x r]; [congruence|].
      cbn [existsb] in Ex. apply orb_false_iff in Ex. destruct Ex as [Ex _].
      unfold extends in Ex. pose proof (length_bits_of p Hp) as Lq. rewrite Hz in Lq. cbn in Lq.
      destruct (bits_of p); [|discriminate]. cbn in Ex. discriminate.
    + congruence.
    + specialize (Hlen x Hx). lia.
Qed.

Corollary contains_prefix_sorted_eq_unsorted p l :
  WF p -> canonical p = true -> elabs_ok l -> sorted_bits l -> same_len l ->
  (forall x, In x l -> (llen p <= llen (e_label x))%N) ->
  eset_contains_prefix (BinarySearchable l) p = eset_contains_prefix (Unsorted l) p.
Proof.
  intros Hp Cp Hok Hs. apply contains_prefix_sorted_eq_unsorted_le; try assumption.
  apply sorted_bits_le. exact Hs.
Qed.
