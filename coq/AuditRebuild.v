(* The auditor's rebuild (auditor.rs verify_append_only_hash: a fresh Azks, one batch insertion of
   the proof's nodes) over a prefix-free set of canonical labels of ANY lengths: the result is a
   well-formed trie whose leaves are exactly the given nodes.  InsertRefine.v covers the directory's
   insertions (256-bit labels into an existing tree); here the labels have mixed lengths and the
   tree is new.  Used by AuditSound.v (C09). *)
From Coq Require Import List Bool Arith NArith Lia Permutation.
From Akd Require Import Bits NodeLabel NodeLabelFacts BitsLabel ElemSet ElemSetFacts Hashing Tree TreeFacts Spec SpecFacts Insert InsertFacts InsertRefine.
Import ListNotations.
Open Scope N_scope.

(* no label of the set is a prefix of another one's (the auditor's verify_prefix_free) *)
Definition pfree (S : list elem) : Prop :=
  forall x y, In x S -> In y S -> prefixb (bits_of (e_label x)) (bits_of (e_label y)) = true -> e_label x = e_label y.

Definition set_okP (q : bits) (S : list elem) : Prop :=
  elabs_ok S /\ NoDup (map e_label S) /\ pfree S /\
  (forall x, In x S -> prefixb q (bits_of (e_label x)) = true).

Definition postP (q : bits) (S : list elem) (e : N) (r : tree) : Prop :=
  wf_sub r = true /\ prefixb q (bits_of (tlabel r)) = true /\ Permutation (leaves r) (map (lf_of e) S).

Definition rec_okP (rec : option tree -> eset -> N -> option (tree * bool * N)) (e : N) (B : bits) : Prop :=
  forall dir s', good_set s' -> eset_list s' <> [] -> set_okP (B ++ [dir]) (eset_list s') ->
    exists r isn k, rec None s' e = Some (r, isn, k) /\ postP (B ++ [dir]) (eset_list s') e r.

Definition slotP (B : bits) (e : N) (S : list elem) (dir : bool) (c' : option tree) : Prop :=
  let Sd := filter (side B dir) S in
  (Sd = [] /\ c' = None) \/ (Sd <> [] /\ exists r, c' = Some r /\ postP (B ++ [dir]) Sd e r).

Lemma pfree_filter (p : elem -> bool) S : pfree S -> pfree (filter p S).
Proof. intros H x y Hx Hy. apply filter_In in Hx, Hy. apply H; [apply Hx | apply Hy]. Qed.

Lemma set_okP_side B S d : set_okP B S -> set_okP (B ++ [d]) (filter (side B d) S).
Proof.
  intros (Hok & Hnd & Hpf & Hp). split; [|split; [|split]].
  - intros x Hx. apply Hok. apply filter_In in Hx. apply Hx.
  - apply NoDup_map_filter. exact Hnd.
  - apply pfree_filter. exact Hpf.
  - intros x Hx. apply filter_In in Hx. apply side_prefix. apply Hx.
Qed.

Lemma set_okP_perm q S S' : Permutation S S' -> set_okP q S' -> set_okP q S.
Proof.
  intros P (Hok & Hnd & Hpf & Hq). split; [|split; [|split]].
  - intros x Hx. apply Hok. eapply Permutation_in; eassumption.
  - eapply Permutation_NoDup; [apply Permutation_sym; apply Permutation_map; exact P | exact Hnd].
  - intros x y Hx Hy. apply Hpf; eapply Permutation_in; eassumption.
  - intros x Hx. apply Hq. eapply Permutation_in; eassumption.
Qed.

(* the common prefix of at least two prefix-free labels is strictly shorter than each of them, and
   both directions occur below it *)
Lemma lcp_two_sidesP q S x y r :
  set_okP q S -> S = x :: y :: r ->
  let P := lcp_all (ebits S) in
  (forall z, In z S -> pord P (bits_of (e_label z)) <> None) /\
  filter (side P false) S <> [] /\ filter (side P true) S <> [].
Proof.
  intros (Hok & Hnd & Hpf & Hq) ES P.
  assert (Hpre : forall z, In z S -> prefixb P (bits_of (e_label z)) = true).
  { intros z Hz. apply (lcp_all_prefix (ebits S) (sleaf_of_elem 0 z)). apply in_ebits. exact Hz. }
  assert (Hx : In x S) by (rewrite ES; left; reflexivity).
  assert (Hy : In y S) by (rewrite ES; right; left; reflexivity).
  assert (Hxy : e_label x <> e_label y).
  { intros E. rewrite ES in Hnd. cbn [map] in Hnd. inversion Hnd as [|? ? Hn _]; subst. apply Hn. left. symmetry. exact E. }
  assert (Hnn : forall z, In z S -> pord P (bits_of (e_label z)) <> None).
  { intros z Hz. unfold pord. rewrite (Hpre z Hz).
    destruct (length (bits_of (e_label z)) <=? length P)%nat eqn:E; [|discriminate]. exfalso.
    apply Nat.leb_le in E.
    assert (Ez : bits_of (e_label z) = P).
    { symmetry. apply prefixb_antisym; [apply Hpre; exact Hz|].
      eapply prefixb_total; [apply prefixb_refl | apply Hpre; exact Hz | exact E]. }
    apply Hxy. rewrite <- (Hpf z x Hz Hx) by (rewrite Ez; apply Hpre; exact Hx).
    apply (Hpf z y Hz Hy). rewrite Ez. apply Hpre. exact Hy. }
  split; [exact Hnn|].
  assert (Hne : ebits S <> []) by (rewrite ES; discriminate).
  split.
  - intros E0. pose proof (side_all P S true Hnn E0) as Hall.
    assert (G : prefixb (P ++ [true]) (lcp_all (ebits S)) = true).
    { apply lcp_all_greatest; [exact Hne|]. intros z Hz. unfold ebits in Hz. apply in_map_iff in Hz. destruct Hz as (w & <- & Hw). apply Hall. exact Hw. }
    fold P in G. apply prefixb_length in G. rewrite app_length in G. cbn [length] in G. lia.
  - intros E0. pose proof (side_all P S false Hnn E0) as Hall.
    assert (G : prefixb (P ++ [false]) (lcp_all (ebits S)) = true).
    { apply lcp_all_greatest; [exact Hne|]. intros z Hz. unfold ebits in Hz. apply in_map_iff in Hz. destruct Hz as (w & <- & Hw). apply Hall. exact Hw. }
    fold P in G. apply prefixb_length in G. rewrite app_length in G. cbn [length] in G. lia.
Qed.

Lemma wf_sub_label r : wf_sub r = true -> WF (tlabel r) /\ canonical (tlabel r) = true.
Proof. intros H. apply wfg_label. apply wf_sub_wfg. exact H. Qed.

(* ------------------------------------------------------------------ the second half of [ins], new node *)
Section FinishP.
  Variable empty : nlabel.
  Variable rec : option tree -> eset -> N -> option (tree * bool * N).

  Lemma finish_specP l le mde isn k s e :
    let B := bits_of l in let S := eset_list s in
    WF l -> canonical l = true -> good_set s -> set_okP B S ->
    (forall x, In x S -> pord B (bits_of (e_label x)) <> None) ->
    rec_okP rec e B ->
    exists le' mde' a' b' k',
      finish rec (Node l le mde None None) isn k s e = Some (Node l le' mde' a' b', isn, k') /\
      slotP B e S false a' /\ slotP B e S true b'.
  Proof.
    intros B S Wl Cl Hg Hso Hnn Hrec.
    destruct (eset_partition_spec s l Hg (proj1 Hso) Wl Hnn) as (EL & ER & GL & GR).
    unfold finish. cbn [tlabel]. destruct (eset_partition s l) as [L R] eqn:EP. cbn [fst snd] in EL, ER, GL, GR.
    fold S in EL, ER. fold B in EL, ER.
    set (SL := filter (side B false) S) in *. set (SR := filter (side B true) S) in *.
    assert (Hleft : exists le1 mde1 a' k1,
      (if eset_is_empty L then Some (Node l le mde None None, k)
       else match rec (child (Node l le mde None None) false) L e with
            | None => None
            | Some (c, _, k') => match set_child (Node l le mde None None) c with Some cn' => Some (cn', k + k') | None => None end
            end) = Some (Node l le1 mde1 a' None, k1) /\ slotP B e S false a').
    { destruct (eset_is_empty L) eqn:EE.
      - apply eset_is_empty_iff in EE. rewrite EL in EE. exists le, mde, None, k. split; [reflexivity|]. left. split; [exact EE | reflexivity].
      - assert (Hne : SL <> []).
        { intros E0. rewrite <- EL in E0. apply eset_is_empty_iff in E0. congruence. }
        cbn [child].
        destruct (Hrec false L GL ltac:(rewrite EL; exact Hne) ltac:(rewrite EL; apply set_okP_side; exact Hso)) as (r & isn' & k' & Er & Hp).
        rewrite Er. rewrite EL in Hp. fold SL in Hp. destruct Hp as (Cr & Pr & Perm).
        destruct (wf_sub_label r Cr) as [Wr _].
        rewrite (set_child_node l le mde None None r false Wl Wr (prefix_pord B false _ Pr)).
        eexists. eexists. exists (Some r), (k + k'). split; [reflexivity|].
        right. split; [exact Hne|]. exists r. split; [reflexivity|]. exact (conj Cr (conj Pr Perm)). }
    destruct Hleft as (le1 & mde1 & a' & k1 & Eleft & Sa). rewrite Eleft.
    destruct (eset_is_empty R) eqn:EE.
    - apply eset_is_empty_iff in EE. rewrite ER in EE. fold SR in EE. exists le1, mde1, a', None, k1.
      split; [reflexivity|]. split; [exact Sa|]. left. split; [exact EE | reflexivity].
    - assert (Hne : SR <> []).
      { intros E0. rewrite <- ER in E0. apply eset_is_empty_iff in E0. congruence. }
      cbn [child].
      destruct (Hrec true R GR ltac:(rewrite ER; exact Hne) ltac:(rewrite ER; apply set_okP_side; exact Hso)) as (r & isn' & k' & Er & Hp).
      rewrite Er. rewrite ER in Hp. fold SR in Hp. destruct Hp as (Cr & Pr & Perm).
      destruct (wf_sub_label r Cr) as [Wr _].
      rewrite (set_child_node l _ _ a' None r true Wl Wr (prefix_pord B true _ Pr)).
      eexists. eexists. exists a', (Some r), (k1 + k'). split; [reflexivity|]. split; [exact Sa|].
      right. split; [exact Hne|]. exists r. split; [reflexivity|]. exact (conj Cr (conj Pr Perm)).
  Qed.
End FinishP.

Section BuildP.
  Variable empty : nlabel.
  Hypothesis Ce : canonical empty = false.

  Lemma q_le_256P q S : S <> [] -> set_okP q S -> (length q <= 256)%nat.
  Proof.
    intros Hne (Hok & _ & _ & Hq). destruct S as [|x S]; [congruence|].
    pose proof (Hq x (or_introl eq_refl)) as H. apply prefixb_length in H.
    destruct (Hok x (or_introl eq_refl)) as [Wx _].
    rewrite len_bits in H by exact Wx. destruct (WF_parts _ Wx) as (_ & H2 & _). lia.
  Qed.

  Lemma ins_none_singleP rec q s e x :
    eset_list s = [x] -> set_okP q [x] ->
    exists k, finish rec (Leaf (e_label x) (e_value x) e) true 1 s e = Some (Leaf (e_label x) (e_value x) e, true, k) /\
              postP q [x] e (Leaf (e_label x) (e_value x) e).
  Proof.
    intros ES (Hok & Hnd & Hpf & Hq). destruct (Hok x (or_introl eq_refl)) as [Wx Cx].
    destruct (eset_partition_self s x ES Wx) as [E1 E2].
    unfold finish. cbn [tlabel]. destruct (eset_partition s (e_label x)) as [L R]. cbn [fst snd] in E1, E2.
    apply eset_is_empty_iff in E1, E2. rewrite E1, E2. exists 1. split; [reflexivity|].
    split; [|split].
    - cbn [wf_sub tlabel]. unfold WF in Wx. rewrite Wx, Cx. reflexivity.
    - cbn [tlabel]. apply Hq. left. reflexivity.
    - cbn [leaves map lf_of]. apply Permutation_refl.
  Qed.

  Lemma ins_none_manyP rec q s e x y r0 :
    good_set s -> eset_list s = x :: y :: r0 -> set_okP q (eset_list s) ->
    (forall B, (length q <= length B)%nat -> rec_okP rec e B) ->
    exists r k, finish rec (Node (eset_lcp empty s) e e None None) true 1 s e = Some (r, true, k) /\
                postP q (eset_list s) e r.
  Proof.
    intros Hg ES Hso Hrec. set (S := eset_list s) in *.
    assert (Hne : S <> []) by (rewrite ES; discriminate).
    destruct (eset_lcp_spec empty s Hg (proj1 Hso) Hne Ce) as (Pb & Pw & Pc). cbv zeta in Pb, Pw, Pc.
    set (l := eset_lcp empty s) in *. fold S in Pb.
    destruct (lcp_two_sidesP q S x y r0 Hso ES) as (Hnn & HL & HR). cbv zeta in Hnn, HL, HR. rewrite <- Pb in Hnn, HL, HR.
    assert (Hq : prefixb q (bits_of l) = true).
    { rewrite Pb. apply lcp_all_greatest; [rewrite ES; discriminate|]. intros z Hz. unfold ebits in Hz. apply in_map_iff in Hz.
      destruct Hz as (w & <- & Hw). apply (proj2 (proj2 (proj2 Hso))). exact Hw. }
    assert (Hso' : set_okP (bits_of l) S).
    { destruct Hso as (H1 & H2 & H3 & H4). split; [exact H1|]. split; [exact H2|]. split; [exact H3|].
      intros z Hz. rewrite Pb. apply (lcp_all_prefix (ebits S) (sleaf_of_elem 0 z)). apply in_ebits. exact Hz. }
    destruct (finish_specP rec l e e true 1 s e Pw Pc Hg Hso' Hnn (Hrec _ (prefixb_length _ _ Hq)))
      as (le' & mde' & a' & b' & k' & EF & Sa & Sb).
    fold S in EF, Sa, Sb.
    destruct Sa as [[E0 _]|[_ (ra & -> & (Ca & Pa & Perma))]]; [congruence|].
    destruct Sb as [[E0 _]|[_ (rb & -> & (Cb & Pb' & Permb))]]; [congruence|].
    eexists. exists k'. split; [exact EF|].
    split; [|split].
    - cbn [wf_sub tlabel]. unfold WF in Pw. rewrite Pw, Pc, (prefix_pord _ _ _ Pa), (prefix_pord _ _ _ Pb'), Ca, Cb. reflexivity.
    - exact Hq.
    - cbn [leaves]. eapply Permutation_trans; [apply Permutation_app; [exact Perma | exact Permb]|].
      apply sides_perm. exact Hnn.
  Qed.

  (* a fresh subtree over a non-empty prefix-free set *)
  Theorem build_spec : forall fuel q s e,
    (257 <= fuel + length q)%nat -> good_set s -> eset_list s <> [] -> set_okP q (eset_list s) ->
    exists r isn k, ins empty fuel None s e = Some (r, isn, k) /\ postP q (eset_list s) e r.
  Proof.
    induction fuel as [|f IH]; intros q s e Hf Hg Hne Hso.
    - exfalso. pose proof (q_le_256P q (eset_list s) Hne Hso). lia.
    - rewrite ins_unfold. unfold cur_node.
      assert (Hrec : forall B, (length q <= length B)%nat -> rec_okP (ins empty f) e B).
      { intros B HB dir s' Hg' Hne' Hso'. apply IH; try assumption. rewrite app_length. cbn [length]. lia. }
      destruct (eset_list s) as [|x [|y r0]] eqn:ES; [congruence| |].
      + destruct (ins_none_singleP (ins empty f) q s e x ES Hso) as (k & EF & HP).
        eexists. exists true, k. split; [exact EF | exact HP].
      + rewrite <- ES in Hso. destruct (ins_none_manyP (ins empty f) q s e x y r0 Hg ES Hso Hrec) as (r & k & EF & HP).
        exists r, true, k. split; [exact EF|]. rewrite <- ES. exact HP.
  Qed.
End BuildP.

(* ------------------------------------------------------------------ the element set of a node list *)
Lemma eset_from_goodP elems : elems <> [] -> elabs_ok elems -> NoDup (map e_label elems) ->
  good_set (eset_from elems) /\ Permutation (eset_list (eset_from elems)) elems.
Proof.
  intros Hne Hok Hnd. destruct elems as [|x r] eqn:E; [congruence|]. rewrite <- E in *.
  unfold eset_from. rewrite E. rewrite <- E.
  destruct (forallb (fun y => llen (e_label y) =? llen (e_label x)) elems) eqn:Hall.
  - cbn [good_set eset_list]. split; [|apply sort_elems_perm].
    assert (Hok' : elabs_ok (sort_elems elems)) by (intros y Hy; apply Hok; apply sort_elems_in; exact Hy).
    assert (Hlen' : same_len (sort_elems elems)).
    { exists (llen (e_label x)). intros y Hy. apply (proj1 (sort_elems_in _ _)) in Hy. rewrite forallb_forall in Hall. apply N.eqb_eq. apply Hall. exact Hy. }
    split; [|exact Hlen']. apply sorted_lt_bits; try assumption. apply sort_elems_sorted. split; [exact Hnd|].
    intros y Hy. destruct (Hok y Hy) as [Wy _]. destruct (WF_parts _ Wy) as (H & _). exact H.
  - cbn [good_set eset_list]. split; [exact I | apply Permutation_refl].
Qed.

Lemma eset_from_nil_iff elems : eset_is_empty (eset_from elems) = true <-> elems = [].
Proof.
  split.
  - intros H. apply eset_is_empty_iff in H. destruct elems as [|x r]; [reflexivity|]. exfalso.
    unfold eset_from in H. destruct (forallb _ (x :: r)).
    + cbn [eset_list] in H. pose proof (sort_elems_in (x :: r) x) as S. rewrite H in S. apply S. left. reflexivity.
    + cbn [eset_list] in H. discriminate.
  - intros ->. reflexivity.
Qed.

Definition nodes_ok (nodes : list elem) : Prop :=
  elabs_ok nodes /\ NoDup (map e_label nodes) /\ pfree nodes.

Section Rebuild.
  Variable empty : nlabel.
  Hypothesis Ce : canonical empty = false.

  (* the fresh tree over a prefix-free node list without the zero-length label: well-formed, and its
     leaves are exactly the nodes (stamped with the insertion epoch) *)
  Theorem rebuild_spec latest nodes :
    nodes_ok nodes -> (forall x, In x nodes -> bits_of (e_label x) <> []) ->
    exists t num, batch_insert empty (empty_root, latest, 1) nodes = Some (t, latest + 1, num) /\
      wf_root t = true /\ Permutation (leaves t) (map (lf_of (latest + 1)) nodes).
  Proof.
    intros (Hok & Hnd & Hpf) Hnz. unfold batch_insert.
    destruct (eset_is_empty (eset_from nodes)) eqn:EE.
    - apply eset_from_nil_iff in EE. subst nodes. exists empty_root, 1. split; [reflexivity|]. split; [reflexivity|]. constructor.
    - assert (Hne : nodes <> []) by (intros ->; cbn in EE; discriminate).
      destruct (eset_from_goodP nodes Hne Hok Hnd) as [Hg HP].
      set (s := eset_from nodes) in *. set (S := eset_list s) in *. set (e := latest + 1).
      assert (HneS : S <> []) by (intros E0; apply Hne; apply Permutation_nil; rewrite <- E0; exact HP).
      assert (Hso : set_okP [] S).
      { apply (set_okP_perm [] S nodes HP). split; [exact Hok|]. split; [exact Hnd|]. split; [exact Hpf|]. intros x _. reflexivity. }
      unfold ins_fuel. change 300%nat with (Datatypes.S 299). rewrite ins_unfold. unfold cur_node, empty_root. cbn [tlabel].
      assert (E : (llen (get_longest_common_prefix empty nl_root (eset_lcp empty s)) <? llen nl_root) = false).
      { apply N.ltb_ge. cbn [llen nl_root]. lia. }
      rewrite E.
      assert (Wr : WF nl_root) by (apply nl_root_wf). assert (Cr : canonical nl_root = true) by (apply nl_root_wf).
      assert (Hso' : set_okP (bits_of nl_root) S) by (rewrite bits_of_root; exact Hso).
      assert (Hnn : forall x, In x S -> pord (bits_of nl_root) (bits_of (e_label x)) <> None).
      { intros x Hx. rewrite bits_of_root. unfold pord. cbn [length prefixb].
        assert (Hx' : In x nodes) by (eapply Permutation_in; eassumption).
        specialize (Hnz x Hx'). destruct (bits_of (e_label x)); [congruence|]. cbn. discriminate. }
      assert (Hrec : rec_okP (ins empty 299) e (bits_of nl_root)).
      { intros dir s' Hg' Hne' Hso2. apply (build_spec empty Ce); try assumption. rewrite app_length. cbn [length]. lia. }
      destruct (finish_specP (ins empty 299) nl_root 0 0 false 0 s e Wr Cr Hg Hso' Hnn Hrec) as (le' & mde' & a' & b' & k' & EF & Sa & Sb).
      fold S in EF, Sa, Sb. rewrite bits_of_root in Sa, Sb. rewrite EF.
      eexists. eexists. split; [reflexivity|].
      assert (Ha : wf_child nl_root false a' = true /\ Permutation (oleaves a') (map (lf_of e) (filter (side [] false) S))).
      { destruct Sa as [[E0 ->]|[_ (ra & -> & (Ca & Pa & Perma))]].
        - rewrite E0. split; [reflexivity | constructor].
        - split; [|exact Perma]. cbn [wf_child]. rewrite bits_of_root. rewrite (prefix_pord [] false _ Pa), Ca. reflexivity. }
      assert (Hb : wf_child nl_root true b' = true /\ Permutation (oleaves b') (map (lf_of e) (filter (side [] true) S))).
      { destruct Sb as [[E0 ->]|[_ (rb & -> & (Cb & Pb & Permb))]].
        - rewrite E0. split; [reflexivity | constructor].
        - split; [|exact Permb]. cbn [wf_child]. rewrite bits_of_root. rewrite (prefix_pord [] true _ Pb), Cb. reflexivity. }
      split.
      + cbn [wf_root]. rewrite (proj1 Ha), (proj1 Hb). assert (En : nl_eqb nl_root nl_root = true) by (apply nl_eqb_eq; reflexivity). rewrite En. reflexivity.
      + change (leaves (Node nl_root le' mde' a' b')) with (oleaves a' ++ oleaves b').
        eapply Permutation_trans; [apply Permutation_app; [apply (proj2 Ha) | apply (proj2 Hb)]|].
        eapply Permutation_trans; [apply sides_perm; rewrite bits_of_root in Hnn; exact Hnn|].
        apply Permutation_map. exact HP.
  Qed.

  (* a node carrying the zero-length label cannot be placed below the root: it is dropped *)
  Lemma rebuild_root_only latest x :
    WF (e_label x) -> bits_of (e_label x) = [] ->
    batch_insert empty (empty_root, latest, 1) [x] = Some (empty_root, latest + 1, 1).
  Proof.
    intros Wx Ex. unfold batch_insert.
    assert (Es : eset_from [x] = BinarySearchable [x]).
    { unfold eset_from. cbn [forallb]. rewrite N.eqb_refl. reflexivity. }
    rewrite Es. cbn [eset_is_empty eset_list].
    unfold ins_fuel. change 300%nat with (Datatypes.S 299). rewrite ins_unfold. unfold cur_node, empty_root. cbn [tlabel].
    assert (E : (llen (get_longest_common_prefix empty nl_root (eset_lcp empty (BinarySearchable [x]))) <? llen nl_root) = false).
    { apply N.ltb_ge. cbn [llen nl_root]. lia. }
    rewrite E.
    assert (Hn : get_prefix_ordering nl_root (e_label x) = None).
    { rewrite get_prefix_ordering_spec by (try exact Wx; apply nl_root_wf). rewrite Ex, bits_of_root. reflexivity. }
    unfold finish. cbn [tlabel eset_partition]. unfold partition_point, binary_search_by. cbn [length bs_loop Nat.leb nth]. rewrite Hn.
    cbn [snd skipn firstn rev app drop_invalid_tail]. rewrite Hn. cbn [eset_is_empty eset_list rev]. reflexivity.
  Qed.
End Rebuild.
