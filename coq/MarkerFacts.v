(* Facts about the marker-version model (C08). *)
From Coq Require Import List Bool Arith NArith ZArith Lia ZifyBool ZifyNat ZifyN Sorted.
From Akd Require Import Marker.
Import ListNotations.
Open Scope N_scope.

Arguments N.add : simpl never.
Arguments N.sub : simpl never.
Arguments N.mul : simpl never.
Arguments N.div : simpl never.
Arguments N.modulo : simpl never.
Arguments N.shiftl : simpl never.
Arguments N.shiftr : simpl never.
Arguments N.land : simpl never.
Arguments N.lor : simpl never.
Arguments N.ldiff : simpl never.
Arguments N.lxor : simpl never.
Arguments N.testbit : simpl never.
Arguments N.of_nat : simpl never.
Arguments N.to_nat : simpl never.
Arguments N.log2 : simpl never.
Arguments N.pow : simpl never.
Arguments N.size : simpl never.

(* ------------------------------------------------------------------ *)
(* bit-level helpers *)

Definition roundup (n i : N) : N := N.shiftl (N.lor (N.shiftr n i) 1) i.
Definition cut (x i : N) : N := N.shiftl (N.shiftr x i) i.

Lemma shiftl1_pow i : N.shiftl 1 i = 2 ^ i.
Proof. apply N.shiftl_1_l. Qed.

Lemma land_pow2_zero n i : (N.land n (2 ^ i) =? 0) = negb (N.testbit n i).
Proof.
  destruct (N.testbit n i) eqn:E; simpl.
  - apply N.eqb_neq. intros H. apply (f_equal (fun x => N.testbit x i)) in H.
    rewrite N.land_spec, E, N.pow2_bits_true, N.bits_0 in H. discriminate.
  - apply N.eqb_eq. apply N.bits_inj. intros k. rewrite N.land_spec, N.bits_0, N.pow2_bits_eqb.
    destruct (N.eqb_spec i k) as [->|]; [rewrite E|]; simpl; auto using andb_false_r.
Qed.

Lemma pow2_pred_ones i : 2 ^ i - 1 = N.ones i.
Proof. rewrite N.ones_equiv. now rewrite N.pred_sub. Qed.

Lemma ones_lor_pow i : N.lor (N.ones i) (2 ^ i) = N.ones (i + 1).
Proof.
  apply N.bits_inj. intros k. rewrite N.lor_spec, N.pow2_bits_eqb.
  destruct (N.ltb_spec k i) as [H|H].
  - rewrite !N.ones_spec_low by lia. reflexivity.
  - rewrite (N.ones_spec_high i k) by lia. destruct (N.eqb_spec i k) as [->|Hn]; simpl.
    + rewrite N.ones_spec_low by lia. reflexivity.
    + rewrite N.ones_spec_high by lia. reflexivity.
Qed.

Lemma testbit_cut x i k : N.testbit (cut x i) k = if k <? i then false else N.testbit x k.
Proof.
  unfold cut. destruct (N.ltb_spec k i) as [H|H].
  - apply N.shiftl_spec_low. exact H.
  - rewrite N.shiftl_spec_high' by exact H. rewrite N.shiftr_spec'. f_equal. lia.
Qed.

Lemma cut_le x i : cut x i <= x.
Proof.
  unfold cut. rewrite N.shiftl_mul_pow2, N.shiftr_div_pow2.
  assert (2 ^ i <> 0) by (apply N.pow_nonzero; lia). rewrite N.mul_comm. now apply N.mul_div_le.
Qed.

Lemma lor1_even x : N.testbit x 0 = false -> N.lor x 1 = x + 1.
Proof.
  intros H.
  assert (Hz : N.land x 1 = 0).
  { apply N.bits_inj. intros k. rewrite N.land_spec, N.bits_0.
    destruct (N.eqb_spec k 0) as [->|Hk]; [rewrite H; reflexivity|].
    change 1 with (2 ^ 0). rewrite N.pow2_bits_false by lia. apply andb_false_r. }
  rewrite (N.add_nocarry_lxor x 1 Hz). symmetry. apply N.lxor_lor. exact Hz.
Qed.

Lemma testbit_roundup n i k :
  N.testbit (roundup n i) k = if k <? i then false else if k =? i then true else N.testbit n k.
Proof.
  unfold roundup. destruct (N.ltb_spec k i) as [H|H].
  - apply N.shiftl_spec_low. exact H.
  - rewrite N.shiftl_spec_high' by exact H. rewrite N.lor_spec, N.shiftr_spec'.
    replace (k - i + i) with k by lia. change 1 with (2 ^ 0). rewrite N.pow2_bits_eqb.
    destruct (N.eqb_spec k i) as [->|Hn].
    + rewrite N.sub_diag. simpl. apply orb_true_r.
    + destruct (N.eqb_spec 0 (k - i)); [lia|]. apply orb_false_r.
Qed.

(* roundup in arithmetic, when bit i of n is zero *)
Lemma roundup_arith n i : N.testbit n i = false -> roundup n i = (n / 2 ^ i + 1) * 2 ^ i.
Proof.
  intros H. unfold roundup. rewrite N.shiftl_mul_pow2, N.shiftr_div_pow2. f_equal.
  apply lor1_even. rewrite <- N.shiftr_div_pow2, N.shiftr_spec'. now rewrite N.add_0_l.
Qed.

Lemma roundup_gt n i : N.testbit n i = false -> n < roundup n i.
Proof.
  intros H. rewrite roundup_arith by exact H.
  assert (Hp : 2 ^ i <> 0) by (apply N.pow_nonzero; lia).
  pose proof (N.div_mod n (2 ^ i) Hp). pose proof (N.mod_lt n (2 ^ i) Hp). nia.
Qed.

(* ------------------------------------------------------------------ *)
(* lists *)

Lemma in_push_dedup_old l v x : In x l -> In x (push_dedup l v).
Proof.
  intros H. unfold push_dedup. destruct (last_opt l) as [y|]; [destruct (y =? v)|]; auto;
  apply in_or_app; auto.
Qed.

Lemma in_push_dedup_new l v : In v (push_dedup l v).
Proof.
  unfold push_dedup, last_opt. destruct (rev l) as [|y r] eqn:E.
  - apply in_or_app. right. now left.
  - destruct (N.eqb_spec y v) as [->|Hn].
    + apply in_rev. rewrite E. now left.
    + apply in_or_app. right. now left.
Qed.

Lemma in_Nrange x a len : In x (Nrange a len) <-> a <= x < a + N.of_nat len.
Proof.
  unfold Nrange. rewrite in_map_iff. split.
  - intros (k & <- & Hk). apply in_seq in Hk. lia.
  - intros H. exists (N.to_nat (x - a)). split; [lia|]. apply in_seq. lia.
Qed.

(* ------------------------------------------------------------------ *)
(* past markers *)

Lemma past_fold_pres s l acc x : In x acc -> In x (fold_left (past_step s) l acc).
Proof.
  revert acc; induction l as [|i l IH]; intros acc H; simpl; auto. apply IH.
  unfold past_step. destruct (negb _); auto. destruct (negb _); auto. now apply in_push_dedup_old.
Qed.

Lemma past_step_cut s i : N.testbit s i = true -> cut s (i + 1) <> 0 ->
  forall acc, In (cut s (i + 1)) (past_step s acc i).
Proof.
  intros Hb Hnz acc. unfold past_step. rewrite shiftl1_pow, land_pow2_zero, Hb. simpl.
  rewrite pow2_pred_ones, ones_lor_pow, N.ldiff_ones_r. fold (cut s (i + 1)).
  destruct (N.eqb_spec (cut s (i + 1)) 0); [contradiction|]. simpl. apply in_push_dedup_new.
Qed.

Lemma past_fold_cut s l i acc :
  In i l -> N.testbit s i = true -> cut s (i + 1) <> 0 ->
  In (cut s (i + 1)) (fold_left (past_step s) l acc).
Proof.
  revert acc; induction l as [|j l IH]; intros acc Hi Hb Hnz; simpl in *; [contradiction|].
  destruct Hi as [->|Hi].
  - apply past_fold_pres. now apply past_step_cut.
  - now apply IH.
Qed.

Lemma bit_lt_bitlen s i : N.testbit s i = true -> i < N.of_nat (bitlen s).
Proof.
  intros H. unfold bitlen. rewrite N2Nat.id.
  destruct (N.eq_dec s 0) as [->|Hs]; [rewrite N.bits_0 in H; discriminate|].
  rewrite N.size_log2 by exact Hs.
  destruct (N.leb_spec i (N.log2 s)); [lia|]. rewrite N.bits_above_log2 in H by lia. discriminate.
Qed.

(* the three ways a version gets into the past-marker list *)
Lemma in_past_cut s si i :
  N.testbit s i = true -> cut s (i + 1) <> 0 -> In (cut s (i + 1)) (past_markers s si).
Proof.
  intros Hb Hnz. unfold past_markers. apply past_fold_cut; auto.
  apply in_rev. rewrite rev_involutive. apply in_Nrange. pose proof (bit_lt_bitlen s i Hb). lia.
Qed.

Lemma in_past_pow s si : 2 ^ N.log2 s <> s -> In (2 ^ N.log2 s) (past_markers s si).
Proof.
  intros H. unfold past_markers. apply past_fold_pres. unfold marker_log2. rewrite shiftl1_pow.
  destruct (N.eqb_spec (2 ^ N.log2 s) s); [contradiction|]. simpl. apply in_push_dedup_new.
Qed.

Lemma in_past_skip s si : nthN SKIP si <> s -> In (nthN SKIP si) (past_markers s si).
Proof.
  intros H. unfold past_markers. apply past_fold_pres.
  destruct (N.eqb_spec (nthN SKIP si) s); [contradiction|].
  destruct (negb _); [apply in_push_dedup_old|]; now left.
Qed.

(* ------------------------------------------------------------------ *)
(* future markers: the bit loop *)

Lemma future_fold_pres n E l fv acc x :
  In x acc -> In x (snd (fold_left (future_step n E) l (fv, acc))).
Proof.
  revert fv acc; induction l as [|i l IH]; intros fv acc H; simpl; auto.
  destruct (N.land n (N.shiftl 1 i) =? 0); [|now apply IH].
  apply IH. destruct (_ <=? E); auto. apply in_or_app. now left.
Qed.

Lemma future_fold_roundup n E len a fv acc i :
  (forall k, a <= k -> N.testbit fv k = N.testbit n k) ->
  a <= i < a + N.of_nat len -> N.testbit n i = false -> roundup n i <= E ->
  In (roundup n i) (snd (fold_left (future_step n E) (Nrange a len) (fv, acc))).
Proof.
  revert a fv acc. induction len as [|len IH]; intros a fv acc Hfv Hi Hb HE; [lia|].
  unfold Nrange. cbn [seq map fold_left]. rewrite N.add_0_r.
  assert (Htail : map (fun k => a + N.of_nat k) (seq 1 len) = Nrange (a + 1) len).
  { unfold Nrange. rewrite <- seq_shift, map_map. apply map_ext. intros k. lia. }
  rewrite Htail. unfold future_step at 2. rewrite shiftl1_pow, land_pow2_zero.
  destruct (N.testbit n a) eqn:Ea; cbn [negb].
  - (* one bit: state unchanged *)
    apply IH; auto.
    + intros k Hk. apply Hfv. lia.
    + destruct (N.eq_dec i a) as [->|]; [congruence|lia].
  - (* zero bit *)
    assert (Hfv' : N.ldiff (N.lor fv (2 ^ a)) (2 ^ a - 1) = roundup n a).
    { apply N.bits_inj. intros k. rewrite testbit_roundup, pow2_pred_ones, N.ldiff_spec, N.lor_spec, N.pow2_bits_eqb.
      destruct (N.ltb_spec k a) as [Hk|Hk].
      - rewrite N.ones_spec_low by lia. apply andb_false_r.
      - rewrite N.ones_spec_high by lia. rewrite andb_true_r.
        destruct (N.eqb_spec a k) as [->|Hn].
        + rewrite N.eqb_refl. apply orb_true_r.
        + destruct (N.eqb_spec k a); [lia|]. rewrite orb_false_r. apply Hfv. lia. }
    rewrite Hfv'. destruct (N.eq_dec i a) as [->|Hne].
    + apply future_fold_pres. destruct (N.leb_spec (roundup n a) E); [|lia].
      apply in_or_app. right. now left.
    + apply IH; auto; [|lia]. intros k Hk. rewrite testbit_roundup.
      destruct (N.ltb_spec k a); [lia|]. destruct (N.eqb_spec k a); [lia|reflexivity].
Qed.

(* ------------------------------------------------------------------ *)
(* the skip list: sortedness is checked on the generated constant *)

Fixpoint sortedb (l : list N) : bool :=
  match l with
  | x :: ((y :: _) as r) => (x <? y) && sortedb r
  | _ => true
  end.

Lemma SKIP_sorted : sortedb SKIP = true.
Proof. vm_compute. reflexivity. Qed.
Lemma SKIP_head : nthN SKIP 0 = 1.
Proof. vm_compute. reflexivity. Qed.

Lemma sortedb_tail x l : sortedb (x :: l) = true -> sortedb l = true /\ (forall y, In y l -> x < y).
Proof.
  revert x; induction l as [|z l IH]; intros x H; [split; [reflexivity|intros y []]|].
  cbn [sortedb] in H. apply andb_true_iff in H. destruct H as [H1 H2]. split; [exact H2|].
  intros y [<-|Hy]; [lia|]. destruct (IH z H2) as [_ IH2]. specialize (IH2 y Hy). lia.
Qed.

Lemma in_skipn' {A} (y : A) n l : In y (skipn n l) -> In y l.
Proof. revert l; induction n as [|n IH]; intros [|z l] H; simpl in *; auto. Qed.
Lemma in_firstn' {A} (y : A) n l : In y (firstn n l) -> In y l.
Proof. revert l; induction n as [|n IH]; intros [|z l] H; simpl in *; auto; try contradiction. destruct H; auto. Qed.

(* elements of index < count_le are <= x, the others are > x *)
Lemma count_le_spec l x : sortedb l = true ->
  forall y, In y l -> (In y (firstn (count_le l x) l) <-> y <= x) /\ (In y (skipn (count_le l x) l) <-> x < y).
Proof.
  induction l as [|z l IH]; intros Hs y Hy; [destruct Hy|].
  destruct (sortedb_tail z l Hs) as [Hs' Hlt]. cbn [count_le].
  destruct (N.ltb_spec x z) as [Hxz|Hxz]; cbn [firstn skipn].
  - assert (x < y) by (destruct Hy as [<-|Hy]; [lia|specialize (Hlt y Hy); lia]).
    split; split; intros; try lia; try contradiction; auto.
  - destruct Hy as [<-|Hy].
    + split; split; intros; try lia; [now left|].
      exfalso. apply in_skipn' in H. specialize (Hlt z H). lia.
    + destruct (IH Hs' y Hy) as [I1 I2]. split; [|exact I2]. split.
      * intros [<-|H]; [lia|]. now apply I1.
      * intros H. right. now apply I1.
Qed.

Lemma count_le_mono l n E : sortedb l = true -> n <= E -> (count_le l n <= count_le l E)%nat.
Proof.
  induction l as [|z l IH]; intros Hs H; [reflexivity|]. destruct (sortedb_tail z l Hs) as [Hs' _].
  cbn [count_le]. specialize (IH Hs' H). destruct (N.ltb_spec n z), (N.ltb_spec E z); lia.
Qed.

(* the slice of the skip list taken by get_marker_versions: elements in (n, E] *)
Lemma slice_spec l n E : sortedb l = true -> n <= E ->
  forall y, In y (firstn (count_le l E - count_le l n) (skipn (count_le l n) l)) <->
            In y l /\ n < y /\ y <= E.
Proof.
  induction l as [|z l IH]; intros Hs HnE y.
  - simpl. split; [intros []|intros [[] _]].
  - destruct (sortedb_tail z l Hs) as [Hs' Hlt]. cbn [count_le].
    destruct (N.ltb_spec E z) as [HE|HE].
    + destruct (N.ltb_spec n z); [|lia]. cbn [Nat.sub firstn]. split; [intros []|].
      intros [[<-|Hy] Hb]; [lia|]. specialize (Hlt y Hy). lia.
    + destruct (N.ltb_spec n z) as [Hn|Hn].
      * rewrite Nat.sub_0_r. cbn [skipn firstn]. split.
        -- intros [<-|Hy]; [split; [now left|lia]|].
           pose proof (in_firstn' _ _ _ Hy) as Hyl. split; [now right|].
           specialize (Hlt y Hyl). apply (count_le_spec l E Hs' y Hyl) in Hy. lia.
        -- intros [[<-|Hy] Hb]; [now left|]. right. apply (count_le_spec l E Hs' y Hy). lia.
      * cbn [skipn]. replace (S (count_le l E) - S (count_le l n))%nat with (count_le l E - count_le l n)%nat by lia.
        rewrite (IH Hs' HnE y). split.
        -- intros [Hy Hb]. split; [now right|exact Hb].
        -- intros [[<-|Hy] Hb]; [lia|]. split; assumption.
Qed.

(* the largest skip-list element <= x *)
Lemma skipmax_spec l x : sortedb l = true -> (1 <= count_le l x)%nat ->
  In (nth (Nat.pred (count_le l x)) l 0) (firstn (count_le l x) l) /\
  forall y, In y (firstn (count_le l x) l) -> y <= nth (Nat.pred (count_le l x)) l 0.
Proof.
  induction l as [|z l IH]; intros Hs Hc; [simpl in Hc; lia|].
  destruct (sortedb_tail z l Hs) as [Hs' Hlt]. cbn [count_le] in *.
  destruct (N.ltb_spec x z) as [Hx|Hx]; [lia|].
  destruct (count_le l x) as [|c] eqn:Ec.
  - cbn. split; [now left|]. intros y [<-|[]]. lia.
  - specialize (IH Hs' ltac:(lia)). cbn [Nat.pred] in *. destruct IH as [I1 I2].
    cbn [nth firstn]. split; [right; exact I1|].
    intros y [<-|Hy]; [|now apply I2]. specialize (Hlt _ (in_firstn' _ _ _ I1)). lia.
Qed.

(* ------------------------------------------------------------------ *)
(* the power-of-two loop *)

Lemma pow_loop_pres is s0 acc x : In x acc -> In x (pow_loop is s0 acc).
Proof.
  revert acc; induction is as [|i is IH]; intros acc H; cbn [pow_loop]; auto.
  destruct (match s0 with Some y => y <=? N.shiftl 1 i | None => false end); auto.
  apply IH. apply in_or_app. now left.
Qed.

Lemma pow_loop_in len a s0 acc i :
  a <= i < a + N.of_nat len ->
  match s0 with Some y => 2 ^ i < y | None => True end ->
  In (2 ^ i) (pow_loop (Nrange a len) s0 acc).
Proof.
  revert a acc; induction len as [|len IH]; intros a acc Hi Hs; [lia|].
  unfold Nrange. cbn [seq map pow_loop]. rewrite N.add_0_r.
  assert (Htail : map (fun k => a + N.of_nat k) (seq 1 len) = Nrange (a + 1) len).
  { unfold Nrange. rewrite <- seq_shift, map_map. apply map_ext. intros k. lia. }
  rewrite Htail, shiftl1_pow.
  assert (Hbr : match s0 with Some y => y <=? 2 ^ a | None => false end = false).
  { destruct s0 as [y|]; [|reflexivity]. apply N.leb_gt.
    assert (2 ^ a <= 2 ^ i) by (apply N.pow_le_mono_r; lia). lia. }
  rewrite Hbr. destruct (N.eq_dec i a) as [->|Hne].
  - apply pow_loop_pres. apply in_or_app. right. now left.
  - apply IH; [lia|exact Hs].
Qed.

(* ------------------------------------------------------------------ *)
(* membership in future_markers *)

Lemma in_future_roundup n E ni ei i :
  n <> 0 -> i <= N.log2 n -> N.testbit n i = false -> roundup n i <= E ->
  In (roundup n i) (future_markers n E ni ei).
Proof.
  intros Hn Hi Hb HE. unfold future_markers. apply in_or_app. left. apply pow_loop_pres.
  apply future_fold_roundup; auto. unfold bitlen. rewrite N2Nat.id, N.size_log2 by exact Hn. lia.
Qed.

Lemma in_future_pow n E ni ei i :
  N.log2 n < i -> i <= N.log2 E ->
  match hd_error (firstn (S ei - S ni) (skipn (S ni) SKIP)) with Some y => 2 ^ i < y | None => True end ->
  In (2 ^ i) (future_markers n E ni ei).
Proof.
  intros H1 H2 Hs. unfold future_markers. apply in_or_app. left. apply pow_loop_in; [|exact Hs].
  unfold marker_log2. lia.
Qed.

Lemma in_future_slice n E ni ei y :
  In y (firstn (S ei - S ni) (skipn (S ni) SKIP)) -> In y (future_markers n E ni ei).
Proof. intros H. unfold future_markers. apply in_or_app. now right. Qed.

Lemma find_max_index_pos x : x <> 0 -> find_max_index x = Some (Nat.pred (count_le SKIP x)) /\ (1 <= count_le SKIP x)%nat.
Proof.
  intros Hx. unfold find_max_index. rewrite SKIP_head. destruct (N.ltb_spec x 1); [lia|]. split; [reflexivity|].
  pose proof SKIP_head as Hh. unfold nthN in Hh. destruct SKIP as [|z l] eqn:E; [discriminate|].
  simpl in Hh. subst z. cbn [count_le]. destruct (N.ltb_spec x 1); lia.
Qed.

(* ------------------------------------------------------------------ *)
(* the highest bit in which two numbers differ *)

Lemma high_diff x n : n < x ->
  let d := N.log2 (N.lxor x n) in
  N.testbit x d = true /\ N.testbit n d = false /\ (forall k, d < k -> N.testbit x k = N.testbit n k).
Proof.
  intros Hlt d.
  assert (Hz : N.lxor x n <> 0) by (intros H; apply N.lxor_eq in H; lia).
  assert (Hhi : forall k, d < k -> N.testbit x k = N.testbit n k).
  { intros k Hk. pose proof (N.bits_above_log2 (N.lxor x n) k Hk) as H. rewrite N.lxor_spec in H.
    destruct (N.testbit x k), (N.testbit n k); simpl in H; congruence. }
  pose proof (N.bit_log2 _ Hz) as Hd. fold d in Hd. rewrite N.lxor_spec in Hd.
  assert (Hq : N.shiftr x (d + 1) = N.shiftr n (d + 1)).
  { apply N.bits_inj. intros k. rewrite !N.shiftr_spec'. apply Hhi. lia. }
  rewrite !N.shiftr_div_pow2 in Hq.
  assert (Hp : 2 ^ d <> 0) by (apply N.pow_nonzero; lia).
  assert (Hp2 : 2 ^ (d + 1) = 2 ^ d * 2) by (rewrite N.pow_add_r; reflexivity).
  pose proof (N.testbit_spec' x d) as Bx. pose proof (N.testbit_spec' n d) as Bn.
  rewrite Hp2 in Hq. remember (2 ^ d) as p eqn:Ep. clear Ep Hp2.
  pose proof (N.div_mod x (p * 2) ltac:(lia)) as Ex.
  pose proof (N.div_mod n (p * 2) ltac:(lia)) as En.
  rewrite (N.mod_mul_r x p 2) in Ex by lia. rewrite (N.mod_mul_r n p 2) in En by lia.
  pose proof (N.mod_lt x p Hp) as Lx. pose proof (N.mod_lt n p Hp) as Ln.
  rewrite Hq in Ex. rewrite <- Bx in Ex. rewrite <- Bn in En.
  remember (p * 2 * (n / (p * 2))) as A eqn:EA. clear EA Hq Bx Bn.
  remember (x mod p) as rx. remember (n mod p) as rn.
  destruct (N.testbit x d), (N.testbit n d); simpl in Hd; try discriminate; cbn [N.b2n] in Ex, En.
  - auto.
  - exfalso. lia.
Qed.

(* Lemma A: every x in (n, E] is "witnessed" by a future marker of n that the proof for x
   must show present: x itself or one of its past markers *)
Lemma future_witness n E x :
  n <> 0 -> n < x -> x <= E ->
  exists v, In v (future_of n E) /\ n < v /\ v <= x /\ (v = x \/ In v (past_of x)).
Proof.
  intros Hn Hlt HE.
  assert (Hx : x <> 0) by lia. assert (HE0 : E <> 0) by lia.
  destruct (find_max_index_pos n Hn) as [Fn Cn]. destruct (find_max_index_pos x Hx) as [Fx Cx].
  destruct (find_max_index_pos E HE0) as [FE CE].
  unfold future_of, past_of. rewrite Fn, FE, Fx.
  set (ni := Nat.pred (count_le SKIP n)). set (ei := Nat.pred (count_le SKIP E)). set (xi := Nat.pred (count_le SKIP x)).
  assert (Hsl : forall y, In y (firstn (S ei - S ni) (skipn (S ni) SKIP)) <-> In y SKIP /\ n < y /\ y <= E).
  { intros y. subst ei ni. replace (S (Nat.pred (count_le SKIP E))) with (count_le SKIP E) by lia.
    replace (S (Nat.pred (count_le SKIP n))) with (count_le SKIP n) by lia.
    apply slice_spec; [exact SKIP_sorted|lia]. }
  destruct (high_diff x n Hlt) as (Bx & Bn & Hhi). set (d := N.log2 (N.lxor x n)) in *.
  destruct (N.leb_spec d (N.log2 n)) as [Hd|Hd].
  - (* x and n have the same bit length: round n up at bit d *)
    assert (Hv : cut x d = roundup n d).
    { apply N.bits_inj. intros k. rewrite testbit_cut, testbit_roundup.
      destruct (N.ltb_spec k d); [reflexivity|]. destruct (N.eqb_spec k d) as [->|]; [exact Bx|]. apply Hhi. lia. }
    exists (roundup n d). pose proof (cut_le x d) as Hle. rewrite Hv in Hle.
    split; [apply in_future_roundup; auto; lia|]. split; [now apply roundup_gt|]. split; [exact Hle|].
    destruct (N.eq_dec (cut x d) x) as [Heq|Hne]; [left; congruence|]. right.
    (* the next set bit of x below d *)
    set (r := x mod 2 ^ d).
    assert (Hp : 2 ^ d <> 0) by (apply N.pow_nonzero; lia).
    assert (Hr : r <> 0).
    { intros Hr0. apply Hne. unfold cut. rewrite N.shiftl_mul_pow2, N.shiftr_div_pow2.
      pose proof (N.div_mod x (2 ^ d) Hp). fold r in H. lia. }
    set (j := N.log2 r).
    assert (Hj : j < d) by (apply N.log2_lt_pow2; [lia|]; apply N.mod_lt; exact Hp).
    assert (Bj : N.testbit x j = true).
    { rewrite <- (N.mod_pow2_bits_low x d j Hj). apply N.bit_log2. exact Hr. }
    assert (Hc : cut x (j + 1) = roundup n d).
    { rewrite <- Hv. apply N.bits_inj. intros k. rewrite !testbit_cut.
      destruct (N.ltb_spec k (j + 1)), (N.ltb_spec k d); try lia; try reflexivity.
      rewrite <- (N.mod_pow2_bits_low x d k) by lia. apply N.bits_above_log2. fold r. fold j. lia. }
    rewrite <- Hc. apply in_past_cut; [exact Bj|]. rewrite Hc. pose proof (roundup_gt n d Bn). lia.
  - (* x is longer than n: a power of two or a skip-list element *)
    assert (HL : N.log2 x = d).
    { apply N.log2_bits_unique; [exact Bx|]. intros k Hk. rewrite Hhi by exact Hk.
      apply N.bits_above_log2. lia. }
    assert (Hpx : 2 ^ d <= x) by (rewrite <- HL; apply N.log2_spec; lia).
    assert (Hnp : n < 2 ^ d).
    { destruct (N.log2_spec n ltac:(lia)) as [_ H]. assert (2 ^ N.succ (N.log2 n) <= 2 ^ d) by (apply N.pow_le_mono_r; lia). lia. }
    assert (HdE : d <= N.log2 E) by (rewrite <- HL; apply N.log2_le_mono; exact HE).
    destruct (hd_error (firstn (S ei - S ni) (skipn (S ni) SKIP))) as [s1|] eqn:Ehd.
    + destruct (N.ltb_spec (2 ^ d) s1) as [Hs1|Hs1].
      * exists (2 ^ d). split; [apply in_future_pow; auto; rewrite Ehd; exact Hs1|].
        split; [exact Hnp|]. split; [exact Hpx|].
        destruct (N.eq_dec (2 ^ d) x) as [|Hne]; [now left|right]. rewrite <- HL in *. now apply in_past_pow.
      * (* the largest skip-list element <= x *)
        assert (Hs1in : In s1 (firstn (S ei - S ni) (skipn (S ni) SKIP))).
        { destruct (firstn _ _) as [|h t]; [discriminate|]. inversion Ehd; subst. now left. }
        apply Hsl in Hs1in. destruct Hs1in as (S1 & S2 & S3).
        destruct (skipmax_spec SKIP x SKIP_sorted Cx) as [K1 K2]. fold xi in K1, K2.
        pose proof (in_firstn' _ _ _ K1) as KS.
        apply (count_le_spec SKIP x SKIP_sorted _ KS) in K1.
        assert (Hs1K : s1 <= nth xi SKIP 0).
        { apply K2. apply (count_le_spec SKIP x SKIP_sorted s1 S1). lia. }
        exists (nthN SKIP xi). unfold nthN. split; [apply in_future_slice; apply Hsl; repeat split; auto; lia|].
        split; [lia|]. split; [exact K1|].
        destruct (N.eq_dec (nth xi SKIP 0) x) as [|Hne]; [now left|right]. now apply in_past_skip.
    + exists (2 ^ d). split; [apply in_future_pow; auto; rewrite Ehd; exact I|].
      split; [exact Hnp|]. split; [exact Hpx|].
      destruct (N.eq_dec (2 ^ d) x) as [|Hne]; [now left|right]. rewrite <- HL in *. now apply in_past_pow.
Qed.

(* C08, history vs history: a proof with latest version n (future markers of n shown absent)
   and a proof for a range [s', m] with m > n (versions s'..m and the past markers of s' shown
   present) contradict each other on some version v. *)
Theorem hist_hist_conflict E n m s' :
  1 <= n -> n < m -> m <= E -> 1 <= s' -> s' <= m ->
  exists v, In v (future_of n E) /\ ((s' <= v /\ v <= m) \/ In v (past_of s')).
Proof.
  intros Hn Hnm HmE Hs Hsm. destruct (N.ltb_spec n s') as [Hlt|Hge].
  - destruct (future_witness n E s' ltac:(lia) Hlt ltac:(lia)) as (v & V1 & V2 & V3 & V4).
    exists v. split; [exact V1|]. destruct V4 as [V4|V4]; [left; lia|right; exact V4].
  - destruct (future_witness n E m ltac:(lia) Hnm HmE) as (v & V1 & V2 & V3 & _).
    exists v. split; [exact V1|]. left. lia.
Qed.

(* every future marker lies in (n, E] is not needed for the conflict; the next version is always
   a future marker (dropping the newest entry is detected) *)
Lemma next_is_future n E : 1 <= n -> n + 1 <= E -> In (n + 1) (future_of n E).
Proof.
  intros Hn HE. destruct (future_witness n E (n + 1) ltac:(lia) ltac:(lia) HE) as (v & V1 & V2 & V3 & _).
  assert (v = n + 1) by lia. subst. exact V1.
Qed.

(* lookup (version m) vs complete history (latest n), m < n: the lookup shows stale(m) absent,
   the history shows stale(v-1) present for every v in [2, n] *)
Theorem lookup_lt_conflict n m : 1 <= m -> m < n -> exists v, 2 <= v /\ v <= n /\ v - 1 = m.
Proof. intros. exists (m + 1). lia. Qed.

(* lookup (version m > n) vs history with latest n: outside class K1 the versions the lookup
   shows present (m and its marker) meet the versions the history shows absent *)
Theorem lookup_gt_conflict E n m :
  n < m -> m <= E -> K1_class E n m = false ->
  exists v, In v (future_of n E) /\ (v = m \/ v = lookup_marker m).
Proof.
  intros H1 H2 HK. unfold K1_class in HK.
  destruct (N.ltb_spec n m); [|lia]. destruct (N.leb_spec m E); [|lia]. cbn [andb] in HK.
  destruct (memN m (future_of n E)) eqn:E1; cbn [negb andb] in HK.
  - unfold memN in E1. apply existsb_exists in E1. destruct E1 as (v & Hv & Ev). apply N.eqb_eq in Ev.
    exists v. auto.
  - destruct (memN (lookup_marker m) (future_of n E)) eqn:E2; [|discriminate].
    unfold memN in E2. apply existsb_exists in E2. destruct E2 as (v & Hv & Ev). apply N.eqb_eq in Ev.
    exists v. auto.
Qed.

Lemma K1_witness : K1_class 7 4 7 = true.
Proof. vm_compute. reflexivity. Qed.

(* the class is not hit by the immediate successor: a lookup for n+1 always conflicts *)
Lemma K1_not_successor E n : 1 <= n -> n + 1 <= E -> K1_class E n (n + 1) = false.
Proof.
  intros Hn HE. unfold K1_class. pose proof (next_is_future n E Hn HE) as H.
  assert (memN (n + 1) (future_of n E) = true) as ->.
  { unfold memN. apply existsb_exists. exists (n + 1). split; [exact H|apply N.eqb_refl]. }
  cbn [negb]. rewrite andb_false_r. reflexivity.
Qed.
