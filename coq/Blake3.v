(* BLAKE3 (hash mode, no key, any length) in Gallina, for the executable runs of the model.
   Validated against the blake3 crate by the X-hash correspondence; no theorem depends on it
   (all theorems are parametric in the hash function). *)
From Coq Require Import List NArith Lia.
Import ListNotations.
Open Scope N_scope.

Definition mask32 : N := 4294967295.
Definition add32 (a b : N) : N := N.land (a + b) mask32.
Definition rotr32 (x : N) (n : N) : N := N.lor (N.shiftr x n) (N.land (N.shiftl x (32 - n)) mask32).

Definition IV : list N := [1779033703; 3144134277; 1013904242; 2773480762; 1359893119; 2600822924; 528734635; 1541459225].
Definition PERM : list nat := [2;6;3;10;7;0;4;13;1;11;12;5;9;14;15;8]%nat.

Definition nthN (l : list N) (i : nat) : N := nth i l 0.
Fixpoint upd (l : list N) (i : nat) (v : N) : list N :=
  match l, i with
  | [], _ => []
  | _ :: t, O => v :: t
  | h :: t, S i' => h :: upd t i' v
  end.

Definition G (s : list N) (a b c d : nat) (mx my : N) : list N :=
  let va := add32 (add32 (nthN s a) (nthN s b)) mx in
  let vd := rotr32 (N.lxor (nthN s d) va) 16 in
  let vc := add32 (nthN s c) vd in
  let vb := rotr32 (N.lxor (nthN s b) vc) 12 in
  let va := add32 (add32 va vb) my in
  let vd := rotr32 (N.lxor vd va) 8 in
  let vc := add32 vc vd in
  let vb := rotr32 (N.lxor vb vc) 7 in
  upd (upd (upd (upd s a va) b vb) c vc) d vd.

Definition round (s m : list N) : list N :=
  let s := G s 0 4 8 12 (nthN m 0) (nthN m 1) in
  let s := G s 1 5 9 13 (nthN m 2) (nthN m 3) in
  let s := G s 2 6 10 14 (nthN m 4) (nthN m 5) in
  let s := G s 3 7 11 15 (nthN m 6) (nthN m 7) in
  let s := G s 0 5 10 15 (nthN m 8) (nthN m 9) in
  let s := G s 1 6 11 12 (nthN m 10) (nthN m 11) in
  let s := G s 2 7 8 13 (nthN m 12) (nthN m 13) in
  G s 3 4 9 14 (nthN m 14) (nthN m 15).

Definition permute (m : list N) : list N := map (nthN m) PERM.

Fixpoint rounds (n : nat) (s m : list N) : list N :=
  match n with
  | O => s
  | S O => round s m
  | S n' => rounds n' (round s m) (permute m)
  end.

Definition compress (cv block : list N) (counter blen flags : N) : list N :=
  let s := cv ++ firstn 4 IV ++ [N.land counter mask32; N.shiftr counter 32; blen; flags] in
  let s := rounds 7 s block in
  let lo := firstn 8 s in let hi := skipn 8 s in
  map (fun p => N.lxor (fst p) (snd p)) (combine lo hi) ++ map (fun p => N.lxor (fst p) (snd p)) (combine hi cv).

(* bytes -> little endian words, zero padded to 16 words *)
Fixpoint words_of (bs : list N) (n : nat) : list N :=
  match n with
  | O => []
  | S n' => (nthN bs 0 + N.shiftl (nthN bs 1) 8 + N.shiftl (nthN bs 2) 16 + N.shiftl (nthN bs 3) 24) :: words_of (skipn 4 bs) n'
  end.
Definition bytes_of_word (w : N) : list N := [N.land w 255; N.land (N.shiftr w 8) 255; N.land (N.shiftr w 16) 255; N.land (N.shiftr w 24) 255].

Definition CHUNK_START := 1. Definition CHUNK_END := 2. Definition PARENT := 4. Definition ROOT := 8.

(* process the blocks of one chunk; bs non-final blocks have 64 bytes *)
Fixpoint chunk_blocks (fuel : nat) (cv : list N) (bs : list N) (ctr : N) (first : bool) (rootf : N) : list N :=
  match fuel with
  | O => cv
  | S f =>
    let len := length bs in
    if Nat.leb len 64 then
      compress cv (words_of bs 16) ctr (N.of_nat len)
        (N.lor (N.lor (if first then CHUNK_START else 0) CHUNK_END) rootf)
    else
      let cv' := firstn 8 (compress cv (words_of (firstn 64 bs) 16) ctr 64 (if first then CHUNK_START else 0)) in
      chunk_blocks f cv' (skipn 64 bs) ctr false rootf
  end.
Definition chunk_cv (bs : list N) (ctr : N) (rootf : N) : list N := firstn 8 (chunk_blocks 17 IV bs ctr true rootf).

(* largest power of two number of chunks strictly less than total: left length in bytes *)
Fixpoint pow2_below (fuel : nat) (p : nat) (n : nat) : nat := (* largest p*2^k < n *)
  match fuel with O => p | S f => if Nat.ltb (2*p) n then pow2_below f (2*p) n else p end.

Fixpoint tree_cv (fuel : nat) (bs : list N) (ctr : N) (rootf : N) : list N :=
  match fuel with
  | O => []
  | S f =>
    let len := length bs in
    if Nat.leb len 1024 then chunk_cv bs ctr rootf
    else
      let l := pow2_below 64 1024 len in
      let lcv := tree_cv f (firstn l bs) ctr 0 in
      let rcv := tree_cv f (skipn l bs) (ctr + N.of_nat (Nat.div l 1024)) 0 in
      firstn 8 (compress IV (lcv ++ rcv) 0 64 (N.lor PARENT rootf))
  end.

Definition blake3 (bs : list N) : list N := flat_map bytes_of_word (tree_cv 64 bs 0 ROOT).
