(* Facts about the element-set model (C17, used by the insertion refinement): the binary search of
   the pinned toolchain finds the partition point of any partitioned list; on a sorted set the
   search-based partition and longest-common-prefix equal the filter-based ones of the unsorted
   representation. *)
From Coq Require Import List Bool Arith NArith Lia.
From Akd Require Import Bits NodeLabel NodeLabelFacts ElemSet.
Import ListNotations.
Local Open Scope nat_scope.

(* ------------------------------------------------------------------ binary search *)
Section BinarySearch.
  Context {A : Type}.
  Variable p : A -> bool.
  Variable d : A.
  Variable l : list A.
  Let f := fun x => if p x then Lt else Gt.

  (* k is the partition point of l: p holds exactly on the first k elements *)
  Definition boundary (k : nat) : Prop :=
    k <= length l /\ (forall i, i < k -> p (nth i l d) = true) /\
    (forall i, k <= i -> i < length l -> p (nth i l d) = false).

  Lemma bs_loop_spec k : boundary k -> forall fuel base size,
    size <= fuel -> 1 <= size -> base <= k -> k <= base + size -> base + size <= length l ->
    let b := bs_loop f d l fuel base size in b <= k /\ k <= b + 1 /\ b < length l.
  Proof.
    intros (Hk & Ht & Hf). induction fuel as [|fuel IH]; intros base size Hfu Hs Hb1 Hb2 Hlen; [lia|].
    cbn [bs_loop]. destruct (size <=? 1) eqn:E.
    - apply Nat.leb_le in E. cbv zeta. lia.
    - apply Nat.leb_gt in E.
      assert (Hhalf : 1 <= Nat.div2 size /\ 2 * Nat.div2 size <= size).
      { pose proof (Nat.div2_odd size) as Ho. destruct (Nat.odd size); cbn [Nat.b2n] in Ho;
          (split; [destruct (Nat.div2 size); lia | lia]). }
      destruct Hhalf as [Hh1 Hh2].
      set (half := Nat.div2 size) in *. clearbody half. set (mid := base + half).
      assert (Hml : mid < length l) by (subst mid; lia).
      change (f (nth mid l d)) with (if p (nth mid l d) then Lt else Gt). destruct (p (nth mid l d)) eqn:Ep.
      + (* p mid: mid < k *)
        assert (Hmk : mid < k).
        { destruct (Nat.lt_ge_cases mid k) as [|Hge]; [assumption|].
          rewrite (Hf mid Hge Hml) in Ep. discriminate. }
        apply IH; subst mid; lia.
      + assert (Hmk : k <= mid).
        { destruct (Nat.lt_ge_cases mid k) as [Hlt|]; [|assumption]. rewrite (Ht mid Hlt) in Ep. discriminate. }
        apply IH; subst mid; lia.
  Qed.

  Theorem partition_point_spec k : boundary k -> partition_point p d l = k.
  Proof.
    intros HB. pose proof HB as (Hk & Ht & Hf).
    unfold partition_point, binary_search_by. destruct l as [|x r] eqn:El; [cbn in Hk; cbn; lia|].
    rewrite <- El in *.
    assert (Hlen : 1 <= length l) by (rewrite El; cbn; lia).
    destruct (bs_loop_spec k HB (length l) 0 (length l) ltac:(lia) Hlen ltac:(lia) ltac:(lia) ltac:(lia)) as (B1 & B2 & B3).
    fold f. set (b := bs_loop f d l (length l) 0 (length l)) in *.
    change (f (nth b l d)) with (if p (nth b l d) then Lt else Gt). destruct (p (nth b l d)) eqn:Ep; cbn [snd].
    - destruct (Nat.lt_ge_cases b k) as [|Hge]; [lia|]. rewrite (Hf b Hge B3) in Ep. discriminate.
    - destruct (Nat.lt_ge_cases b k) as [Hlt|]; [|lia]. rewrite (Ht b Hlt) in Ep. discriminate.
  Qed.
End BinarySearch.

(* a list on which p never turns true again after being false has its boundary at the number of
   elements satisfying p, and the search-free partition is firstn / skipn *)
Fixpoint prefix_closed {A} (p : A -> bool) (l : list A) : Prop :=
  match l with
  | [] => True
  | x :: r => (p x = false -> forallb (fun y => negb (p y)) r = true) /\ prefix_closed p r
  end.

Lemma prefix_closed_boundary {A} (p : A -> bool) d (l : list A) :
  prefix_closed p l ->
  boundary p d l (length (filter p l)) /\ filter p l = firstn (length (filter p l)) l /\
  filter (fun x => negb (p x)) l = skipn (length (filter p l)) l.
Proof.
  induction l as [|x r IH]; intros H.
  - cbn [filter length firstn skipn]. split; [|split; reflexivity].
    split; [apply Nat.le_refl|]. split; intros i Hi; [inversion Hi | intros Hi2; inversion Hi2].
  - destruct H as [Hx Hr]. specialize (IH Hr). destruct IH as ((Bk & Bt & Bf) & E1 & E2).
    cbn [filter]. destruct (p x) eqn:Ep.
    + cbn [length negb firstn skipn]. repeat split.
      * cbn [length]. lia.
      * intros [|i] Hi; cbn [nth]; [exact Ep | apply Bt; lia].
      * intros [|i] Hi1 Hi2; [lia|]. cbn [nth]. cbn [length] in Hi2. apply Bf; lia.
      * f_equal. exact E1.
      * exact E2.
    + specialize (Hx eq_refl).
      assert (Hnone : filter p r = []).
      { clear - Hx. induction r as [|y r IH]; [reflexivity|]. cbn [forallb] in Hx. apply andb_true_iff in Hx.
        destruct Hx as [Hy Hr]. cbn [filter]. destruct (p y); [discriminate|]. apply IH. exact Hr. }
      rewrite Hnone in *. cbn [length] in Bk, Bt, Bf. cbn [length negb firstn skipn]. repeat split.
      * lia.
      * intros i Hi. lia.
      * intros [|i] _ Hi2; cbn [nth]; [exact Ep|]. cbn [length] in Hi2. apply Bf; lia.
      * f_equal. cbn [length skipn] in E2. exact E2.
Qed.

(* ------------------------------------------------------------------ lexicographic order and prefixes *)

Lemma lex_between : forall a b x, length a = length x -> length b = length x ->
  lex_cmp a x <> Gt -> lex_cmp x b <> Gt -> prefixb (lcp a b) x = true.
Proof.
  induction a as [|ha a IH]; intros [|hb b] [|hx x] La Lb H1 H2; cbn [length] in *; try lia; try reflexivity.
  cbn [lcp]. destruct (Bool.eqb ha hb) eqn:E; [|reflexivity]. apply eqb_prop in E. subst hb.
  cbn [prefixb lex_cmp] in *.
  destruct ha, hx; cbn [Bool.eqb andb]; try (exfalso; (apply H1; reflexivity) || (apply H2; reflexivity));
    apply IH; try lia; assumption.
Qed.

(* below a common prefix p, strings continuing with 0 come before strings continuing with 1 *)
Lemma lex_branch : forall p x y, prefixb (p ++ [true]) x = true -> prefixb (p ++ [false]) y = true -> lex_cmp x y = Gt.
Proof.
  induction p as [|h p IH]; intros [|hx x] [|hy y] Hx Hy; cbn [app prefixb] in *; try discriminate.
  - apply andb_true_iff in Hx, Hy. destruct Hx as [Hx _]. destruct Hy as [Hy _].
    apply eqb_prop in Hx, Hy. subst. reflexivity.
  - apply andb_true_iff in Hx, Hy. destruct Hx as [Hx Hx']. destruct Hy as [Hy Hy'].
    apply eqb_prop in Hx, Hy. subst hx hy. cbn [lex_cmp]. destruct h; apply IH; assumption.
Qed.

(* ------------------------------------------------------------------ sorted sets of equal-length labels *)

(* the elements the directory inserts: well-formed canonical labels of one length, strictly sorted *)
Definition good_label (len : N) (x : elem) : Prop :=
  WF (e_label x) /\ canonical (e_label x) = true /\ llen (e_label x) = len.

Inductive sorted_bits : list elem -> Prop :=
| sb_nil : sorted_bits []
| sb_cons x l : (forall y, In y l -> lex_cmp (bits_of (e_label x)) (bits_of (e_label y)) = Lt) -> sorted_bits l -> sorted_bits (x :: l).

Lemma sorted_bits_tail x l : sorted_bits (x :: l) -> sorted_bits l.
Proof. inversion 1; assumption. Qed.

Lemma lex_cmp_antisym : forall a b, lex_cmp a b = CompOpp (lex_cmp b a).
Proof. induction a as [|x a IH]; intros [|y b]; cbn; try reflexivity. destruct x, y; cbn; auto. Qed.

(* direction predicate used by the binary search of partition *)
Definition goes_left (p : bits) (x : elem) : bool :=
  match pord p (bits_of (e_label x)) with Some true => false | _ => true end.

Lemma sorted_prefix_closed p l :
  sorted_bits l -> (forall x, In x l -> prefixb p (bits_of (e_label x)) = true) ->
  prefix_closed (goes_left p) l.
Proof.
  induction 1 as [|x l Hx Hs IH]; intros Hp; [exact I|]. split.
  - intros Hfalse. apply forallb_forall. intros y Hy.
    unfold goes_left in *. destruct (pord p (bits_of (e_label x))) as [[|]|] eqn:Ex; try discriminate.
    destruct (pord p (bits_of (e_label y))) as [[|]|] eqn:Ey; try reflexivity; exfalso.
    + (* y continues with 0 although x < y continues with 1 *)
      pose proof (Hx y Hy) as Hlt.
      assert (G : lex_cmp (bits_of (e_label x)) (bits_of (e_label y)) = Gt).
      { apply (lex_branch p); apply prefixb_Prefix; apply pord_Some; assumption. }
      congruence.
    + (* y does not properly extend p: then y = p, shorter than or equal to ... x extends p properly and x < y *)
      pose proof (Hx y Hy) as Hlt.
      assert (Py : prefixb p (bits_of (e_label y)) = true) by (apply Hp; right; exact Hy).
      unfold pord in Ey. rewrite Py in Ey.
      destruct (length (bits_of (e_label y)) <=? length p) eqn:El; [|discriminate].
      apply Nat.leb_le in El. pose proof (prefixb_length _ _ Py) as Hl.
      assert (Eyp : bits_of (e_label y) = p).
      { apply prefixb_antisym; [|exact Py]. apply prefixb_Prefix. apply prefixb_Prefix in Py. destruct Py as [c Hc].
        destruct c as [|c0 c]; [exists []; rewrite Hc, app_nil_r; rewrite app_nil_r; reflexivity|].
        rewrite Hc, app_length in El. cbn [length] in El. lia. }
      (* x = p ++ [true] ++ ..., y = p: y is a proper prefix of x, so y < x *)
      apply pord_Some in Ex. destruct Ex as [c Hc]. rewrite Eyp, Hc in Hlt.
      clear - Hlt. induction p as [|h p IHp]; cbn in Hlt; [discriminate|]. destruct h; auto.
  - apply IH. intros y Hy. apply Hp. right. exact Hy.
Qed.

(* ------------------------------------------------------------------ labels: common prefix of canonical labels *)
Local Open Scope N_scope.

Lemma canonical_not_empty empty a : canonical empty = false -> canonical a = true -> nl_eqb a empty = false.
Proof.
  intros He Ha. destruct (nl_eqb a empty) eqn:E; [|reflexivity]. apply nl_eqb_eq in E. congruence.
Qed.

Lemma glcp_good empty a b :
  WF a -> WF b -> canonical a = true -> canonical b = true -> canonical empty = false ->
  let r := get_longest_common_prefix empty a b in
  bits_of r = lcp (bits_of a) (bits_of b) /\ WF r /\ canonical r = true.
Proof.
  intros Ha Hb Ca Cb Ce. cbv zeta.
  assert (E : nl_eqb a empty || nl_eqb b empty = false).
  { rewrite (canonical_not_empty empty a Ce Ca), (canonical_not_empty empty b Ce Cb). reflexivity. }
  destruct (get_longest_common_prefix_spec empty a b Ha Hb) as [_ S]. destruct (S E) as [Sb _].
  split; [exact Sb|].
  unfold get_longest_common_prefix. rewrite E.
  destruct (WF_parts a Ha) as (A1 & A2 & A3). destruct (WF_parts b Hb) as (B1 & B2 & B3).
  set (sh := if llen a <? llen b then llen a else llen b).
  assert (Hsa : sh <= llen a) by (subst sh; destruct (N.ltb_spec (llen a) (llen b)); lia).
  assert (Hsb : sh <= llen b) by (subst sh; destruct (N.ltb_spec (llen a) (llen b)); lia).
  pose proof (lcp_loop_spec 257 a b sh 0 Ha Hb Hsa Hsb ltac:(lia) ltac:(lia)) as H.
  cbv zeta in H. set (q := lcp_loop 257 a b sh 0) in *. destruct H as (_ & Q2 & _).
  destruct (N.ltb_spec q 256) as [Hq|Hq].
  - split; [apply get_prefix_wf; assumption|]. destruct (get_prefix_spec a q Ha ltac:(lia) Hq) as (_ & P2 & _). exact P2.
  - rewrite get_prefix_full by exact Hq. split; assumption.
Qed.
