(* Facts about the directory-level model used by C01-C04. *)
From Coq Require Import List Bool Arith NArith Lia.
From Akd Require Import Bits NodeLabel NodeLabelFacts ElemSet Hashing Tree TreeFacts TreeComplete Insert Marker Directory Verify.
Import ListNotations.
Open Scope N_scope.

Section DirFacts.
  Variable cfg : config.
  Variable ck : bytes.
  Variable vrf_label : bytes -> bool -> N -> option nlabel.
  Variable vrf_proof : bytes -> bool -> N -> option bytes.
  Notation publish := (publish cfg ck vrf_label).
  Notation lookup := (lookup cfg ck vrf_label vrf_proof).
  Notation key_history := (key_history cfg ck vrf_label vrf_proof).

  (* C01: a batch that repeats a label is rejected without effect *)
  Theorem publish_duplicate st upds : has_dup (map fst upds) = true -> publish st upds = (st, DErrDuplicate).
  Proof. intros H. unfold Directory.publish. rewrite H. reflexivity. Qed.

  (* C01: a publish that derives no element (only re-submissions of current values) changes nothing
     and returns the current epoch hash *)
  Theorem publish_noop st upds news : has_dup (map fst upds) = false ->
    derive_all cfg ck vrf_label st upds = Some ([], news) ->
    publish st upds = (st, DOk (epoch_hash cfg st)).
  Proof. intros H1 H2. unfold Directory.publish. rewrite H1, H2. reflexivity. Qed.

  Lemma batch_insert_epoch empty t e n elems t' e' n' :
    batch_insert empty (t, e, n) elems = Some (t', e', n') -> e' = e + 1.
  Proof.
    unfold batch_insert. destruct (eset_is_empty (eset_from elems)).
    - intros [= _ <- _]. reflexivity.
    - destruct (ins empty ins_fuel (Some t) (eset_from elems) (e + 1)) as [[[r b] k]|]; [|discriminate].
      intros [= _ <- _]. reflexivity.
  Qed.

  (* C01: a publish that changes something advances the epoch by exactly one, appends exactly the
     derived value states (all stamped with the new epoch by derive_update) and returns the new
     epoch with the root hash of the new tree *)
  Theorem publish_changes st upds st' e h :
    publish st upds = (st', DOk (e, h)) -> st' <> st ->
    d_epoch st' = d_epoch st + 1 /\ e = d_epoch st' /\ h = root_hash cfg true (d_tree st') /\
    exists news, d_states st' = d_states st ++ news.
  Proof.
    unfold Directory.publish. destruct (has_dup (map fst upds)); [discriminate|].
    destruct (derive_all cfg ck vrf_label st upds) as [[elems news]|]; [|discriminate].
    destruct elems as [|x xs]; [intros [= <- _ _] Hne; congruence|].
    destruct (batch_insert (c_empty_label cfg) (d_tree st, d_epoch st, d_num st) (x :: xs)) as [[[t' e'] n']|] eqn:E; [|discriminate].
    intros [= <- <- <-] _. cbn [d_epoch d_tree d_states]. apply batch_insert_epoch in E. subst e'.
    repeat split. exists news. reflexivity.
  Qed.

  (* C02: a label without any state at or before the current epoch is refused *)
  Theorem lookup_absent st l : latest_state (d_states st) l (d_epoch st) = None -> lookup st l = DErrNotFound.
  Proof. intros H. unfold Directory.lookup. rewrite H. reflexivity. Qed.

  (* C02: a returned lookup proof reports the label's latest state and the current epoch hash, and
     its two membership parts verify against that hash *)
  Theorem lookup_ok st l p eh : tlabel (d_tree st) = nl_root -> is_leaf (d_tree st) = false ->
    lookup st l = DOk (p, eh) ->
    eh = epoch_hash cfg st /\
    (exists s, latest_state (d_states st) l (d_epoch st) = Some s /\
               lp_epoch p = vr_epoch s /\ lp_version p = vr_version s /\ lp_value p = vr_value s) /\
    verify_membership cfg (snd eh) (lp_existence p) = true /\
    verify_membership cfg (snd eh) (lp_marker p) = true.
  Proof.
    intros Hr Hl. unfold Directory.lookup. destruct (latest_state (d_states st) l (d_epoch st)) as [s|]; [|discriminate].
    destruct (vrf_label l true (vr_version s)) as [el|]; [|discriminate].
    destruct (vrf_label l true (lookup_marker (vr_version s))) as [ml|]; [|discriminate].
    destruct (vrf_label l false (vr_version s)) as [nl|]; [|discriminate].
    destruct (vrf_proof l true (vr_version s)) as [ep|]; [|discriminate].
    destruct (vrf_proof l true (lookup_marker (vr_version s))) as [mp|]; [|discriminate].
    destruct (vrf_proof l false (vr_version s)) as [np|]; [|discriminate].
    intros [= <- <-]. cbn [lp_epoch lp_version lp_value lp_existence lp_marker snd epoch_hash].
    split; [reflexivity|]. split; [exists s; auto|]. split; now apply gen_membership_verifies.
  Qed.

  (* C03: no state at or before the current epoch -> refused *)
  Theorem key_history_absent st l params : user_history (d_states st) l (d_epoch st) = [] ->
    key_history st l params = DErrNotFound.
  Proof.
    intros H. unfold Directory.key_history. rewrite H. destruct params; [reflexivity|]. rewrite firstn_nil. reflexivity.
  Qed.

End DirFacts.

Section AuditFacts.
  Variable cfg : config.

  (* C04: requests with s >= e or e beyond the current epoch are refused; an accepted request
     yields one single-epoch proof per epoch s .. e-1 *)
  Theorem audit_range st s e : e <= s \/ d_epoch st < e -> audit cfg st s e = DErrInvalidEpoch.
  Proof.
    intros H. unfold audit. destruct (N.leb_spec e s); [reflexivity|]. destruct (N.ltb_spec (d_epoch st) e); [reflexivity|lia].
  Qed.

  Theorem audit_shape st s e p : audit cfg st s e = DOk p ->
    s < e /\ e <= d_epoch st /\ ap_epochs p = Nrange' s (N.to_nat (e - s)) /\
    length (ap_proofs p) = length (ap_epochs p) /\ length (ap_epochs p) = N.to_nat (e - s).
  Proof.
    unfold audit. destruct (N.leb_spec e s); [discriminate|]. destruct (N.ltb_spec (d_epoch st) e); [discriminate|].
    intros Hp. assert (Hp' : p = AP (map (fun ep => let '(unch, ins) := ao_walk cfg 300 true (d_tree st) ep (ep + 1) in (ins, unch)) (Nrange' s (N.to_nat (e - s)))) (Nrange' s (N.to_nat (e - s)))) by congruence.
    clear Hp. subst p. unfold ap_epochs, ap_proofs. split; [assumption|]. split; [assumption|]. split; [reflexivity|].
    split; [now rewrite map_length|]. unfold Nrange'. now rewrite map_length, seq_length.
  Qed.

  (* C04/C09: inconsistent hash / epoch / proof lists are rejected *)
  Theorem audit_verify_lengths pf hashes p :
    audit_verify_gen cfg pf hashes p = true ->
    length hashes = S (length (ap_epochs p)) /\ length (ap_proofs p) = length (ap_epochs p).
  Proof.
    unfold audit_verify_gen. intros H. apply andb_true_iff in H. destruct H as [H _].
    apply andb_true_iff in H. destruct H as [H1 H2]. apply Nat.eqb_eq in H1, H2. lia.
  Qed.
End AuditFacts.
