(* Facts about the directory-level model used by C01-C04. *)
From Coq Require Import List Bool Arith NArith Lia.
From Akd Require Import Bits NodeLabel NodeLabelFacts ElemSet Hashing Tree TreeFacts TreeComplete Insert Marker Directory Verify.
Import ListNotations.
Open Scope N_scope.

Section DirFacts.
  Variable cfg : config.
  Variable ck : bytes.
  Variable vrf_label : bytes -> bool -> N -> option nlabel.
  Variable vrf_proof : bytes -> bool -> N -> option bytes.
  Notation publish := (publish cfg ck vrf_label).
  Notation lookup := (lookup cfg ck vrf_label vrf_proof).
  Notation key_history := (key_history cfg ck vrf_label vrf_proof).

  (* C01: a batch that repeats a label is rejected without effect *)
  Theorem publish_duplicate st upds : has_dup (map fst upds) = true -> publish st upds = (st, DErrDuplicate).
  Proof. intros H. unfold Directory.publish. rewrite H. reflexivity. Qed.

  (* C01: a publish that derives no element (only re-submissions of current values) changes nothing
     and returns the current epoch hash *)
  Theorem publish_noop st upds news : has_dup (map fst upds) = false ->
    derive_all cfg ck vrf_label st upds = Some ([], news) ->
    publish st upds = (st, DOk (epoch_hash cfg st)).
  Proof. intros H1 H2. unfold Directory.publish. rewrite H1, H2. reflexivity. Qed.

  Lemma batch_insert_epoch empty t e n elems t' e' n' :
    batch_insert empty (t, e, n) elems = Some (t', e', n') -> e' = e + 1.
  Proof.
    unfold batch_insert. destruct (eset_is_empty (eset_from elems)).
    - intros [= _ <- _]. reflexivity.
    - destruct (ins empty ins_fuel (Some t) (eset_from elems) (e + 1)) as [[[r b] k]|]; [|discriminate].
      intros [= _ <- _]. reflexivity.
  Qed.

  (* C01: a publish that changes something advances the epoch by exactly one, appends exactly the
     derived value states (all stamped with the new epoch by derive_update) and returns the new
     epoch with the root hash of the new tree *)
  Theorem publish_changes st upds st' e h :
    publish st upds = (st', DOk (e, h)) -> st' <> st ->
    d_epoch st' = d_epoch st + 1 /\ e = d_epoch st' /\ h = root_hash cfg true (d_tree st') /\
    exists news, d_states st' = d_states st ++ news.
  Proof.
    unfold Directory.publish. destruct (has_dup (map fst upds)); [discriminate|].
    destruct (derive_all cfg ck vrf_label st upds) as [[elems news]|]; [|discriminate].
    destruct elems as [|x xs]; [intros [= <- _ _] Hne; congruence|].
    destruct (batch_insert (c_empty_label cfg) (d_tree st, d_epoch st, d_num st) (x :: xs)) as [[[t' e'] n']|] eqn:E; [|discriminate].
    intros [= <- <- <-] _. cbn [d_epoch d_tree d_states]. apply batch_insert_epoch in E. subst e'.
    repeat split. exists news. reflexivity.
  Qed.

  (* C02: a label without any state at or before the current epoch is refused *)
  Theorem lookup_absent st l : latest_state (d_states st) l (d_epoch st) = None -> lookup st l = DErrNotFound.
  Proof. intros H. unfold Directory.lookup. rewrite H. reflexivity. Qed.

  (* C02: a returned lookup proof reports the label's latest state and the current epoch hash, and
     its two membership parts verify against that hash *)
  Theorem lookup_ok st l p eh : tlabel (d_tree st) = nl_root -> is_leaf (d_tree st) = false ->
    lookup st l = DOk (p, eh) ->
    eh = epoch_hash cfg st /\
    (exists s, latest_state (d_states st) l (d_epoch st) = Some s /\
               lp_epoch p = vr_epoch s /\ lp_version p = vr_version s /\ lp_value p = vr_value s) /\
    verify_membership cfg (snd eh) (lp_existence p) = true /\
    verify_membership cfg (snd eh) (lp_marker p) = true.
  Proof.
    intros Hr Hl. unfold Directory.lookup. destruct (latest_state (d_states st) l (d_epoch st)) as [s|]; [|discriminate].
    destruct (vrf_label l true (vr_version s)) as [el|]; [|discriminate].
    destruct (vrf_label l true (lookup_marker (vr_version s))) as [ml|]; [|discriminate].
    destruct (vrf_label l false (vr_version s)) as [nl|]; [|discriminate].
    destruct (vrf_proof l true (vr_version s)) as [ep|]; [|discriminate].
    destruct (vrf_proof l true (lookup_marker (vr_version s))) as [mp|]; [|discriminate].
    destruct (vrf_proof l false (vr_version s)) as [np|]; [|discriminate].
    intros [= <- <-]. cbn [lp_epoch lp_version lp_value lp_existence lp_marker snd epoch_hash].
    split; [reflexivity|]. split; [exists s; auto|]. split; now apply gen_membership_verifies.
  Qed.

  (* C03: no state at or before the current epoch -> refused *)
  Theorem key_history_absent st l params : user_history (d_states st) l (d_epoch st) = [] ->
    key_history st l params = DErrNotFound.
  Proof.
    intros H. unfold Directory.key_history. rewrite H. destruct params; [reflexivity|]. rewrite firstn_nil. reflexivity.
  Qed.


  (* ---------------------------------------------------------------- C20: tombstoning *)

  Lemma tomb_user l c s : vr_user (tomb_state l c s) = vr_user s.
  Proof. unfold tomb_state. destruct (_ && _); reflexivity. Qed.
  Lemma tomb_epoch l c s : vr_epoch (tomb_state l c s) = vr_epoch s.
  Proof. unfold tomb_state. destruct (_ && _); reflexivity. Qed.
  Lemma tomb_version l c s : vr_version (tomb_state l c s) = vr_version s.
  Proof. unfold tomb_state. destruct (_ && _); reflexivity. Qed.
  Lemma tomb_label l c s : vr_label (tomb_state l c s) = vr_label s.
  Proof. unfold tomb_state. destruct (_ && _); reflexivity. Qed.

  Definition latest_step (u : bytes) (e : N) (acc : option vrec) (s : vrec) : option vrec :=
    if bytes_eqb (vr_user s) u && (vr_epoch s <=? e) then
      match acc with Some a => if vr_epoch a <=? vr_epoch s then Some s else acc | None => Some s end
    else acc.

  Lemma latest_fold_tomb l c u e sts : forall acc,
    fold_left (latest_step u e) (map (tomb_state l c) sts) (option_map (tomb_state l c) acc) =
    option_map (tomb_state l c) (fold_left (latest_step u e) sts acc).
  Proof.
    induction sts as [|s sts IH]; intros acc; simpl; [reflexivity|]. rewrite <- IH. f_equal.
    unfold latest_step. rewrite tomb_user, tomb_epoch. destruct (bytes_eqb (vr_user s) u && (vr_epoch s <=? e)); [|reflexivity].
    destruct acc as [a|]; simpl; [|reflexivity]. rewrite tomb_epoch. destruct (vr_epoch a <=? vr_epoch s); reflexivity.
  Qed.

  Lemma latest_state_tomb l c sts u e :
    latest_state (map (tomb_state l c) sts) u e = option_map (tomb_state l c) (latest_state sts u e).
  Proof. exact (latest_fold_tomb l c u e sts None). Qed.

  Lemma latest_state_user sts u e s : latest_state sts u e = Some s -> bytes_eqb (vr_user s) u = true /\ vr_epoch s <= e.
  Proof.
    unfold latest_state. change (fold_left _ sts None) with (fold_left (latest_step u e) sts None).
    assert (G : forall acc, (forall a, acc = Some a -> bytes_eqb (vr_user a) u = true /\ vr_epoch a <= e) ->
               forall s, fold_left (latest_step u e) sts acc = Some s -> bytes_eqb (vr_user s) u = true /\ vr_epoch s <= e).
    { induction sts as [|x sts IH]; intros acc Hacc s0 H; simpl in H; [now apply Hacc|].
      apply (IH (latest_step u e acc x)); [|exact H]. intros a Ha. unfold latest_step in Ha.
      destruct (bytes_eqb (vr_user x) u && (vr_epoch x <=? e)) eqn:C; [|now apply Hacc].
      apply andb_true_iff in C. destruct C as [C1 C2]. apply N.leb_le in C2.
      destruct acc as [a0|].
      - destruct (vr_epoch a0 <=? vr_epoch x); [injection Ha as <-; auto|now apply Hacc].
      - injection Ha as <-. auto. }
    apply G. intros a Ha. discriminate.
  Qed.

  (* the epoch hash and every audit proof are untouched *)
  Theorem tombstone_epoch_hash st l c : epoch_hash cfg (d_tombstone st l c) = epoch_hash cfg st.
  Proof. reflexivity. Qed.

  (* lookups of other labels, and the label's own lookup when the cut-off is before its latest
     update, return the very same proof *)
  Theorem tombstone_lookup st l c l' :
    (bytes_eqb l' l = false \/
     exists s, latest_state (d_states st) l' (d_epoch st) = Some s /\ c < vr_epoch s) ->
    lookup (d_tombstone st l c) l' = lookup st l'.
  Proof.
    intros H. unfold Directory.lookup. cbn [d_tombstone d_states d_epoch d_tree]. rewrite latest_state_tomb.
    destruct (latest_state (d_states st) l' (d_epoch st)) as [s|] eqn:E; [|reflexivity]. cbn [option_map].
    assert (Hs : tomb_state l c s = s).
    { unfold tomb_state. destruct (latest_state_user _ _ _ _ E) as [Hu _].
      destruct H as [Hne|(s' & Es & Hc)].
      - destruct (bytes_eqb (vr_user s) l) eqn:B; [|reflexivity]. exfalso.
        apply bytes_eqb_eq in Hu, B. assert (E' : l' = l) by congruence. apply bytes_eqb_eq in E'. congruence.
      - injection Es as <-. destruct (N.leb_spec (vr_epoch s) c); [lia|]. now rewrite andb_false_r. }
    rewrite Hs. reflexivity.
  Qed.

  Lemma derive_update_tomb st l c upd :
    latest_state (map (tomb_state l c) (d_states st)) (fst upd) (d_epoch st) = latest_state (d_states st) (fst upd) (d_epoch st) ->
    derive_update cfg ck vrf_label (d_tombstone st l c) upd = derive_update cfg ck vrf_label st upd.
  Proof using cfg ck vrf_label.
    intros H. unfold derive_update. destruct upd as [l' v]. cbn [d_tombstone d_states d_epoch fst] in *. rewrite H. reflexivity.
  Qed.

  Lemma derive_all_tomb st l c upds :
    (forall u, In u (map fst upds) ->
       latest_state (map (tomb_state l c) (d_states st)) u (d_epoch st) = latest_state (d_states st) u (d_epoch st)) ->
    derive_all cfg ck vrf_label (d_tombstone st l c) upds = derive_all cfg ck vrf_label st upds.
  Proof using cfg ck vrf_label.
    induction upds as [|u upds IH]; intros H; [reflexivity|]. cbn [derive_all].
    rewrite derive_update_tomb by (apply H; now left). rewrite IH by (intros u' Hu'; apply H; now right). reflexivity.
  Qed.

  Lemma derive_update_news_epoch st upd elems news : derive_update cfg ck vrf_label st upd = Some (elems, news) ->
    forall s, In s news -> vr_epoch s = d_epoch st + 1.
  Proof using cfg ck vrf_label.
    unfold derive_update. destruct upd as [l v]. destruct (latest_state _ _ _) as [s0|].
    - destruct (bytes_eqb (vr_value s0) v); [intros [= <- <-] s []|].
      destruct (vrf_label l false (vr_version s0)); [|discriminate]. destruct (vrf_label l true (vr_version s0 + 1)); [|discriminate].
      intros [= <- <-] s [<-|[]]. reflexivity.
    - destruct (vrf_label l true 1); [|discriminate]. intros [= <- <-] s [<-|[]]. reflexivity.
  Qed.

  Lemma derive_all_news_epoch st upds : forall elems news, derive_all cfg ck vrf_label st upds = Some (elems, news) ->
    forall s, In s news -> vr_epoch s = d_epoch st + 1.
  Proof using cfg ck vrf_label.
    induction upds as [|u upds IH]; intros elems news H s Hs; cbn [derive_all] in H.
    - injection H as <- <-. destruct Hs.
    - destruct (derive_update cfg ck vrf_label st u) as [[e1 s1]|] eqn:E1; [|discriminate].
      destruct (derive_all cfg ck vrf_label st upds) as [[e2 s2]|] eqn:E2; [|discriminate].
      injection H as <- <-. apply in_app_or in Hs. destruct Hs as [Hs|Hs].
      + eapply derive_update_news_epoch; eauto.
      + eapply IH; eauto.
  Qed.

  (* C20: further publishes commute with tombstoning (cut-off not beyond the current epoch; the
     latest state of every published label is not among the tombstoned ones) *)
  Theorem tombstone_publish_commute st l c upds st' r :
    c <= d_epoch st ->
    (forall u, In u (map fst upds) ->
       latest_state (map (tomb_state l c) (d_states st)) u (d_epoch st) = latest_state (d_states st) u (d_epoch st)) ->
    publish st upds = (st', r) ->
    publish (d_tombstone st l c) upds = (d_tombstone st' l c, r).
  Proof using cfg ck vrf_label.
    intros Hc Hst. unfold Directory.publish. destruct (has_dup (map fst upds)); [intros [= <- <-]; reflexivity|].
    rewrite derive_all_tomb by exact Hst.
    destruct (derive_all cfg ck vrf_label st upds) as [[elems news]|] eqn:E; [|intros [= <- <-]; reflexivity].
    destruct elems as [|x xs]; [intros [= <- <-]; reflexivity|].
    cbn [d_tombstone d_tree d_epoch d_num d_states].
    destruct (batch_insert (c_empty_label cfg) (d_tree st, d_epoch st, d_num st) (x :: xs)) as [[[t' e'] n']|]; [|intros [= <- <-]; reflexivity].
    intros [= <- <-]. unfold d_tombstone. cbn [d_tree d_epoch d_num d_states]. rewrite map_app.
    assert (Hn : map (tomb_state l c) news = news).
    { rewrite <- (map_id news) at 2. apply map_ext_in. intros s Hs. unfold tomb_state.
      rewrite (derive_all_news_epoch st upds _ _ E s Hs). destruct (N.leb_spec (d_epoch st + 1) c) as [Hx|Hx]; [exfalso; clear - Hx Hc; lia|]. rewrite andb_false_r. reflexivity. }
    rewrite Hn. reflexivity.
  Qed.

End DirFacts.

(* C11: value states stamped with a later epoch are invisible at or before E *)
Lemma latest_state_future sts news u E :
  (forall s, In s news -> E < vr_epoch s) -> latest_state (sts ++ news) u E = latest_state sts u E.
Proof.
  intros H. unfold latest_state. rewrite fold_left_app. generalize (fold_left (fun acc s => if bytes_eqb (vr_user s) u && (vr_epoch s <=? E) then
      match acc with Some a => if vr_epoch a <=? vr_epoch s then Some s else acc | None => Some s end else acc) sts None) as acc.
  induction news as [|x news IH]; intros acc; simpl; [reflexivity|].
  destruct (N.leb_spec (vr_epoch x) E) as [Hle|Hgt]; [specialize (H x (or_introl eq_refl)); lia|].
  rewrite andb_false_r. apply IH. intros s Hs. apply H. now right.
Qed.



Section AuditFacts.
  Variable cfg : config.

  (* C04: requests with s >= e or e beyond the current epoch are refused; an accepted request
     yields one single-epoch proof per epoch s .. e-1 *)
  Theorem audit_range st s e : e <= s \/ d_epoch st < e -> audit cfg st s e = DErrInvalidEpoch.
  Proof.
    intros H. unfold audit. destruct (N.leb_spec e s); [reflexivity|]. destruct (N.ltb_spec (d_epoch st) e); [reflexivity|lia].
  Qed.

  Theorem audit_shape st s e p : audit cfg st s e = DOk p ->
    s < e /\ e <= d_epoch st /\ ap_epochs p = Nrange' s (N.to_nat (e - s)) /\
    length (ap_proofs p) = length (ap_epochs p) /\ length (ap_epochs p) = N.to_nat (e - s).
  Proof.
    unfold audit. destruct (N.leb_spec e s); [discriminate|]. destruct (N.ltb_spec (d_epoch st) e); [discriminate|].
    intros Hp. assert (Hp' : p = AP (map (fun ep => let '(unch, ins) := ao_walk cfg 300 true (d_tree st) ep (ep + 1) in (ins, unch)) (Nrange' s (N.to_nat (e - s)))) (Nrange' s (N.to_nat (e - s)))) by congruence.
    clear Hp. subst p. unfold ap_epochs, ap_proofs. split; [assumption|]. split; [assumption|]. split; [reflexivity|].
    split; [now rewrite map_length|]. unfold Nrange'. now rewrite map_length, seq_length.
  Qed.

  (* C04/C09: inconsistent hash / epoch / proof lists are rejected *)
  Theorem audit_verify_lengths pf hashes p :
    audit_verify_gen cfg pf hashes p = true ->
    length hashes = S (length (ap_epochs p)) /\ length (ap_proofs p) = length (ap_epochs p).
  Proof.
    unfold audit_verify_gen. intros H. apply andb_true_iff in H. destruct H as [H _].
    apply andb_true_iff in H. destruct H as [H1 H2]. apply Nat.eqb_eq in H1, H2. lia.
  Qed.
End AuditFacts.
