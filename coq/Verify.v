(* Model of the client verifiers (layer L7): akd_core/src/verify/{base,lookup,history}.rs and
   akd/src/auditor.rs, every check in source order.  Executable.
   [vrf_check pk proof alpha] abstracts Proof::try_from + VRFPublicKey::verify + the truncated
   output: Some (32 output bytes) when the proof verifies for input alpha, None otherwise. *)
From Coq Require Import List Bool Arith NArith Lia.
From Akd Require GenConsts.
From Akd Require Import Bits NodeLabel ElemSet Hashing Tree Insert Marker Directory.
Import ListNotations.
Open Scope N_scope.

Record verify_result := VRes { r_epoch : N; r_version : N; r_value : bytes }.

Section Verify.
  Variable cfg : config.
  Variable vrf_check : bytes -> bytes -> bytes -> option bytes.
  Variable pk : bytes.

  (* verify_label *)
  Definition verify_label (label : bytes) (fresh : bool) (version : N) (proof : bytes) (node_label : nlabel) : bool :=
    match vrf_check pk proof (label_input_hash cfg label fresh version) with
    | Some out => nl_eqb (NL out 256) node_label
    | None => false
    end.

  Definition verify_existence (root label : bytes) (fresh : bool) (version : N) (vp : bytes) (mp : membership_proof) : bool :=
    verify_label label fresh version vp (mp_label mp) && verify_membership cfg root mp.

  Definition verify_existence_with_val (root label value : bytes) (epoch : N) (nonce : bytes)
             (fresh : bool) (version : N) (vp : bytes) (mp : membership_proof) : bool :=
    bytes_eqb (leaf_hash_with_value cfg value epoch nonce) (mp_hash_val mp) &&
    verify_existence root label fresh version vp mp.

  Definition verify_existence_with_commitment (root label commitment : bytes) (epoch : N)
             (fresh : bool) (version : N) (vp : bytes) (mp : membership_proof) : bool :=
    bytes_eqb (c_leaf_hash cfg commitment epoch) (mp_hash_val mp) &&
    verify_existence root label fresh version vp mp.

  Definition verify_nonexistence (root label : bytes) (fresh : bool) (version : N) (vp : bytes) (np : nonmembership_proof) : bool :=
    verify_label label fresh version vp (np_label np) && verify_nonmembership cfg root np.

  (* lookup_verify *)
  Definition lookup_verify (root : bytes) (current_epoch : N) (label : bytes) (p : lookup_proof) : option verify_result :=
    if current_epoch <? lp_version p then None
    else if negb (verify_existence_with_val root label (lp_value p) (lp_epoch p) (lp_nonce p) true (lp_version p)
                                            (lp_existence_vrf p) (lp_existence p)) then None
    else if lp_version p =? 0 then None (* rejected up front since fix 8bcbe22 (before: assertion failure in get_marker_version_log2) *)
    else if negb (verify_existence root label true (lookup_marker (lp_version p)) (lp_marker_vrf p) (lp_marker p)) then None
    else if negb (verify_nonexistence root label false (lp_version p) (lp_freshness_vrf p) (lp_freshness p)) then None
    else Some (VRes (lp_epoch p) (lp_version p) (lp_value p)).

  (* ---------------------------------------------------------------- history *)

  Fixpoint consecutive_decreasing (vs : list N) : bool :=
    match vs with
    | a :: ((b :: _) as r) => (b + 1 =? a) && consecutive_decreasing r
    | _ => true
    end.

  (* verify_with_history_params: Some (past, future) marker versions *)
  Definition verify_history_shape (current_epoch : N) (p : history_proof) (params : history_params)
    : option (list N * list N) :=
    let vs := map up_version (hp_updates p) in
    match vs with
    | [] => None
    | v0 :: _ =>
      if negb (consecutive_decreasing vs) then None
      else
        let start_v := fold_left N.min vs v0 in
        let end_v := fold_left N.max vs v0 in
        if start_v =? 0 then None
        else if current_epoch <? end_v then None
        else
          let n := N.of_nat (length vs) in
          let ok_params :=
              match params with
              | HComplete => start_v =? 1
              | HMostRecent r =>
                if r <? n then false
                else if n <? r then start_v =? 1
                else true
              end in
          if negb ok_params then None
          else
            match get_marker_versions start_v end_v current_epoch with
            | None => None (* panic in the code; unreachable after the checks above unless epoch = 0 *)
            | Some (past, future) =>
              if negb (Nat.eqb (length past) (length (hp_past_vrf p))) then None
              else if negb (Nat.eqb (length (hp_past_vrf p)) (length (hp_past p))) then None
              else if negb (Nat.eqb (length future) (length (hp_future_vrf p))) then None
              else if negb (Nat.eqb (length (hp_future_vrf p)) (length (hp_future p))) then None
              else Some (past, future)
            end
    end.

  Definition is_tombstone (v : bytes) : bool := bytes_eqb v GenConsts.TOMBSTONE.

  (* verify_single_update_proof; [allow_missing] = HistoryVerificationParams::AllowMissingValues *)
  Definition verify_single_update (root label : bytes) (allow_missing : bool) (u : update_proof) : option verify_result :=
    let ok1 :=
        if allow_missing && is_tombstone (up_value u)
        then verify_existence root label true (up_version u) (up_existence_vrf u) (up_existence u)
        else verify_existence_with_val root label (up_value u) (up_epoch u) (up_nonce u) true (up_version u)
                                       (up_existence_vrf u) (up_existence u) in
    if negb ok1 then None
    else
      let res := VRes (up_epoch u) (up_version u) (up_value u) in
      if up_version u <=? 1 then Some res
      else
        match up_prev u, up_prev_vrf u with
        | Some pm, Some pv =>
          if verify_existence_with_commitment root label (c_stale_value cfg) (up_epoch u) false (up_version u - 1) pv pm
          then Some res else None
        | _, _ => None
        end.

  Fixpoint verify_updates (root label : bytes) (allow_missing : bool) (prev_epoch : option N) (us : list update_proof)
    : option (list verify_result) :=
    match us with
    | [] => Some []
    | u :: r =>
      if match prev_epoch with Some pe => pe <? up_epoch u | None => false end then None
      else
        match verify_single_update root label allow_missing u with
        | None => None
        | Some res =>
          match verify_updates root label allow_missing (Some (up_epoch u)) r with
          | Some rest => Some (res :: rest)
          | None => None
          end
        end
    end.

  Fixpoint forall3 {A B} (f : N -> A -> B -> bool) (vs : list N) (xs : list A) (ys : list B) : bool :=
    match vs, xs, ys with
    | v :: vs', x :: xs', y :: ys' => f v x y && forall3 f vs' xs' ys'
    | [], _, _ => true
    | _, _, _ => false
    end.

  Definition key_history_verify (root : bytes) (current_epoch : N) (label : bytes) (p : history_proof)
             (params : history_params) (allow_missing : bool) : option (list verify_result) :=
    match verify_history_shape current_epoch p params with
    | None => None
    | Some (past, future) =>
      match verify_updates root label allow_missing None (hp_updates p) with
      | None => None
      | Some results =>
        if negb (forall3 (fun v vp mp => verify_existence root label true v vp mp) past (hp_past_vrf p) (hp_past p)) then None
        else if negb (forall3 (fun v vp np => verify_nonexistence root label true v vp np) future (hp_future_vrf p) (hp_future p)) then None
        else Some results
      end
    end.

  (* ---------------------------------------------------------------- audit *)

  (* verify_append_only_hash: rebuild from the node list in Auditor mode and compare root hashes.
     [prefix_free_check] = the validation added by fix F2. *)
  Definition rebuild_root (nodes : list elem) (latest_epoch : N) : option bytes :=
    match batch_insert (c_empty_label cfg) (empty_root, latest_epoch, 1) nodes with
    | Some (t, _, _) => Some (root_hash cfg false t)
    | None => None
    end.

  Definition opt_bytes_eqb (o : option bytes) (b : bytes) : bool :=
    match o with Some x => bytes_eqb x b | None => false end.

  (* verify_prefix_free (fix F2): canonicalised labels, none equal to or a prefix of another *)
  Definition canon (l : nlabel) : nlabel := get_prefix l (llen l).
  Fixpoint pairwise_free (ls : list nlabel) : bool :=
    match ls with
    | [] => true
    | l :: r => forallb (fun m => negb (is_prefix_of l m) && negb (is_prefix_of m l)) r && pairwise_free r
    end.
  Definition prefix_free_labels (nodes : list elem) : bool :=
    forallb (fun x => llen (e_label x) <=? 256) nodes && pairwise_free (map (fun x => canon (e_label x)) nodes).

  (* verify_consecutive_append_only *)
  Definition verify_consecutive (pf_check : bool) (proof : list elem * list elem) (start_hash end_hash : bytes) (end_epoch : N) : bool :=
    let '(inserted, unchanged) := proof in
    (if pf_check then prefix_free_labels (unchanged ++ inserted) else true) &&
    opt_bytes_eqb (rebuild_root unchanged 0) start_hash &&
    opt_bytes_eqb (rebuild_root (unchanged ++ map (fun x => El (e_label x) (c_leaf_hash cfg (e_value x) end_epoch)) inserted) (end_epoch - 1)) end_hash.

  Fixpoint verify_chain (pf_check : bool) (hashes : list bytes) (proofs : list (list elem * list elem)) (epochs : list N) : bool :=
    match hashes, proofs, epochs with
    | h0 :: ((h1 :: _) as hs), p :: ps, e :: es => verify_consecutive pf_check p h0 h1 (e + 1) && verify_chain pf_check hs ps es
    | [_], [], [] => true
    | _, _, _ => false
    end.

  (* audit_verify *)
  Definition audit_verify_gen (pf_check : bool) (hashes : list bytes) (p : audit_proof) : bool :=
    Nat.eqb (length (ap_epochs p) + 1) (length hashes) &&
    Nat.eqb (length (ap_epochs p)) (length (ap_proofs p)) &&
    verify_chain pf_check hashes (ap_proofs p) (ap_epochs p).
End Verify.
