(* Facts about the storage-manager model: the cache is a partial copy of the database under every
   operation, rejected write and eviction (C16); reads inside a transaction answer from
   "database overridden by the log" exactly as after commit (C15); rollback/commit/begin (C15);
   nothing reaches the database while a transaction is open (C10). *)
From Coq Require Import List Bool Arith NArith Lia.
From Akd Require Import Manager.
Import ListNotations.
Open Scope N_scope.

(* ------------------------------------------------------------------ keys and maps *)

Lemma key_eqb_eq a b : key_eqb a b = true <-> a = b.
Proof.
  destruct a, b; simpl; split; intros H; try discriminate; try reflexivity.
  - apply N.eqb_eq in H. congruence.
  - inversion H. apply N.eqb_refl.
  - apply andb_true_iff in H. destruct H as [H1 H2]. apply N.eqb_eq in H1, H2. congruence.
  - inversion H. now rewrite !N.eqb_refl.
Qed.
Lemma key_eqb_refl a : key_eqb a a = true.
Proof. now apply key_eqb_eq. Qed.
Lemma key_eqb_neq a b : key_eqb a b = false <-> a <> b.
Proof. rewrite <- key_eqb_eq. destruct (key_eqb a b); split; congruence. Qed.

Lemma kget_kput m k r k' : kget (kput m k r) k' = if key_eqb k' k then Some r else kget m k'.
Proof.
  induction m as [|[k0 r0] m IH]; simpl.
  - destruct (key_eqb k' k); reflexivity.
  - destruct (key_eqb k k0) eqn:E.
    + apply key_eqb_eq in E. subst k0. simpl. destruct (key_eqb k' k); reflexivity.
    + simpl. destruct (key_eqb k' k0) eqn:E'.
      * apply key_eqb_eq in E'. subst k0. destruct (key_eqb k' k) eqn:E2; [|reflexivity].
        apply key_eqb_eq in E2. subst. rewrite key_eqb_refl in E. discriminate.
      * exact IH.
Qed.

Lemma kget_kremove m k k' : kget (kremove m k) k' = if key_eqb k k' then None else kget m k'.
Proof.
  unfold kremove. induction m as [|[k0 r0] m IH]; simpl.
  - destruct (key_eqb k k'); reflexivity.
  - destruct (key_eqb k k0) eqn:E; simpl.
    + rewrite IH. destruct (key_eqb k k') eqn:E2; [reflexivity|].
      destruct (key_eqb k' k0) eqn:E3; [|reflexivity].
      apply key_eqb_eq in E, E3. subst. rewrite key_eqb_refl in E2. discriminate.
    + destruct (key_eqb k' k0) eqn:E3.
      * apply key_eqb_eq in E3. subst k0. rewrite E. reflexivity.
      * exact IH.
Qed.

Lemma find_app' {A} (f : A -> bool) l1 l2 :
  find f (l1 ++ l2) = match find f l1 with Some x => Some x | None => find f l2 end.
Proof. induction l1 as [|x l1 IH]; simpl; [reflexivity|]. destruct (f x); auto. Qed.

Lemma kget_kput_all m rs k :
  kget (kput_all m rs) k =
  match find (fun r => key_eqb k (key_of r)) (rev rs) with Some r => Some r | None => kget m k end.
Proof.
  unfold kput_all. revert m. induction rs as [|r rs IH]; intros m; simpl; [reflexivity|].
  rewrite IH. rewrite find_app'. destruct (find _ (rev rs)); [reflexivity|]. simpl.
  unfold kput_rec. rewrite kget_kput. destruct (key_eqb k (key_of r)); reflexivity.
Qed.

(* ------------------------------------------------------------------ well-formed maps *)

Definition keyed (m : kmap) : Prop := forall k r, kget m k = Some r -> key_of r = k.
Definition nodupk (m : kmap) : Prop := NoDup (map fst m).

Lemma keyed_kput_rec m r : keyed m -> keyed (kput_rec m r).
Proof.
  intros H k r'. unfold kput_rec. rewrite kget_kput. destruct (key_eqb k (key_of r)) eqn:E.
  - intros [= <-]. apply key_eqb_eq in E. auto.
  - apply H.
Qed.
Lemma keyed_kput_all m rs : keyed m -> keyed (kput_all m rs).
Proof. unfold kput_all. revert m. induction rs; intros m H; simpl; auto using keyed_kput_rec. Qed.
Lemma keyed_nil : keyed [].
Proof. intros k r H. discriminate. Qed.

Lemma in_fst_kput m k r k' : In k' (map fst (kput m k r)) <-> k' = k \/ In k' (map fst m).
Proof.
  induction m as [|[k0 r0] m IH]; simpl.
  - split; [intros [<-|[]]; now left|intros [->|[]]; now left].
  - destruct (key_eqb k k0) eqn:E; simpl.
    + apply key_eqb_eq in E. subst. split; [intros [<-|H]; [now left|right; now right]|intros [->|[<-|H]]; [now left|now left|now right]].
    + rewrite IH. split; [intros [<-|[->|H]]; [right; now left|now left|right; now right]|intros [->|[<-|H]]; [right; now left|now left|right; now right]].
Qed.

Lemma nodupk_kput m k r : nodupk m -> nodupk (kput m k r).
Proof.
  unfold nodupk. induction m as [|[k0 r0] m IH]; simpl; intros H.
  - constructor; [intros []|constructor].
  - inversion H as [|? ? Hn Hd]; subst. destruct (key_eqb k k0) eqn:E; simpl.
    + apply key_eqb_eq in E. subst. constructor; assumption.
    + constructor; [|now apply IH]. rewrite in_fst_kput. intros [->|Hin]; [|contradiction].
      rewrite key_eqb_refl in E. discriminate.
Qed.
Lemma nodupk_kput_all m rs : nodupk m -> nodupk (kput_all m rs).
Proof. unfold kput_all, kput_rec. revert m. induction rs; intros m H; simpl; auto using nodupk_kput. Qed.

Lemma kget_In m k r : kget m k = Some r -> In (k, r) m.
Proof.
  induction m as [|[k0 r0] m IH]; simpl; [discriminate|]. destruct (key_eqb k k0) eqn:E.
  - apply key_eqb_eq in E. intros [= <-]. subst. now left.
  - intros H. right. auto.
Qed.
Lemma In_kget m k r : nodupk m -> In (k, r) m -> kget m k = Some r.
Proof.
  unfold nodupk. induction m as [|[k0 r0] m IH]; simpl; intros Hd Hin; [destruct Hin|].
  inversion Hd as [|? ? Hn Hd']; subst. destruct Hin as [[= -> ->]|Hin].
  - now rewrite key_eqb_refl.
  - destruct (key_eqb k k0) eqn:E; [|auto]. apply key_eqb_eq in E. subst.
    exfalso. apply Hn. apply in_map_iff. exists (k0, r). auto.
Qed.

(* membership in the per-user state list *)
Lemma in_insert_by_epoch v w l : In w (insert_by_epoch v l) <-> w = v \/ In w l.
Proof.
  induction l as [|x l IH]; simpl; [intuition|]. destruct (vs_epoch v <=? vs_epoch x); simpl; [intuition|].
  rewrite IH. intuition.
Qed.
Lemma in_user_states m u v : In v (user_states m u) <-> (exists k, In (k, RVal v) m) /\ vs_user v = u.
Proof.
  unfold user_states. induction m as [|[k r] m IH]; simpl.
  - split; [intros []|intros [[? []] _]].
  - destruct r as [e n|l p|w]; simpl.
    + rewrite IH. split; intros [[k0 Hk] Hu]; (split; [|exact Hu]).
      * exists k0. now right.
      * destruct Hk as [[= ]|Hk]. exists k0. exact Hk.
    + rewrite IH. split; intros [[k0 Hk] Hu]; (split; [|exact Hu]).
      * exists k0. now right.
      * destruct Hk as [[= ]|Hk]. exists k0. exact Hk.
    + destruct (N.eqb_spec (vs_user w) u) as [Hw|Hw].
      * rewrite in_insert_by_epoch, IH. split.
        -- intros [->|[[k0 Hk] Hu]]; [split; [exists k; now left|exact Hw]|split; [exists k0; now right|exact Hu]].
        -- intros [[k0 [[= _ ->]|Hk]] Hu]; [now left|right; split; [exists k0; exact Hk|exact Hu]].
      * rewrite IH. split; intros [[k0 Hk] Hu]; (split; [|exact Hu]).
        -- exists k0. now right.
        -- destruct Hk as [[= _ ->]|Hk]; [congruence|exists k0; exact Hk].
Qed.

Lemma in_user_states_kget m u v : keyed m -> nodupk m ->
  (In v (user_states m u) <-> kget m (KVal u (vs_epoch v)) = Some (RVal v) /\ vs_user v = u).
Proof.
  intros Hk Hd. rewrite in_user_states. split.
  - intros [[k Hin] Hu]. pose proof (In_kget m k _ Hd Hin) as Hg. pose proof (Hk _ _ Hg) as Hkey.
    simpl in Hkey. subst k. rewrite Hu in Hg. auto.
  - intros [Hg Hu]. split; [|exact Hu]. eexists. apply kget_In. exact Hg.
Qed.

(* ------------------------------------------------------------------ C16: cache coherence *)

Definition coherent (s : mstate) : Prop :=
  forall k r, cache_get (m_cache s) k = Some r -> kget (m_db s) k = Some r.

Definition Inv (s : mstate) : Prop :=
  coherent s /\ keyed (m_db s) /\ nodupk (m_db s) /\ keyed (m_mods s) /\ nodupk (m_mods s).

Lemma Inv_init c : Inv (init_state c).
Proof.
  unfold Inv, coherent, init_state. simpl. repeat split; try apply keyed_nil; try constructor.
  intros k r. destruct c; simpl; discriminate.
Qed.

Lemma coh_put db c r : (forall k r0, cache_get c k = Some r0 -> kget db k = Some r0) ->
  forall k r0, cache_get (cache_put c r) k = Some r0 -> kget (kput_rec db r) k = Some r0.
Proof.
  intros H k r0. destruct c as [m|]; simpl; [|discriminate]. unfold kput_rec. rewrite !kget_kput.
  destruct (key_eqb k (key_of r)); [auto|]. apply (H k r0).
Qed.
Lemma coh_put_all db c rs : (forall k r0, cache_get c k = Some r0 -> kget db k = Some r0) ->
  forall k r0, cache_get (cache_put_all c rs) k = Some r0 -> kget (kput_all db rs) k = Some r0.
Proof.
  intros H k r0. destruct c as [m|]; simpl; [|discriminate]. rewrite !kget_kput_all.
  destruct (find _ (rev rs)); [auto|]. apply (H k r0).
Qed.
(* filling the cache with a record the database holds *)
Lemma coh_fill db c r : keyed db -> kget db (key_of r) = Some r ->
  (forall k r0, cache_get c k = Some r0 -> kget db k = Some r0) ->
  forall k r0, cache_get (cache_put c r) k = Some r0 -> kget db k = Some r0.
Proof.
  intros Hk Hr H k r0. destruct c as [m|]; simpl; [|discriminate]. unfold kput_rec. rewrite kget_kput.
  destruct (key_eqb k (key_of r)) eqn:E; [|apply (H k r0)]. apply key_eqb_eq in E. subst k. intros [= <-]. exact Hr.
Qed.
Lemma coh_fill_all db c rs : keyed db -> (forall r, In r rs -> kget db (key_of r) = Some r) ->
  (forall k r0, cache_get c k = Some r0 -> kget db k = Some r0) ->
  forall k r0, cache_get (cache_put_all c rs) k = Some r0 -> kget db k = Some r0.
Proof.
  intros Hk Hr H k r0. destruct c as [m|]; simpl; [|discriminate]. rewrite kget_kput_all.
  destruct (find _ (rev rs)) as [r|] eqn:E; [|apply (H k r0)].
  apply find_some in E. destruct E as [Hin E]. apply key_eqb_eq in E. subst k. intros [= <-].
  apply Hr. now apply in_rev.
Qed.

Ltac inv_split := unfold Inv, coherent in *; cbn [m_db m_cache m_active m_mods m_ops] in *.

Lemma kget_fold_kremove ks : forall m k r, kget (fold_left kremove ks m) k = Some r -> kget m k = Some r.
Proof.
  induction ks as [|k0 ks IH]; intros m k r H; simpl in H; [exact H|].
  apply IH in H. rewrite kget_kremove in H. destruct (key_eqb k0 k); [discriminate|exact H].
Qed.

Theorem Inv_evict s ks : Inv s -> Inv (evict s ks).
Proof.
  intros (C & I). split; [|exact I]. unfold coherent, evict in *. cbn [m_db m_cache]. intros k r.
  destruct (m_cache s) as [m|]; simpl; [|discriminate]. intros H. apply (C k r). simpl.
  eapply kget_fold_kremove. exact H.
Qed.

Theorem Inv_flush s : Inv s -> Inv (flush s).
Proof.
  intros (C & I). split; [|exact I]. unfold coherent, flush. cbn [m_db m_cache]. intros k r.
  destruct (m_cache s); simpl; discriminate.
Qed.

Theorem Inv_begin s : Inv s -> Inv (fst (begin_transaction s)).
Proof. intros H. exact H. Qed.

Theorem Inv_rollback s : Inv s -> Inv (fst (rollback_transaction s)).
Proof.
  intros (C & K1 & N1 & K2 & N2). unfold rollback_transaction. destruct (m_active s); cbn [fst negb]; [|repeat split; assumption].
  repeat split; try assumption; [apply keyed_nil|constructor].
Qed.

Theorem Inv_commit s f : Inv s -> Inv (fst (commit_transaction s f)).
Proof.
  intros (C & K1 & N1 & K2 & N2). unfold commit_transaction. destruct (m_active s); cbn [fst negb]; [|repeat split; assumption].
  set (records := sort_by_priority (map snd (m_mods s))).
  assert (I0 : Inv (MS (m_db s) (m_cache s) false [] (m_ops s))) by (repeat split; try assumption; [apply keyed_nil|constructor]).
  destruct records as [|r0 rs] eqn:E; [exact I0|]. rewrite <- E.
  destruct (last records (RNode 0 0)); try exact I0.
  destruct f; cbn [fst]; [exact I0|]. repeat split; cbn [m_db m_cache m_mods].
  - unfold coherent; cbn [m_db m_cache]. apply coh_put_all. exact C.
  - now apply keyed_kput_all.
  - now apply nodupk_kput_all.
  - apply keyed_nil.
  - constructor.
Qed.

Theorem Inv_set s r f : Inv s -> Inv (fst (set_record s r f)).
Proof.
  intros (C & K1 & N1 & K2 & N2). unfold set_record. destruct (m_active s); cbn [fst negb].
  - repeat split; try assumption; [now apply keyed_kput_rec|now apply nodupk_kput].
  - destruct f; cbn [fst]; [repeat split; assumption|]. repeat split; try assumption; cbn [m_db m_cache].
    + unfold coherent; cbn [m_db m_cache]. apply coh_put. exact C.
    + now apply keyed_kput_rec.
    + now apply nodupk_kput.
Qed.

Theorem Inv_batch_set s rs f : Inv s -> Inv (fst (batch_set s rs f)).
Proof.
  intros (C & K1 & N1 & K2 & N2). unfold batch_set. destruct rs as [|r0 rs']; [repeat split; assumption|].
  destruct (m_active s); cbn [fst negb].
  - repeat split; try assumption; [now apply keyed_kput_all|now apply nodupk_kput_all].
  - destruct f; cbn [fst]; [repeat split; assumption|]. repeat split; try assumption; cbn [m_db m_cache].
    + unfold coherent; cbn [m_db m_cache]. apply coh_put_all. exact C.
    + now apply keyed_kput_all.
    + now apply nodupk_kput_all.
Qed.

Theorem Inv_get s k f : Inv s -> Inv (fst (get_record s k f)).
Proof.
  intros (C & K1 & N1 & K2 & N2). unfold get_record.
  destruct (if m_active s then kget (m_mods s) k else None); [repeat split; assumption|].
  destruct (cache_get (m_cache s) k); [repeat split; assumption|].
  destruct f; [repeat split; assumption|].
  destruct (kget (m_db s) k) as [r|] eqn:E; [|repeat split; assumption].
  repeat split; try assumption; cbn [m_db m_cache]. unfold coherent; cbn [m_db m_cache]. apply coh_fill; auto.
  rewrite (K1 _ _ E). exact E.
Qed.

Theorem Inv_batch_get s ks f : Inv s -> Inv (fst (batch_get s ks f)).
Proof.
  intros (C & K1 & N1 & K2 & N2). unfold batch_get. destruct ks as [|k0 ks']; [repeat split; assumption|].
  match goal with |- Inv (fst (match ?m with [] => _ | _ => _ end)) => destruct m as [|m0 ms] end; [repeat split; assumption|].
  destruct f; [repeat split; assumption|]. repeat split; try assumption; cbn [m_db m_cache].
  unfold coherent; cbn [m_db m_cache]. apply coh_fill_all; auto. intros r Hr. apply in_flat_map in Hr. destruct Hr as (k & _ & Hk).
  destruct (kget (m_db s) k) as [r'|] eqn:E; [|destruct Hk]. destruct Hk as [<-|[]]. rewrite (K1 _ _ E). exact E.
Qed.

Theorem Inv_get_user_state s u fl f : Inv s -> Inv (fst (get_user_state s u fl f)).
Proof.
  intros (C & K1 & N1 & K2 & N2). unfold get_user_state. destruct f; [repeat split; assumption|].
  match goal with |- Inv (fst (match ?x with Some _ => _ | None => _ end)) => destruct x end; [repeat split; assumption|].
  destruct (db_user_state (m_db s) u fl) as [st|] eqn:E; [|repeat split; assumption].
  repeat split; try assumption; cbn [m_db m_cache]. unfold coherent; cbn [m_db m_cache]. apply coh_fill; auto. simpl.
  assert (Hin : In st (user_states (m_db s) u)).
  { unfold db_user_state in E. destruct fl; simpl in E.
    - apply find_some in E. tauto.
    - apply find_some in E. tauto.
    - unfold last_opt in E. destruct (rev (filter _ _)) as [|x l] eqn:R; [discriminate|]. injection E as <-.
      assert (In x (rev (filter (fun s0 => vs_epoch s0 <=? e) (user_states (m_db s) u)))) by (rewrite R; now left).
      apply in_rev in H. apply filter_In in H. tauto.
    - unfold last_opt in E. destruct (rev _) as [|x l] eqn:R; [discriminate|]. injection E as <-.
      apply in_rev. rewrite R. now left.
    - destruct (user_states (m_db s) u); [discriminate|]. injection E as <-. now left. }
  apply in_user_states_kget in Hin; auto. destruct Hin as [Hg Hu]. rewrite Hu. exact Hg.
Qed.

Theorem Inv_get_user_data s u f : Inv s -> Inv (fst (get_user_data s u f)).
Proof. intros H. exact H. Qed.

Theorem Inv_get_user_state_versions s us fl f : Inv s -> Inv (fst (get_user_state_versions s us fl f)).
Proof. intros H. exact H. Qed.

Theorem Inv_tombstone s u e f1 f2 : Inv s -> Inv (fst (tombstone s u e f1 f2)).
Proof.
  intros H. unfold tombstone. destruct (get_user_data s u f1) as [s1 [states|er]] eqn:E.
  - assert (s1 = tick s) by (unfold get_user_data in E; congruence). subst s1. apply Inv_batch_set. exact H.
  - assert (s1 = tick s) by (unfold get_user_data in E; congruence). subst s1. exact H.
Qed.

(* C16: what a read returns does not depend on the cache: pending value if any, else the database *)
Theorem get_record_spec s k : Inv s ->
  snd (get_record s k false) =
  match (if m_active s then kget (m_mods s) k else None) with
  | Some r => Ok r
  | None => match kget (m_db s) k with Some r => Ok r | None => Err ENotFound end
  end.
Proof.
  intros (C & _). unfold get_record.
  destruct (if m_active s then kget (m_mods s) k else None); [reflexivity|].
  destruct (cache_get (m_cache s) k) as [r|] eqn:E.
  - rewrite (C k r E). reflexivity.
  - destruct (kget (m_db s) k); reflexivity.
Qed.

(* after a flush the next read of the epoch record comes from the database *)
Theorem flush_then_get_azks s : m_active s = false ->
  snd (get_record (flush s) KAzks false) = match kget (m_db s) KAzks with Some r => Ok r | None => Err ENotFound end.
Proof.
  intros Ha. unfold get_record, flush. cbn [m_active m_mods m_cache m_db]. rewrite Ha.
  destruct (m_cache s); simpl; destruct (kget (m_db s) KAzks); reflexivity.
Qed.

(* ------------------------------------------------------------------ C15: reads inside a transaction *)

(* the database as it will be once the pending records are committed *)
Definition merged (s : mstate) : kmap := kput_all (m_db s) (map snd (m_mods s)).

Lemma find_key_unique (l : list record) k r :
  (forall r1 r2, In r1 l -> In r2 l -> key_of r1 = key_of r2 -> r1 = r2) ->
  In r l -> key_of r = k -> find (fun r0 => key_eqb k (key_of r0)) l = Some r.
Proof.
  intros Hu Hin Hk. destruct (find (fun r0 => key_eqb k (key_of r0)) l) as [r'|] eqn:E.
  - apply find_some in E. destruct E as [Hin' E]. apply key_eqb_eq in E. f_equal. apply Hu; auto. congruence.
  - exfalso. apply (find_none _ _ E) in Hin. subst k. rewrite key_eqb_refl in Hin. discriminate.
Qed.

Lemma mods_records_unique m : keyed m -> nodupk m ->
  forall r1 r2, In r1 (map snd m) -> In r2 (map snd m) -> key_of r1 = key_of r2 -> r1 = r2.
Proof.
  intros Hk Hd r1 r2 H1 H2 E. apply in_map_iff in H1, H2.
  destruct H1 as ([k1 r1'] & <- & H1). destruct H2 as ([k2 r2'] & <- & H2). simpl in *.
  pose proof (In_kget _ _ _ Hd H1) as G1. pose proof (In_kget _ _ _ Hd H2) as G2.
  rewrite <- (Hk _ _ G1) in G1. rewrite <- (Hk _ _ G2) in G2. rewrite E in G1. congruence.
Qed.

Lemma find_in_records m k : keyed m -> nodupk m -> forall l,
  (forall r, In r l <-> In r (map snd m)) ->
  find (fun r => key_eqb k (key_of r)) l = kget m k.
Proof.
  intros Hk Hd l Hl. destruct (kget m k) as [r|] eqn:E.
  - apply find_key_unique.
    + intros r1 r2 H1 H2. apply (mods_records_unique m Hk Hd); now apply Hl.
    + apply Hl. apply in_map_iff. exists (k, r). split; [reflexivity|now apply kget_In].
    + now apply Hk.
  - destruct (find _ l) as [r'|] eqn:F; [|reflexivity]. exfalso.
    apply find_some in F. destruct F as [Hin F]. apply key_eqb_eq in F. apply Hl in Hin.
    apply in_map_iff in Hin. destruct Hin as ([k' r''] & Hs & Hin). simpl in Hs. subst r''.
    pose proof (In_kget _ _ _ Hd Hin) as G. rewrite <- (Hk _ _ G) in G. rewrite <- F in G. congruence.
Qed.

Lemma kget_merged s k : Inv s ->
  kget (merged s) k = match kget (m_mods s) k with Some r => Some r | None => kget (m_db s) k end.
Proof.
  intros (_ & _ & _ & K2 & N2). unfold merged. rewrite kget_kput_all.
  rewrite (find_in_records (m_mods s) k K2 N2); [reflexivity|]. intros r. symmetry. apply in_rev.
Qed.

(* single-record read inside a transaction = read of the committed database *)
Theorem txn_get_is_committed_get s k : Inv s -> m_active s = true ->
  snd (get_record s k false) = match kget (merged s) k with Some r => Ok r | None => Err ENotFound end.
Proof.
  intros HI Ha. rewrite get_record_spec by exact HI. rewrite Ha, kget_merged by exact HI.
  destruct (kget (m_mods s) k); reflexivity.
Qed.

Lemma in_sort_by_priority rs r : In r (sort_by_priority rs) <-> In r rs.
Proof.
  unfold sort_by_priority. rewrite in_app_iff, !filter_In. destruct (priority r =? 1); simpl; tauto.
Qed.

Lemma length_sort_by_priority rs : length (sort_by_priority rs) = length rs.
Proof.
  unfold sort_by_priority. rewrite app_length. induction rs as [|r rs IH]; simpl; [reflexivity|].
  destruct (priority r =? 1); simpl; lia.
Qed.

(* commit hands the database the pending records (each once), the epoch record last, and the
   database then holds exactly "database overridden by the log" *)
Theorem commit_spec s : Inv s -> m_active s = true ->
  forall s' n, commit_transaction s false = (s', Ok n) ->
  let records := sort_by_priority (map snd (m_mods s)) in
  (forall k, kget (m_db s') k = kget (merged s) k) /\
  (records = [] \/ exists e num, last records (RNode 0 0) = RAzks e num) /\
  (forall r, In r records <-> In r (map snd (m_mods s))) /\ length records = length (m_mods s) /\
  m_active s' = false /\ m_mods s' = [].
Proof.
  intros HI Ha s' n Hc records. pose proof HI as (_ & _ & _ & K2 & N2).
  unfold commit_transaction in Hc. rewrite Ha in Hc. cbn [negb] in Hc. fold records in Hc.
  assert (Hrec : forall r, In r records <-> In r (map snd (m_mods s))) by (intros r; apply in_sort_by_priority).
  assert (Hlen : length records = length (m_mods s)) by (unfold records; now rewrite length_sort_by_priority, map_length).
  destruct records as [|r0 rs] eqn:E.
  - injection Hc as <- _. cbn [m_db m_active m_mods]. repeat split; auto.
    + intros k. rewrite kget_merged by exact HI.
      destruct (kget (m_mods s) k) as [r|] eqn:G; [|reflexivity]. exfalso.
      apply kget_In in G. apply (in_map snd) in G. apply Hrec in G. destruct G.
    + apply Hrec. + apply Hrec.
  - rewrite <- E in *. destruct (last records (RNode 0 0)) as [e num| |] eqn:L; try discriminate.
    injection Hc as <- _. cbn [m_db m_active m_mods]. repeat split; auto.
    + intros k. rewrite kget_kput_all, kget_merged by exact HI.
      rewrite (find_in_records (m_mods s) k K2 N2); [reflexivity|].
      intros r. rewrite <- in_rev. apply Hrec.
    + right. eauto.
    + apply Hrec. + apply Hrec.
Qed.

Theorem commit_without_epoch_record s : m_active s = true ->
  let records := sort_by_priority (map snd (m_mods s)) in
  records <> [] -> (forall e n, last records (RNode 0 0) <> RAzks e n) ->
  forall f, commit_transaction s f = (MS (m_db s) (m_cache s) false [] (m_ops s), Err ETransaction).
Proof.
  intros Ha records Hne Hl f. unfold commit_transaction. rewrite Ha. cbn [negb]. fold records.
  destruct records as [|r0 rs] eqn:E; [congruence|]. rewrite <- E in *.
  destruct (last records (RNode 0 0)) as [e n| |]; [exfalso; eapply Hl; reflexivity|reflexivity|reflexivity].
Qed.

Theorem rollback_spec s : m_active s = true ->
  rollback_transaction s = (MS (m_db s) (m_cache s) false [] (m_ops s), Ok tt).
Proof. intros Ha. unfold rollback_transaction. rewrite Ha. reflexivity. Qed.

Theorem begin_twice_refused s : m_active s = true -> snd (begin_transaction s) = false.
Proof. intros Ha. unfold begin_transaction. cbn [snd]. rewrite Ha. reflexivity. Qed.

Theorem commit_inactive_refused s f : m_active s = false -> commit_transaction s f = (s, Err ETransaction).
Proof. intros Ha. unfold commit_transaction. rewrite Ha. reflexivity. Qed.

(* C10 (storage side): while a transaction is open no operation changes the database *)
Theorem set_in_txn_keeps_db s r f : m_active s = true -> m_db (fst (set_record s r f)) = m_db s.
Proof. intros Ha. unfold set_record. rewrite Ha. reflexivity. Qed.
Theorem batch_set_in_txn_keeps_db s rs f : m_active s = true -> m_db (fst (batch_set s rs f)) = m_db s.
Proof. intros Ha. unfold batch_set. destruct rs; [reflexivity|]. rewrite Ha. reflexivity. Qed.
Theorem reads_keep_db s k f : m_db (fst (get_record s k f)) = m_db s.
Proof.
  unfold get_record. destruct (if m_active s then _ else _); [reflexivity|]. destruct (cache_get _ _); [reflexivity|].
  destruct f; [reflexivity|]. destruct (kget (m_db s) k); reflexivity.
Qed.
Theorem failed_commit_keeps_db s : m_db (fst (commit_transaction s true)) = m_db s.
Proof.
  unfold commit_transaction. destruct (negb (m_active s)); [reflexivity|].
  destruct (sort_by_priority _) as [|r0 rs] eqn:E; [reflexivity|]. rewrite <- E.
  destruct (last _ _); reflexivity.
Qed.

(* ------------------------------------------------------------------ user-state queries *)

(* what a retrieval flag selects from a set of states of one user *)
Definition sel (f : flag) (S : list vstate) (x : vstate) : Prop :=
  In x S /\
  match f with
  | SpecificVersion v => vs_version x = v
  | SpecificEpoch e => vs_epoch x = e
  | LeqEpoch e => vs_epoch x <= e /\ forall y, In y S -> vs_epoch y <= e -> vs_epoch y <= vs_epoch x
  | MaxEpoch => forall y, In y S -> vs_epoch y <= vs_epoch x
  | MinEpoch => forall y, In y S -> vs_epoch x <= vs_epoch y
  end.

Inductive sorted_e : list vstate -> Prop :=
| se_nil : sorted_e []
| se_cons x l : (forall y, In y l -> vs_epoch x <= vs_epoch y) -> sorted_e l -> sorted_e (x :: l).

Lemma sorted_insert v l : sorted_e l -> sorted_e (insert_by_epoch v l).
Proof.
  induction 1 as [|x l Hx Hs IH]; simpl.
  - constructor; [intros y []|constructor].
  - destruct (N.leb_spec (vs_epoch v) (vs_epoch x)).
    + constructor; [|now constructor]. intros y [<-|Hy]; [lia|]. specialize (Hx y Hy). lia.
    + constructor; [|exact IH]. intros y Hy. apply in_insert_by_epoch in Hy. destruct Hy as [->|Hy]; [lia|auto].
Qed.

Lemma sorted_user_states m u : sorted_e (user_states m u).
Proof.
  unfold user_states. induction m as [|[k r] m IH]; simpl; [constructor|].
  destruct r; auto. destruct (vs_user v =? u); auto using sorted_insert.
Qed.

Lemma sorted_filter p l : sorted_e l -> sorted_e (filter p l).
Proof.
  induction 1 as [|x l Hx Hs IH]; simpl; [constructor|]. destruct (p x); [|exact IH].
  constructor; [|exact IH]. intros y Hy. apply filter_In in Hy. apply Hx. tauto.
Qed.

Lemma last_opt_max l x : sorted_e l -> last_opt l = Some x -> In x l /\ forall y, In y l -> vs_epoch y <= vs_epoch x.
Proof.
  intros Hs. unfold last_opt. destruct (rev l) as [|z r] eqn:R; [discriminate|]. intros [= <-].
  assert (Hl : l = rev r ++ [z]) by (rewrite <- (rev_involutive l), R; reflexivity).
  subst l. clear R. split; [apply in_or_app; right; now left|].
  induction (rev r) as [|a t IH]; simpl in *.
  - intros y [<-|[]]. lia.
  - inversion Hs as [|? ? Ha Ht]; subst. intros y [<-|Hy]; [apply Ha; apply in_or_app; right; now left|now apply IH].
Qed.
Lemma last_opt_none {A} (l : list A) : last_opt l = None -> l = [].
Proof.
  unfold last_opt. destruct (rev l) eqn:R; [|discriminate]. intros _.
  rewrite <- (rev_involutive l), R. reflexivity.
Qed.

Lemma find_item_sel l f x : sorted_e l -> find_item l f = Some x -> sel f l x.
Proof.
  intros Hs. destruct f as [v|e|e| |]; simpl; intros H.
  - apply find_some in H. destruct H as [H1 H2]. apply N.eqb_eq in H2. split; auto.
  - apply find_some in H. destruct H as [H1 H2]. apply N.eqb_eq in H2. split; auto.
  - apply last_opt_max in H; [|now apply sorted_filter]. destruct H as [H1 H2].
    apply filter_In in H1. destruct H1 as [H1 H3]. apply N.leb_le in H3. split; [exact H1|]. split; [exact H3|].
    intros y Hy Hye. apply H2. apply filter_In. split; [exact Hy|]. apply N.leb_le. exact Hye.
  - apply last_opt_max in H; [|exact Hs]. exact H.
  - destruct l as [|a t]; [discriminate|]. injection H as <-. split; [now left|].
    inversion Hs; subst. intros y [<-|Hy]; [lia|auto].
Qed.

Lemma find_item_none l f : find_item l f = None -> forall x, ~ sel f l x.
Proof.
  destruct f as [v|e|e| |]; simpl; intros H x [Hin Hx].
  - apply (find_none _ _ H) in Hin. rewrite Hx, N.eqb_refl in Hin. discriminate.
  - apply (find_none _ _ H) in Hin. rewrite Hx, N.eqb_refl in Hin. discriminate.
  - apply last_opt_none in H. destruct Hx as [Hx _].
    assert (In x (filter (fun s => vs_epoch s <=? e) l)) by (apply filter_In; split; [exact Hin|now apply N.leb_le]).
    rewrite H in H0. destruct H0.
  - apply last_opt_none in H. subst. destruct Hin.
  - destruct l; [destruct Hin|discriminate].
Qed.

(* membership in the committed state list, in terms of the database and the log *)
Lemma merged_states s u v : Inv s ->
  (In v (user_states (merged s) u) <->
   In v (user_states (m_mods s) u) \/
   (In v (user_states (m_db s) u) /\ forall m, In m (user_states (m_mods s) u) -> vs_epoch m <> vs_epoch v)).
Proof.
  intros HI. pose proof HI as (_ & K1 & N1 & K2 & N2).
  assert (Km : keyed (merged s)) by (unfold merged; now apply keyed_kput_all).
  assert (Nm : nodupk (merged s)) by (unfold merged; now apply nodupk_kput_all).
  rewrite !in_user_states_kget by assumption. rewrite kget_merged by exact HI. split.
  - intros [Hg Hu]. destruct (kget (m_mods s) (KVal u (vs_epoch v))) as [r|] eqn:G.
    + left. split; [congruence|exact Hu].
    + right. split; [split; assumption|]. intros m Hm Hne. apply in_user_states_kget in Hm; auto.
      destruct Hm as [Hm _]. rewrite Hne in Hm. congruence.
  - intros [[Hg Hu]|[[Hg Hu] Hno]].
    + rewrite Hg. auto.
    + split; [|exact Hu]. destruct (kget (m_mods s) (KVal u (vs_epoch v))) as [r|] eqn:G; [|exact Hg].
      exfalso. pose proof (K2 _ _ G) as Hk. destruct r as [? ?|? ?|w]; simpl in Hk; try discriminate.
      injection Hk as Hu' He'. apply (Hno w); [|exact He'].
      apply in_user_states_kget; auto. rewrite He'. auto.
Qed.

(* rewriting an existing (user, epoch) record keeps its version (what tombstoning does) *)
Definition rewrite_keeps_version (s : mstate) (u : N) : Prop :=
  forall m d, In m (user_states (m_mods s) u) -> In d (user_states (m_db s) u) ->
              vs_epoch m = vs_epoch d -> vs_version m = vs_version d.

(* C15: a user-state query inside a transaction selects from the committed state set *)
Theorem txn_user_state_sound s u f x : Inv s -> m_active s = true -> rewrite_keeps_version s u ->
  snd (get_user_state s u f false) = Ok x -> sel f (user_states (merged s) u) x.
Proof.
  intros HI Ha Hrw. unfold get_user_state. rewrite Ha. unfold db_user_state.
  set (D := user_states (m_db s) u). set (M := user_states (m_mods s) u). set (U := user_states (merged s) u).
  assert (HU : forall v, In v U <-> In v M \/ (In v D /\ forall m, In m M -> vs_epoch m <> vs_epoch v)) by (intros v; now apply merged_states).
  pose proof (sorted_user_states (m_db s) u) as SD. pose proof (sorted_user_states (m_mods s) u) as SM. fold D in SD. fold M in SM.
  destruct (find_item M f) as [tv|] eqn:ET; destruct (find_item D f) as [dv|] eqn:ED.
  - (* both *)
    pose proof (find_item_sel _ _ _ SM ET) as [TM TS]. pose proof (find_item_sel _ _ _ SD ED) as [DM DS].
    destruct f as [v|e|e| |]; cbn [compare_db_txn].
    + intros [= <-]. split; [apply HU; now left|exact TS].
    + intros [= <-]. split; [apply HU; now left|exact TS].
    + destruct TS as [T1 T2]. destruct DS as [D1 D2]. destruct (N.leb_spec (vs_epoch dv) (vs_epoch tv)); cbn [snd]; intros [= <-].
      * split; [apply HU; now left|]. split; [exact T1|]. intros y Hy Hye. apply HU in Hy. destruct Hy as [Hy|[Hy _]]; [auto|].
        specialize (D2 y Hy Hye). lia.
      * split; [apply HU; right; split; [exact DM|]|].
        -- intros m Hm He. specialize (T2 m Hm ltac:(lia)). lia.
        -- split; [exact D1|]. intros y Hy Hye. apply HU in Hy. destruct Hy as [Hy|[Hy _]]; [|auto]. specialize (T2 y Hy Hye). lia.
    + destruct (N.leb_spec (vs_epoch dv) (vs_epoch tv)); cbn [snd]; intros [= <-].
      * split; [apply HU; now left|]. intros y Hy. apply HU in Hy. destruct Hy as [Hy|[Hy _]]; [auto|]. specialize (DS y Hy). lia.
      * split; [apply HU; right; split; [exact DM|]|].
        -- intros m Hm He. specialize (TS m Hm). lia.
        -- intros y Hy. apply HU in Hy. destruct Hy as [Hy|[Hy _]]; [|auto]. specialize (TS y Hy). lia.
    + destruct (N.leb_spec (vs_epoch tv) (vs_epoch dv)); cbn [snd]; intros [= <-].
      * split; [apply HU; now left|]. intros y Hy. apply HU in Hy. destruct Hy as [Hy|[Hy _]]; [auto|]. specialize (DS y Hy). lia.
      * split; [apply HU; right; split; [exact DM|]|].
        -- intros m Hm He. specialize (TS m Hm). lia.
        -- intros y Hy. apply HU in Hy. destruct Hy as [Hy|[Hy _]]; [|auto]. specialize (TS y Hy). lia.
  - (* only the log answers *)
    pose proof (find_item_sel _ _ _ SM ET) as [TM TS]. pose proof (find_item_none _ _ ED) as DN.
    cbn [snd]. intros Heq. injection Heq as Heq. subst tv. split; [apply HU; now left|].
    destruct f as [v|e|e| |]; auto.
    + destruct TS as [T1 T2]. split; [exact T1|]. intros y Hy Hye. apply HU in Hy. destruct Hy as [Hy|[Hy _]]; [auto|].
      exfalso. simpl in ED. apply last_opt_none in ED.
      assert (Hf : In y (filter (fun s0 => vs_epoch s0 <=? e) D)) by (apply filter_In; split; [exact Hy|now apply N.leb_le]).
      rewrite ED in Hf. destruct Hf.
    + intros y Hy. apply HU in Hy. destruct Hy as [Hy|[Hy _]]; [auto|]. simpl in ED. apply last_opt_none in ED. rewrite ED in Hy. destruct Hy.
    + intros y Hy. apply HU in Hy. destruct Hy as [Hy|[Hy _]]; [auto|]. simpl in ED. destruct D; [destruct Hy|discriminate].
  - (* only the database answers *)
    pose proof (find_item_sel _ _ _ SD ED) as [DM DS]. pose proof (find_item_none _ _ ET) as TN.
    cbn [snd]. intros Heq. injection Heq as Heq. subst dv.
    assert (Hno : forall m, In m M -> vs_epoch m <> vs_epoch x).
    { intros m Hm He. destruct f as [v|e|e| |].
      - apply (TN m). split; [exact Hm|]. simpl in *. rewrite (Hrw m x Hm DM He). exact DS.
      - apply (TN m). split; [exact Hm|]. simpl in *. congruence.
      - apply (TN m). destruct DS as [D1 D2]. simpl in ET. apply last_opt_none in ET.
        assert (In m (filter (fun s0 => vs_epoch s0 <=? e) M)) by (apply filter_In; split; [exact Hm|apply N.leb_le; lia]).
        rewrite ET in H. destruct H.
      - simpl in ET. apply last_opt_none in ET. rewrite ET in Hm. destruct Hm.
      - simpl in ET. destruct M; [destruct Hm|discriminate]. }
    split; [apply HU; right; split; assumption|].
    destruct f as [v|e|e| |]; auto.
    + destruct DS as [D1 D2]. split; [exact D1|]. intros y Hy Hye. apply HU in Hy. destruct Hy as [Hy|[Hy _]]; [|auto].
      exfalso. simpl in ET. apply last_opt_none in ET.
      assert (In y (filter (fun s0 => vs_epoch s0 <=? e) M)) by (apply filter_In; split; [exact Hy|now apply N.leb_le]).
      rewrite ET in H. destruct H.
    + intros y Hy. apply HU in Hy. destruct Hy as [Hy|[Hy _]]; [|auto]. simpl in ET. apply last_opt_none in ET. rewrite ET in Hy. destruct Hy.
    + intros y Hy. apply HU in Hy. destruct Hy as [Hy|[Hy _]]; [|auto]. simpl in ET. destruct M; [destruct Hy|discriminate].
  - cbn [snd]. discriminate.
Qed.

(* ... and answers NotFound only when the committed set has nothing to select *)
Theorem txn_user_state_notfound s u f : Inv s -> m_active s = true ->
  snd (get_user_state s u f false) = Err ENotFound -> forall x, ~ sel f (user_states (merged s) u) x.
Proof.
  intros HI Ha. unfold get_user_state. rewrite Ha. unfold db_user_state.
  set (D := user_states (m_db s) u). set (M := user_states (m_mods s) u). set (U := user_states (merged s) u).
  assert (HU : forall v, In v U <-> In v M \/ (In v D /\ forall m, In m M -> vs_epoch m <> vs_epoch v)) by (intros v; now apply merged_states).
  destruct (find_item M f) as [tv|] eqn:ET; destruct (find_item D f) as [dv|] eqn:ED.
  - destruct (compare_db_txn (vs_epoch dv) tv f); cbn [snd]; discriminate.
  - cbn [snd]. discriminate.
  - cbn [snd]. discriminate.
  - intros _ x [Hin Hx]. pose proof (find_item_none _ _ ET) as TN. pose proof (find_item_none _ _ ED) as DN.
    apply HU in Hin. destruct Hin as [Hin|[Hin _]].
    + apply (TN x). split; [exact Hin|]. destruct f as [v|e|e| |]; auto.
      * destruct Hx as [H1 H2]. split; [exact H1|]. intros y Hy. apply H2. apply HU. now left.
      * intros y Hy. apply Hx. apply HU. now left.
      * intros y Hy. apply Hx. apply HU. now left.
    + destruct f as [v|e|e| |]; simpl in ED.
      * apply (find_none _ _ ED) in Hin. rewrite Hx, N.eqb_refl in Hin. discriminate.
      * apply (find_none _ _ ED) in Hin. rewrite Hx, N.eqb_refl in Hin. discriminate.
      * apply last_opt_none in ED. destruct Hx as [H1 _].
        assert (In x (filter (fun s0 => vs_epoch s0 <=? e) D)) by (apply filter_In; split; [exact Hin|now apply N.leb_le]).
        rewrite ED in H. destruct H.
      * apply last_opt_none in ED. rewrite ED in Hin. destruct Hin.
      * destruct D; [destruct Hin|discriminate].
Qed.

(* get_user_data inside a transaction lists exactly the committed states of the user *)
Theorem txn_user_data s u : Inv s -> m_active s = true ->
  exists l, snd (get_user_data s u false) = Ok l /\ forall v, In v l <-> In v (user_states (merged s) u).
Proof.
  intros HI Ha. unfold get_user_data. rewrite Ha. cbn [snd]. eexists. split; [reflexivity|].
  intros v. rewrite merged_states by exact HI. unfold override. rewrite in_app_iff, filter_In.
  split.
  - intros [[Hd Hn]|Hm]; [right|now left]. split; [exact Hd|]. intros m Hm He.
    apply negb_true_iff in Hn. assert (existsb (fun m0 => vs_epoch m0 =? vs_epoch v) (user_states (m_mods s) u) = true); [|congruence].
    apply existsb_exists. exists m. split; [exact Hm|now apply N.eqb_eq].
  - intros [Hm|[Hd Hn]]; [now right|left]. split; [exact Hd|]. apply negb_true_iff.
    destruct (existsb _ _) eqn:E; [|reflexivity]. apply existsb_exists in E. destruct E as (m & Hm & He).
    apply N.eqb_eq in He. exfalso. exact (Hn m Hm He).
Qed.

Theorem Inv_steps s : Inv s ->
  (forall ks, Inv (evict s ks)) /\ Inv (flush s) /\ Inv (fst (begin_transaction s)) /\
  (forall f, Inv (fst (commit_transaction s f))) /\ Inv (fst (rollback_transaction s)) /\
  (forall r f, Inv (fst (set_record s r f))) /\ (forall rs f, Inv (fst (batch_set s rs f))) /\
  (forall k f, Inv (fst (get_record s k f))) /\ (forall ks f, Inv (fst (batch_get s ks f))) /\
  (forall u fl f, Inv (fst (get_user_state s u fl f))) /\ (forall u f, Inv (fst (get_user_data s u f))) /\
  (forall us fl f, Inv (fst (get_user_state_versions s us fl f))) /\
  (forall u e f1 f2, Inv (fst (tombstone s u e f1 f2))).
Proof.
  intros H.
  split; [intros; now apply Inv_evict|]. split; [now apply Inv_flush|]. split; [now apply Inv_begin|].
  split; [intros; now apply Inv_commit|]. split; [now apply Inv_rollback|]. split; [intros; now apply Inv_set|].
  split; [intros; now apply Inv_batch_set|]. split; [intros; now apply Inv_get|]. split; [intros; now apply Inv_batch_get|].
  split; [intros; now apply Inv_get_user_state|]. split; [intros; now apply Inv_get_user_data|].
  split; [intros; now apply Inv_get_user_state_versions|]. intros; now apply Inv_tombstone.
Qed.

(* ------------------------------------------------------------------ C10: a failed publish, storage side *)

(* the operations a publish performs between begin_transaction and commit / rollback, with the
   environment's choice for every database call *)
Inductive txn_op :=
| OSet (r : record) (f : bool)
| OBatchSet (rs : list record) (f : bool)
| OGet (k : key) (f : bool)
| OBatchGet (ks : list key) (f : bool)
| OUserState (u : N) (fl : flag) (f : bool)
| OUserData (u : N) (f : bool)
| OUserVersions (us : list N) (fl : flag) (f : bool)
| OEvict (ks : list key).

Definition run_op (s : mstate) (o : txn_op) : mstate :=
  match o with
  | OSet r f => fst (set_record s r f)
  | OBatchSet rs f => fst (batch_set s rs f)
  | OGet k f => fst (get_record s k f)
  | OBatchGet ks f => fst (batch_get s ks f)
  | OUserState u fl f => fst (get_user_state s u fl f)
  | OUserData u f => fst (get_user_data s u f)
  | OUserVersions us fl f => fst (get_user_state_versions s us fl f)
  | OEvict ks => evict s ks
  end.

Lemma run_op_in_txn s o : m_active s = true -> m_db (run_op s o) = m_db s /\ m_active (run_op s o) = true.
Proof.
  intros Ha. destruct o; simpl.
  - unfold set_record. rewrite Ha. auto.
  - unfold batch_set. destruct rs; [auto|]. rewrite Ha. auto.
  - unfold get_record. rewrite Ha. destruct (kget (m_mods s) k); [auto|]. destruct (cache_get _ _); [auto|].
    destruct f; [unfold tick; auto|]. destruct (kget (m_db s) k); unfold tick; auto.
  - unfold batch_get. destruct ks; [auto|].
    match goal with |- context [match ?m with [] => _ | _ => _ end] => destruct m end; [auto|].
    destruct f; unfold tick; auto.
  - unfold get_user_state. destruct f; [unfold tick; auto|].
    match goal with |- context [match ?x with Some _ => _ | None => _ end] => destruct x end; [unfold tick; auto|].
    destruct (db_user_state _ _ _); unfold tick; auto.
  - unfold get_user_data, tick. auto.
  - unfold get_user_state_versions, tick. auto.
  - unfold evict. auto.
Qed.

Lemma run_op_Inv s o : Inv s -> Inv (run_op s o).
Proof.
  intros H. destruct o; simpl; auto using Inv_set, Inv_batch_set, Inv_get, Inv_batch_get, Inv_get_user_state,
    Inv_get_user_data, Inv_get_user_state_versions, Inv_evict.
Qed.

Lemma run_ops_in_txn ops : forall s, m_active s = true -> Inv s ->
  m_db (fold_left run_op ops s) = m_db s /\ m_active (fold_left run_op ops s) = true /\ Inv (fold_left run_op ops s).
Proof.
  induction ops as [|o ops IH]; intros s Ha HI; simpl; [auto|].
  destruct (run_op_in_txn s o Ha) as [Hd Ha']. destruct (IH (run_op s o) Ha' (run_op_Inv s o HI)) as (I1 & I2 & I3).
  rewrite I1, Hd. auto.
Qed.

(* C10: begin; any program of storage operations with any database call rejected and any cache
   eviction; then rollback, or a commit the database rejects, or a commit refused for lack of an
   epoch record: the database is exactly as before, no transaction is open, the log is empty and the
   cache still agrees with the database - so every later read returns what it returned before *)
Theorem failed_publish_restores s ops s' :
  Inv s -> m_active s = false ->
  let s1 := fold_left run_op ops (fst (begin_transaction s)) in
  (s' = fst (rollback_transaction s1) \/ s' = fst (commit_transaction s1 true) \/
   (exists e, commit_transaction s1 false = (s', Err e))) ->
  m_db s' = m_db s /\ m_active s' = false /\ m_mods s' = [] /\ Inv s'.
Proof.
  intros HI Ha s1 Hend.
  destruct (run_ops_in_txn ops (fst (begin_transaction s)) eq_refl (Inv_begin s HI)) as (D1 & A1 & I1).
  fold s1 in D1, A1, I1. cbn [begin_transaction fst m_db] in D1.
  destruct Hend as [->|[->|[e He]]].
  - pose proof (Inv_rollback s1 I1) as H. rewrite rollback_spec in H by exact A1. cbn [fst] in H.
    rewrite rollback_spec by exact A1. cbn [fst m_db m_active m_mods].
    split; [exact D1|]. split; [reflexivity|]. split; [reflexivity|exact H].
  - split; [rewrite failed_commit_keeps_db; exact D1|]. split; [|split; [|apply Inv_commit; exact I1]].
    + unfold commit_transaction. rewrite A1. cbn [negb]. destruct (sort_by_priority _) as [|r0 rs] eqn:E; [reflexivity|].
      rewrite <- E. destruct (last _ _); reflexivity.
    + unfold commit_transaction. rewrite A1. cbn [negb]. destruct (sort_by_priority _) as [|r0 rs] eqn:E; [reflexivity|].
      rewrite <- E. destruct (last _ _); reflexivity.
  - pose proof (Inv_commit s1 false I1) as HI'. rewrite He in HI'. cbn [fst] in HI'.
    unfold commit_transaction in He. rewrite A1 in He. cbn [negb] in He.
    destruct (sort_by_priority _) as [|r0 rs] eqn:E; [discriminate|]. rewrite <- E in He.
    destruct (last _ _); try discriminate; injection He as <- _; cbn [m_db m_active m_mods];
      (split; [exact D1|]; split; [reflexivity|]; split; [reflexivity|exact HI']).
Qed.

(* ------------------------------------------------------------------ C20: tombstoning, storage side *)

Definition tombstoned (u c : N) (r : record) : record :=
  match r with
  | RVal v => if (vs_user v =? u) && (vs_epoch v <=? c) && negb (vs_value v =? 0)
              then RVal (VS (vs_user v) (vs_epoch v) (vs_version v) 0) else r
  | _ => r
  end.

(* C20 frame: outside a transaction a successful tombstone rewrites only the value field of the
   user's value states with epoch <= c; node records, the epoch record and all other value states
   are exactly as before, and no key appears or disappears *)
Definition tomb_records (states : list vstate) (c : N) : list record :=
  flat_map (fun v => if (vs_epoch v <=? c) && negb (vs_value v =? 0)
                     then [RVal (VS (vs_user v) (vs_epoch v) (vs_version v) 0)] else []) states.

Lemma tombstone_unfold s u c : m_active s = false ->
  m_db (fst (tombstone s u c false false)) = kput_all (m_db s) (tomb_records (user_states (m_db s) u) c).
Proof.
  intros Ha. unfold tombstone, get_user_data. rewrite Ha.
  destruct (user_states (m_db s) u) as [|d0 dl] eqn:Ed; cbv beta iota zeta; cbn [fst snd].
  - reflexivity.
  - fold (tomb_records (d0 :: dl) c). unfold batch_set.
    destruct (tomb_records (d0 :: dl) c) as [|r0 rs]; [reflexivity|]. unfold tick. cbn [m_active]. rewrite Ha. reflexivity.
Qed.

Theorem tombstone_frame s u c : Inv s -> m_active s = false ->
  forall k, kget (m_db (fst (tombstone s u c false false))) k =
            match kget (m_db s) k with Some r => Some (tombstoned u c r) | None => None end.
Proof.
  intros HI Ha k. pose proof HI as (_ & K1 & N1 & _ & _). rewrite tombstone_unfold by exact Ha.
  set (dbl := user_states (m_db s) u).
  assert (Hdbl : forall v, In v dbl <-> kget (m_db s) (KVal u (vs_epoch v)) = Some (RVal v) /\ vs_user v = u).
  { intros v. apply in_user_states_kget; assumption. }
  assert (Hnew : forall r, In r (tomb_records dbl c) <->
    exists v, In v dbl /\ (vs_epoch v <=? c) && negb (vs_value v =? 0) = true /\ r = RVal (VS (vs_user v) (vs_epoch v) (vs_version v) 0)).
  { intros r. unfold tomb_records. rewrite in_flat_map. split.
    - intros (v & Hv & Hr). exists v. split; [exact Hv|]. destruct ((vs_epoch v <=? c) && negb (vs_value v =? 0)); [|destruct Hr].
      destruct Hr as [<-|[]]. auto.
    - intros (v & Hv & Hc & ->). exists v. split; [exact Hv|]. rewrite Hc. now left. }
  rewrite kget_kput_all.
  destruct (find (fun r => key_eqb k (key_of r)) (rev (tomb_records dbl c))) as [r|] eqn:F.
  - apply find_some in F. destruct F as [Hin Hk]. apply key_eqb_eq in Hk. apply in_rev in Hin.
    apply Hnew in Hin. destruct Hin as (v & Hv & Hc & ->). simpl in Hk. subst k.
    apply Hdbl in Hv. destruct Hv as [Hg Hu]. rewrite Hu, Hg. f_equal. simpl. rewrite Hu, N.eqb_refl. cbn [andb].
    apply andb_true_iff in Hc. destruct Hc as [C1 C2]. rewrite C1, C2. reflexivity.
  - destruct (kget (m_db s) k) as [r|] eqn:G; [|reflexivity]. f_equal. destruct r as [| |v]; try reflexivity. simpl.
    destruct ((vs_user v =? u) && (vs_epoch v <=? c) && negb (vs_value v =? 0)) eqn:C; [|reflexivity]. exfalso.
    apply andb_true_iff in C. destruct C as [C C3]. apply andb_true_iff in C. destruct C as [C1 C2]. apply N.eqb_eq in C1.
    pose proof (K1 _ _ G) as Hk. simpl in Hk. subst k.
    assert (Hv : In v dbl) by (apply Hdbl; rewrite <- C1; auto).
    assert (Hr : In (RVal (VS (vs_user v) (vs_epoch v) (vs_version v) 0)) (rev (tomb_records dbl c))).
    { apply -> in_rev. apply Hnew. exists v. rewrite C2, C3. auto. }
    apply (find_none _ _ F) in Hr. cbn [key_of vs_user vs_epoch] in Hr. rewrite key_eqb_refl in Hr. discriminate.
Qed.
