(* C14: parallel insertion.  The implementation inserts below an interior node by handling the two
   children independently - the left one in a spawned task, the right one in the current task - and
   joins them before it writes the node itself.  The model's insertion is a pure function, so the
   VALUES the two sides compute cannot depend on their relative timing; what a parallel run can
   change is the ORDER in which the node records of the two sides reach the shared store.

   Theorems: in a well-formed subtree the node labels below the left child and below the right child
   are disjoint (they differ in the bit that follows the parent's label); writes to disjoint key sets
   commute under every interleaving - the final store, and what either side reads of its own keys in
   between, is that of the sequential run.  Hence the order of the two sides' record writes is
   immaterial.  (That each side touches only records of its own subtree is what the configuration
   matrix validates on the code: every parallelism setting against the sequential run.) *)
From Coq Require Import List Bool Arith NArith Lia.
From Akd Require Import Bits NodeLabel Hashing Tree TreeFacts.
Import ListNotations.
Local Open Scope nat_scope.

(* every node label of a (sub)tree *)
Fixpoint node_labels (t : tree) : list nlabel :=
  match t with
  | Leaf l _ _ => [l]
  | Node l _ _ a b =>
    l :: (match a with Some c => node_labels c | None => [] end) ++ (match b with Some c => node_labels c | None => [] end)
  end.

Lemma pord_facts a b d : pord a b = Some d ->
  prefixb a b = true /\ length a < length b /\ nth (length a) b false = d.
Proof.
  unfold pord. destruct (Nat.leb_spec (length b) (length a)) as [H|H]; [discriminate|].
  destruct (prefixb a b) eqn:E; [|discriminate]. intros Hd. injection Hd as <-. repeat split; [lia].
Qed.

Lemma labels_extend_root : forall t, wf_sub t = true ->
  forall l, In l (node_labels t) -> prefixb (bits_of (tlabel t)) (bits_of l) = true.
Proof.
  induction t as [l v e|l le mde a b IHa IHb] using tree_ind'; intros W x Hx.
  - destruct Hx as [<-|[]]. apply prefixb_refl.
  - cbn [node_labels] in Hx. destruct Hx as [<-|Hx]; [apply prefixb_refl|].
    cbn [wf_sub tlabel] in W. destruct a as [ca|]; destruct b as [cb|]; try (rewrite !andb_false_r in W; discriminate).
    apply andb_true_iff in W. destruct W as [_ W].
    apply andb_true_iff in W. destruct W as [W Wb]. apply andb_true_iff in W. destruct W as [W Wa].
    apply andb_true_iff in W. destruct W as [Pa Pb].
    apply in_app_or in Hx. destruct Hx as [Hx|Hx].
    + destruct (pord (bits_of l) (bits_of (tlabel ca))) as [[|]|] eqn:E; try discriminate.
      destruct (pord_facts _ _ _ E) as (P & _ & _). cbn [tlabel].
      eapply prefixb_trans; [exact P | apply (IHa ca eq_refl Wa x Hx)].
    + destruct (pord (bits_of l) (bits_of (tlabel cb))) as [[|]|] eqn:E; try discriminate.
      destruct (pord_facts _ _ _ E) as (P & _ & _). cbn [tlabel].
      eapply prefixb_trans; [exact P | apply (IHb cb eq_refl Wb x Hx)].
Qed.

Lemma nth_of_prefix p q k : prefixb p q = true -> k < length p -> nth k q false = nth k p false.
Proof. intros H Hk. apply prefixb_nth in H. destruct H as [_ H]. symmetry. apply H. exact Hk. Qed.

(* the two sides of an interior node have no label in common *)
Theorem sides_disjoint l le mde a b :
  wf_sub (Node l le mde (Some a) (Some b)) = true ->
  forall x y, In x (node_labels a) -> In y (node_labels b) -> bits_of x <> bits_of y.
Proof.
  intros W x y Hx Hy E.
  cbn [wf_sub tlabel] in W.
  apply andb_true_iff in W. destruct W as [_ W].
  apply andb_true_iff in W. destruct W as [W Wb]. apply andb_true_iff in W. destruct W as [W Wa].
  apply andb_true_iff in W. destruct W as [Pa Pb].
  destruct (pord (bits_of l) (bits_of (tlabel a))) as [[|]|] eqn:Ea; try discriminate.
  destruct (pord (bits_of l) (bits_of (tlabel b))) as [[|]|] eqn:Eb; try discriminate.
  destruct (pord_facts _ _ _ Ea) as (_ & La & Na). destruct (pord_facts _ _ _ Eb) as (_ & Lb & Nb).
  pose proof (labels_extend_root a Wa x Hx) as Px. pose proof (labels_extend_root b Wb y Hy) as Py.
  pose proof (nth_of_prefix _ _ _ Px La) as Bx. pose proof (nth_of_prefix _ _ _ Py Lb) as By.
  rewrite Na in Bx. rewrite Nb in By. rewrite E in Bx. congruence.
Qed.

(* ------------------------------------------------------------------ writes to disjoint keys commute *)
Section Store.
  Variable V : Type.
  Definition kstore := bits -> option V.
  Definition put (st : kstore) (k : bits) (v : V) : kstore := fun k' => if bits_eqb k' k then Some v else st k'.
  Definition apply_writes (ws : list (bits * V)) (st : kstore) : kstore := fold_left (fun s w => put s (fst w) (snd w)) ws st.

  Inductive interleave : list (bits * V) -> list (bits * V) -> list (bits * V) -> Prop :=
  | il_nil : interleave [] [] []
  | il_left x l1 l2 l : interleave l1 l2 l -> interleave (x :: l1) l2 (x :: l)
  | il_right y l1 l2 l : interleave l1 l2 l -> interleave l1 (y :: l2) (y :: l).

  Definition keys (ws : list (bits * V)) : list bits := map fst ws.

  Lemma apply_writes_other ws : forall st k, ~ In k (keys ws) -> apply_writes ws st k = st k.
  Proof.
    induction ws as [|[k0 v0] ws IH]; intros st k Hk; [reflexivity|]. cbn [apply_writes fold_left fst snd].
    change (fold_left (fun s w => put s (fst w) (snd w)) ws (put st k0 v0) k) with (apply_writes ws (put st k0 v0) k).
    rewrite IH by (intros H; apply Hk; right; exact H). unfold put.
    destruct (bits_eqb k k0) eqn:E; [|reflexivity]. apply bits_eqb_eq in E. exfalso. apply Hk. left. cbn. congruence.
  Qed.

  Lemma apply_writes_ext ws : forall st st' k, st k = st' k -> apply_writes ws st k = apply_writes ws st' k.
  Proof.
    induction ws as [|[k0 v0] ws IH]; intros st st' k H; [exact H|]. cbn [apply_writes fold_left fst snd].
    apply (IH (put st k0 v0) (put st' k0 v0) k). unfold put. destruct (bits_eqb k k0); [reflexivity | exact H].
  Qed.

  Lemma apply_writes_app w1 w2 st : apply_writes (w1 ++ w2) st = apply_writes w2 (apply_writes w1 st).
  Proof. unfold apply_writes. apply fold_left_app. Qed.

  (* what a key holds after an interleaved run: decided by the side that owns the key *)
  Lemma interleave_key w1 w2 w : interleave w1 w2 w ->
    (forall k, In k (keys w1) -> ~ In k (keys w2)) ->
    forall st k,
      apply_writes w st k =
      if existsb (bits_eqb k) (keys w1) then apply_writes w1 st k
      else apply_writes w2 st k.
  Proof.
    unfold keys. induction 1 as [|[k0 v0] l1 l2 l Hi IH|[k0 v0] l1 l2 l Hi IH]; intros Hd st k.
    - reflexivity.
    - cbn [apply_writes fold_left fst snd map existsb].
      change (fold_left (fun s w => put s (fst w) (snd w)) l (put st k0 v0) k) with (apply_writes l (put st k0 v0) k).
      change (fold_left (fun s w => put s (fst w) (snd w)) l1 (put st k0 v0) k) with (apply_writes l1 (put st k0 v0) k).
      rewrite IH by (intros k' Hk'; apply Hd; right; exact Hk').
      destruct (bits_eqb k k0) eqn:E; cbn [orb].
      + apply bits_eqb_eq in E. subst k0.
        destruct (existsb (bits_eqb k) (map fst l1)) eqn:Ex; [reflexivity|].
        (* k is written by the left side only: the right side leaves it alone *)
        rewrite apply_writes_other by (unfold keys; apply Hd; left; reflexivity).
        symmetry. apply apply_writes_other. unfold keys. intros Hin.
        assert (existsb (bits_eqb k) (map fst l1) = true) by (apply existsb_exists; exists k; split; [exact Hin | apply bits_eqb_refl]). congruence.
      + destruct (existsb (bits_eqb k) (map fst l1)); [reflexivity|].
        apply apply_writes_ext. unfold put. rewrite E. reflexivity.
    - cbn [apply_writes fold_left fst snd].
      change (fold_left (fun s w => put s (fst w) (snd w)) l (put st k0 v0) k) with (apply_writes l (put st k0 v0) k).
      change (fold_left (fun s w => put s (fst w) (snd w)) l2 (put st k0 v0) k) with (apply_writes l2 (put st k0 v0) k).
      rewrite IH by (intros k' Hk' Hin; apply (Hd k' Hk'); right; exact Hin).
      destruct (existsb (bits_eqb k) (map fst l1)) eqn:Ex; [|reflexivity].
      apply apply_writes_ext. unfold put. destruct (bits_eqb k k0) eqn:E; [|reflexivity].
      apply bits_eqb_eq in E. subst k0. exfalso.
      apply existsb_exists in Ex. destruct Ex as (k' & Hk' & Ek'). apply bits_eqb_eq in Ek'. subst k'.
      apply (Hd k Hk'). left. reflexivity.
  Qed.

  (* every interleaving of two write sequences over disjoint key sets leaves the store of the
     sequential run (left side, then right side) *)
  Theorem disjoint_writes_commute w1 w2 w st :
    interleave w1 w2 w -> (forall k, In k (keys w1) -> ~ In k (keys w2)) ->
    forall k, apply_writes w st k = apply_writes (w1 ++ w2) st k.
  Proof.
    intros Hi Hd k. rewrite (interleave_key w1 w2 w Hi Hd st k), apply_writes_app.
    destruct (existsb (bits_eqb k) (keys w1)) eqn:Ex.
    - apply existsb_exists in Ex. destruct Ex as (k' & Hk' & Ek'). apply bits_eqb_eq in Ek'. subst k'.
      symmetry. apply apply_writes_other. apply Hd. exact Hk'.
    - apply apply_writes_ext. symmetry. apply apply_writes_other. intros Hin.
      assert (existsb (bits_eqb k) (keys w1) = true) by (apply existsb_exists; exists k; split; [exact Hin | apply bits_eqb_refl]). congruence.
  Qed.

  (* and while the run is in progress, what a side reads of its own keys does not depend on how far
     the other side has got *)
  Theorem own_keys_unaffected w_other st k : ~ In k (keys w_other) -> apply_writes w_other st k = st k.
  Proof. apply apply_writes_other. Qed.
End Store.

(* put together: the record writes of the two sides of an interior node, in any interleaved order *)
Theorem parallel_sides_as_sequential (V : Type) l le mde a b (wa wb w : list (bits * V)) st :
  wf_sub (Node l le mde (Some a) (Some b)) = true ->
  (forall k, In k (keys V wa) -> exists x, In x (node_labels a) /\ k = bits_of x) ->
  (forall k, In k (keys V wb) -> exists y, In y (node_labels b) /\ k = bits_of y) ->
  interleave V wa wb w ->
  forall k, apply_writes V w st k = apply_writes V (wa ++ wb) st k.
Proof.
  intros W Ha Hb Hi. apply (disjoint_writes_commute V wa wb w st Hi).
  intros k Hka Hkb. destruct (Ha k Hka) as (x & Hx & ->). destruct (Hb _ Hkb) as (y & Hy & E).
  exact (sides_disjoint l le mde a b W x y Hx Hy E).
Qed.

(* the premise has models: the two-leaf tree with the labels 0^256 and 1 0^255 *)
Example sides_premise_sat :
  let a := Leaf (nl_of_bits (repeat false 256)) [] 1%N in
  let b := Leaf (nl_of_bits (true :: repeat false 255)) [] 1%N in
  wf_sub (Node nl_root 1%N 1%N (Some a) (Some b)) = true /\
  node_labels a <> [] /\ node_labels b <> [].
Proof. vm_compute. repeat split; discriminate. Qed.
