(* Wire model (layer L6): the protobuf encoding of every proof type (akd_core/src/proto/specs/
   types.proto, field numbers regenerated into GenConsts.v) and the conversion layer of
   akd_core/src/proto/mod.rs (required fields, label-length and digest-length checks, minimal label
   encoding, direction masking).

   Encoders are byte-exact (compared with rust-protobuf's output on every generated proof).
   Decoders answer POk p, PReject (the conversion layer of akd certainly returns an error) or
   POutside (the bytes use wire features whose treatment is the protobuf library's business, not
   akd's: unknown fields, wrong wire types, duplicated singular fields, groups, fixed-width fields,
   over-long varints, input that ends inside a varint or before a declared length is exhausted); the correspondence compares the first two answers with the implementation and only
   checks absence of panics for the third.  Executable. *)
From Coq Require Import List Bool Arith NArith Lia.
From Akd Require GenConsts.
From Akd Require Import NodeLabel Hashing ElemSet Tree Directory.
Import ListNotations.
Open Scope N_scope.

Inductive pres (A : Type) := POk (a : A) | PReject | POutside.
Arguments POk {A} a.
Arguments PReject {A}.
Arguments POutside {A}.

Definition pbind {A B} (x : pres A) (f : A -> pres B) : pres B :=
  match x with POk a => f a | PReject => PReject | POutside => POutside end.
Notation "x <- e ;; k" := (pbind e (fun x => k)) (at level 61, e at next level, right associativity).

Fixpoint pmap {A B} (f : A -> pres B) (l : list A) : pres (list B) :=
  match l with
  | [] => POk []
  | a :: r => b <- f a ;; bs <- pmap f r ;; POk (b :: bs)
  end.

(* ------------------------------------------------------------------ varints *)

Fixpoint varint_fuel (fuel : nat) (n : N) : bytes :=
  match fuel with
  | O => []
  | S f => if n <? 128 then [n] else (n mod 128 + 128) :: varint_fuel f (n / 128)
  end.
Definition varint (n : N) : bytes := varint_fuel (S (N.to_nat (N.size n))) n.

(* value, number of bytes read, rest; None = the input ends inside the varint *)
Fixpoint unvarint (bs : bytes) : option (N * nat * bytes) :=
  match bs with
  | [] => None
  | b :: r =>
    if b <? 128 then Some (b, 1%nat, r)
    else match unvarint r with
         | Some (n, k, r') => Some (b - 128 + 128 * n, S k, r')
         | None => None
         end
  end.

(* a varint of at most [maxlen] bytes and value below [bound] *)
Definition read_var (maxlen : nat) (bound : N) (bs : bytes) : pres (N * bytes) :=
  match unvarint bs with
  | None => POutside   (* the input ends inside a varint: left to the library *)
  | Some (n, k, r) => if (maxlen <? k)%nat || (bound <=? n) then POutside else POk (n, r)
  end.

Definition two32 : N := 4294967296.
Definition two64 : N := 18446744073709551616.

(* ------------------------------------------------------------------ fields *)

Inductive wval := WVar (n : N) | WLen (b : bytes).
Definition field := (N * wval)%type.
Inductive fkind := KU32 | KU64 | KLen.
Definition schema := N -> option fkind.

Definition enc_field (f : field) : bytes :=
  match snd f with
  | WVar n => varint (fst f * 8) ++ varint n
  | WLen b => varint (fst f * 8 + 2) ++ varint (N.of_nat (length b)) ++ b
  end.
Definition enc_fields (fs : list field) : bytes := flat_map enc_field fs.

Definition parse_one (sch : schema) (bs : bytes) : pres (field * bytes) :=
  tr <- read_var 5 two32 bs ;;
  let tag := fst tr in
  let fno := tag / 8 in
  let wt := tag mod 8 in
  match sch fno with
  | None => POutside
  | Some KU32 =>
    if wt =? 0 then vr <- read_var 5 two32 (snd tr) ;; POk ((fno, WVar (fst vr)), snd vr) else POutside
  | Some KU64 =>
    if wt =? 0 then vr <- read_var 10 two64 (snd tr) ;; POk ((fno, WVar (fst vr)), snd vr) else POutside
  | Some KLen =>
    if wt =? 2 then
      lr <- read_var 10 two64 (snd tr) ;;
      if N.of_nat (length (snd lr)) <? fst lr then POutside   (* declared length beyond the input: rust-protobuf reads up to the end and accepts a message that stops at a field boundary *)
      else POk ((fno, WLen (firstn (N.to_nat (fst lr)) (snd lr))), skipn (N.to_nat (fst lr)) (snd lr))
    else POutside
  end.

Fixpoint parse_fields (sch : schema) (fuel : nat) (bs : bytes) : pres (list field) :=
  match bs with
  | [] => POk []
  | _ =>
    match fuel with
    | O => POutside
    | S f => fr <- parse_one sch bs ;; fs <- parse_fields sch f (snd fr) ;; POk (fst fr :: fs)
    end
  end.
Definition parse (sch : schema) (bs : bytes) : pres (list field) := parse_fields sch (S (length bs)) bs.

Definition occurrences (f : N) (fs : list field) : list wval :=
  map snd (filter (fun x => fst x =? f) fs).

(* singular fields: a second occurrence is left to the library (it keeps the last one, but parses
   all of them) *)
Definition get_opt (f : N) (fs : list field) : pres (option wval) :=
  match occurrences f fs with
  | [] => POk None
  | [v] => POk (Some v)
  | _ => POutside
  end.
Definition req_var (f : N) (fs : list field) : pres N :=
  o <- get_opt f fs ;;
  match o with None => PReject | Some (WVar n) => POk n | Some (WLen _) => POutside end.
Definition req_len (f : N) (fs : list field) : pres bytes :=
  o <- get_opt f fs ;;
  match o with None => PReject | Some (WLen b) => POk b | Some (WVar _) => POutside end.
Definition opt_len (f : N) (fs : list field) : pres (option bytes) :=
  o <- get_opt f fs ;;
  match o with None => POk None | Some (WLen b) => POk (Some b) | Some (WVar _) => POutside end.
Definition rep_len (f : N) (fs : list field) : pres (list bytes) :=
  pmap (fun v => match v with WLen b => POk b | WVar _ => POutside end) (occurrences f fs).
Definition rep_var (f : N) (fs : list field) : pres (list N) :=
  pmap (fun v => match v with WVar n => POk n | WLen _ => POutside end) (occurrences f fs).

Definition rep_field (f : N) (l : list bytes) : list field := map (fun b => (f, WLen b)) l.
Definition rep_vfield (f : N) (l : list N) : list field := map (fun n => (f, WVar n)) l.
Definition opt_field (f : N) (o : option bytes) : list field :=
  match o with Some b => [(f, WLen b)] | None => [] end.

Definition mk_schema (l : list (N * fkind)) : schema :=
  fun f => match find (fun x => fst x =? f) l with Some x => Some (snd x) | None => None end.

(* ------------------------------------------------------------------ NodeLabel *)

(* encode_minimum_label: drop trailing zero bytes *)
Fixpoint strip0 (v : bytes) : bytes :=
  match v with
  | [] => []
  | b :: r => match strip0 r with
              | [] => if b =? 0 then [] else [b]
              | r' => b :: r'
              end
  end.
(* decode_minimized_label *)
Definition pad32 (v : bytes) : bytes := v ++ repeat 0 (32 - length v)%nat.

Definition sch_label : schema :=
  mk_schema [(GenConsts.proto_NodeLabel_label_val, KLen); (GenConsts.proto_NodeLabel_label_len, KU32)].
Definition enc_label (l : nlabel) : bytes :=
  enc_fields [(GenConsts.proto_NodeLabel_label_val, WLen (strip0 (lval l)));
              (GenConsts.proto_NodeLabel_label_len, WVar (llen l))].
Definition dec_label (bs : bytes) : pres nlabel :=
  fs <- parse sch_label bs ;;
  n <- req_var GenConsts.proto_NodeLabel_label_len fs ;;
  v <- req_len GenConsts.proto_NodeLabel_label_val fs ;;
  if GenConsts.proto_label_val_max <? N.of_nat (length v) then PReject
  else if GenConsts.proto_label_len_max <? n then PReject
  else POk (NL (pad32 v) n).

(* hash_from_bytes! / try_parse_digest *)
Definition dec_digest (b : bytes) : pres bytes :=
  if N.of_nat (length b) =? GenConsts.DIGEST_BYTES then POk b else PReject.

(* ------------------------------------------------------------------ AzksElement *)

Definition sch_elem : schema :=
  mk_schema [(GenConsts.proto_AzksElement_label, KLen); (GenConsts.proto_AzksElement_value, KLen)].
Definition enc_elem (e : elem) : bytes :=
  enc_fields [(GenConsts.proto_AzksElement_label, WLen (enc_label (e_label e)));
              (GenConsts.proto_AzksElement_value, WLen (e_value e))].
Definition dec_elem (bs : bytes) : pres elem :=
  fs <- parse sch_elem bs ;;
  lb <- req_len GenConsts.proto_AzksElement_label fs ;;
  vb <- req_len GenConsts.proto_AzksElement_value fs ;;
  l <- dec_label lb ;;
  v <- dec_digest vb ;;
  POk (El l v).

(* ------------------------------------------------------------------ SiblingProof *)

Definition sch_sib : schema :=
  mk_schema [(GenConsts.proto_SiblingProof_label, KLen); (GenConsts.proto_SiblingProof_siblings, KLen);
             (GenConsts.proto_SiblingProof_direction, KU32)].
Definition enc_sib (s : sibling_proof) : bytes :=
  enc_fields [(GenConsts.proto_SiblingProof_label, WLen (enc_label (sp_label s)));
              (GenConsts.proto_SiblingProof_siblings, WLen (enc_elem (El (sp_sib_label s) (sp_sib_val s))));
              (GenConsts.proto_SiblingProof_direction, WVar (if sp_dir s then 1 else 0))].
Definition dec_sib (bs : bytes) : pres sibling_proof :=
  fs <- parse sch_sib bs ;;
  d <- req_var GenConsts.proto_SiblingProof_direction fs ;;
  lb <- req_len GenConsts.proto_SiblingProof_label fs ;;
  l <- dec_label lb ;;
  sibs <- rep_len GenConsts.proto_SiblingProof_siblings fs ;;
  match sibs with
  | [] => PReject
  | sb :: _ =>
    let dm := N.land d GenConsts.DIRECTION_BLINDING_FACTOR in
    if 1 <? dm then PReject
    else e <- dec_elem sb ;; POk (SP l (e_label e) (e_value e) (dm =? 1))
  end.

(* ------------------------------------------------------------------ MembershipProof *)

Definition sch_mp : schema :=
  mk_schema [(GenConsts.proto_MembershipProof_label, KLen); (GenConsts.proto_MembershipProof_hash_val, KLen);
             (GenConsts.proto_MembershipProof_sibling_proofs, KLen)].
Definition enc_mp (p : membership_proof) : bytes :=
  enc_fields ((GenConsts.proto_MembershipProof_label, WLen (enc_label (mp_label p))) ::
              (GenConsts.proto_MembershipProof_hash_val, WLen (mp_hash_val p)) ::
              rep_field GenConsts.proto_MembershipProof_sibling_proofs (map enc_sib (mp_sibs p))).
Definition dec_mp (bs : bytes) : pres membership_proof :=
  fs <- parse sch_mp bs ;;
  lb <- req_len GenConsts.proto_MembershipProof_label fs ;;
  hb <- req_len GenConsts.proto_MembershipProof_hash_val fs ;;
  l <- dec_label lb ;;
  h <- dec_digest hb ;;
  sbs <- rep_len GenConsts.proto_MembershipProof_sibling_proofs fs ;;
  sibs <- pmap dec_sib sbs ;;
  POk (MP l h sibs).

(* ------------------------------------------------------------------ NonMembershipProof *)

Definition sch_nmp : schema :=
  mk_schema [(GenConsts.proto_NonMembershipProof_label, KLen); (GenConsts.proto_NonMembershipProof_longest_prefix, KLen);
             (GenConsts.proto_NonMembershipProof_longest_prefix_children, KLen);
             (GenConsts.proto_NonMembershipProof_longest_prefix_membership_proof, KLen)].
Definition enc_nmp (p : nonmembership_proof) : bytes :=
  enc_fields [(GenConsts.proto_NonMembershipProof_label, WLen (enc_label (np_label p)));
              (GenConsts.proto_NonMembershipProof_longest_prefix, WLen (enc_label (np_longest_prefix p)));
              (GenConsts.proto_NonMembershipProof_longest_prefix_children, WLen (enc_elem (El (fst (np_child0 p)) (snd (np_child0 p)))));
              (GenConsts.proto_NonMembershipProof_longest_prefix_children, WLen (enc_elem (El (fst (np_child1 p)) (snd (np_child1 p)))));
              (GenConsts.proto_NonMembershipProof_longest_prefix_membership_proof, WLen (enc_mp (np_mp p)))].
Definition dec_nmp (bs : bytes) : pres nonmembership_proof :=
  fs <- parse sch_nmp bs ;;
  lb <- req_len GenConsts.proto_NonMembershipProof_label fs ;;
  pb <- req_len GenConsts.proto_NonMembershipProof_longest_prefix fs ;;
  mb <- req_len GenConsts.proto_NonMembershipProof_longest_prefix_membership_proof fs ;;
  l <- dec_label lb ;;
  lp <- dec_label pb ;;
  mp <- dec_mp mb ;;
  cbs <- rep_len GenConsts.proto_NonMembershipProof_longest_prefix_children fs ;;
  cs <- pmap dec_elem cbs ;;
  match cs with
  | [c0; c1] => POk (NMP l lp (e_label c0, e_value c0) (e_label c1, e_value c1) mp)
  | _ => PReject
  end.

(* ------------------------------------------------------------------ LookupProof *)

Definition sch_lookup : schema :=
  mk_schema [(GenConsts.proto_LookupProof_epoch, KU64); (GenConsts.proto_LookupProof_value, KLen);
             (GenConsts.proto_LookupProof_version, KU64); (GenConsts.proto_LookupProof_existence_vrf_proof, KLen);
             (GenConsts.proto_LookupProof_existence_proof, KLen); (GenConsts.proto_LookupProof_marker_vrf_proof, KLen);
             (GenConsts.proto_LookupProof_marker_proof, KLen); (GenConsts.proto_LookupProof_freshness_vrf_proof, KLen);
             (GenConsts.proto_LookupProof_freshness_proof, KLen); (GenConsts.proto_LookupProof_commitment_nonce, KLen)].
Definition enc_lookup (p : lookup_proof) : bytes :=
  enc_fields [(GenConsts.proto_LookupProof_epoch, WVar (lp_epoch p));
              (GenConsts.proto_LookupProof_value, WLen (lp_value p));
              (GenConsts.proto_LookupProof_version, WVar (lp_version p));
              (GenConsts.proto_LookupProof_existence_vrf_proof, WLen (lp_existence_vrf p));
              (GenConsts.proto_LookupProof_existence_proof, WLen (enc_mp (lp_existence p)));
              (GenConsts.proto_LookupProof_marker_vrf_proof, WLen (lp_marker_vrf p));
              (GenConsts.proto_LookupProof_marker_proof, WLen (enc_mp (lp_marker p)));
              (GenConsts.proto_LookupProof_freshness_vrf_proof, WLen (lp_freshness_vrf p));
              (GenConsts.proto_LookupProof_freshness_proof, WLen (enc_nmp (lp_freshness p)));
              (GenConsts.proto_LookupProof_commitment_nonce, WLen (lp_nonce p))].
Definition dec_lookup (bs : bytes) : pres lookup_proof :=
  fs <- parse sch_lookup bs ;;
  e <- req_var GenConsts.proto_LookupProof_epoch fs ;;
  v <- req_len GenConsts.proto_LookupProof_value fs ;;
  ver <- req_var GenConsts.proto_LookupProof_version fs ;;
  ev <- req_len GenConsts.proto_LookupProof_existence_vrf_proof fs ;;
  eb <- req_len GenConsts.proto_LookupProof_existence_proof fs ;;
  mv <- req_len GenConsts.proto_LookupProof_marker_vrf_proof fs ;;
  mb <- req_len GenConsts.proto_LookupProof_marker_proof fs ;;
  fv <- req_len GenConsts.proto_LookupProof_freshness_vrf_proof fs ;;
  fb <- req_len GenConsts.proto_LookupProof_freshness_proof fs ;;
  nonce <- req_len GenConsts.proto_LookupProof_commitment_nonce fs ;;
  ep <- dec_mp eb ;;
  mp <- dec_mp mb ;;
  fp <- dec_nmp fb ;;
  POk (LP e v ver ev ep mv mp fv fp nonce).

(* ------------------------------------------------------------------ UpdateProof / HistoryProof *)

Definition sch_update : schema :=
  mk_schema [(GenConsts.proto_UpdateProof_epoch, KU64); (GenConsts.proto_UpdateProof_value, KLen);
             (GenConsts.proto_UpdateProof_version, KU64); (GenConsts.proto_UpdateProof_existence_vrf_proof, KLen);
             (GenConsts.proto_UpdateProof_existence_proof, KLen); (GenConsts.proto_UpdateProof_previous_version_vrf_proof, KLen);
             (GenConsts.proto_UpdateProof_previous_version_proof, KLen); (GenConsts.proto_UpdateProof_commitment_nonce, KLen)].
Definition enc_update (u : update_proof) : bytes :=
  enc_fields ([(GenConsts.proto_UpdateProof_epoch, WVar (up_epoch u));
               (GenConsts.proto_UpdateProof_value, WLen (up_value u));
               (GenConsts.proto_UpdateProof_version, WVar (up_version u));
               (GenConsts.proto_UpdateProof_existence_vrf_proof, WLen (up_existence_vrf u));
               (GenConsts.proto_UpdateProof_existence_proof, WLen (enc_mp (up_existence u)))] ++
              opt_field GenConsts.proto_UpdateProof_previous_version_vrf_proof (up_prev_vrf u) ++
              opt_field GenConsts.proto_UpdateProof_previous_version_proof (option_map enc_mp (up_prev u)) ++
              [(GenConsts.proto_UpdateProof_commitment_nonce, WLen (up_nonce u))]).
Definition dec_update (bs : bytes) : pres update_proof :=
  fs <- parse sch_update bs ;;
  e <- req_var GenConsts.proto_UpdateProof_epoch fs ;;
  v <- req_len GenConsts.proto_UpdateProof_value fs ;;
  ver <- req_var GenConsts.proto_UpdateProof_version fs ;;
  ev <- req_len GenConsts.proto_UpdateProof_existence_vrf_proof fs ;;
  eb <- req_len GenConsts.proto_UpdateProof_existence_proof fs ;;
  nonce <- req_len GenConsts.proto_UpdateProof_commitment_nonce fs ;;
  pv <- opt_len GenConsts.proto_UpdateProof_previous_version_vrf_proof fs ;;
  pb <- opt_len GenConsts.proto_UpdateProof_previous_version_proof fs ;;
  pm <- match pb with Some b => m <- dec_mp b ;; POk (Some m) | None => POk None end ;;
  ep <- dec_mp eb ;;
  POk (UP e ver v ev ep pv pm nonce).

Definition sch_history : schema :=
  mk_schema [(GenConsts.proto_HistoryProof_update_proofs, KLen); (GenConsts.proto_HistoryProof_past_marker_vrf_proofs, KLen);
             (GenConsts.proto_HistoryProof_existence_of_past_marker_proofs, KLen);
             (GenConsts.proto_HistoryProof_future_marker_vrf_proofs, KLen);
             (GenConsts.proto_HistoryProof_non_existence_of_future_marker_proofs, KLen)].
Definition enc_history (h : history_proof) : bytes :=
  enc_fields (rep_field GenConsts.proto_HistoryProof_update_proofs (map enc_update (hp_updates h)) ++
              rep_field GenConsts.proto_HistoryProof_past_marker_vrf_proofs (hp_past_vrf h) ++
              rep_field GenConsts.proto_HistoryProof_existence_of_past_marker_proofs (map enc_mp (hp_past h)) ++
              rep_field GenConsts.proto_HistoryProof_future_marker_vrf_proofs (hp_future_vrf h) ++
              rep_field GenConsts.proto_HistoryProof_non_existence_of_future_marker_proofs (map enc_nmp (hp_future h))).
Definition dec_history (bs : bytes) : pres history_proof :=
  fs <- parse sch_history bs ;;
  ubs <- rep_len GenConsts.proto_HistoryProof_update_proofs fs ;;
  ups <- pmap dec_update ubs ;;
  pv <- rep_len GenConsts.proto_HistoryProof_past_marker_vrf_proofs fs ;;
  pbs <- rep_len GenConsts.proto_HistoryProof_existence_of_past_marker_proofs fs ;;
  pm <- pmap dec_mp pbs ;;
  fv <- rep_len GenConsts.proto_HistoryProof_future_marker_vrf_proofs fs ;;
  fbs <- rep_len GenConsts.proto_HistoryProof_non_existence_of_future_marker_proofs fs ;;
  fm <- pmap dec_nmp fbs ;;
  POk (HP ups pv pm fv fm).

(* ------------------------------------------------------------------ append-only proofs *)

Definition sch_single : schema :=
  mk_schema [(GenConsts.proto_SingleAppendOnlyProof_inserted, KLen); (GenConsts.proto_SingleAppendOnlyProof_unchanged_nodes, KLen)].
Definition enc_single (s : list elem * list elem) : bytes :=
  enc_fields (rep_field GenConsts.proto_SingleAppendOnlyProof_inserted (map enc_elem (fst s)) ++
              rep_field GenConsts.proto_SingleAppendOnlyProof_unchanged_nodes (map enc_elem (snd s))).
Definition dec_single (bs : bytes) : pres (list elem * list elem) :=
  fs <- parse sch_single bs ;;
  ibs <- rep_len GenConsts.proto_SingleAppendOnlyProof_inserted fs ;;
  ins <- pmap dec_elem ibs ;;
  ubs <- rep_len GenConsts.proto_SingleAppendOnlyProof_unchanged_nodes fs ;;
  unch <- pmap dec_elem ubs ;;
  POk (ins, unch).

Definition sch_audit : schema :=
  mk_schema [(GenConsts.proto_AppendOnlyProof_proofs, KLen); (GenConsts.proto_AppendOnlyProof_epochs, KU64)].
Definition enc_audit (a : audit_proof) : bytes :=
  enc_fields (rep_field GenConsts.proto_AppendOnlyProof_proofs (map enc_single (ap_proofs a)) ++
              rep_vfield GenConsts.proto_AppendOnlyProof_epochs (ap_epochs a)).
Definition dec_audit (bs : bytes) : pres audit_proof :=
  fs <- parse sch_audit bs ;;
  pbs <- rep_len GenConsts.proto_AppendOnlyProof_proofs fs ;;
  ps <- pmap dec_single pbs ;;
  es <- rep_var GenConsts.proto_AppendOnlyProof_epochs fs ;;
  POk (AP ps es).

(* ------------------------------------------------------------------ audit blob names
   akd/src/local_auditing.rs: "<epoch>/<hex(previous_hash)>/<hex(current_hash)>" over ASCII codes *)

Definition hexdigit (n : N) : N := if n <? 10 then 48 + n else 87 + n.
Definition hex_enc (b : bytes) : bytes := flat_map (fun x => [hexdigit (x / 16); hexdigit (x mod 16)]) b.
Definition unhexdigit (c : N) : option N :=
  if (48 <=? c) && (c <=? 57) then Some (c - 48)
  else if (97 <=? c) && (c <=? 102) then Some (c - 87)
  else if (65 <=? c) && (c <=? 70) then Some (c - 55)
  else None.
Fixpoint hex_dec (s : bytes) : option bytes :=
  match s with
  | [] => Some []
  | [_] => None
  | a :: b :: r =>
    match unhexdigit a, unhexdigit b, hex_dec r with
    | Some x, Some y, Some t => Some (16 * x + y :: t)
    | _, _, _ => None
    end
  end.

Fixpoint dec_fuel (f : nat) (n : N) : bytes :=
  match f with
  | O => []
  | S f' => if n <? 10 then [48 + n] else dec_fuel f' (n / 10) ++ [48 + n mod 10]
  end.
Definition dec_print (n : N) : bytes := dec_fuel 20 n.
Definition dec_step (acc : option N) (c : N) : option N :=
  match acc with
  | Some a => if (48 <=? c) && (c <=? 57) then Some (10 * a + (c - 48)) else None
  | None => None
  end.
Definition dec_parse (s : bytes) : option N :=
  match s with [] => None | _ => fold_left dec_step s (Some 0) end.

Fixpoint split (sep : N) (s : bytes) : list bytes :=
  match s with
  | [] => [[]]
  | c :: r =>
    if c =? sep then [] :: split sep r
    else match split sep r with h :: t => (c :: h) :: t | [] => [[c]] end
  end.

Definition NAME_SEPARATOR : N := 47.
Definition blob_name (e : N) (p c : bytes) : bytes :=
  dec_print e ++ [NAME_SEPARATOR] ++ hex_enc p ++ [NAME_SEPARATOR] ++ hex_enc c.
(* a leading '+' is accepted by Rust's integer parser: left outside *)
Definition parse_blob_name (s : bytes) : pres (N * bytes * bytes) :=
  match split NAME_SEPARATOR s with
  | a :: b :: c :: _ =>
    match a with
    | 43 :: _ => POutside
    | _ =>
      match dec_parse a with
      | None => PReject
      | Some e =>
        if two64 <=? e then PReject
        else match hex_dec b, hex_dec c with
             | Some p, Some q =>
               if (N.of_nat (length p) =? GenConsts.DIGEST_BYTES) && (N.of_nat (length q) =? GenConsts.DIGEST_BYTES)
               then POk (e, p, q) else PReject
             | _, _ => PReject
             end
      end
    end
  | _ => PReject
  end.
