(* Facts about the auditor model (C09). *)
From Coq Require Import List Bool Arith NArith Lia.
From Akd Require Import Bits NodeLabel NodeLabelFacts ElemSet Hashing Tree Insert Directory Verify.
Import ListNotations.
Open Scope N_scope.

Section AuditorFacts.
  Variable cfg : config.

  Lemma opt_bytes_eqb_eq o b : opt_bytes_eqb o b = true -> o = Some b.
  Proof. destruct o as [x|]; simpl; [|discriminate]. intros H. apply bytes_eqb_eq in H. congruence. Qed.

  (* the two root hashes a single-epoch proof verifies against are determined by the proof:
     replacing either by a different value makes verification fail *)
  Theorem consecutive_hashes_determined pf proof h0 h1 h0' h1' e :
    verify_consecutive cfg pf proof h0 h1 e = true -> verify_consecutive cfg pf proof h0' h1' e = true ->
    h0 = h0' /\ h1 = h1'.
  Proof.
    unfold verify_consecutive. destruct proof as [ins unch]. intros H H'.
    apply andb_true_iff in H, H'. destruct H as [H A1], H' as [H' A1'].
    apply andb_true_iff in H, H'. destruct H as [_ A0], H' as [_ A0'].
    apply opt_bytes_eqb_eq in A0, A0', A1, A1'. split; congruence.
  Qed.

  (* fix F2 as a theorem: an accepted single-epoch proof has pairwise prefix-free node labels *)
  Theorem accepted_is_prefix_free proof h0 h1 e :
    verify_consecutive cfg true proof h0 h1 e = true ->
    prefix_free_labels (snd proof ++ fst proof) = true.
  Proof.
    unfold verify_consecutive. destruct proof as [ins unch]. intros H.
    apply andb_true_iff in H. destruct H as [H _]. apply andb_true_iff in H. destruct H as [H _]. exact H.
  Qed.

  Lemma pairwise_free_spec ls : pairwise_free ls = true ->
    forall i j, (i < j < length ls)%nat ->
      is_prefix_of (nth i ls nl_root) (nth j ls nl_root) = false /\
      is_prefix_of (nth j ls nl_root) (nth i ls nl_root) = false.
  Proof.
    induction ls as [|l r IH]; intros H i j Hij; [simpl in Hij; lia|].
    simpl in H. apply andb_true_iff in H. destruct H as [H1 H2].
    destruct i as [|i].
    - destruct j as [|j]; [lia|]. simpl. rewrite forallb_forall in H1.
      specialize (H1 (nth j r nl_root)). assert (Hin : In (nth j r nl_root) r) by (apply nth_In; simpl in Hij; lia).
      specialize (H1 Hin). apply andb_true_iff in H1. destruct H1 as [A B].
      apply negb_true_iff in A, B. auto.
    - destruct j as [|j]; [lia|]. simpl. apply IH; [exact H2|]. simpl in Hij. lia.
  Qed.

  (* ... which in bit-string terms means: no (canonicalised) label of the proof is equal to or a
     prefix of another one - shadowing, duplicated and overlapping node sets are rejected *)
  Theorem accepted_no_overlap proof h0 h1 e :
    verify_consecutive cfg true proof h0 h1 e = true ->
    let labels := map (fun x => canon (e_label x)) (snd proof ++ fst proof) in
    forall i j, (i < length labels)%nat -> (j < length labels)%nat -> i <> j ->
      is_prefix_of (nth i labels nl_root) (nth j labels nl_root) = false.
  Proof.
    intros H labels i j Hi Hj Hne. apply accepted_is_prefix_free in H. unfold prefix_free_labels in H.
    apply andb_true_iff in H. destruct H as [_ H]. fold labels in H.
    destruct (Nat.lt_ge_cases i j) as [Hlt|Hge].
    - apply (pairwise_free_spec labels H i j). lia.
    - apply (pairwise_free_spec labels H j i). lia.
  Qed.

  (* chains: inconsistent lists are rejected, and every root hash of an accepted chain is determined *)
  Theorem chain_lengths pf hashes proofs epochs :
    verify_chain cfg pf hashes proofs epochs = true ->
    length hashes = S (length proofs) /\ length proofs = length epochs.
  Proof.
    revert proofs epochs. induction hashes as [|h0 hs IH]; intros proofs epochs H; [destruct proofs, epochs; discriminate|].
    destruct hs as [|h1 hs'].
    - destruct proofs, epochs; try discriminate. auto.
    - destruct proofs as [|p ps]; [discriminate|]. destruct epochs as [|e es]; [discriminate|].
      cbn [verify_chain] in H. apply andb_true_iff in H. destruct H as [_ H]. apply IH in H. simpl in *. lia.
  Qed.

  Theorem chain_hashes_determined pf proofs epochs : forall hashes hashes',
    verify_chain cfg pf hashes proofs epochs = true -> verify_chain cfg pf hashes' proofs epochs = true ->
    proofs <> [] -> hashes = hashes'.
  Proof.
    revert epochs. induction proofs as [|p ps IH]; intros epochs hashes hashes' H H' Hne; [congruence|].
    destruct hashes as [|h0 [|h1 hs]]; try (destruct epochs; discriminate).
    destruct hashes' as [|h0' [|h1' hs']]; try (destruct epochs; discriminate).
    destruct epochs as [|e es]; [discriminate|]. cbn [verify_chain] in H, H'.
    apply andb_true_iff in H, H'. destruct H as [A B], H' as [A' B'].
    destruct (consecutive_hashes_determined _ _ _ _ _ _ _ A A') as [-> ->].
    destruct ps as [|p' ps'].
    - destruct hs, hs', es; try discriminate; reflexivity.
    - f_equal. apply (IH es (h1' :: hs) (h1' :: hs')); auto. discriminate.
  Qed.
End AuditorFacts.
