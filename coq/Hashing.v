(* The two hashing configurations (akd_core/src/configuration/{whatsapp_v1,experimental}.rs) over an
   abstract byte hash H (BLAKE3 in the code; Blake3.v for the executable runs).  Layer L2. *)
From Coq Require Import List Bool Arith NArith Lia.
From Akd Require GenConsts.
From Akd Require Import NodeLabel.
Import ListNotations.
Open Scope N_scope.

Definition bytes := list N.

(* i2osp_array: 8-byte big-endian length, then the bytes *)
Definition i2osp_array (b : bytes) : bytes := be_bytes 8 (N.of_nat (length b)) ++ b.
Definition be64 (n : N) : bytes := be_bytes 8 n.

Record config := {
  c_hash : bytes -> bytes;
  c_empty_root_value : bytes;
  c_empty_node_hash : bytes;
  c_leaf_hash : bytes -> N -> bytes;                       (* hash_leaf_with_commitment *)
  c_parent_hash : bytes -> bytes -> bytes -> bytes -> bytes; (* compute_parent_hash_from_children *)
  c_root_hash_from_val : bytes -> bytes;
  c_label_value : bytes -> bytes;                          (* compute_node_label_value *)
  c_empty_label : nlabel;
  c_stale_value : bytes;                                   (* stale_azks_value *)
  c_commitment_nonce : bytes -> bytes -> N -> bytes -> bytes; (* key, label bytes, version, value *)
}.

Definition lvalue (cfg : config) (l : nlabel) : bytes := c_label_value cfg (nl_to_bytes l).

(* commitment = H(i2osp(value) || i2osp(nonce)) in both configurations *)
Definition commit (cfg : config) (value nonce : bytes) : bytes :=
  c_hash cfg (i2osp_array value ++ i2osp_array nonce).
(* compute_fresh_azks_value *)
Definition fresh_value (cfg : config) (key : bytes) (l : nlabel) (version : N) (value : bytes) : bytes :=
  commit cfg value (c_commitment_nonce cfg key (nl_to_bytes l) version value).
(* hash_leaf_with_value *)
Definition leaf_hash_with_value (cfg : config) (value : bytes) (epoch : N) (nonce : bytes) : bytes :=
  c_leaf_hash cfg (commit cfg value nonce) epoch.
(* get_hash_from_label_input: the VRF input; freshness: stale = 0, fresh = 1 *)
Definition label_input_hash (cfg : config) (label : bytes) (fresh : bool) (version : N) : bytes :=
  c_hash cfg (i2osp_array label ++ [if fresh then 1 else 0] ++ be64 version).

Section Configs.
  Variable H : bytes -> bytes.

  Definition whatsapp : config :=
    let hash := H in
    let empty_label := empty_label_whatsapp in
    {| c_hash := hash;
       c_empty_root_value := hash GenConsts.EMPTY_VALUE;
       c_empty_node_hash := hash (hash GenConsts.EMPTY_VALUE ++ hash (nl_to_bytes empty_label));
       c_leaf_hash := fun c e => hash (c ++ be64 e);
       c_parent_hash := fun lv ll rv rl => hash (hash (lv ++ ll) ++ hash (rv ++ rl));
       c_root_hash_from_val := fun v => hash (v ++ hash (nl_to_bytes nl_root));
       c_label_value := hash;
       c_empty_label := empty_label;
       c_stale_value := hash GenConsts.EMPTY_VALUE;
       c_commitment_nonce := fun key lb ver value => hash (key ++ lb ++ be64 ver ++ i2osp_array value);
    |}.

  Definition zero_digest : bytes := repeat 0 32.

  Definition experimental (domain : bytes) : config :=
    let hash := fun item => H (domain ++ item) in
    {| c_hash := hash;
       c_empty_root_value := zero_digest;
       c_empty_node_hash := zero_digest;
       c_leaf_hash := fun c e => hash (c ++ be64 e);
       c_parent_hash := fun lv ll rv rl => hash (lv ++ ll ++ rv ++ rl);
       c_root_hash_from_val := fun v => v;
       c_label_value := fun b => b;
       c_empty_label := empty_label_experimental;
       c_stale_value := zero_digest;
       c_commitment_nonce := fun key lb _ _ => hash (key ++ lb);
    |}.
End Configs.
