(* VRF layer (C18).  Two parts:
   (a) the algebraic skeleton of ECVRF-EDWARDS25519-SHA512-TAI as written in
       akd_core/src/ecvrf/ecvrf_impl.rs (prove / evaluate / verify, proof (de)serialisation) over an
       abstract prime-order group; curve arithmetic, SHA-512 and hash-to-curve are section
       variables, not modelled (curve25519-dalek / sha2 are trusted);
   (b) what the directory feeds the VRF and what it derives from the key: the input encoding
       (Hashing.label_input_hash), the truncation of the output to a 256-bit node label
       (Verify.verify_label) and the commitment key / nonce derivation (Hashing.fresh_value). *)
From Coq Require Import List Bool Arith NArith ZArith Lia.
From Akd Require Import NodeLabel Hashing.
Import ListNotations.

Section ECVRF.
  Variable G : Type.
  Variable gadd : G -> G -> G.
  Variable gneg : G -> G.
  Variable gzero : G.
  Variable smul : Z -> G -> G.
  Variable q : Z.                                  (* group order (the scalar field of ed25519) *)
  Variable B : G.                                  (* ED25519_BASEPOINT *)
  Variable encode_to_curve : bytes -> bytes -> G.  (* public key bytes, alpha *)
  Variable challenge : bytes -> G -> G -> G -> G -> Z.  (* hash_points: pk, H, Gamma, U, V; 128 bits *)
  Variable nonce : Z -> G -> Z.                    (* nonce_generation *)
  Variable output : G -> bytes.                    (* gamma_to_output (cofactor-cleared, SHA-512) *)
  Variable pk_bytes : G -> bytes.
  Variable point_bytes : G -> bytes.               (* 32-byte compressed point *)
  Variable point_of_bytes : bytes -> option G.

  Record vproof := VP { vp_gamma : G; vp_c : Z; vp_s : Z }.

  Definition public_key (x : Z) : G := smul x B.

  (* VRFExpandedPrivateKey::prove *)
  Definition prove (x : Z) (alpha : bytes) : vproof :=
    let Y := public_key x in
    let Hp := encode_to_curve (pk_bytes Y) alpha in
    let k := nonce x Hp in
    let gamma := smul x Hp in
    let c := challenge (pk_bytes Y) Hp gamma (smul k B) (smul k Hp) in
    VP gamma c ((k + c * x) mod q)%Z.

  (* VRFExpandedPrivateKey::evaluate: what get_node_label puts in the tree *)
  Definition evaluate (x : Z) (alpha : bytes) : bytes :=
    output (smul x (encode_to_curve (pk_bytes (public_key x)) alpha)).

  (* VRFPublicKey::verify followed by Output::from(&proof) *)
  Definition verify (Y : G) (p : vproof) (alpha : bytes) : option bytes :=
    let Hp := encode_to_curve (pk_bytes Y) alpha in
    let U := gadd (smul (vp_s p) B) (gneg (smul (vp_c p) Y)) in
    let V := gadd (smul (vp_s p) Hp) (gneg (smul (vp_c p) (vp_gamma p))) in
    if (vp_c p =? challenge (pk_bytes Y) Hp (vp_gamma p) U V)%Z then Some (output (vp_gamma p)) else None.

  (* Proof::to_bytes / TryFrom<&[u8]>: gamma (32 bytes) || c (16 bytes, little endian) || s (32 bytes) *)
  Fixpoint le_bytes (k : nat) (z : Z) : bytes :=
    match k with O => [] | S k' => Z.to_N (z mod 256)%Z :: le_bytes k' (z / 256)%Z end.
  Fixpoint of_le (b : bytes) : Z :=
    match b with [] => 0%Z | x :: r => (Z.of_N x + 256 * of_le r)%Z end.
  Definition proof_bytes (p : vproof) : bytes := point_bytes (vp_gamma p) ++ le_bytes 16 (vp_c p) ++ le_bytes 32 (vp_s p).
  Definition proof_of_bytes (b : bytes) : option vproof :=
    if negb (length b =? 80)%nat then None
    else match point_of_bytes (firstn 32 b) with
         | None => None
         | Some g => Some (VP g (of_le (firstn 16 (skipn 32 b)) mod q)%Z (of_le (skipn 48 b) mod q)%Z)
         end.
End ECVRF.
