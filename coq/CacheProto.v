(* The read-fill / write-through protocol of the storage manager (akd/src/storage/manager/mod.rs with
   akd/src/storage/cache/high_parallelism.rs), as a transition system with any number of concurrently
   running readers and (serialised) writers, every step of every task being a scheduling point:

     reader:  load writes_started ; load writes_completed (ticket = Some started if they agree) ;
              read the data layer ; put what was read into the cache if the ticket is still current
     writer:  bump writes_started ; write the data layer ; put the record into the cache ;
              bump writes_completed

   Three variants of the reader's last step:
     NoTicket      the fill is unconditional (the code before the fix)
     TicketSplit   the ticket is checked, and the fill is a later step (check outside the cache's lock)
     TicketLocked  check and fill are one step (the check is made while the slot of the key is locked,
                   TimedCache::batch_put_if; a writer's put of the same key takes the same lock)

   Theorem: under TicketLocked, in every reachable state in which no write is in progress the cache
   holds nothing or what the data layer holds (one key; keys are independent).  NoTicket is refuted
   by the schedule that reproduced K3 on the implementation, TicketSplit by the schedule in which a
   whole write happens between check and fill. *)
From Coq Require Import List Arith Lia Bool.
Import ListNotations.

Inductive rpc := RS | R0 | R0' (n : nat) | R1 (t : option nat) | R2 (t : option nat) (v : nat) | R3 (v : nat) | RDone (v : nat).
Inductive pmode := NoTicket | TicketSplit | TicketLocked.
Inductive wpc := W0 (v : nat) | W1 (v : nat) | W2 (v : nat) | W3 | WDone.

Record pstate := PSt { p_db : nat; p_cache : option nat; p_started : nat; p_completed : nat; p_readers : list rpc; p_writers : list wpc }.

Fixpoint pupd {A} (l : list A) (i : nat) (x : A) : list A :=
  match l, i with
  | [], _ => []
  | _ :: r, O => x :: r
  | a :: r, S j => a :: pupd r j x
  end.

Section Proto.
  Variable md : pmode.

  Definition step_reader (s : pstate) (i : nat) : pstate :=
    match nth_error (p_readers s) i with
    | Some RS => PSt (p_db s) (p_cache s) (p_started s) (p_completed s) (pupd (p_readers s) i (match p_cache s with Some v => RDone v | None => R0 end)) (p_writers s)
    | Some R0 => PSt (p_db s) (p_cache s) (p_started s) (p_completed s) (pupd (p_readers s) i (R0' (p_started s))) (p_writers s)
    | Some (R0' n) =>
      let t := if Nat.eqb n (p_completed s) then Some n else None in
      PSt (p_db s) (p_cache s) (p_started s) (p_completed s) (pupd (p_readers s) i (R1 t)) (p_writers s)
    | Some (R1 t) => PSt (p_db s) (p_cache s) (p_started s) (p_completed s) (pupd (p_readers s) i (R2 t (p_db s))) (p_writers s)
    | Some (R2 t v) =>
      let current := match t with Some n => Nat.eqb n (p_started s) | None => false end in
      match md with
      | NoTicket => PSt (p_db s) (Some v) (p_started s) (p_completed s) (pupd (p_readers s) i (RDone v)) (p_writers s)
      | TicketLocked => PSt (p_db s) (if current then Some v else p_cache s) (p_started s) (p_completed s) (pupd (p_readers s) i (RDone v)) (p_writers s)
      | TicketSplit => PSt (p_db s) (p_cache s) (p_started s) (p_completed s) (pupd (p_readers s) i (if current then R3 v else RDone v)) (p_writers s)
      end
    | Some (R3 v) => PSt (p_db s) (Some v) (p_started s) (p_completed s) (pupd (p_readers s) i (RDone v)) (p_writers s)
    | _ => s
    end.

  (* writers are serialised (the publish lock): a write starts only when none is in progress *)
  Definition step_writer (s : pstate) (j : nat) : pstate :=
    match nth_error (p_writers s) j with
    | Some (W0 v) =>
      if Nat.eqb (p_started s) (p_completed s)
      then PSt (p_db s) (p_cache s) (S (p_started s)) (p_completed s) (p_readers s) (pupd (p_writers s) j (W1 v))
      else s
    | Some (W1 v) => PSt v (p_cache s) (p_started s) (p_completed s) (p_readers s) (pupd (p_writers s) j (W2 v))
    | Some (W2 v) => PSt (p_db s) (Some v) (p_started s) (p_completed s) (p_readers s) (pupd (p_writers s) j W3)
    | Some W3 => PSt (p_db s) (p_cache s) (p_started s) (S (p_completed s)) (p_readers s) (pupd (p_writers s) j WDone)
    | _ => s
    end.

  (* the environment may empty the cache at any time: expiry, memory pressure, flush *)
  Definition evict_cache (s : pstate) : pstate :=
    PSt (p_db s) None (p_started s) (p_completed s) (p_readers s) (p_writers s).

  Inductive paction := AR (i : nat) | AW (j : nat) | AE.
  Definition pstep (s : pstate) (a : paction) : pstate :=
    match a with AR i => step_reader s i | AW j => step_writer s j | AE => evict_cache s end.
  Definition prun (s : pstate) (sched : list paction) : pstate := fold_left pstep sched s.

  (* a reader either consults the cache first (get, batch_get) or not (get_user_state) *)
  Definition pinit (d : nat) (rs : list bool) (ws : list nat) : pstate :=
    PSt d None 0 0 (map (fun b : bool => if b then RS else R0) rs) (map W0 ws).
End Proto.

(* ------------------------------------------------------------------ tasks
   A task is a sequence of reads and writes performed one after the other.  The implementation can be
   parked where it calls the data layer: just before the call and just after it; [advance] runs a task
   up to its next such point (this is how the correspondence harness drives the storage manager). *)
Inductive op := OpR (i : nat) | OpW (j : nat).
Definition op_step (md : pmode) (s : pstate) (o : op) : pstate :=
  match o with OpR i => step_reader md s i | OpW j => step_writer s j end.
Definition op_done (s : pstate) (o : op) : bool :=
  match o with
  | OpR i => match nth_error (p_readers s) i with Some (RDone _) => true | _ => false end
  | OpW j => match nth_error (p_writers s) j with Some WDone => true | _ => false end
  end.
Definition op_parked (s : pstate) (o : op) : bool :=
  match o with
  | OpR i => match nth_error (p_readers s) i with Some (R1 _) | Some (R2 _ _) => true | _ => false end
  | OpW j => match nth_error (p_writers s) j with Some (W1 _) | Some (W2 _) => true | _ => false end
  end.
Fixpoint advance (md : pmode) (fuel : nat) (s : pstate) (task : list op) : pstate * list op :=
  match fuel with
  | O => (s, task)
  | S f =>
    match task with
    | [] => (s, [])
    | o :: rest =>
      let s' := op_step md s o in
      if op_done s' o then advance md f s' rest
      else if op_parked s' o then (s', task) else advance md f s' task
    end
  end.
(* schedule entry 9: the cache is flushed *)
Definition release (md : pmode) (st : pstate * list (list op)) (t : nat) : pstate * list (list op) :=
  if Nat.eqb t 9 then (evict_cache (fst st), snd st)
  else
  match nth_error (snd st) t with
  | Some task => let '(s', task') := advance md 64 (fst st) task in (s', pupd (snd st) t task')
  | None => st
  end.
(* every task first runs to its first parking point, in spawn order; then the schedule releases them *)
Definition trun (md : pmode) (d : nat) (rs : list bool) (ws : list nat) (tasks : list (list op)) (sched : list nat) : pstate * list (list op) :=
  fold_left (release md) (seq 0 (length tasks) ++ sched) (pinit d rs ws, tasks).
Definition returned (s : pstate) : list (option nat) :=
  map (fun r => match r with RDone v => Some v | _ => None end) (p_readers s).

(* ------------------------------------------------------------------ the invariant *)
Definition w_idle (w : wpc) : Prop := match w with W0 _ | WDone => True | _ => False end.
Definition w_busy (w : wpc) : Prop := match w with W1 _ | W2 _ | W3 => True | _ => False end.

Definition r_ok (s : pstate) (r : rpc) : Prop :=
  match r with
  | R1 (Some n) => n <= p_completed s
  | R2 (Some n) v => n <= p_completed s /\ (n = p_started s -> v = p_db s)
  | R3 _ => False
  | _ => True
  end.

(* at most one writer is past W0, and exactly when started = completed + 1 *)
Fixpoint busy_count (ws : list wpc) : nat :=
  match ws with
  | [] => 0
  | w :: r => (match w with W1 _ | W2 _ | W3 => 1 | _ => 0 end) + busy_count r
  end.

Definition w_ok (s : pstate) (w : wpc) : Prop :=
  match w with
  | W1 _ => p_cache s = None \/ p_cache s = Some (p_db s)
  | W2 v => p_db s = v
  | W3 => p_cache s = Some (p_db s) \/ p_cache s = None
  | _ => True
  end.

Record PInv (s : pstate) : Prop := {
  i_count : p_started s = p_completed s + busy_count (p_writers s);
  i_one : busy_count (p_writers s) <= 1;
  i_readers : Forall (r_ok s) (p_readers s);
  i_writers : Forall (w_ok s) (p_writers s);
  i_cache : busy_count (p_writers s) = 0 -> p_cache s = None \/ p_cache s = Some (p_db s) }.

Lemma Forall_upd {A} (P : A -> Prop) : forall l i x, Forall P l -> P x -> Forall P (pupd l i x).
Proof.
  induction l as [|a l IH]; intros i x H Hx; [constructor|]. inversion H; subst.
  destruct i; cbn [pupd]; constructor; auto.
Qed.

Lemma nth_error_Forall {A} (P : A -> Prop) l i x : Forall P l -> nth_error l i = Some x -> P x.
Proof. intros H E. rewrite Forall_forall in H. apply H. eapply nth_error_In; eassumption. Qed.

Lemma busy_upd : forall ws j w w', nth_error ws j = Some w ->
  busy_count (pupd ws j w') + (match w with W1 _ | W2 _ | W3 => 1 | _ => 0 end) =
  busy_count ws + (match w' with W1 _ | W2 _ | W3 => 1 | _ => 0 end).
Proof.
  induction ws as [|a ws IH]; intros j w w' E; [destruct j; discriminate|].
  destruct j; cbn [nth_error] in E.
  - injection E as ->. cbn [pupd busy_count]. lia.
  - cbn [pupd busy_count]. specialize (IH j w w' E). lia.
Qed.

Lemma busy0_in : forall ws, busy_count ws = 0 -> forall w, In w ws -> ~ w_busy w.
Proof.
  induction ws as [|a l IH]; intros B0 w Hw; [destruct Hw|]. cbn [busy_count] in B0. destruct Hw as [->|Hin].
  - destruct w; cbn [w_busy]; try tauto; lia.
  - apply IH; [destruct a; lia | exact Hin].
Qed.

Lemma Forall_impl' {A} (P Q : A -> Prop) l : (forall x, P x -> Q x) -> Forall P l -> Forall Q l.
Proof. intros H F. eapply Forall_impl; eassumption. Qed.

Lemma init_inv d rs ws : PInv (pinit d rs ws).
Proof.
  assert (B : busy_count (map W0 ws) = 0) by (induction ws; cbn; auto).
  constructor; cbn [pinit p_started p_completed p_writers p_readers p_cache p_db].
  - rewrite B. reflexivity.
  - rewrite B. lia.
  - apply Forall_forall. intros r Hr. apply in_map_iff in Hr. destruct Hr as ([|] & <- & _); exact I.
  - apply Forall_forall. intros w Hw. apply in_map_iff in Hw. destruct Hw as (v & <- & _). exact I.
  - intros _. left. reflexivity.
Qed.

Lemma reader_keeps s i : PInv s -> PInv (step_reader TicketLocked s i).
Proof.
  intros [Hc H1 Hr Hw Hca]. unfold step_reader.
  destruct (nth_error (p_readers s) i) as [[| |n0|t|t v|v|v]|] eqn:E; try (constructor; assumption).
  - (* consult the cache *)
    constructor; cbn [p_db p_cache p_started p_completed p_readers p_writers]; try assumption.
    apply Forall_upd; [exact Hr|]. destruct (p_cache s); exact I.
  - (* load writes_started *)
    constructor; cbn [p_db p_cache p_started p_completed p_readers p_writers]; try assumption.
    apply Forall_upd; [exact Hr | exact I].
  - (* load writes_completed: the ticket *)
    constructor; cbn [p_db p_cache p_started p_completed p_readers p_writers]; try assumption.
    apply Forall_upd; [exact Hr|]. destruct (Nat.eqb_spec n0 (p_completed s)) as [Eq|]; cbn [r_ok p_completed]; [lia | exact I].
  - (* read *)
    constructor; cbn [p_db p_cache p_started p_completed p_readers p_writers]; try assumption.
    apply Forall_upd; [exact Hr|]. pose proof (nth_error_Forall _ _ _ _ Hr E) as Ht. destruct t as [n|]; cbn [r_ok p_completed p_started p_db] in *; [|exact I].
    split; [exact Ht | reflexivity].
  - (* fill, if the ticket is still current *)
    pose proof (nth_error_Forall _ _ _ _ Hr E) as Ht.
    destruct t as [n|]; cbn [r_ok] in Ht.
    + destruct Ht as [Hn Hv]. destruct (Nat.eqb_spec n (p_started s)) as [Eq|Ne].
      * (* no write is in progress: started = n <= completed *)
        assert (B0 : busy_count (p_writers s) = 0) by lia.
        specialize (Hv Eq). subst v.
        constructor; cbn [p_db p_cache p_started p_completed p_readers p_writers]; try assumption.
        -- apply Forall_upd; [|exact I]. eapply Forall_impl'; [|exact Hr]. intros r. destruct r as [| |k|[m|]|[m|] w|w|w]; cbn [r_ok p_completed p_started p_db]; auto.
        -- apply Forall_forall. intros w Hw0. pose proof (busy0_in _ B0 w Hw0) as Hnb.
           destruct w as [x|x|x| |]; cbn [w_ok w_busy] in *; try exact I; exfalso; apply Hnb; exact I.
        -- intros _. right. reflexivity.
      * constructor; cbn [p_db p_cache p_started p_completed p_readers p_writers]; try assumption.
        apply Forall_upd; [|exact I]. exact Hr.
    + constructor; cbn [p_db p_cache p_started p_completed p_readers p_writers]; try assumption.
      apply Forall_upd; [|exact I]. exact Hr.
  - (* never reached under TicketLocked *)
    destruct (nth_error_Forall _ _ _ _ Hr E).
Qed.

Lemma busy_in : forall ws j w, nth_error ws j = Some w -> w_busy w -> 1 <= busy_count ws.
Proof.
  induction ws as [|a ws IH]; intros j w E Hb; [destruct j; discriminate|]. destruct j; cbn [nth_error] in E.
  - injection E as ->. cbn [busy_count]. destruct w; cbn [w_busy] in Hb; try tauto; lia.
  - cbn [busy_count]. specialize (IH j w E Hb). lia.
Qed.

Lemma nth_error_upd_same {A} : forall (l : list A) i x y, nth_error l i = Some y -> nth_error (pupd l i x) i = Some x.
Proof. induction l as [|a l IH]; intros i x y E; [destruct i; discriminate|]. destruct i; cbn [pupd nth_error] in *; [reflexivity | eapply IH; eassumption]. Qed.
Lemma nth_error_upd_other {A} : forall (l : list A) i k x, k <> i -> nth_error (pupd l i x) k = nth_error l k.
Proof.
  induction l as [|a l IH]; intros i k x N; [reflexivity|]. destruct i, k; cbn [pupd nth_error]; try reflexivity; [congruence|].
  apply IH. congruence.
Qed.
Lemma In_nth_error {A} : forall (l : list A) x, In x l -> exists k, nth_error l k = Some x.
Proof. induction l as [|a l IH]; intros x H; [destruct H|]. destruct H as [->|H]; [exists 0; reflexivity|]. destruct (IH x H) as [k Ek]. exists (S k). exact Ek. Qed.

Lemma only_one_busy : forall ws j k w w', nth_error ws j = Some w -> nth_error ws k = Some w' -> k <> j -> w_busy w ->
  busy_count ws <= 1 -> ~ w_busy w'.
Proof.
  induction ws as [|a ws IH]; intros j k w w' Ej Ek N Hb H1; [destruct j; discriminate|].
  destruct j, k; cbn [nth_error] in Ej, Ek; try congruence.
  - injection Ej as ->. cbn [busy_count] in H1. intros Hb'. pose proof (busy_in ws k w' Ek Hb'). destruct w; cbn [w_busy] in Hb; try tauto; lia.
  - injection Ek as ->. cbn [busy_count] in H1. intros Hb'. pose proof (busy_in ws j w Ej Hb). destruct w'; cbn [w_busy] in Hb'; try tauto; lia.
  - cbn [busy_count] in H1. apply (IH j k w w' Ej Ek ltac:(congruence) Hb). destruct a; lia.
Qed.

Lemma writer_keeps s j : PInv s -> PInv (step_writer s j).
Proof.
  intros [Hc H1 Hr Hw Hca]. unfold step_writer.
  destruct (nth_error (p_writers s) j) as [[v|v|v| |]|] eqn:E; try (constructor; assumption).
  - (* start *)
    destruct (Nat.eqb_spec (p_started s) (p_completed s)) as [Eq|]; [|constructor; assumption].
    assert (B0 : busy_count (p_writers s) = 0) by lia.
    pose proof (busy_upd (p_writers s) j (W0 v) (W1 v) E) as BU. cbn in BU.
    constructor; cbn [p_db p_cache p_started p_completed p_readers p_writers].
    + lia.
    + lia.
    + eapply Forall_impl'; [|exact Hr]. intros r. destruct r as [| |k|[m|]|[m|] w|w|w]; cbn [r_ok p_completed p_started p_db]; auto.
      intros [A C]. split; [exact A|]. intros Em. lia.
    + apply Forall_upd; [|cbn [w_ok p_cache p_db]; apply Hca; exact B0].
      apply Forall_forall. intros w Hw0. pose proof (busy0_in _ B0 w Hw0) as Hnb.
      destruct w as [x|x|x| |]; cbn [w_ok w_busy] in *; try exact I; exfalso; apply Hnb; exact I.
    + intros B. lia.
  - (* write the data layer *)
    pose proof (busy_upd (p_writers s) j (W1 v) (W2 v) E) as BU. cbn in BU.
    pose proof (busy_in _ _ _ E I) as B1.
    constructor; cbn [p_db p_cache p_started p_completed p_readers p_writers].
    + lia.
    + lia.
    + (* a ticket that is still current would mean that no write is in progress *)
      eapply Forall_impl'; [|exact Hr]. intros r. destruct r as [| |k|[m|]|[m|] w|w|w]; cbn [r_ok p_completed p_started p_db]; auto.
      intros [A C]. split; [exact A|]. intros Em. lia.
    + apply Forall_forall. intros w Hw0. destruct (In_nth_error _ _ Hw0) as [k Ek].
      destruct (Nat.eq_dec k j) as [->|Nk].
      * rewrite (nth_error_upd_same _ _ _ _ E) in Ek. injection Ek as <-. reflexivity.
      * rewrite (nth_error_upd_other _ _ _ _ Nk) in Ek.
        (* any other writer is idle *)
        pose proof (only_one_busy (p_writers s) j k (W1 v) w E Ek Nk I ltac:(lia)) as Hnb.
        destruct w as [x|x|x| |]; cbn [w_ok w_busy] in *; try exact I; exfalso; apply Hnb; exact I.
    + intros B. lia.
  - (* write-through *)
    pose proof (busy_upd (p_writers s) j (W2 v) W3 E) as BU. cbn in BU.
    pose proof (busy_in _ _ _ E I) as B1.
    pose proof (nth_error_Forall _ _ _ _ Hw E) as Hdb. cbn [w_ok] in Hdb.
    constructor; cbn [p_db p_cache p_started p_completed p_readers p_writers]; try lia.
    + eapply Forall_impl'; [|exact Hr]. intros r. destruct r as [| |k|[m|]|[m|] w|w|w]; cbn [r_ok p_completed p_started p_db]; auto.
    + apply Forall_forall. intros w Hw0. destruct (In_nth_error _ _ Hw0) as [k Ek].
      destruct (Nat.eq_dec k j) as [->|Nk].
      * rewrite (nth_error_upd_same _ _ _ _ E) in Ek. injection Ek as <-. cbn [w_ok p_cache p_db]. left. rewrite Hdb. reflexivity.
      * rewrite (nth_error_upd_other _ _ _ _ Nk) in Ek.
        pose proof (only_one_busy (p_writers s) j k (W2 v) w E Ek Nk I ltac:(lia)) as Hnb.
        destruct w as [x|x|x| |]; cbn [w_ok w_busy] in *; try exact I; exfalso; apply Hnb; exact I.
  - (* completed *)
    pose proof (busy_upd (p_writers s) j W3 WDone E) as BU. cbn in BU.
    pose proof (busy_in _ _ _ E I) as B1.
    pose proof (nth_error_Forall _ _ _ _ Hw E) as Hcache. cbn [w_ok] in Hcache.
    constructor; cbn [p_db p_cache p_started p_completed p_readers p_writers]; try lia.
    + eapply Forall_impl'; [|exact Hr]. intros r. destruct r as [| |k|[m|]|[m|] w|w|w]; cbn [r_ok p_completed p_started p_db]; auto;
        try (intros A; lia); try (intros [A C]; split; [lia | exact C]).
    + apply Forall_forall. intros w Hw0. destruct (In_nth_error _ _ Hw0) as [k Ek].
      destruct (Nat.eq_dec k j) as [->|Nk].
      * rewrite (nth_error_upd_same _ _ _ _ E) in Ek. injection Ek as <-. exact I.
      * rewrite (nth_error_upd_other _ _ _ _ Nk) in Ek.
        pose proof (only_one_busy (p_writers s) j k W3 w E Ek Nk I ltac:(lia)) as Hnb.
        destruct w as [x|x|x| |]; cbn [w_ok w_busy] in *; try exact I; exfalso; apply Hnb; exact I.
    + intros _. destruct Hcache as [->| ->]; [right | left]; reflexivity.
Qed.

Lemma evict_keeps s : PInv s -> PInv (evict_cache s).
Proof.
  intros [Hc H1 Hr Hw Hca].
  constructor; cbn [evict_cache p_db p_cache p_started p_completed p_readers p_writers]; [exact Hc | exact H1 | | | ].
  - eapply Forall_impl'; [|exact Hr]. intros r. destruct r as [| |k|[m|]|[m|] w|w|w]; cbn [r_ok p_completed p_started p_db]; auto.
  - eapply Forall_impl'; [|exact Hw]. intros w. destruct w; cbn [w_ok p_cache p_db]; auto.
  - intros _. left. reflexivity.
Qed.

(* ------------------------------------------------------------------ every schedule *)
Theorem ticket_protocol_coherent : forall d rs ws sched,
  let s := prun TicketLocked (pinit d rs ws) sched in
  PInv s /\ (p_started s = p_completed s -> p_cache s = None \/ p_cache s = Some (p_db s)).
Proof.
  intros d rs ws sched. cbv zeta.
  assert (G : forall sched s0, PInv s0 -> PInv (prun TicketLocked s0 sched)).
  { induction sched0 as [|a rest IH]; intros s0 I0; [exact I0|]. cbn [prun fold_left]. apply IH.
    destruct a as [i|j|]; [apply reader_keeps | apply writer_keeps | apply evict_keeps]; exact I0. }
  pose proof (G sched _ (init_inv d rs ws)) as I. split; [exact I|].
  intros Eq. apply (i_cache _ I). pose proof (i_count _ I). lia.
Qed.

(* a read that hits the cache when no write is in progress therefore returns what the data layer holds *)
Corollary cached_read_is_current : forall d rs ws sched v,
  let s := prun TicketLocked (pinit d rs ws) sched in
  p_started s = p_completed s -> p_cache s = Some v -> v = p_db s.
Proof.
  intros d rs ws sched v s Eq Hc. destruct (ticket_protocol_coherent d rs ws sched) as [_ H]. fold s in H.
  destruct (H Eq) as [E|E]; rewrite E in Hc; [discriminate | congruence].
Qed.

(* the task-level executions are executions: the invariant holds along them too *)
Lemma op_step_keeps s o : PInv s -> PInv (op_step TicketLocked s o).
Proof. destruct o; [apply reader_keeps | apply writer_keeps]. Qed.
Lemma advance_keeps : forall fuel s task, PInv s -> PInv (fst (advance TicketLocked fuel s task)).
Proof.
  induction fuel as [|f IH]; intros s task I0; [exact I0|]. cbn [advance].
  destruct task as [|o rest]; [exact I0|].
  pose proof (op_step_keeps s o I0) as I1.
  destruct (op_done (op_step TicketLocked s o) o); [apply IH; exact I1|].
  destruct (op_parked (op_step TicketLocked s o) o); [exact I1 | apply IH; exact I1].
Qed.
Theorem task_runs_coherent : forall d rs ws tasks sched,
  let s := fst (trun TicketLocked d rs ws tasks sched) in
  p_started s = p_completed s -> p_cache s = None \/ p_cache s = Some (p_db s).
Proof.
  intros d rs ws tasks sched. cbv zeta. unfold trun.
  assert (G : forall l st, PInv (fst st) -> PInv (fst (fold_left (release TicketLocked) l st))).
  { induction l as [|t l IH]; intros st I0; [exact I0|]. cbn [fold_left]. apply IH.
    unfold release. destruct (Nat.eqb t 9); [cbn [fst]; apply evict_keeps; exact I0|].
    destruct (nth_error (snd st) t) as [task|]; [|exact I0].
    pose proof (advance_keeps 64 (fst st) task I0) as I1.
    destruct (advance TicketLocked 64 (fst st) task) as [s' task']. exact I1. }
  pose proof (G (seq 0 (length tasks) ++ sched) (pinit d rs ws, tasks) (init_inv d rs ws)) as I.
  intros Eq. apply (i_cache _ I). pose proof (i_count _ I). lia.
Qed.

(* a read that runs while no write is in progress returns the data layer's record - through the cache
   or not - and leaves the data layer alone *)
Theorem quiet_read_returns_db s i :
  PInv s -> p_started s = p_completed s -> nth_error (p_readers s) i = Some RS ->
  let s' := prun TicketLocked s [AR i; AR i; AR i; AR i; AR i] in
  nth_error (p_readers s') i = Some (RDone (p_db s)) /\ p_db s' = p_db s.
Proof.
  intros I Eq E. cbv zeta. unfold prun. cbn [fold_left pstep].
  pose proof (i_cache _ I ltac:(pose proof (i_count _ I); lia)) as Hc.
  set (s1 := step_reader TicketLocked s i).
  assert (E1 : nth_error (p_readers s1) i = Some (match p_cache s with Some v => RDone v | None => R0 end) /\
               p_db s1 = p_db s /\ p_cache s1 = p_cache s /\ p_started s1 = p_started s /\ p_completed s1 = p_completed s).
  { unfold s1, step_reader. rewrite E. cbn [p_readers p_db p_cache p_started p_completed].
    split; [eapply nth_error_upd_same; exact E | repeat split]. }
  destruct E1 as (E1 & D1 & C1 & S1 & K1).
  destruct Hc as [Hn|Hs].
  - (* miss *)
    rewrite Hn in E1.
    set (s2 := step_reader TicketLocked s1 i).
    assert (E2 : nth_error (p_readers s2) i = Some (R0' (p_started s)) /\
                 p_db s2 = p_db s /\ p_started s2 = p_started s /\ p_completed s2 = p_completed s).
    { unfold s2, step_reader. rewrite E1. cbn [p_readers p_db p_cache p_started p_completed]. rewrite S1.
      split; [eapply nth_error_upd_same; exact E1 | repeat split; assumption]. }
    destruct E2 as (E2 & D2 & S2 & K2).
    set (s3 := step_reader TicketLocked s2 i).
    assert (E3 : nth_error (p_readers s3) i = Some (R1 (Some (p_started s))) /\
                 p_db s3 = p_db s /\ p_started s3 = p_started s /\ p_completed s3 = p_completed s).
    { unfold s3, step_reader. rewrite E2. cbn [p_readers p_db p_cache p_started p_completed]. rewrite K2, Eq, Nat.eqb_refl.
      split; [eapply nth_error_upd_same; exact E2 | repeat split; congruence]. }
    destruct E3 as (E3 & D3 & S3 & K3).
    set (s4 := step_reader TicketLocked s3 i).
    assert (E4 : nth_error (p_readers s4) i = Some (R2 (Some (p_started s)) (p_db s)) /\
                 p_db s4 = p_db s /\ p_started s4 = p_started s).
    { unfold s4, step_reader. rewrite E3. cbn [p_readers p_db p_cache p_started p_completed]. rewrite D3.
      split; [eapply nth_error_upd_same; exact E3 | repeat split; assumption]. }
    destruct E4 as (E4 & D4 & S4).
    unfold step_reader. rewrite E4. cbn [p_readers p_db p_cache p_started p_completed].
    split; [eapply nth_error_upd_same; exact E4 | exact D4].
  - (* hit *)
    rewrite Hs in E1.
    assert (Stay : forall t, nth_error (p_readers t) i = Some (RDone (p_db s)) -> step_reader TicketLocked t i = t).
    { intros t Et. unfold step_reader. rewrite Et. reflexivity. }
    rewrite (Stay s1 E1), (Stay s1 E1), (Stay s1 E1), (Stay s1 E1). split; [exact E1 | exact D1].
Qed.

(* the protocol before the fix: the schedule that reproduced K3 - a reader reads, a write completes,
   the reader fills - leaves an older value in the cache with no write in progress *)
Definition k3_schedule := [AR 0; AR 0; AR 0; AW 0; AW 0; AW 0; AW 0; AR 0].
Theorem without_ticket_refuted :
  let s := prun NoTicket (pinit 0 [false] [1]) k3_schedule in
  p_started s = p_completed s /\ p_db s = 1 /\ p_cache s = Some 0.
Proof. vm_compute. repeat split. Qed.

(* the ticket checked outside the lock: a whole write between the check and the fill *)
Definition split_schedule := [AR 0; AR 0; AR 0; AR 0; AW 0; AW 0; AW 0; AW 0; AR 0].
Theorem split_check_refuted :
  let s := prun TicketSplit (pinit 0 [false] [1]) split_schedule in
  p_started s = p_completed s /\ p_db s = 1 /\ p_cache s = Some 0.
Proof. vm_compute. repeat split. Qed.

(* the same schedules under the protocol of the code *)
Example locked_same_schedules :
  let s := prun TicketLocked (pinit 0 [false] [1]) k3_schedule in
  let s' := prun TicketLocked (pinit 0 [false] [1]) split_schedule in
  (p_started s = p_completed s /\ p_db s = 1 /\ p_cache s = Some 1) /\
  (p_started s' = p_completed s' /\ p_db s' = 1 /\ p_cache s' = Some 1).
Proof. vm_compute. repeat split. Qed.

(* a reader that meets no writer does fill the cache (the ticket does not switch caching off) *)
Example reader_alone_fills :
  p_cache (prun TicketLocked (pinit 7 [false] []) [AR 0; AR 0; AR 0; AR 0]) = Some 7.
Proof. reflexivity. Qed.
