(* The specification of an epoch's tree (akd_core/src/lib.rs:33-98): the canonical compressed
   binary trie over a set of leaves given by bit strings.  Defined without reference to the
   insertion algorithm; C01 compares the directory's root hash with the hash of this tree. *)
From Coq Require Import List Bool Arith NArith Lia.
From Akd Require Import Bits NodeLabel Hashing Tree.
Import ListNotations.
Open Scope N_scope.

Record sleaf := SL { sl_bits : list bool; sl_value : bytes; sl_epoch : N }.

Definition lcp_all (S : list sleaf) : list bool :=
  match S with
  | [] => []
  | x :: r => fold_left (fun acc y => lcp acc (sl_bits y)) r (sl_bits x)
  end.
Definition max_epoch (S : list sleaf) : N := fold_left (fun a x => N.max a (sl_epoch x)) S 0.
Definition min_epoch (S : list sleaf) : N :=
  match S with [] => 0 | x :: r => fold_left (fun a y => N.min a (sl_epoch y)) r (sl_epoch x) end.
Definition bit_at (k : nat) (x : sleaf) : bool := nth k (sl_bits x) false.

(* the subtree over a non-empty set of leaves (all distinct, none a prefix of another) *)
Fixpoint spec_sub (fuel : nat) (S : list sleaf) : option tree :=
  match fuel with
  | O => None
  | S f =>
    match S with
    | [] => None
    | [x] => Some (Leaf (nl_of_bits (sl_bits x)) (sl_value x) (sl_epoch x))
    | _ =>
      let p := lcp_all S in
      let k := length p in
      Some (Node (nl_of_bits p) (max_epoch S) (min_epoch S)
                 (spec_sub f (filter (fun x => negb (bit_at k x)) S))
                 (spec_sub f (filter (bit_at k) S)))
    end
  end.

(* the root always has the empty label and 0, 1 or 2 children *)
Definition spec_root (S : list sleaf) : tree :=
  Node nl_root (max_epoch S) (min_epoch S)
       (spec_sub 300 (filter (fun x => negb (bit_at 0 x)) S))
       (spec_sub 300 (filter (bit_at 0) S)).

Definition spec_root_hash (cfg : config) (S : list sleaf) : bytes := root_hash cfg true (spec_root S).
