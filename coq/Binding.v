(* All facts about a configuration's hash formulas that the security theorems use, bundled:
   each holds up to the explicit bad event [Bad] (HashingFacts.v proves the bundle for both real
   configurations with Bad = a collision of H, resp. a collision or a zero-digest preimage). *)
From Coq Require Import List Bool Arith NArith Lia.
From Akd Require Import Bits NodeLabel NodeLabelFacts Hashing Tree TreeFacts.
Import ListNotations.
Open Scope N_scope.

Definition Len64 (b : bytes) : Prop := N.of_nat (length b) < 2 ^ 64.

Record Binding (cfg : config) (Bad : Prop) : Prop := {
  b_parent_inj : forall a la b lb a' la' b' lb',
    D32 a -> D32 a' -> D32 b -> D32 b' -> LW la -> LW la' -> LW lb -> LW lb' ->
    c_parent_hash cfg a (lvalue cfg la) b (lvalue cfg lb) =
    c_parent_hash cfg a' (lvalue cfg la') b' (lvalue cfg lb') ->
    (a = a' /\ lvalue cfg la = lvalue cfg la' /\ b = b' /\ lvalue cfg lb = lvalue cfg lb') \/ Bad;
  b_lvalue_inj : forall l l', LW l -> LW l' -> lvalue cfg l = lvalue cfg l' -> l = l' \/ Bad;
  b_leaf_not_parent : forall c e a la b lb,
    D32 c -> D32 a -> D32 b -> LW la -> LW lb ->
    c_leaf_hash cfg c e = c_parent_hash cfg a (lvalue cfg la) b (lvalue cfg lb) -> Bad;
  b_root_inj : forall v v', D32 v -> D32 v' ->
    c_root_hash_from_val cfg v = c_root_hash_from_val cfg v' -> v = v' \/ Bad;
  b_empty_root_not_parent : forall a la b lb, D32 a -> D32 b -> LW la -> LW lb ->
    c_empty_root_value cfg = c_parent_hash cfg a (lvalue cfg la) b (lvalue cfg lb) -> Bad;
  b_empty_node_not_parent : forall a la b lb, D32 a -> D32 b -> LW la -> LW lb ->
    c_empty_node_hash cfg = c_parent_hash cfg a (lvalue cfg la) b (lvalue cfg lb) -> Bad;
  b_leaf_not_empty_root : forall c e, D32 c -> c_leaf_hash cfg c e = c_empty_root_value cfg -> Bad;
  b_parent_D32 : forall a la b lb, D32 (c_parent_hash cfg a la b lb);
  b_leaf_D32 : forall c e, D32 (c_leaf_hash cfg c e);
  b_empty_root_D32 : D32 (c_empty_root_value cfg);
  b_empty_node_D32 : D32 (c_empty_node_hash cfg);
  b_empty_label_LW : LW (c_empty_label cfg);
  b_empty_label_not_root : c_empty_label cfg <> nl_root;
  b_empty_label_not_canonical : canonical (c_empty_label cfg) = false;
  (* the leaf hash binds commitment and epoch; the commitment binds value and nonce *)
  b_leaf_inj : forall c e c' e', D32 c -> D32 c' -> e < 2 ^ 64 -> e' < 2 ^ 64 ->
    c_leaf_hash cfg c e = c_leaf_hash cfg c' e' -> (c = c' /\ e = e') \/ Bad;
  b_commit_inj : forall v n v' n', Len64 v -> Len64 n -> Len64 v' -> Len64 n' ->
    commit cfg v n = commit cfg v' n' -> (v = v' /\ n = n') \/ Bad;
  b_commit_D32 : forall v n, D32 (commit cfg v n);
}.

Section WithBinding.
  Variable cfg : config.
  Variable Bad : Prop.
  Hypothesis B : Binding cfg Bad.

  Theorem mem_sound_b t mp :
    tree_ok t -> tlabel t = nl_root -> is_leaf t = false -> mp_ok mp ->
    verify_membership cfg (root_hash cfg true t) mp = true ->
    Origin cfg (mp_label mp) (mp_hash_val mp) t \/ Bad.
  Proof.
    destruct B. apply (mem_sound cfg Bad); assumption.
  Qed.

  Theorem nonmem_sound_b t p :
    tree_ok t -> wf_root t = true -> nmp_ok p -> WF (np_label p) ->
    verify_nonmembership cfg (root_hash cfg true t) p = true ->
    ~ In (np_label p) (map lf_label (leaves t)) \/ Bad.
  Proof.
    destruct B. apply (nonmem_sound cfg Bad); assumption.
  Qed.
End WithBinding.
