(* C01 at the directory level: under VRF outputs that are well-formed 256-bit labels and do not
   collide, every publish hands the tree a batch of distinct labels that are not in the tree yet;
   hence (InsertRefine) the directory's tree is always the specification trie over the leaves
   derived from the publish history, and the returned root hash is its hash. *)
From Coq Require Import List Bool Arith NArith Lia Permutation.
From Akd Require Import Bits NodeLabel NodeLabelFacts ElemSet Hashing Tree TreeFacts Insert Spec SpecFacts InsertRefine Directory.
Import ListNotations.
Open Scope N_scope.

Lemma NoDup_app_intro {A} (a b : list A) : NoDup a -> NoDup b -> (forall x, In x a -> In x b -> False) -> NoDup (a ++ b).
Proof.
  induction a as [|x a IH]; intros Ha Hb Hd; [exact Hb|]. inversion Ha as [|? ? Hn Ha']; subst. cbn [app]. constructor.
  - intros Hin. apply in_app_or in Hin. destruct Hin as [Hin|Hin]; [exact (Hn Hin) | exact (Hd x (or_introl eq_refl) Hin)].
  - apply IH; [exact Ha' | exact Hb | intros y Hy1 Hy2; exact (Hd y (or_intror Hy1) Hy2)].
Qed.

Section DirRefine.
  Variable cfg : config.
  Variable ck : bytes.
  Variable vrf_label : bytes -> bool -> N -> option nlabel.
  Hypothesis Ce : canonical (c_empty_label cfg) = false.
  (* what the VRF layer provides (C18): 256-bit well-formed labels, no collisions *)
  Hypothesis vrf_good : forall l f v nl, vrf_label l f v = Some nl -> WF nl /\ canonical nl = true /\ llen nl = 256.
  Hypothesis vrf_inj : forall l f v l' f' v' nl, vrf_label l f v = Some nl -> vrf_label l' f' v' = Some nl -> l = l' /\ f = f' /\ v = v'.

  Notation publish := (publish cfg ck vrf_label).
  Notation derive_update := (derive_update cfg ck vrf_label).
  Notation derive_all := (derive_all cfg ck vrf_label).

  Definition lstep (u : bytes) (e : N) (acc : option vrec) (s : vrec) : option vrec :=
    if bytes_eqb (vr_user s) u && (vr_epoch s <=? e) then
      match acc with Some a => if vr_epoch a <=? vr_epoch s then Some s else acc | None => Some s end
    else acc.
  Lemma latest_state_fold sts u e : latest_state sts u e = fold_left (lstep u e) sts None.
  Proof. reflexivity. Qed.

  Definition ver (st : dstate) (l : bytes) : N :=
    match latest_state (d_states st) l (d_epoch st) with Some s => vr_version s | None => 0 end.

  (* a label is in use: some version of [l] up to the current one (fresh) or below it (stale) *)
  Definition used (st : dstate) (nl : nlabel) : Prop :=
    exists l f v, vrf_label l f v = Some nl /\ 1 <= v /\ (if f : bool then v <= ver st l else v < ver st l).

  Record DirInv (st : dstate) : Prop := {
    di_tree : root_inv (d_epoch st) (d_tree st);
    di_epochs : forall s, In s (d_states st) -> vr_epoch s <= d_epoch st;
    di_versions : forall l s, latest_state (d_states st) l (d_epoch st) = Some s -> 1 <= vr_version s;
    di_leaves : forall y, In y (leaves (d_tree st)) -> used st (lf_label y);
    di_distinct : forall s s', In s (d_states st) -> In s' (d_states st) ->
                  vr_user s = vr_user s' -> vr_epoch s = vr_epoch s' -> s = s';
    di_ver_le : forall s, In s (d_states st) -> vr_version s <= vr_epoch s }.

  (* ---- latest_state over appended states of the next epoch *)
  Lemma fold_lstep_bump u E : forall sts acc, (forall s, In s sts -> vr_epoch s <= E) ->
    fold_left (lstep u (E + 1)) sts acc = fold_left (lstep u E) sts acc.
  Proof.
    induction sts as [|s sts IH]; intros acc H; [reflexivity|]. cbn [fold_left].
    rewrite IH by (intros x Hx; apply H; right; exact Hx). f_equal. unfold lstep.
    pose proof (H s (or_introl eq_refl)) as Hs.
    assert (E1 : (vr_epoch s <=? E + 1) = true) by (apply N.leb_le; lia).
    assert (E2 : (vr_epoch s <=? E) = true) by (apply N.leb_le; lia). rewrite E1, E2. reflexivity.
  Qed.

  Lemma fold_lstep_other u e : forall news acc, (forall s, In s news -> bytes_eqb (vr_user s) u = false) ->
    fold_left (lstep u e) news acc = acc.
  Proof.
    induction news as [|s news IH]; intros acc H; [reflexivity|]. cbn [fold_left].
    rewrite IH by (intros x Hx; apply H; right; exact Hx). unfold lstep. rewrite (H s (or_introl eq_refl)). reflexivity.
  Qed.

  (* folding states of epoch E+1: the result is the last entry of user u, if there is one *)
  Lemma fold_lstep_news u E : forall news acc,
    (forall s, In s news -> vr_epoch s = E + 1) ->
    (forall a, acc = Some a -> vr_epoch a <= E + 1) ->
    (exists n, In n news /\ bytes_eqb (vr_user n) u = true) ->
    exists n, fold_left (lstep u (E + 1)) news acc = Some n /\ In n news /\ bytes_eqb (vr_user n) u = true.
  Proof.
    induction news as [|s news IH]; intros acc He Ha [n [Hn Hu]]; [destruct Hn|].
    cbn [fold_left].
    assert (Hes : vr_epoch s = E + 1) by (apply He; left; reflexivity).
    destruct (bytes_eqb (vr_user s) u) eqn:Eu.
    - (* s is taken *)
      assert (Hstep : lstep u (E + 1) acc s = Some s).
      { unfold lstep. rewrite Eu. assert (E1 : (vr_epoch s <=? E + 1) = true) by (apply N.leb_le; lia). rewrite E1. cbn [andb].
        destruct acc as [a|]; [|reflexivity]. assert (E2 : (vr_epoch a <=? vr_epoch s) = true) by (apply N.leb_le; rewrite Hes; apply Ha; reflexivity). rewrite E2. reflexivity. }
      rewrite Hstep.
      destruct (existsb (fun x => bytes_eqb (vr_user x) u) news) eqn:Ex.
      + apply existsb_exists in Ex. destruct Ex as (m & Hm & Hmu).
        destruct (IH (Some s) (fun x Hx => He x (or_intror Hx)) (fun a Ha' => ltac:(injection Ha' as <-; lia)) (ex_intro _ m (conj Hm Hmu))) as (r & Er & Hr & Hru).
        exists r. split; [exact Er | split; [right; exact Hr | exact Hru]].
      + rewrite fold_lstep_other.
        * exists s. split; [reflexivity | split; [left; reflexivity | exact Eu]].
        * intros x Hx. destruct (bytes_eqb (vr_user x) u) eqn:Exu; [|reflexivity].
          assert (existsb (fun x => bytes_eqb (vr_user x) u) news = true) by (apply existsb_exists; exists x; auto). congruence.
    - assert (Hstep : lstep u (E + 1) acc s = acc) by (unfold lstep; rewrite Eu; reflexivity). rewrite Hstep.
      destruct Hn as [->|Hn]; [congruence|].
      destruct (IH acc (fun x Hx => He x (or_intror Hx)) Ha (ex_intro _ n (conj Hn Hu))) as (r & Er & Hr & Hru).
      exists r. split; [exact Er | split; [right; exact Hr | exact Hru]].
  Qed.

  (* ---- what one update derives *)
  Definition elem_of (st : dstate) (l : bytes) (x : elem) : Prop :=
    vrf_label l true (ver st l + 1) = Some (e_label x) \/ (1 <= ver st l /\ vrf_label l false (ver st l) = Some (e_label x)).

  Definition news_of (st : dstate) (l : bytes) (ns : list vrec) : Prop :=
    ns = [] \/ exists v nl, ns = [VR l (d_epoch st + 1) (ver st l + 1) v nl].

  Lemma derive_update_spec st l v es ns :
    (forall s, latest_state (d_states st) l (d_epoch st) = Some s -> 1 <= vr_version s) ->
    derive_update st (l, v) = Some (es, ns) ->
    (forall x, In x es -> elem_of st l x) /\ NoDup (map e_label es) /\ news_of st l ns /\ (es <> [] -> ns <> []).
  Proof.
    intros Hv. unfold Directory.derive_update, elem_of, news_of, ver.
    destruct (latest_state (d_states st) l (d_epoch st)) as [s|] eqn:El.
    - destruct (bytes_eqb (vr_value s) v).
      + intros [= <- <-]. split; [intros x []|]. split; [constructor|]. split; [left; reflexivity | congruence].
      + destruct (vrf_label l false (vr_version s)) as [sl|] eqn:Es; [|discriminate].
        destruct (vrf_label l true (vr_version s + 1)) as [fl|] eqn:Ef; [|discriminate].
        intros [= <- <-]. specialize (Hv s eq_refl). split; [|split; [|split]].
        * intros x [<-|[<-|[]]]; cbn [e_label]; [right; split; [exact Hv | first [exact Es | reflexivity]] | left; first [exact Ef | reflexivity]].
        * cbn [map e_label]. constructor; [|constructor; [intros []|constructor]].
          intros [E|[]]. destruct (vrf_inj _ _ _ _ _ _ _ Ef (eq_trans Es (f_equal Some (eq_sym E)))) as (_ & Hf & _). discriminate.
        * right. exists v, fl. reflexivity.
        * discriminate.
    - destruct (vrf_label l true 1) as [nl|] eqn:Ef; [|discriminate].
      intros [= <- <-]. split; [|split; [|split]].
      + intros x [<-|[]]. cbn [e_label]. left. first [exact Ef | reflexivity].
      + cbn [map]. constructor; [intros []|constructor].
      + right. exists v, nl. reflexivity.
      + discriminate.
  Qed.

  Lemma elem_of_inj st l l' x x' : elem_of st l x -> elem_of st l' x' -> e_label x = e_label x' -> l = l'.
  Proof.
    intros [H|[_ H]] [H'|[_ H']] E; rewrite E in H; destruct (vrf_inj _ _ _ _ _ _ _ H H') as (Hl & _); exact Hl.
  Qed.

  Lemma has_dup_cons l r : has_dup (l :: r) = false -> ~ In l r /\ has_dup r = false.
  Proof.
    cbn [has_dup]. intros H. apply orb_false_iff in H. destruct H as [H1 H2]. split; [|exact H2].
    intros Hin. assert (existsb (bytes_eqb l) r = true); [|congruence].
    apply existsb_exists. exists l. split; [exact Hin | apply bytes_eqb_eq; reflexivity].
  Qed.

  (* what a whole request derives *)
  Lemma derive_all_spec st : forall upds elems news,
    (forall l s, latest_state (d_states st) l (d_epoch st) = Some s -> 1 <= vr_version s) ->
    has_dup (map fst upds) = false -> derive_all st upds = Some (elems, news) ->
    (forall x, In x elems -> exists l, In l (map fst upds) /\ elem_of st l x) /\
    NoDup (map e_label elems) /\
    (forall n, In n news -> exists l v nl, In l (map fst upds) /\ n = VR l (d_epoch st + 1) (ver st l + 1) v nl) /\
    (forall n n', In n news -> In n' news -> vr_user n = vr_user n' -> n = n') /\
    (forall x l, In x elems -> elem_of st l x -> exists n, In n news /\ vr_user n = l).
  Proof.
    induction upds as [|[l v] upds IH]; intros elems news Hv Hd H.
    - cbn in H. injection H as <- <-. split; [intros x []|]. split; [constructor|]. split; [intros n []|]. split; [intros n n' []|]. intros x l [].
    - cbn [Directory.derive_all] in H.
      destruct (derive_update st (l, v)) as [[e1 s1]|] eqn:E1; [|discriminate].
      destruct (derive_all st upds) as [[e2 s2]|] eqn:E2; [|discriminate]. injection H as <- <-.
      cbn [map fst] in Hd. destruct (has_dup_cons _ _ Hd) as [Hnotin Hd'].
      destruct (derive_update_spec st l v e1 s1 (Hv l) E1) as (U1 & U2 & U3 & U4).
      destruct (IH e2 s2 Hv Hd' eq_refl) as (A1 & A2 & A3 & A4 & A5).
      split; [|split; [|split; [|split]]].
      + intros x Hx. apply in_app_or in Hx. destruct Hx as [Hx|Hx].
        * exists l. split; [left; reflexivity | apply U1; exact Hx].
        * destruct (A1 x Hx) as (l' & Hl' & He). exists l'. split; [right; exact Hl' | exact He].
      + rewrite map_app. apply NoDup_app_intro; [exact U2 | exact A2|].
        intros nl H1 H2. apply in_map_iff in H1, H2. destruct H1 as (x & Ex & Hx). destruct H2 as (x' & Ex' & Hx').
        destruct (A1 x' Hx') as (l' & Hl' & He'). apply Hnotin.
        rewrite (elem_of_inj st l l' x x' (U1 x Hx) He' (eq_trans Ex (eq_sym Ex'))). exact Hl'.
      + intros n Hn. apply in_app_or in Hn. destruct Hn as [Hn|Hn].
        * destruct U3 as [->|(v' & nl & ->)]; [destruct Hn|]. destruct Hn as [<-|[]]. exists l, v', nl. split; [left; reflexivity | reflexivity].
        * destruct (A3 n Hn) as (l' & v' & nl & Hl' & ->). exists l', v', nl. split; [right; exact Hl' | reflexivity].
      + intros n n' Hn Hn' Eu. apply in_app_or in Hn, Hn'.
        assert (Hs1 : forall m, In m s1 -> vr_user m = l).
        { intros m Hm. destruct U3 as [->|(v' & nl & ->)]; [destruct Hm|]. destruct Hm as [<-|[]]. reflexivity. }
        assert (Hs2 : forall m, In m s2 -> In (vr_user m) (map fst upds)).
        { intros m Hm. destruct (A3 m Hm) as (l' & v' & nl & Hl' & ->). exact Hl'. }
        destruct Hn as [Hn|Hn]; destruct Hn' as [Hn'|Hn'].
        * destruct U3 as [->|(v' & nl & ->)]; [destruct Hn|]. destruct Hn as [<-|[]]. destruct Hn' as [<-|[]]. reflexivity.
        * exfalso. apply Hnotin. rewrite <- (Hs1 n Hn), Eu. apply Hs2. exact Hn'.
        * exfalso. apply Hnotin. rewrite <- (Hs1 n' Hn'), <- Eu. apply Hs2. exact Hn.
        * apply A4; assumption.
      + intros x l0 Hx He. apply in_app_or in Hx. destruct Hx as [Hx|Hx].
        * assert (l0 = l) by (apply (elem_of_inj st l0 l x x He (U1 x Hx) eq_refl)). subst l0.
          assert (Hne : e1 <> []) by (intros ->; destruct Hx). specialize (U4 Hne).
          destruct U3 as [->|(v' & nl & ->)]; [congruence|]. eexists. split; [apply in_or_app; left; left; reflexivity | reflexivity].
        * destruct (A5 x l0 Hx He) as (n & Hn & Hu). exists n. split; [apply in_or_app; right; exact Hn | exact Hu].
  Qed.

  (* ---- the version table after a publish *)
  Lemma latest_after sts news E l :
    (forall s, In s sts -> vr_epoch s <= E) -> (forall n, In n news -> vr_epoch n = E + 1) ->
    (forall n n', In n news -> In n' news -> vr_user n = vr_user n' -> n = n') ->
    (forall n, In n news -> vr_user n = l -> latest_state (sts ++ news) l (E + 1) = Some n) /\
    ((forall n, In n news -> vr_user n <> l) -> latest_state (sts ++ news) l (E + 1) = latest_state sts l E).
  Proof.
    intros Hs Hn Hu. rewrite !latest_state_fold, fold_left_app, (fold_lstep_bump l E sts None Hs).
    split.
    - intros n Hin Hl.
      destruct (fold_lstep_news l E news (fold_left (lstep l E) sts None) Hn) as (r & Er & Hr & Hru).
      + intros a Ha. rewrite <- latest_state_fold in Ha.
        assert (G : forall sts0 acc a0, (forall s, In s sts0 -> vr_epoch s <= E) -> (forall b, acc = Some b -> vr_epoch b <= E) ->
                    fold_left (lstep l E) sts0 acc = Some a0 -> vr_epoch a0 <= E).
        { induction sts0 as [|x sts0 IH0]; intros acc a0 H1 H2 H3; cbn [fold_left] in H3; [apply H2; exact H3|].
          apply (IH0 (lstep l E acc x) a0); [intros y Hy; apply H1; right; exact Hy | | exact H3].
          intros b Hb. unfold lstep in Hb. destruct (bytes_eqb (vr_user x) l && (vr_epoch x <=? E)); [|apply H2; exact Hb].
          destruct acc as [c|]; [destruct (vr_epoch c <=? vr_epoch x); [injection Hb as <-; apply H1; left; reflexivity | apply H2; exact Hb] | injection Hb as <-; apply H1; left; reflexivity]. }
        rewrite latest_state_fold in Ha. pose proof (G sts None a Hs ltac:(discriminate) Ha). lia.
      + exists n. split; [exact Hin | apply bytes_eqb_eq; exact Hl].
      + rewrite Er. f_equal. apply Hu; try assumption. apply bytes_eqb_eq in Hru. congruence.
    - intros Hnone. apply fold_lstep_other. intros n Hin. destruct (bytes_eqb (vr_user n) l) eqn:E0; [|reflexivity].
      apply bytes_eqb_eq in E0. exfalso. exact (Hnone n Hin E0).
  Qed.

  Lemma dir_new_inv : DirInv dir_new.
  Proof.
    constructor; cbn [dir_new d_epoch d_tree d_states].
    - split; [|intros y []]. cbn [canon_root empty_root]. repeat split; reflexivity.
    - intros s [].
    - intros l s H. discriminate.
    - intros y [].
    - intros s s' [].
    - intros s [].
  Qed.

  (* ---- one publish *)
  Theorem publish_step st upds st' e h :
    DirInv st -> publish st upds = (st', DOk (e, h)) ->
    DirInv st' /\ e = d_epoch st' /\ h = spec_root_hash cfg (sleaves (d_tree st')) /\
    (st' = st \/ exists elems news,
        derive_all st upds = Some (elems, news) /\ d_epoch st' = d_epoch st + 1 /\ d_states st' = d_states st ++ news /\
        Permutation (leaves (d_tree st')) (leaves (d_tree st) ++ map (lf_of (d_epoch st + 1)) elems)).
  Proof.
    intros [Itree Iep Iver Ilv Idist Ivle] H. unfold Directory.publish in H.
    destruct (has_dup (map fst upds)) eqn:Hd; [discriminate|].
    destruct (derive_all st upds) as [[elems news]|] eqn:Ed; [|discriminate].
    destruct elems as [|x0 xs] eqn:EE.
    - injection H as <- <- <-. split; [constructor; assumption|]. split; [reflexivity|]. split; [|left; reflexivity].
      cbn [epoch_hash snd]. apply canon_root_hash. apply Itree.
    - rewrite <- EE in *. assert (Hne : elems <> []) by (rewrite EE; discriminate).
      destruct (derive_all_spec st upds elems news Iver Hd Ed) as (D1 & D2 & D3 & D4 & D5).
      assert (Hb : batch_ok elems).
      { split; [|split; [|exact D2]].
        - intros x Hx. destruct (D1 x Hx) as (l & _ & [Hf|[_ Hs]]); [destruct (vrf_good _ _ _ _ Hf) as (W & C & _) | destruct (vrf_good _ _ _ _ Hs) as (W & C & _)]; split; assumption.
        - intros x Hx. destruct (D1 x Hx) as (l & _ & [Hf|[_ Hs]]); [apply (vrf_good _ _ _ _ Hf) | apply (vrf_good _ _ _ _ Hs)]. }
      assert (Hdis : forall x y, In x elems -> In y (leaves (d_tree st)) -> e_label x <> lf_label y).
      { intros x y Hx Hy E0. destruct (Ilv y Hy) as (l' & f' & v' & Hv' & H1 & Hb').
        destruct (D1 x Hx) as (l & _ & [Hf|[Hs1 Hs]]).
        - rewrite E0 in Hf. destruct (vrf_inj _ _ _ _ _ _ _ Hf Hv') as (-> & <- & <-). cbn in Hb'. lia.
        - rewrite E0 in Hs. destruct (vrf_inj _ _ _ _ _ _ _ Hs Hv') as (-> & <- & <-). cbn in Hb'. lia. }
      destruct (batch_insert_spec (c_empty_label cfg) Ce (d_tree st) (d_epoch st) (d_num st) elems Itree Hb Hdis) as (r & num' & EB & Ir & Pr).
      rewrite EE in H. rewrite <- EE in H. rewrite EB in H. injection H as <- <- <-.
      set (st' := DS r (d_epoch st + 1) num' (d_states st ++ news)).
      assert (Hnews_ep : forall n, In n news -> vr_epoch n = d_epoch st + 1).
      { intros n Hn. destruct (D3 n Hn) as (l & v & nl & _ & ->). reflexivity. }
      assert (Hver : forall l, ver st l <= ver st' l /\ ((exists n, In n news /\ vr_user n = l) -> ver st' l = ver st l + 1)).
      { intros l. destruct (latest_after (d_states st) news (d_epoch st) l Iep Hnews_ep D4) as [LA LB].
        assert (Ev : ver st' l = match latest_state (d_states st ++ news) l (d_epoch st + 1) with Some s => vr_version s | None => 0 end) by reflexivity.
        rewrite Ev.
        destruct (existsb (fun n => bytes_eqb (vr_user n) l) news) eqn:Ex.
        - apply existsb_exists in Ex. destruct Ex as (n & Hn & Hu). apply bytes_eqb_eq in Hu.
          rewrite (LA n Hn Hu). destruct (D3 n Hn) as (l2 & v & nl & _ & En). subst n. cbn [vr_user] in Hu. subst l2. cbn [vr_version].
          split; [lia | intros _; reflexivity].
        - assert (Hnone : forall n, In n news -> vr_user n <> l).
          { intros n Hn Hu. assert (existsb (fun n => bytes_eqb (vr_user n) l) news = true); [|congruence].
            apply existsb_exists. exists n. split; [exact Hn | apply bytes_eqb_eq; exact Hu]. }
          rewrite (LB Hnone). split; [apply N.le_refl|]. intros (n & Hn & Hu). exfalso. exact (Hnone n Hn Hu). }
      split; [|split; [reflexivity | split; [|right; exists elems, news; split; [reflexivity | split; [reflexivity | split; [reflexivity | exact Pr]]]]]].
      + constructor; cbn [st' d_epoch d_tree d_states].
        * exact Ir.
        * intros s Hs. apply in_app_or in Hs. destruct Hs as [Hs|Hs]; [pose proof (Iep s Hs); lia | rewrite (Hnews_ep s Hs); lia].
        * intros l s Hs. destruct (latest_after (d_states st) news (d_epoch st) l Iep Hnews_ep D4) as [LA LB].
          destruct (existsb (fun n => bytes_eqb (vr_user n) l) news) eqn:Ex.
          -- apply existsb_exists in Ex. destruct Ex as (n & Hn & Hu). apply bytes_eqb_eq in Hu.
             rewrite (LA n Hn Hu) in Hs. injection Hs as <-. destruct (D3 n Hn) as (l2 & v & nl & _ & ->). cbn [vr_version]. lia.
          -- assert (Hnone : forall n, In n news -> vr_user n <> l).
             { intros n Hn Hu. assert (existsb (fun n => bytes_eqb (vr_user n) l) news = true); [|congruence].
               apply existsb_exists. exists n. split; [exact Hn | apply bytes_eqb_eq; exact Hu]. }
             rewrite (LB Hnone) in Hs. apply (Iver l s Hs).
        * intros y Hy. apply (Permutation_in _ Pr) in Hy. apply in_app_or in Hy. destruct Hy as [Hy|Hy].
          -- destruct (Ilv y Hy) as (l & f & v & Hv & H1 & Hb'). exists l, f, v. split; [exact Hv | split; [exact H1|]].
             destruct (Hver l) as [Hle _]. destruct f; lia.
          -- apply in_map_iff in Hy. destruct Hy as (x & <- & Hx). cbn [lf_of lf_label].
             destruct (D1 x Hx) as (l & _ & He). destruct (D5 x l Hx He) as (n & Hn & Hu).
             destruct (Hver l) as [_ Hup]. specialize (Hup (ex_intro _ n (conj Hn Hu))).
             destruct He as [Hf|[Hs1 Hs]].
             ++ exists l, true, (ver st l + 1). split; [exact Hf | split; lia].
             ++ exists l, false, (ver st l). split; [exact Hs | split; lia].
        * intros s s' Hs Hs' Hu He. apply in_app_or in Hs, Hs'. destruct Hs as [Hs|Hs]; destruct Hs' as [Hs'|Hs'].
          -- apply Idist; assumption.
          -- exfalso. pose proof (Iep s Hs). rewrite (Hnews_ep s' Hs') in He. lia.
          -- exfalso. pose proof (Iep s' Hs'). rewrite (Hnews_ep s Hs) in He. lia.
          -- apply D4; assumption.
        * intros s Hs. apply in_app_or in Hs. destruct Hs as [Hs|Hs]; [apply Ivle; exact Hs|].
          destruct (D3 s Hs) as (l & v & nl & _ & ->). cbn [vr_version vr_epoch]. unfold ver.
          destruct (latest_state (d_states st) l (d_epoch st)) as [s0|] eqn:El; [|lia].
          assert (Hin : In s0 (d_states st) /\ vr_epoch s0 <= d_epoch st).
          { clear - El. rewrite latest_state_fold in El.
            assert (G : forall sts acc, (forall a, acc = Some a -> In a (d_states st) /\ vr_epoch a <= d_epoch st) -> (forall x, In x sts -> In x (d_states st)) ->
                        forall r, fold_left (lstep l (d_epoch st)) sts acc = Some r -> In r (d_states st) /\ vr_epoch r <= d_epoch st).
            { induction sts as [|x sts IHs]; intros acc Hacc Hsub r Hr; cbn [fold_left] in Hr; [apply Hacc; exact Hr|].
              apply (IHs (lstep l (d_epoch st) acc x)); [|intros y Hy; apply Hsub; right; exact Hy | exact Hr].
              intros a Ha. unfold lstep in Ha. destruct (bytes_eqb (vr_user x) l && (vr_epoch x <=? d_epoch st)) eqn:C; [|apply Hacc; exact Ha].
              apply andb_true_iff in C. destruct C as [_ C]. apply N.leb_le in C.
              destruct acc as [c|]; [destruct (vr_epoch c <=? vr_epoch x); [injection Ha as <-; split; [apply Hsub; left; reflexivity | exact C] | apply Hacc; exact Ha] | injection Ha as <-; split; [apply Hsub; left; reflexivity | exact C]]. }
            apply (G (d_states st) None); [discriminate | auto | exact El]. }
          destruct Hin as [Hin Hep]. pose proof (Ivle s0 Hin). lia.
      + cbn [epoch_hash snd st' d_tree]. apply canon_root_hash. apply Ir.
  Qed.

  (* ---- any sequence of publish calls *)
  Fixpoint run_publishes (st : dstate) (reqs : list (list (bytes * bytes))) : dstate :=
    match reqs with [] => st | r :: rest => run_publishes (fst (publish st r)) rest end.

  Lemma publish_keeps_inv st upds : DirInv st -> DirInv (fst (publish st upds)).
  Proof.
    intros I. destruct (publish st upds) as [st' res] eqn:E. cbn [fst].
    destruct res as [p| | | | |].
    - destruct p as [e h]. apply (publish_step st upds st' e h I E).
    - unfold Directory.publish in E. destruct (has_dup (map fst upds)); [injection E as <-; exact I|].
      destruct (derive_all st upds) as [[elems news]|]; [|discriminate]. destruct elems; [discriminate|].
      destruct (batch_insert _ _ _) as [[[? ?] ?]|]; discriminate.
    - unfold Directory.publish in E. destruct (has_dup (map fst upds)); [discriminate|].
      destruct (derive_all st upds) as [[elems news]|]; [|discriminate]. destruct elems; [discriminate|].
      destruct (batch_insert _ _ _) as [[[? ?] ?]|]; discriminate.
    - unfold Directory.publish in E. destruct (has_dup (map fst upds)); [discriminate|].
      destruct (derive_all st upds) as [[elems news]|]; [|discriminate]. destruct elems; [discriminate|].
      destruct (batch_insert _ _ _) as [[[? ?] ?]|]; discriminate.
    - unfold Directory.publish in E. destruct (has_dup (map fst upds)); [discriminate|].
      destruct (derive_all st upds) as [[elems news]|]; [|discriminate]. destruct elems; [discriminate|].
      destruct (batch_insert _ _ _) as [[[? ?] ?]|]; [discriminate | injection E as <-; exact I].
    - unfold Directory.publish in E. destruct (has_dup (map fst upds)); [discriminate|].
      destruct (derive_all st upds) as [[elems news]|]; [|injection E as <-; exact I]. destruct elems; [discriminate|].
      destruct (batch_insert _ _ _) as [[[? ?] ?]|]; discriminate.
  Qed.

  (* after any sequence of requests - accepted or rejected - the directory's tree is the
     specification trie over its leaves and the epoch hash it serves is that trie's hash *)
  Theorem directory_always_spec reqs :
    let st := run_publishes dir_new reqs in
    DirInv st /\ d_tree st = spec_root (sleaves (d_tree st)) /\
    epoch_hash cfg st = (d_epoch st, spec_root_hash cfg (sleaves (d_tree st))).
  Proof.
    cbv zeta. assert (G : forall reqs st, DirInv st -> DirInv (run_publishes st reqs)).
    { induction reqs0 as [|r rest IH]; intros st I; [exact I|]. cbn [run_publishes]. apply IH. apply publish_keeps_inv. exact I. }
    pose proof (G reqs dir_new dir_new_inv) as I. split; [exact I|]. destruct I as [[Hc _] _ _ _ _ _].
    split; [symmetry; apply canon_root_spec; exact Hc|]. unfold epoch_hash. f_equal. apply canon_root_hash. exact Hc.
  Qed.
End DirRefine.

Lemma invariant_reachable cfg ck (vl : bytes -> bool -> N -> option nlabel) :
  canonical (c_empty_label cfg) = false ->
  (forall l f v nl, vl l f v = Some nl -> WF nl /\ canonical nl = true /\ llen nl = 256) ->
  (forall l f v l' f' v' nl, vl l f v = Some nl -> vl l' f' v' = Some nl -> l = l' /\ f = f' /\ v = v') ->
  forall reqs, DirInv vl (run_publishes cfg ck vl dir_new reqs).
Proof. intros H1 H2 H3 reqs. exact (proj1 (directory_always_spec cfg ck vl H1 H2 H3 reqs)). Qed.

(* ------------------------------------------------------------------ C02: the freshness part of an honest lookup proof verifies *)
From Akd Require Import NonMemComplete BitsLabel TreeComplete Marker.

Section LookupFresh.
  Variable cfg : config.
  Variable ck : bytes.
  Variable vrf_label : bytes -> bool -> N -> option nlabel.
  Variable vrf_proof : bytes -> bool -> N -> option bytes.
  Hypothesis Ce : canonical (c_empty_label cfg) = false.
  Hypothesis vrf_good : forall l f v nl, vrf_label l f v = Some nl -> WF nl /\ canonical nl = true /\ llen nl = 256.
  Hypothesis vrf_inj : forall l f v l' f' v' nl, vrf_label l f v = Some nl -> vrf_label l' f' v' = Some nl -> l = l' /\ f = f' /\ v = v'.

  Lemma leaves_WF c : canon c -> forall y, In y (leaves c) -> WF (lf_label y).
  Proof.
    intros Hc y Hy. pose proof (wf_sub_wfg c (proj1 Hc)) as Hw. clear Hc. revert y Hy.
    induction c as [l v e|l le mde a b IHa IHb] using tree_ind'; intros y Hy.
    - destruct Hy as [<-|[]]. cbn [lf_label]. apply (wfg_label _ Hw).
    - cbn [leaves] in Hy. apply in_app_or in Hy. destruct Hy as [Hy|Hy].
      + destruct a as [a'|]; [|destruct Hy]. apply (IHa a' eq_refl); [|exact Hy]. apply (wfg_child l le mde (Some a') b false a' Hw eq_refl).
      + destruct b as [b'|]; [|destruct Hy]. apply (IHb b' eq_refl); [|exact Hy]. apply (wfg_child l le mde a (Some b') true b' Hw eq_refl).
  Qed.

  Lemma root_leaves_256 latest t : root_inv latest t -> forall y, In y (leaves t) -> length (bits_of (lf_label y)) = 256%nat.
  Proof.
    intros [Hc Hl] y Hy. destruct (Hl y Hy) as (H256 & _).
    assert (Wy : WF (lf_label y)).
    { destruct t as [|l le mde a b]; [destruct Hc|]. destruct Hc as (_ & Ca & Cb & _). cbn [leaves] in Hy. apply in_app_or in Hy. destruct Hy as [Hy|Hy].
      - destruct a as [a'|]; [|destruct Hy]. apply (leaves_WF a' (proj2 Ca) y Hy).
      - destruct b as [b'|]; [|destruct Hy]. apply (leaves_WF b' (proj2 Cb) y Hy). }
    rewrite length_bits_of by exact Wy. rewrite H256. reflexivity.
  Qed.

  (* C02: every part of the proof an honest directory returns for a lookup that concerns the tree
     verifies against the returned root hash: existence, marker (membership) and freshness
     (non-membership of the stale label of the current version) *)
  Theorem lookup_tree_parts_verify st l p eh :
    DirInv vrf_label st -> lookup cfg ck vrf_label vrf_proof st l = DOk (p, eh) ->
    eh = epoch_hash cfg st /\
    verify_membership cfg (snd eh) (lp_existence p) = true /\
    verify_membership cfg (snd eh) (lp_marker p) = true /\
    verify_nonmembership cfg (snd eh) (lp_freshness p) = true.
  Proof.
    intros I. pose proof I as [Itree Iep Iver Ilv _ _]. unfold Directory.lookup.
    destruct (latest_state (d_states st) l (d_epoch st)) as [s|] eqn:El; [|discriminate].
    destruct (vrf_label l true (vr_version s)) as [el|]; [|discriminate].
    destruct (vrf_label l true (lookup_marker (vr_version s))) as [ml|]; [|discriminate].
    destruct (vrf_label l false (vr_version s)) as [nl|] eqn:En; [|discriminate].
    destruct (vrf_proof l true (vr_version s)) as [ep|]; [|discriminate].
    destruct (vrf_proof l true (lookup_marker (vr_version s))) as [mp|]; [|discriminate].
    destruct (vrf_proof l false (vr_version s)) as [np|]; [|discriminate].
    intros [= <- <-]. cbn [lp_existence lp_marker lp_freshness snd epoch_hash].
    assert (Hroot : tlabel (d_tree st) = nl_root /\ is_leaf (d_tree st) = false).
    { destruct Itree as [Hc _]. destruct (d_tree st); [destruct Hc|]. destruct Hc as (-> & _). split; reflexivity. }
    destruct Hroot as [Hr Hl].
    split; [reflexivity|]. split; [apply gen_membership_verifies; assumption|]. split; [apply gen_membership_verifies; assumption|].
    destruct (vrf_good _ _ _ _ En) as (Wn & Cn & Ln).
    apply (nonmembership_complete cfg Ce nl Wn Cn).
    - rewrite length_bits_of by exact Wn. rewrite Ln. reflexivity.
    - apply Itree.
    - apply (root_leaves_256 (d_epoch st)). exact Itree.
    - intros y Hy E. destruct (Ilv y Hy) as (l' & f' & v' & Hv' & H1 & Hb'). rewrite E in Hv'.
      destruct (vrf_inj _ _ _ _ _ _ _ En Hv') as (<- & <- & <-). cbn in Hb'. unfold ver in Hb'. rewrite El in Hb'. lia.
  Qed.
End LookupFresh.
