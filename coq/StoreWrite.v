(* How a node record is written (TreeNode::write_to_storage, tree_node.rs): the node of the epoch being
   built becomes the latest version; the previous version is taken from the stored record AS OF THE
   EPOCH BEFORE - so that writing the same node twice in one epoch, or again after an attempt at that
   epoch died half-way, never rotates the committed version out.

   Theorems: every record so written at epoch E+1 over a store whose records are of epochs <= E has
   the shape the reader theorems of C11 / C13 assume ([commit_shape]); writing again over the record
   of a dead attempt gives exactly the record a first attempt would have written; taking the previous
   version as of the node's OWN epoch (a seeded change) is refuted. *)
From Coq Require Import List Bool Arith NArith Lia.
From Akd Require Import Bits NodeLabel NodeLabelFacts Hashing Tree Store StoreFacts.
Import ListNotations.
Open Scope N_scope.

(* [own_epoch] = true is the variant that selects as of the node's own epoch *)
Definition rotate (own_epoch : bool) (stored : option srec) (is_new : bool) (l : nlabel) (n : snode) : option srec :=
  let target := if own_epoch then sn_le n else if 0 <? sn_le n then sn_le n - 1 else sn_le n in
  if is_new then Some (SR l n None)
  else match stored with
       | None => Some (SR l n None)
       | Some r =>
         match determine r target with
         | SOk p => Some (SR l n (Some p))
         | SNotFound => Some (SR l n None)
         | SOther => None
         end
       end.

Lemma snode_eqb_refl a : snode_eqb a a = true.
Proof.
  unfold snode_eqb. rewrite !N.eqb_refl, Bool.eqb_reflx. cbn [andb].
  assert (L : forall o, opt_label_eqb o o = true) by (intros [x|]; cbn; [apply nl_eqb_eq; reflexivity | reflexivity]).
  rewrite !L. cbn [andb]. apply bytes_eqb_eq. reflexivity.
Qed.
Lemma opt_snode_eqb_refl a : opt_snode_eqb a a = true.
Proof. destruct a; cbn; [apply snode_eqb_refl | reflexivity]. Qed.

(* the store before the commit: every record's latest version is of an epoch <= E *)
Definition store_at (base : lookup) (E : N) : Prop := forall l r, base l = Some r -> sr_label r = l /\ sn_le (sr_latest r) <= E.

(* a record written at epoch E+1 over the committed store has the shape of a commit record *)
Theorem rotate_shape base E l n : store_at base E -> sn_le n = E + 1 ->
  forall r', rotate false (base l) (match base l with None => true | Some _ => false end) l n = Some r' ->
  commit_shape base E r' = true.
Proof.
  intros Hb Hn r' Hr. unfold rotate in Hr. rewrite Hn in Hr.
  destruct (base l) as [r|] eqn:Eb.
  - destruct (Hb l r Eb) as [Hl Hle].
    assert (T : (if 0 <? E + 1 then E + 1 - 1 else E + 1) = E) by (destruct (N.ltb_spec 0 (E + 1)); lia).
    rewrite T in Hr. unfold determine in Hr.
    destruct (N.ltb_spec E (sn_le (sr_latest r))) as [C|_]; [lia|]. injection Hr as <-.
    unfold commit_shape. cbn [sr_label sr_latest sr_prev]. rewrite Eb, Hn.
    destruct (N.ltb_spec E (E + 1)) as [_|C]; [|lia].
    rewrite opt_snode_eqb_refl. cbn [andb]. apply N.leb_le. exact Hle.
  - injection Hr as <-. unfold commit_shape. cbn [sr_label sr_latest sr_prev]. rewrite Eb, Hn.
    destruct (N.ltb_spec E (E + 1)) as [_|C]; [reflexivity | lia].
Qed.

(* writing again at the same epoch - over the record of the same transaction, or of an attempt at
   this epoch that died - gives the record a first write would have given *)
Theorem rotate_again base E l n1 n2 r r1 : store_at base E -> base l = Some r ->
  sn_le n1 = E + 1 -> sn_le n2 = E + 1 ->
  rotate false (Some r) false l n1 = Some r1 ->
  rotate false (Some r1) false l n2 = rotate false (Some r) false l n2.
Proof.
  intros Hb Eb H1 H2 Hr1. destruct (Hb l r Eb) as [Hl Hle].
  assert (T : (if 0 <? E + 1 then E + 1 - 1 else E + 1) = E) by (destruct (N.ltb_spec 0 (E + 1)); lia).
  unfold rotate in *. rewrite H1 in Hr1. rewrite H2. rewrite T in *.
  unfold determine in Hr1 |- *.
  destruct (N.ltb_spec E (sn_le (sr_latest r))) as [C|_]; [lia|]. injection Hr1 as <-.
  cbn [sr_latest sr_prev]. rewrite H1.
  destruct (N.ltb_spec E (E + 1)) as [_|C]; [|lia].
  destruct (N.ltb_spec E (sn_le (sr_latest r))) as [C|_]; [lia|]. reflexivity.
Qed.

(* hence, with C11: whatever part of the dead attempt and of the retry has reached storage, readers as
   of epoch E are served the committed tree *)
Corollary retry_records_keep_shape base E l n1 n2 r r1 r2 : store_at base E -> base l = Some r ->
  sn_le n1 = E + 1 -> sn_le n2 = E + 1 ->
  rotate false (Some r) false l n1 = Some r1 -> rotate false (Some r1) false l n2 = Some r2 ->
  commit_shape base E r1 = true /\ commit_shape base E r2 = true.
Proof.
  intros Hb Eb H1 H2 Hr1 Hr2.
  pose proof (rotate_again base E l n1 n2 r r1 Hb Eb H1 H2 Hr1) as Eq. rewrite Hr2 in Eq. symmetry in Eq.
  split.
  - apply (rotate_shape base E l n1 Hb H1). rewrite Eb. exact Hr1.
  - apply (rotate_shape base E l n2 Hb H2). rewrite Eb. exact Eq.
Qed.

(* the variant that selects the previous version as of the node's own epoch: after a dead attempt the
   retry keeps the DEAD version as previous - the committed one is gone, and the record no longer has
   the shape the readers rely on *)
Definition sn0 (e : N) (h : N) : snode := SN e e true None None [h].
Theorem rotate_as_of_own_epoch_refuted :
  let l := nl_root in
  let base : lookup := fun k => if nl_eqb k l then Some (SR l (sn0 1 10) None) else None in
  exists r1 r2,
    rotate true (base l) false l (sn0 2 20) = Some r1 /\ rotate true (Some r1) false l (sn0 2 21) = Some r2 /\
    sr_prev r2 = Some (sn0 2 20) /\ commit_shape base 1 r2 = false /\
    node_at (overlay [r2] base) l 1 <> node_at base l 1.
Proof. eexists. eexists. vm_compute. repeat split; discriminate. Qed.

Example rotate_as_of_previous_epoch_same_case :
  let l := nl_root in
  let base : lookup := fun k => if nl_eqb k l then Some (SR l (sn0 1 10) None) else None in
  exists r1 r2,
    rotate false (base l) false l (sn0 2 20) = Some r1 /\ rotate false (Some r1) false l (sn0 2 21) = Some r2 /\
    sr_prev r2 = Some (sn0 1 10) /\ commit_shape base 1 r2 = true /\
    node_at (overlay [r2] base) l 1 = node_at base l 1.
Proof. eexists. eexists. vm_compute. repeat split. Qed.

(* records of a dead attempt and, on top of them, records of its retry: as far as any reader as of E
   can tell, nothing has happened *)
Lemma find_rec_app w2 w1 l : find_rec (w2 ++ w1) l = match find_rec w2 l with Some r => Some r | None => find_rec w1 l end.
Proof.
  induction w2 as [|r w2 IH]; [reflexivity|]. cbn [app find_rec]. destruct (nl_eqb (sr_label r) l); [reflexivity | exact IH].
Qed.

Lemma overlay_overlay w2 w1 base l : overlay w2 (overlay w1 base) l = overlay (w2 ++ w1) base l.
Proof. unfold overlay. rewrite find_rec_app. destruct (find_rec w2 l); reflexivity. Qed.

Theorem dead_attempts_and_retries_invisible fuel base E dead retry l :
  (forall r, In r dead -> commit_shape base E r = true) ->
  (forall r, In r retry -> commit_shape base E r = true) ->
  view fuel (overlay retry (overlay dead base)) E l = view fuel base E l /\
  (forall k, node_at (overlay retry (overlay dead base)) k E = node_at base k E).
Proof.
  intros Hd Hr.
  assert (Hall : forall r, In r (retry ++ dead) -> commit_shape base E r = true).
  { intros r Hin. apply in_app_or in Hin. destruct Hin; [apply Hr | apply Hd]; assumption. }
  assert (Hn : forall k, node_at (overlay retry (overlay dead base)) k E = node_at base k E).
  { intros k. unfold node_at. rewrite overlay_overlay. apply (node_at_overlay base E (retry ++ dead) Hall k). }
  split; [|exact Hn]. apply view_ext. exact Hn.
Qed.
