(* C15 / C16: batch reads.  The result of batch_get - inside a transaction or not, whatever the cache
   holds - consists exactly of the records that the keys have in the committed view (the pending
   value if there is one, else the database's record); keys without a record contribute nothing. *)
From Coq Require Import List Bool NArith Lia.
From Akd Require Import Manager ManagerFacts.
Import ListNotations.
Open Scope N_scope.

Lemma in_nodup_keys k : forall l, In k (nodup_keys l) <-> In k l.
Proof.
  induction l as [|a l IH]; [reflexivity|]. cbn [nodup_keys].
  destruct (existsb (key_eqb a) l) eqn:Ex.
  - rewrite IH. split; [intros H; right; exact H|]. intros [<-|H]; [|exact H].
    apply existsb_exists in Ex. destruct Ex as (b & Hb & Eb). apply key_eqb_eq in Eb. subst b. exact Hb.
  - cbn [In]. rewrite IH. reflexivity.
Qed.

(* what a key holds once the pending writes are committed *)
Definition truth (s : mstate) (k : key) : option record :=
  match (if m_active s then kget (m_mods s) k else None) with
  | Some r => Some r
  | None => kget (m_db s) k
  end.

Lemma truth_merged s k : Inv s -> m_active s = true -> truth s k = kget (merged s) k.
Proof. intros HI Ha. unfold truth. rewrite Ha, kget_merged by exact HI. reflexivity. Qed.

Theorem batch_get_spec s ks : Inv s ->
  exists l, snd (batch_get s ks false) = Ok l /\
            forall r, In r l <-> exists k, In k ks /\ truth s k = Some r.
Proof.
  intros HI. pose proof HI as (Hcoh & _).
  set (local := fun k : key => match (if m_active s then kget (m_mods s) k else None) with
                               | Some r => Some r
                               | None => cache_get (m_cache s) k
                               end).
  assert (Lsome : forall k r, local k = Some r -> truth s k = Some r).
  { intros k r. unfold local, truth. destruct (if m_active s then kget (m_mods s) k else None); [auto|]. apply Hcoh. }
  assert (Lnone : forall k, local k = None -> truth s k = kget (m_db s) k).
  { intros k. unfold local, truth. destruct (if m_active s then kget (m_mods s) k else None); [discriminate | reflexivity]. }
  set (found := flat_map (fun k => match local k with Some r => [r] | None => [] end) ks).
  set (missing := filter (fun k => match local k with Some _ => false | None => true end) ks).
  set (results := flat_map (fun k => match kget (m_db s) k with Some r => [r] | None => [] end) (nodup_keys missing)).
  assert (Hfound : forall r, In r found <-> exists k, In k ks /\ local k = Some r).
  { intros r. unfold found. rewrite in_flat_map. split.
    - intros (k & Hk & Hr). exists k. split; [exact Hk|]. destruct (local k); [destruct Hr as [->|[]]; reflexivity | destruct Hr].
    - intros (k & Hk & E). exists k. split; [exact Hk|]. rewrite E. left. reflexivity. }
  assert (Hres : forall r, In r results <-> exists k, In k ks /\ local k = None /\ kget (m_db s) k = Some r).
  { intros r. unfold results. rewrite in_flat_map. split.
    - intros (k & Hk & Hr). apply (proj1 (in_nodup_keys k missing)) in Hk. unfold missing in Hk. apply filter_In in Hk. destruct Hk as [Hk Hl].
      exists k. split; [exact Hk|]. split; [destruct (local k); [discriminate | reflexivity]|].
      destruct (kget (m_db s) k); [destruct Hr as [->|[]]; reflexivity | destruct Hr].
    - intros (k & Hk & El & Ed). exists k. split.
      + apply (proj2 (in_nodup_keys k missing)). unfold missing. apply filter_In. split; [exact Hk | rewrite El; reflexivity].
      + rewrite Ed. left. reflexivity. }
  assert (Hall : forall r, In r (found ++ results) <-> exists k, In k ks /\ truth s k = Some r).
  { intros r. rewrite in_app_iff, Hfound, Hres. split.
    - intros [(k & Hk & E)|(k & Hk & El & Ed)]; exists k; (split; [exact Hk|]).
      + apply Lsome. exact E.
      + rewrite (Lnone k El). exact Ed.
    - intros (k & Hk & E). destruct (local k) as [r'|] eqn:El.
      + left. exists k. split; [exact Hk|]. rewrite (Lsome k r' El) in E. congruence.
      + right. exists k. split; [exact Hk|]. split; [exact El|]. rewrite <- (Lnone k El). exact E. }
  destruct ks as [|k0 kr] eqn:Eks.
  - exists []. split; [reflexivity|]. intros r. split; [intros [] | intros (k & [] & _)].
  - rewrite <- Eks in *.
    assert (Eb : snd (batch_get s ks false) =
                 match missing with
                 | [] => Ok found
                 | _ :: _ => Ok (found ++ results)
                 end).
    { unfold missing, found, results, local. rewrite Eks. unfold batch_get. cbv zeta.
      destruct (filter _ (k0 :: kr)); reflexivity. }
    rewrite Eb. destruct missing as [|m0 mr] eqn:Em.
    + exists found. split; [reflexivity|]. intros r. rewrite <- Hall. unfold results. cbn [nodup_keys flat_map]. rewrite app_nil_r. reflexivity.
    + exists (found ++ results). split; [reflexivity | exact Hall].
Qed.

(* inside a transaction: exactly the records of the requested keys in the database as it will be
   after the commit *)
Corollary txn_batch_get_is_committed s ks : Inv s -> m_active s = true ->
  exists l, snd (batch_get s ks false) = Ok l /\
            forall r, In r l <-> exists k, In k ks /\ kget (merged s) k = Some r.
Proof.
  intros HI Ha. destruct (batch_get_spec s ks HI) as (l & E & H). exists l. split; [exact E|].
  intros r. rewrite H. split; intros (k & Hk & Ek); exists k; (split; [exact Hk|]);
    [rewrite <- (truth_merged s k HI Ha) | rewrite (truth_merged s k HI Ha)]; exact Ek.
Qed.

(* outside a transaction: exactly the database's records, whatever the cache holds (C16) *)
Corollary batch_get_is_db s ks : Inv s -> m_active s = false ->
  exists l, snd (batch_get s ks false) = Ok l /\
            forall r, In r l <-> exists k, In k ks /\ kget (m_db s) k = Some r.
Proof.
  intros HI Ha. destruct (batch_get_spec s ks HI) as (l & E & H). exists l. split; [exact E|].
  intros r. rewrite H. unfold truth. rewrite Ha. reflexivity.
Qed.

(* ------------------------------------------------------------------ bulk version queries *)
Lemma last_opt_in {A} (l : list A) x : last_opt l = Some x -> In x l.
Proof.
  unfold last_opt. destruct (rev l) as [|y r] eqn:E; [discriminate|]. intros H. injection H as <-.
  apply in_rev. rewrite E. left. reflexivity.
Qed.

Lemma find_item_in l f x : find_item l f = Some x -> In x l.
Proof.
  destruct f as [v|e|e| |]; cbn [find_item]; intros H.
  - apply find_some in H. apply H.
  - apply find_some in H. apply H.
  - apply last_opt_in in H. apply filter_In in H. apply H.
  - apply last_opt_in. exact H.
  - destruct l; [discriminate|]. injection H as <-. left. reflexivity.
Qed.

(* versions follow epochs among a user's stored and pending states: a later epoch never has a
   smaller version, an earlier epoch never a larger one (every update of a label raises both;
   tombstoning rewrites a record under the same epoch and version) *)
Definition versions_follow_epochs (s : mstate) (u : N) : Prop :=
  forall d m, In d (user_states (m_db s) u) -> In m (user_states (m_mods s) u) ->
    (vs_epoch d <=? vs_epoch m) = (vs_version d <=? vs_version m) /\
    (vs_epoch m <=? vs_epoch d) = (vs_version m <=? vs_version d).

(* the bulk query (which compares versions, the only thing it knows of the database's record)
   answers for every user what the single query answers: (version, value) of the selected state *)
Theorem versions_one_agrees s u f : versions_follow_epochs s u ->
  user_state_versions_one s u f =
  match snd (get_user_state s u f false) with Ok x => Some (vs_version x, vs_value x) | Err _ => None end.
Proof.
  intros Hv. unfold user_state_versions_one, get_user_state, db_user_state.
  destruct (m_active s).
  - destruct (find_item (user_states (m_mods s) u) f) as [tv|] eqn:Em.
    + destruct (find_item (user_states (m_db s) u) f) as [dv|] eqn:Ed; [|reflexivity].
      destruct (Hv dv tv (find_item_in _ _ _ Ed) (find_item_in _ _ _ Em)) as [H1 H2].
      destruct f as [v|e|e| |]; cbn [compare_db_txn snd]; try reflexivity.
      * rewrite H1. destruct (vs_version dv <=? vs_version tv); reflexivity.
      * rewrite H1. destruct (vs_version dv <=? vs_version tv); reflexivity.
      * rewrite H2. destruct (vs_version tv <=? vs_version dv); reflexivity.
    + destruct (find_item (user_states (m_db s) u) f); reflexivity.
  - destruct (find_item (user_states (m_db s) u) f); reflexivity.
Qed.

(* hence, with C15_user_state, the bulk query inside a transaction reports the committed selection *)
Corollary txn_versions_sound s u f vv : Inv s -> m_active s = true -> rewrite_keeps_version s u ->
  versions_follow_epochs s u -> user_state_versions_one s u f = Some vv ->
  exists x, sel f (user_states (merged s) u) x /\ vv = (vs_version x, vs_value x).
Proof.
  intros HI Ha Hrw Hv E. rewrite (versions_one_agrees s u f Hv) in E.
  destruct (snd (get_user_state s u f false)) as [x|e] eqn:Eg; [|discriminate]. injection E as <-.
  exists x. split; [|reflexivity]. apply (txn_user_state_sound s u f x HI Ha Hrw Eg).
Qed.

(* ------------------------------------------------------------------ reads of what is committed *)
Theorem Inv_get_committed s k f : Inv s -> Inv (fst (get_committed s k f)).
Proof.
  intros (C & K1 & N1 & K2 & N2). unfold get_committed.
  destruct (cache_get (m_cache s) k); [repeat split; assumption|].
  destruct f; [repeat split; assumption|].
  destruct (kget (m_db s) k) as [r|] eqn:E; [|repeat split; assumption].
  repeat split; try assumption; cbn [m_db m_cache]. unfold coherent; cbn [m_db m_cache]. apply coh_fill; auto.
  rewrite (K1 _ _ E). exact E.
Qed.

(* get_committed returns the database's record - whatever the cache holds and whatever an open
   transaction has pending - and changes neither the database nor the transaction *)
Theorem get_committed_spec s k : Inv s ->
  snd (get_committed s k false) = match kget (m_db s) k with Some r => Ok r | None => Err ENotFound end /\
  m_db (fst (get_committed s k false)) = m_db s /\ m_mods (fst (get_committed s k false)) = m_mods s /\
  m_active (fst (get_committed s k false)) = m_active s.
Proof.
  intros (C & _). unfold get_committed.
  destruct (cache_get (m_cache s) k) as [r|] eqn:E.
  - rewrite (C k r E). repeat split; reflexivity.
  - destruct (kget (m_db s) k); repeat split; reflexivity.
Qed.
