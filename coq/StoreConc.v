(* Readers concurrent with any number of publishes, at the granularity of single record writes.

   A request reads the epoch record once (epoch E) and afterwards fetches node records one at a
   time, each "as of E" ([node_at]).  Meanwhile publishes commit: each commit writes its batch of
   records in some order, so a fetch may see the store before, after, or in the middle of any of the
   commits that follow E.  Theorems: every such fetch returns what the store frozen at E returns,
   or the error "both retained versions are newer" (a reader that has fallen two epochs behind);
   hence ANY computation from fetched records ([prog]: an arbitrary decision tree over the answers)
   returns exactly what it returns on the frozen store, or fails. *)
From Coq Require Import List Bool NArith Lia.
From Akd Require Import NodeLabel Hashing Tree Store StoreFacts.
Import ListNotations.
Open Scope N_scope.

(* one (possibly partial) commit on top of a store at epoch E' >= E *)
Lemma node_at_overlay_later g E E' written :
  E <= E' -> (forall r, In r written -> commit_shape g E' r = true) ->
  forall l, node_at (overlay written g) l E = node_at g l E \/ node_at (overlay written g) l E = SOther.
Proof.
  intros HE Hshape l. unfold node_at, overlay. destruct (find_rec written l) as [r|] eqn:F; [|left; reflexivity].
  destruct (find_rec_some _ _ _ F) as [Hin Hl]. specialize (Hshape r Hin). unfold commit_shape in Hshape. rewrite Hl in Hshape.
  destruct (g l) as [old|].
  - destruct (N.ltb_spec E' (sn_le (sr_latest r))) as [H|H].
    + apply andb_true_iff in Hshape. destruct Hshape as [H1 H2]. apply opt_snode_eqb_eq in H1. apply N.leb_le in H2.
      unfold determine. rewrite H1.
      destruct (N.ltb_spec E (sn_le (sr_latest r))) as [_|C]; [|lia].
      destruct (N.ltb_spec E (sn_le (sr_latest old))) as [Hlt|Hge]; [right; reflexivity | left; reflexivity].
    + apply andb_true_iff in Hshape. destruct Hshape as [H1 H2]. apply snode_eqb_eq in H1. apply opt_snode_eqb_eq in H2.
      left. unfold determine. rewrite H1, H2. reflexivity.
  - apply andb_true_iff in Hshape. destruct Hshape as [H1 H2]. apply N.ltb_lt in H1. left. unfold determine.
    destruct (N.ltb_spec E (sn_le (sr_latest r))) as [_|C]; [|lia].
    destruct (sr_prev r); [discriminate | reflexivity].
Qed.

(* the stores after zero or more whole commits that follow epoch E *)
Inductive committed (base : lookup) (E : N) : lookup -> Prop :=
| c_base : committed base E base
| c_commit g E' batch : committed base E g -> E <= E' ->
    (forall r, In r batch -> commit_shape g E' r = true) -> committed base E (overlay batch g).

(* ... and what a fetch can see: any part of the next commit's batch on top of one of those *)
Definition visible (base : lookup) (E : N) (g : lookup) : Prop :=
  exists g0 E' batch written, committed base E g0 /\ E <= E' /\
    (forall r, In r batch -> commit_shape g0 E' r = true) /\ incl written batch /\ g = overlay written g0.

Definition same_or_error (a b : sres) : Prop := a = b \/ a = SOther.

Lemma committed_agree base E g : committed base E g -> forall l, same_or_error (node_at g l E) (node_at base l E).
Proof.
  induction 1 as [|g E' batch Hc IH HE Hs]; intros l; [left; reflexivity|].
  destruct (node_at_overlay_later g E E' batch HE Hs l) as [H|H]; [|right; exact H].
  rewrite H. apply IH.
Qed.

Theorem visible_agree base E g : visible base E g -> forall l, same_or_error (node_at g l E) (node_at base l E).
Proof.
  intros (g0 & E' & batch & written & Hc & HE & Hs & Hincl & ->) l.
  assert (Hs' : forall r, In r written -> commit_shape g0 E' r = true) by (intros r Hr; apply Hs, Hincl, Hr).
  destruct (node_at_overlay_later g0 E E' written HE Hs' l) as [H|H]; [|right; exact H].
  rewrite H. apply (committed_agree base E g0 Hc).
Qed.

Lemma visible_base base E : visible base E base.
Proof.
  exists base, E, [], []. split; [apply c_base|]. split; [lia|]. split; [intros r []|]. split; [apply incl_refl | reflexivity].
Qed.

(* ------------------------------------------------------------------ any reader *)
(* a request as a decision tree over the records it fetches; the error of a fetch aborts it *)
Inductive prog (A : Type) : Type :=
| Ret (a : A)
| Fail
| Fetch (l : nlabel) (k : option snode -> prog A).
Arguments Ret {A}. Arguments Fail {A}. Arguments Fetch {A}.

(* the i-th fetch sees the store [stores i] *)
Fixpoint exec {A} (p : prog A) (E : N) (stores : nat -> lookup) (i : nat) : option A :=
  match p with
  | Ret a => Some a
  | Fail => None
  | Fetch l k =>
    match node_at (stores i) l E with
    | SOk n => exec (k (Some n)) E stores (S i)
    | SNotFound => exec (k None) E stores (S i)
    | SOther => None
    end
  end.

Theorem concurrent_request_frozen_or_error {A} (p : prog A) base E stores :
  (forall i, visible base E (stores i)) ->
  forall i, exec p E stores i = exec p E (fun _ => base) i \/ exec p E stores i = None.
Proof.
  intros Hv. induction p as [a| |l k IH]; intros i; cbn [exec]; [left; reflexivity | left; reflexivity |].
  destruct (visible_agree base E (stores i) (Hv i) l) as [H|H]; rewrite H.
  - destruct (node_at base l E) as [n| |]; [apply IH | apply IH | left; reflexivity].
  - right. reflexivity.
Qed.

(* the tree walk of the model ([view], which C11/C13 use) under a store that changes between fetches:
   the position of a fetch in the walk selects the store it sees *)
Fixpoint view_v (fuel : nat) (at_ : list bool -> lookup) (E : N) (l : nlabel) : vres :=
  match fuel with
  | O => VErr
  | S f =>
    match node_at (at_ []) l E with
    | SNotFound => VTree None
    | SOther => VErr
    | SOk n =>
      if sn_leaf n then VTree (Some (Leaf l (sn_hash n) (sn_le n)))
      else
        let sub (d : bool) (o : option nlabel) : vres :=
          match o with Some c => view_v f (fun p => at_ (d :: p)) E c | None => VTree None end in
        match sub false (sn_left n), sub true (sn_right n) with
        | VTree a, VTree b => VTree (Some (Node l (sn_le n) (sn_mde n) a b))
        | _, _ => VErr
        end
    end
  end.

Theorem view_concurrent fuel base E : forall at_ l,
  (forall p, visible base E (at_ p)) ->
  view_v fuel at_ E l = view fuel base E l \/ view_v fuel at_ E l = VErr.
Proof.
  induction fuel as [|f IH]; intros at_ l Hv; [left; reflexivity|]. cbn [view_v view].
  destruct (visible_agree base E (at_ []) (Hv []) l) as [H|H]; rewrite H; [|right; reflexivity].
  destruct (node_at base l E) as [n| |]; [|left; reflexivity|left; reflexivity].
  destruct (sn_leaf n); [left; reflexivity|].
  assert (SL : forall d o, (match o with Some c => view_v f (fun p => at_ (d :: p)) E c | None => VTree None end) =
                           (match o with Some c => view f base E c | None => VTree None end) \/
                           (match o with Some c => view_v f (fun p => at_ (d :: p)) E c | None => VTree None end) = VErr).
  { intros d [c|]; [|left; reflexivity]. apply IH. intros p. apply Hv. }
  destruct (SL false (sn_left n)) as [-> | ->]; [|right; reflexivity].
  destruct (SL true (sn_right n)) as [-> | ->]; [left; reflexivity|].
  right. destruct (match sn_left n with Some c => view f base E c | None => VTree None end); reflexivity.
Qed.

(* the reported root hash *)
Theorem root_hash_concurrent cfg base E g : visible base E g ->
  root_hash_at cfg g E = root_hash_at cfg base E \/ root_hash_at cfg g E = None.
Proof.
  intros Hv. unfold root_hash_at. destruct (visible_agree base E g Hv nl_root) as [H|H]; rewrite H; [left | right]; reflexivity.
Qed.
