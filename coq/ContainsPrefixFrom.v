(* C17, `contains_prefix` on the set `AzksElementSet::from` builds (what the preloading asks):
   whatever representation `from` chooses - sorted when all labels have one length, unsorted
   otherwise - the answer is "some given element's label extends the prefix". *)
From Coq Require Import List Bool Arith NArith Lia Permutation.
From Akd Require Import Bits NodeLabel NodeLabelFacts ElemSet ElemSetFacts ContainsPrefix InsertRefine
  ContainsPrefixSorted AuditRebuild.
Import ListNotations.

Lemma existsb_perm {A} (g : A -> bool) l l' : Permutation l l' -> existsb g l = existsb g l'.
Proof.
  intros HP. apply eq_true_iff_eq. rewrite !existsb_exists.
  split; intros [x [Hx Hg]]; exists x; (split; [|exact Hg]).
  - eapply Permutation_in; [exact HP | exact Hx].
  - eapply Permutation_in; [apply Permutation_sym; exact HP | exact Hx].
Qed.

Theorem contains_prefix_of_from p elems :
  WF p -> canonical p = true -> elabs_ok elems -> NoDup (map e_label elems) ->
  (forall x, In x elems -> (llen p <= llen (e_label x))%N) ->
  eset_contains_prefix (eset_from elems) p = existsb (extends p) elems.
Proof.
  intros Hp Cp Hok Hnd Hlen.
  destruct elems as [|x0 r0] eqn:E; [reflexivity|]. rewrite <- E in *.
  assert (Hne : elems <> []) by (rewrite E; discriminate).
  destruct (eset_from_goodP elems Hne Hok Hnd) as [Hg HP].
  assert (Hok' : elabs_ok (eset_list (eset_from elems))).
  { intros y Hy. apply Hok. eapply Permutation_in; [exact HP | exact Hy]. }
  assert (Hlen' : forall y, In y (eset_list (eset_from elems)) -> (llen p <= llen (e_label y))%N).
  { intros y Hy. apply Hlen. eapply Permutation_in; [exact HP | exact Hy]. }
  rewrite <- (existsb_perm (extends p) _ _ HP).
  destruct (eset_from elems) as [l|l] eqn:Es; cbn [eset_list good_set] in *.
  - destruct Hg as [Hs Hsl].
    rewrite (contains_prefix_sorted_eq_unsorted p l Hp Cp Hok' Hs Hsl Hlen').
    apply contains_prefix_unsorted; [exact Hp | intros y Hy; apply (Hok' y Hy)].
  - apply contains_prefix_unsorted; [exact Hp | intros y Hy; apply (Hok' y Hy)].
Qed.
