(* C03: every tree-related part of the history proof an honest directory returns verifies against
   the returned root hash: existence / previous-version / past-marker membership proofs, and the
   non-membership proofs of the future markers (versions above the latest one do not exist). *)
From Coq Require Import List Bool Arith NArith Lia Permutation.
From Akd Require Import Bits NodeLabel NodeLabelFacts BitsLabel ElemSet Hashing Tree TreeFacts TreeComplete Insert Spec SpecFacts
     InsertRefine NonMemComplete Marker MarkerFacts MarkerBounds Directory DirRefine.
Import ListNotations.
Open Scope N_scope.

Section Hist.
  Variable cfg : config.
  Variable ck : bytes.
  Variable vrf_label : bytes -> bool -> N -> option nlabel.
  Variable vrf_proof : bytes -> bool -> N -> option bytes.
  Hypothesis Ce : canonical (c_empty_label cfg) = false.
  Hypothesis vrf_good : forall l f v nl, vrf_label l f v = Some nl -> WF nl /\ canonical nl = true /\ llen nl = 256.
  Hypothesis vrf_inj : forall l f v l' f' v' nl, vrf_label l f v = Some nl -> vrf_label l' f' v' = Some nl -> l = l' /\ f = f' /\ v = v'.

  Definition sel (u : bytes) (e : N) (s : vrec) : bool := bytes_eqb (vr_user s) u && (vr_epoch s <=? e).

  (* latest_state returns a selected state of maximal epoch *)
  Lemma latest_state_max sts u e s : latest_state sts u e = Some s ->
    In s sts /\ sel u e s = true /\ forall s', In s' sts -> sel u e s' = true -> vr_epoch s' <= vr_epoch s.
  Proof.
    rewrite latest_state_fold.
    assert (G : forall l acc, (forall a, acc = Some a -> sel u e a = true) ->
               forall r, fold_left (lstep u e) l acc = Some r ->
               (In r l \/ acc = Some r) /\ sel u e r = true /\
               (forall s', In s' l -> sel u e s' = true -> vr_epoch s' <= vr_epoch r) /\
               (forall a, acc = Some a -> vr_epoch a <= vr_epoch r)).
    { induction l as [|x l IH]; intros acc Hacc r Hr; cbn [fold_left] in Hr.
      - subst acc. split; [right; reflexivity|]. split; [apply Hacc; reflexivity|]. split; [intros s' []|]. intros a [= <-]. lia.
      - assert (Hacc' : forall a, lstep u e acc x = Some a -> sel u e a = true).
        { intros a Ha. unfold lstep in Ha. fold (sel u e x) in Ha. destruct (sel u e x) eqn:Sx; [|apply Hacc; exact Ha].
          destruct acc as [c|]; [destruct (vr_epoch c <=? vr_epoch x); [injection Ha as <-; exact Sx | apply Hacc; exact Ha] | injection Ha as <-; exact Sx]. }
        destruct (IH (lstep u e acc x) Hacc' r Hr) as (I1 & I2 & I3 & I4).
        split; [|split; [exact I2|split]].
        + destruct I1 as [I1|I1]; [left; right; exact I1|]. unfold lstep in I1. fold (sel u e x) in I1.
          destruct (sel u e x); [|right; exact I1].
          destruct acc as [c|]; [destruct (vr_epoch c <=? vr_epoch x); [injection I1 as <-; left; left; reflexivity | right; exact I1] | injection I1 as <-; left; left; reflexivity].
        + intros s' [Ex|Hs'] Hsel; [subst s'|apply I3; assumption].
          unfold lstep in I4. fold (sel u e x) in I4. rewrite Hsel in I4.
          destruct acc as [c|]; [|apply (I4 x eq_refl)].
          destruct (N.leb_spec (vr_epoch c) (vr_epoch x)) as [Hle|Hgt]; [apply (I4 x eq_refl)|].
          specialize (I4 c eq_refl). lia.
        + intros a ->. unfold lstep in I4. fold (sel u e x) in I4. destruct (sel u e x); [|apply (I4 a eq_refl)].
          destruct (N.leb_spec (vr_epoch a) (vr_epoch x)) as [Hle|Hgt]; [specialize (I4 x eq_refl); lia | apply (I4 a eq_refl)]. }
    intros H. destruct (G sts None ltac:(discriminate) s H) as (I1 & I2 & I3 & _).
    split; [destruct I1 as [I1|I1]; [exact I1 | discriminate]|]. split; [exact I2 | exact I3].
  Qed.

  Lemma in_insert_desc x s l : In x (insert_desc s l) <-> x = s \/ In x l.
  Proof.
    induction l as [|y l IH]; cbn [insert_desc]; [cbn; intuition|].
    destruct (vr_epoch y <=? vr_epoch s); cbn [In]; [intuition|]. rewrite IH. intuition.
  Qed.

  Definition desc_sorted (l : list vrec) : Prop :=
    match l with [] => True | d0 :: r => forall x, In x r -> vr_epoch x <= vr_epoch d0 end.

  Lemma insert_desc_head s l : desc_sorted l -> desc_sorted (insert_desc s l).
  Proof.
    destruct l as [|y l]; cbn [insert_desc desc_sorted]; [intros _ x []|]. intros H.
    destruct (N.leb_spec (vr_epoch y) (vr_epoch s)) as [Hle|Hgt]; cbn [desc_sorted].
    - intros x [<-|Hx]; [exact Hle | specialize (H x Hx); lia].
    - intros x Hx. apply in_insert_desc in Hx. destruct Hx as [->|Hx]; [lia | apply H; exact Hx].
  Qed.

  Lemma user_history_spec sts u e :
    (forall x, In x (user_history sts u e) <-> In x sts /\ sel u e x = true) /\ desc_sorted (user_history sts u e).
  Proof.
    unfold user_history. induction sts as [|s sts [IH1 IH2]]; cbn [fold_right]; [split; [intros x; cbn; intuition | exact I]|].
    fold (sel u e s). destruct (sel u e s) eqn:Ss.
    - split; [|apply insert_desc_head; exact IH2]. intros x. rewrite in_insert_desc, IH1. cbn [In]. split.
      + intros [->|[H1 H2]]; [split; [left; reflexivity | exact Ss] | split; [right; exact H1 | exact H2]].
      + intros [[<-|H1] H2]; [left; reflexivity | right; split; assumption].
    - split; [|exact IH2]. intros x. rewrite IH1. cbn [In]. split; [intros [H1 H2]; split; [right; exact H1 | exact H2]|].
      intros [[<-|H1] H2]; [congruence | split; assumption].
  Qed.

  (* the head of the user's history is the latest state *)
  Lemma user_history_head st l d0 r :
    DirInv vrf_label st -> user_history (d_states st) l (d_epoch st) = d0 :: r ->
    latest_state (d_states st) l (d_epoch st) = Some d0.
  Proof.
    intros I Hh. destruct (user_history_spec (d_states st) l (d_epoch st)) as [U1 U2]. rewrite Hh in U1, U2. cbn [desc_sorted] in U2.
    destruct (proj1 (U1 d0) (or_introl eq_refl)) as [Hin0 Hsel0].
    destruct (latest_state (d_states st) l (d_epoch st)) as [s|] eqn:El.
    - destruct (latest_state_max _ _ _ _ El) as (Hin & Hsel & Hmax). f_equal.
      apply (di_distinct vrf_label st I); try assumption.
      + unfold sel in Hsel, Hsel0. apply andb_true_iff in Hsel, Hsel0. destruct Hsel as [A _]. destruct Hsel0 as [B _].
        apply bytes_eqb_eq in A, B. congruence.
      + assert (Hs : In s (d0 :: r)) by (apply U1; split; assumption).
        pose proof (Hmax d0 Hin0 Hsel0). destruct Hs as [<-|Hs]; [reflexivity|]. specialize (U2 s Hs). lia.
    - exfalso. rewrite latest_state_fold in El.
      assert (G : forall sts acc, acc <> None -> fold_left (lstep l (d_epoch st)) sts acc <> None).
      { induction sts as [|x sts IH]; intros acc Ha; cbn [fold_left]; [exact Ha|]. apply IH. unfold lstep.
        destruct (bytes_eqb (vr_user x) l && (vr_epoch x <=? d_epoch st)); [|exact Ha].
        destruct acc as [c|]; [destruct (vr_epoch c <=? vr_epoch x); discriminate | discriminate]. }
      assert (G2 : forall sts, In d0 sts -> fold_left (lstep l (d_epoch st)) sts None <> None).
      { induction sts as [|x sts IH]; intros Hin; [destruct Hin|]. cbn [fold_left]. destruct Hin as [->|Hin].
        - apply G. unfold lstep. fold (sel l (d_epoch st) d0). rewrite Hsel0. discriminate.
        - destruct (lstep l (d_epoch st) None x) eqn:E; [apply G; discriminate | apply IH; exact Hin]. }
      exact (G2 _ Hin0 El).
  Qed.

  Lemma all_some_in {A B} (f : A -> option B) : forall l r, all_some (map f l) = Some r ->
    forall y, In y r -> exists x, In x l /\ f x = Some y.
  Proof.
    induction l as [|a l IH]; intros r H y Hy; cbn [map all_some] in H; [injection H as <-; destruct Hy|].
    destruct (f a) as [b|] eqn:E; [|discriminate]. destruct (all_some (map f l)) as [r'|] eqn:E2; [|discriminate].
    injection H as <-. destruct Hy as [<-|Hy]; [exists a; split; [left; reflexivity | exact E]|].
    destruct (IH r' eq_refl y Hy) as (x & Hx & Hfx). exists x. split; [right; exact Hx | exact Hfx].
  Qed.

  Lemma fold_max_bounds : forall (data : list vrec) init B,
    init <= B -> (forall x, In x data -> vr_version x <= B) ->
    init <= fold_left (fun a s => N.max a (vr_version s)) data init /\
    fold_left (fun a s => N.max a (vr_version s)) data init <= B.
  Proof.
    induction data as [|x data IH]; intros init B Hi Hd; cbn [fold_left]; [lia|].
    pose proof (Hd x (or_introl eq_refl)).
    destruct (IH (N.max init (vr_version x)) B ltac:(lia) (fun y Hy => Hd y (or_intror Hy))) as [I1 I2]. lia.
  Qed.

  Theorem history_tree_parts_verify st l params p eh :
    DirInv vrf_label st -> key_history cfg ck vrf_label vrf_proof st l params = DOk (p, eh) ->
    eh = epoch_hash cfg st /\
    Forall (fun u => verify_membership cfg (snd eh) (up_existence u) = true /\
                     match up_prev u with Some m => verify_membership cfg (snd eh) m = true | None => True end) (hp_updates p) /\
    Forall (fun m => verify_membership cfg (snd eh) m = true) (hp_past p) /\
    Forall (fun m => verify_nonmembership cfg (snd eh) m = true) (hp_future p).
  Proof.
    intros I. pose proof I as [Itree Iep Iver Ilv Idist Ivle]. unfold Directory.key_history.
    set (all := user_history (d_states st) l (d_epoch st)).
    set (data := match params with HComplete => all | HMostRecent n => firstn (N.to_nat n) all end).
    destruct data as [|d0 rest] eqn:Ed; [discriminate|].
    set (start_v := fold_left (fun a s => N.min a (vr_version s)) (d0 :: rest) (vr_version d0)).
    set (end_v := fold_left (fun a s => N.max a (vr_version s)) (d0 :: rest) (vr_version d0)).
    destruct ((start_v =? 0) || (end_v =? 0)) eqn:Ez; [discriminate|].
    destruct (get_marker_versions start_v end_v (d_epoch st)) as [[past future]|] eqn:Em; [|discriminate].
    destruct (all_some (map (single_update_proof cfg ck vrf_label vrf_proof (d_tree st) l) (d0 :: rest))) as [ups|] eqn:Eu; [|discriminate].
    destruct (all_some (map (fun v => vrf_proof l true v) past)) as [pvp|]; [|discriminate].
    destruct (all_some (map (fun v => vrf_label l true v) past)) as [pls|]; [|discriminate].
    destruct (all_some (map (fun v => vrf_proof l true v) future)) as [fvp|]; [|discriminate].
    destruct (all_some (map (fun v => vrf_label l true v) future)) as [fls|] eqn:Ef; [|discriminate].
    intros [= <- <-]. cbn [hp_updates hp_past hp_future snd epoch_hash].
    assert (Hroot : tlabel (d_tree st) = nl_root /\ is_leaf (d_tree st) = false).
    { destruct Itree as [Hc _]. destruct (d_tree st); [destruct Hc|]. destruct Hc as (-> & _). split; reflexivity. }
    destruct Hroot as [Hr Hl].
    split; [reflexivity|]. split; [|split].
    - apply Forall_forall. intros u Hu.
      destruct (all_some_in _ _ _ Eu u Hu) as (x & _ & Hx). unfold single_update_proof, opt_bind in Hx.
      destruct (vrf_label l true (vr_version x)) as [el|]; [|discriminate].
      destruct (vrf_proof l true (vr_version x)) as [ep|]; [|discriminate].
      destruct (1 <? vr_version x).
      + destruct (vrf_label l false (vr_version x - 1)) as [pl|]; [|discriminate].
        destruct (vrf_proof l false (vr_version x - 1)) as [pp|]; [|discriminate].
        injection Hx as <-. cbn [up_existence up_prev snd]. split; apply gen_membership_verifies; assumption.
      + injection Hx as <-. cbn [up_existence up_prev snd]. split; [apply gen_membership_verifies; assumption | exact Logic.I].
    - apply Forall_forall. intros m Hm. apply in_map_iff in Hm. destruct Hm as (nl & <- & _). apply gen_membership_verifies; assumption.
    - apply Forall_forall. intros m Hm. apply in_map_iff in Hm. destruct Hm as (nl & <- & Hnl).
      destruct (all_some_in _ _ _ Ef nl Hnl) as (mv & Hmv & Hlab).
      (* the head of the data is the latest state *)
      assert (Hhead : exists r', all = d0 :: r').
      { unfold data in Ed. destruct params as [|n]; [exists rest; exact Ed|].
        destruct all as [|a0 r0]; [destruct (N.to_nat n); discriminate|]. destruct (N.to_nat n); [discriminate|]. cbn [firstn] in Ed. injection Ed as -> _. eauto. }
      destruct Hhead as [r' Hall].
      pose proof (user_history_head st l d0 r' I Hall) as Hlatest.
      assert (Hver : ver st l = vr_version d0) by (unfold ver; rewrite Hlatest; reflexivity).
      (* versions in the data are at most the epoch *)
      assert (Hdata : forall x, In x (d0 :: rest) -> vr_version x <= d_epoch st).
      { intros x Hx. assert (Hxa : In x all).
        { unfold data in Ed. destruct params as [|n]; [rewrite Ed; exact Hx|]. apply (in_firstn' x (N.to_nat n)). rewrite Ed. exact Hx. }
        destruct (user_history_spec (d_states st) l (d_epoch st)) as [U1 _]. apply U1 in Hxa. destruct Hxa as [Hin Hsel].
        unfold sel in Hsel. apply andb_true_iff in Hsel. destruct Hsel as [_ Hle]. apply N.leb_le in Hle.
        pose proof (Ivle x Hin). lia. }
      destruct (fold_max_bounds (d0 :: rest) (vr_version d0) (d_epoch st) (Hdata d0 (or_introl eq_refl)) Hdata) as [B1 B2]. fold end_v in B1, B2.
      apply orb_false_iff in Ez. destruct Ez as [_ Ez2]. apply N.eqb_neq in Ez2.
      destruct (get_marker_versions_future start_v end_v (d_epoch st) past future Ez2 B2 Em mv Hmv) as [Hgt _].
      destruct (vrf_good _ _ _ _ Hlab) as (Wn & Cn & Ln).
      apply (nonmembership_complete cfg Ce nl Wn Cn).
      + rewrite length_bits_of by exact Wn. rewrite Ln. reflexivity.
      + apply Itree.
      + apply (root_leaves_256 (d_epoch st)). exact Itree.
      + intros y Hy E0. destruct (Ilv y Hy) as (l' & f' & v' & Hv' & H1 & Hb'). rewrite E0 in Hv'.
        destruct (vrf_inj _ _ _ _ _ _ _ Hlab Hv') as (<- & <- & <-). cbn in Hb'. lia.
  Qed.
End Hist.
