(* Every future marker of (n, E) lies strictly above n (and at most at E): the labels whose absence
   an honest history proof shows are labels of versions that do not exist yet (C03). *)
From Coq Require Import List Bool Arith NArith Lia.
From Akd Require Import Marker MarkerFacts.
Import ListNotations.
Open Scope N_scope.

Definition inrange (n E x : N) : Prop := n < x /\ x <= E.

Lemma future_fold_all n E : forall len a fv acc,
  (forall k, a <= k -> N.testbit fv k = N.testbit n k) ->
  (forall x, In x acc -> inrange n E x) ->
  forall x, In x (snd (fold_left (future_step n E) (Nrange a len) (fv, acc))) -> inrange n E x.
Proof.
  induction len as [|len IH]; intros a fv acc Hfv Hacc x Hx; [cbn in Hx; apply Hacc; exact Hx|].
  unfold Nrange in Hx. cbn [seq map fold_left] in Hx. rewrite N.add_0_r in Hx.
  assert (Htail : map (fun k => a + N.of_nat k) (seq 1 len) = Nrange (a + 1) len).
  { unfold Nrange. rewrite <- seq_shift, map_map. apply map_ext. intros k. lia. }
  rewrite Htail in Hx. unfold future_step at 2 in Hx. rewrite shiftl1_pow, land_pow2_zero in Hx.
  destruct (N.testbit n a) eqn:Ea; cbn [negb] in Hx.
  - apply (IH (a + 1) fv acc); [intros k Hk; apply Hfv; lia | exact Hacc | exact Hx].
  - assert (Hfv' : N.ldiff (N.lor fv (2 ^ a)) (2 ^ a - 1) = roundup n a).
    { apply N.bits_inj. intros k. rewrite testbit_roundup, pow2_pred_ones, N.ldiff_spec, N.lor_spec, N.pow2_bits_eqb.
      destruct (N.ltb_spec k a) as [Hk|Hk].
      - rewrite N.ones_spec_low by lia. apply andb_false_r.
      - rewrite N.ones_spec_high by lia. rewrite andb_true_r.
        destruct (N.eqb_spec a k) as [->|Hn].
        + rewrite N.eqb_refl. apply orb_true_r.
        + destruct (N.eqb_spec k a); [lia|]. rewrite orb_false_r. apply Hfv. lia. }
    rewrite Hfv' in Hx.
    apply (IH (a + 1) (roundup n a) (if roundup n a <=? E then acc ++ [roundup n a] else acc)); [| |exact Hx].
    + intros k Hk. rewrite testbit_roundup. destruct (N.ltb_spec k a); [lia|]. destruct (N.eqb_spec k a); [lia|reflexivity].
    + intros y Hy. destruct (N.leb_spec (roundup n a) E) as [Hle|Hgt]; [|apply Hacc; exact Hy].
      apply in_app_or in Hy. destruct Hy as [Hy|[<-|[]]]; [apply Hacc; exact Hy|].
      split; [apply roundup_gt; exact Ea | exact Hle].
Qed.

Lemma pow_loop_all : forall is s0 acc x, In x (pow_loop is s0 acc) -> In x acc \/ exists i, In i is /\ x = 2 ^ i.
Proof.
  induction is as [|i is IH]; intros s0 acc x Hx; cbn [pow_loop] in Hx; [left; exact Hx|].
  destruct (match s0 with Some y => y <=? N.shiftl 1 i | None => false end); [left; exact Hx|].
  destruct (IH s0 (acc ++ [N.shiftl 1 i]) x Hx) as [H|(j & Hj & ->)].
  - apply in_app_or in H. destruct H as [H|[<-|[]]]; [left; exact H|]. right. exists i. split; [left; reflexivity | apply shiftl1_pow].
  - right. exists j. split; [right; exact Hj | reflexivity].
Qed.

Theorem future_markers_above n E ni ei :
  n <> 0 -> n <= E -> ni = Nat.pred (count_le SKIP n) -> ei = Nat.pred (count_le SKIP E) ->
  forall x, In x (future_markers n E ni ei) -> inrange n E x.
Proof.
  intros Hn HnE -> -> x Hx. unfold future_markers in Hx.
  destruct (find_max_index_pos n Hn) as [_ Cn]. destruct (find_max_index_pos E ltac:(lia)) as [_ CE].
  assert (Hslice : forall y, In y (firstn (S (Nat.pred (count_le SKIP E)) - S (Nat.pred (count_le SKIP n))) (skipn (S (Nat.pred (count_le SKIP n))) SKIP)) -> inrange n E y).
  { intros y Hy. replace (S (Nat.pred (count_le SKIP E))) with (count_le SKIP E) in Hy by lia.
    replace (S (Nat.pred (count_le SKIP n))) with (count_le SKIP n) in Hy by lia.
    apply (slice_spec SKIP n E SKIP_sorted HnE y) in Hy. exact (proj2 Hy). }
  apply in_app_or in Hx. destruct Hx as [Hx|Hx]; [|apply Hslice; exact Hx].
  apply pow_loop_all in Hx. destruct Hx as [Hx|(i & Hi & ->)].
  - apply (future_fold_all n E (bitlen n) 0 n []); [reflexivity | intros y [] | exact Hx].
  - apply in_Nrange in Hi. unfold marker_log2 in Hi. split.
    + destruct (N.log2_spec n ltac:(lia)) as [_ Hlt]. apply N.lt_le_trans with (2 ^ N.succ (N.log2 n)); [exact Hlt|].
      apply N.pow_le_mono_r; lia.
    + destruct (N.log2_spec E ltac:(lia)) as [Hle _]. apply N.le_trans with (2 ^ N.log2 E); [|exact Hle].
      apply N.pow_le_mono_r; lia.
Qed.

Theorem get_marker_versions_future s n E past future :
  n <> 0 -> n <= E -> get_marker_versions s n E = Some (past, future) ->
  forall x, In x future -> n < x /\ x <= E.
Proof.
  intros Hn HnE H. unfold get_marker_versions in H.
  destruct (find_max_index s) as [si|]; [|discriminate].
  destruct (find_max_index_pos n Hn) as [En _]. destruct (find_max_index_pos E ltac:(lia)) as [EE _]. rewrite En, EE in H.
  destruct (_ <? _)%nat; [discriminate|]. injection H as _ <-.
  apply future_markers_above; try assumption; reflexivity.
Qed.

(* ------------------------------------------------------------------ past markers lie in [1, start] *)
Lemma in_push_dedup_inv l v x : In x (push_dedup l v) -> In x l \/ x = v.
Proof.
  unfold push_dedup. destruct (last_opt l) as [y|]; [destruct (y =? v)|]; intros H; auto;
    apply in_app_or in H; destruct H as [H|[<-|[]]]; auto.
Qed.

Lemma past_step_bound s acc i x : In x (past_step s acc i) -> In x acc \/ (x <> 0 /\ x <= s).
Proof.
  unfold past_step. destruct (negb (N.land s (N.shiftl 1 i) =? 0)); [|auto].
  rewrite shiftl1_pow, pow2_pred_ones, ones_lor_pow, N.ldiff_ones_r. fold (cut s (i + 1)).
  destruct (N.eqb_spec (cut s (i + 1)) 0) as [|Hnz]; cbn [negb]; [auto|].
  intros H. apply in_push_dedup_inv in H. destruct H as [H| ->]; [auto|]. right. split; [exact Hnz | apply cut_le].
Qed.

Lemma past_fold_bound s : forall l acc x, In x (fold_left (past_step s) l acc) -> In x acc \/ (x <> 0 /\ x <= s).
Proof.
  induction l as [|i l IH]; intros acc x H; cbn [fold_left] in H; [auto|].
  destruct (IH _ _ H) as [H1|H1]; [|auto]. apply past_step_bound in H1. exact H1.
Qed.

Lemma nth_firstn_lt {A} (l : list A) n i d : (i < n)%nat -> nth i (firstn n l) d = nth i l d.
Proof. revert l i; induction n as [|n IH]; intros l i H; [lia|]. destruct l as [|x l]; [destruct i; reflexivity|]. destruct i; [reflexivity|]. cbn [firstn nth]. apply IH. lia. Qed.

Lemma SKIP_pos : forall y, In y SKIP -> 1 <= y.
Proof. assert (H : forallb (fun y => 1 <=? y) SKIP = true) by (vm_compute; reflexivity). intros y Hy. rewrite forallb_forall in H. apply N.leb_le. apply H. exact Hy. Qed.

Theorem past_markers_bound s si : s <> 0 -> find_max_index s = Some si ->
  forall m, In m (past_markers s si) -> 1 <= m /\ m <= s.
Proof.
  intros Hs Hf m Hm. destruct (find_max_index_pos s Hs) as [Ef Cn]. rewrite Ef in Hf. injection Hf as <-.
  assert (Hsk : 1 <= nthN SKIP (Nat.pred (count_le SKIP s)) /\ nthN SKIP (Nat.pred (count_le SKIP s)) <= s).
  { assert (Hlen : (count_le SKIP s <= length SKIP)%nat).
    { clear. induction SKIP as [|z l IH]; cbn [count_le length]; [lia|]. destruct (s <? z); lia. }
    assert (Hin : In (nthN SKIP (Nat.pred (count_le SKIP s))) (firstn (count_le SKIP s) SKIP)).
    { unfold nthN. rewrite <- (nth_firstn_lt SKIP (count_le SKIP s)) by lia. apply nth_In. rewrite firstn_length. lia. }
    split; [apply SKIP_pos; apply in_firstn' in Hin; exact Hin|].
    apply (count_le_spec SKIP s SKIP_sorted _ (in_firstn' _ _ _ Hin)). exact Hin. }
  assert (Hpw : 1 <= N.shiftl 1 (marker_log2 s) /\ N.shiftl 1 (marker_log2 s) <= s).
  { rewrite shiftl1_pow. unfold marker_log2. destruct (N.log2_spec s ltac:(lia)) as [H1 _]. split; [|exact H1].
    assert (2 ^ N.log2 s <> 0) by (apply N.pow_nonzero; lia). lia. }
  unfold past_markers in Hm. apply past_fold_bound in Hm. destruct Hm as [Hm|[H1 H2]]; [|lia].
  destruct (negb (N.shiftl 1 (marker_log2 s) =? s)).
  - apply in_push_dedup_inv in Hm. destruct Hm as [Hm| ->]; [|exact Hpw]. 
    match type of Hm with In _ (if ?c then _ else _) => destruct c end; cbn [In] in Hm; [contradiction | destruct Hm as [<-|Hm]; [exact Hsk | contradiction]].
  - match type of Hm with In _ (if ?c then _ else _) => destruct c end; cbn [In] in Hm; [contradiction | destruct Hm as [<-|Hm]; [exact Hsk | contradiction]].
Qed.

Theorem get_marker_versions_past s n E past future : s <> 0 ->
  get_marker_versions s n E = Some (past, future) -> forall m, In m past -> 1 <= m /\ m <= s.
Proof.
  intros Hs H. unfold get_marker_versions in H.
  destruct (find_max_index s) as [si|] eqn:Fs; [|discriminate].
  destruct (find_max_index n) as [ni|]; [|discriminate]. destruct (find_max_index E) as [ei|]; [|discriminate].
  destruct (ei <? ni)%nat; [discriminate|]. injection H as <- _. apply past_markers_bound; assumption.
Qed.
