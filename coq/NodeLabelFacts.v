(* Agreement of the byte-level label operations with their bit-string meaning (C17). *)
From Coq Require Import List Bool Arith NArith ZArith Lia ZifyBool ZifyNat ZifyN.
From Akd Require Import Bits NodeLabel.
Import ListNotations.
Open Scope N_scope.
Ltac Zify.zify_post_hook ::= Z.div_mod_to_equations.

Arguments N.add : simpl never.
Arguments N.sub : simpl never.
Arguments N.mul : simpl never.
Arguments N.div : simpl never.
Arguments N.modulo : simpl never.
Arguments N.shiftl : simpl never.
Arguments N.shiftr : simpl never.
Arguments N.land : simpl never.
Arguments N.testbit : simpl never.
Arguments N.of_nat : simpl never.
Arguments N.to_nat : simpl never.

(* ---------- generic list helpers ---------- *)

Lemma nth_flat_map_const {A B} (f : A -> list B) (k : nat) (d : B) (da : A) :
  (0 < k)%nat -> (forall x, length (f x) = k) ->
  forall (l : list A) (i : nat), (i < k * length l)%nat ->
  nth i (flat_map f l) d = nth (i mod k) (f (nth (i / k) l da)) d.
Proof.
  intros Hk Hf l. induction l as [|x l IH]; intros i Hi.
  - simpl in Hi. lia.
  - simpl. destruct (Nat.ltb_spec i k) as [Hlt|Hge].
    + rewrite app_nth1 by (rewrite Hf; exact Hlt).
      rewrite Nat.mod_small, Nat.div_small by exact Hlt. reflexivity.
    + rewrite app_nth2 by (rewrite Hf; exact Hge). rewrite Hf.
      rewrite IH by (simpl in Hi; lia).
      replace i with ((i - k) + 1 * k)%nat at 3 4 by lia.
      rewrite Nat.mod_add, Nat.div_add by lia.
      replace ((i - k) / k + 1)%nat with (S ((i - k) / k)) by lia. reflexivity.
Qed.

Lemma length_flat_map_const {A B} (f : A -> list B) (k : nat) :
  (forall x, length (f x) = k) -> forall l, length (flat_map f l) = (k * length l)%nat.
Proof.
  intros Hf l. induction l as [|x l IH]; simpl; [lia|]. rewrite app_length, Hf, IH. lia.
Qed.

Lemma nth_firstn {A} (l : list A) n i d : (i < n)%nat -> nth i (firstn n l) d = nth i l d.
Proof.
  revert n i; induction l as [|x l IH]; intros [|n] [|i] H; simpl; auto; try lia.
  apply IH. lia.
Qed.

Lemma nth_skipn' {A} (l : list A) n i d : nth i (skipn n l) d = nth (n + i) l d.
Proof.
  revert l; induction n as [|n IH]; intros l; simpl; auto.
  destruct l as [|x l]; [destruct i; reflexivity|]. apply IH.
Qed.

Lemma app_eq_len {A} (x y r1 r2 : list A) :
  length x = length y -> x ++ r1 = y ++ r2 -> x = y /\ r1 = r2.
Proof.
  revert y; induction x as [|a x IH]; intros [|b y] Hl H; simpl in *; try lia; auto.
  inversion H; subst. destruct (IH y ltac:(lia) H2) as [-> ->]. auto.
Qed.

Lemma list_eq_nth {A} (d : A) (l1 l2 : list A) :
  length l1 = length l2 -> (forall i, (i < length l1)%nat -> nth i l1 d = nth i l2 d) -> l1 = l2.
Proof.
  revert l2; induction l1 as [|x l1 IH]; intros [|y l2] Hl H; simpl in *; try lia; auto.
  f_equal; [apply (H 0%nat); lia|]. apply IH; [lia|]. intros i Hi. apply (H (S i)). lia.
Qed.

Lemma forallb_nth {A} (p : A -> bool) (l : list A) d :
  forallb p l = true <-> forall i, (i < length l)%nat -> p (nth i l d) = true.
Proof.
  rewrite forallb_forall. split.
  - intros H i Hi. apply H. now apply nth_In.
  - intros H x Hx. destruct (In_nth _ _ d Hx) as (i & Hi & Hn). rewrite <- Hn. now apply H.
Qed.

(* ---------- bytes and bits ---------- *)

Lemma length_byte_bits b : length (byte_bits b) = 8%nat.
Proof. reflexivity. Qed.

Lemma length_val_bits v : length (val_bits v) = (8 * length v)%nat.
Proof. apply length_flat_map_const. exact length_byte_bits. Qed.

Lemma nth_byte_bits b r : (r < 8)%nat -> nth r (byte_bits b) false = N.testbit b (7 - N.of_nat r).
Proof.
  intros Hr. unfold byte_bits.
  do 8 (destruct r as [|r]; [reflexivity|]). lia.
Qed.

Lemma nth_val_bits v i :
  (i < 8 * length v)%nat ->
  nth i (val_bits v) false = N.testbit (byte_at v (i / 8)) (7 - N.of_nat (i mod 8)).
Proof.
  intros Hi. unfold val_bits, byte_at.
  rewrite (nth_flat_map_const byte_bits 8 false 0) by (auto using length_byte_bits; lia).
  apply nth_byte_bits. apply Nat.mod_upper_bound. lia.
Qed.

Lemma land1_testbit x : negb (N.land x 1 =? 0) = N.testbit x 0.
Proof.
  change 1 with (N.ones 1). rewrite N.land_ones. change (2 ^ 1) with 2.
  pose proof (N.bit0_mod x) as H. destruct (N.testbit x 0); simpl in H; rewrite <- H; reflexivity.
Qed.

Lemma gbfs_spec v index :
  index < 8 * N.of_nat (length v) ->
  get_bit_from_slice v index = Some (nth (N.to_nat index) (val_bits v) false).
Proof.
  intros Hi. unfold get_bit_from_slice.
  destruct (N.leb_spec (N.of_nat (length v) * 8) index) as [H|H]; [lia|].
  f_equal. rewrite land1_testbit, N.shiftr_spec', N.add_0_l.
  rewrite nth_val_bits by lia. f_equal.
  - f_equal. rewrite <- (N2Nat.id 8) at 1. change (N.to_nat 8) with 8%nat.
    change 8%nat with (N.to_nat 8). rewrite <- N2Nat.inj_div. reflexivity.
  - f_equal. change 8%nat with (N.to_nat 8). rewrite <- N2Nat.inj_mod by lia.
    now rewrite N2Nat.id.
Qed.

Definition WF (a : nlabel) : Prop := wf_label a = true.

Lemma WF_parts a : WF a -> length (lval a) = 32%nat /\ llen a <= 256 /\
  (forall i, byte_at (lval a) i < 256).
Proof.
  unfold WF, wf_label, wf_val. rewrite !andb_true_iff. intros [[H1 H2] H3].
  apply Nat.eqb_eq in H1. split; [exact H1|]. split; [lia|].
  intros i. unfold byte_at. destruct (Nat.ltb_spec i (length (lval a))) as [Hi|Hi].
  - rewrite (forallb_nth _ _ 0) in H2. specialize (H2 i Hi). lia.
  - rewrite nth_overflow by exact Hi. lia.
Qed.

Lemma length_bits_of a : WF a -> length (bits_of a) = N.to_nat (llen a).
Proof.
  intros H. destruct (WF_parts a H) as (H1 & H2 & _). unfold bits_of.
  rewrite firstn_length, length_val_bits, H1. lia.
Qed.

Lemma get_bit_at_spec a i :
  WF a -> i < llen a -> get_bit_at a i = Some (nth (N.to_nat i) (bits_of a) false).
Proof.
  intros H Hi. destruct (WF_parts a H) as (H1 & H2 & _). unfold get_bit_at.
  destruct (N.leb_spec (llen a) i); [lia|]. rewrite gbfs_spec by lia.
  unfold bits_of. rewrite nth_firstn by lia. reflexivity.
Qed.

Lemma get_bit_at_val a i :
  WF a -> i < llen a -> get_bit_at a i = Some (nth (N.to_nat i) (val_bits (lval a)) false).
Proof.
  intros H Hi. rewrite get_bit_at_spec by assumption. unfold bits_of.
  rewrite nth_firstn by lia. reflexivity.
Qed.

(* ---------- is_prefix_of ---------- *)

Lemma forallb_Nseq p n :
  forallb p (Nseq n) = true <-> forall i, i < n -> p i = true.
Proof.
  unfold Nseq. rewrite forallb_forall. split.
  - intros H i Hi. apply H. apply in_map_iff. exists (N.to_nat i). split; [apply N2Nat.id|].
    apply in_seq. lia.
  - intros H x Hx. apply in_map_iff in Hx. destruct Hx as (k & <- & Hk). apply in_seq in Hk.
    apply H. lia.
Qed.

Theorem is_prefix_of_spec a b :
  WF a -> WF b -> is_prefix_of a b = prefixb (bits_of a) (bits_of b).
Proof.
  intros Ha Hb. unfold is_prefix_of.
  destruct (N.ltb_spec (llen b) (llen a)) as [Hl|Hl].
  - symmetry. apply not_true_is_false. intros H. apply prefixb_length in H.
    rewrite !length_bits_of in H by assumption. lia.
  - apply eq_true_iff_eq. rewrite forallb_Nseq, prefixb_nth, !length_bits_of by assumption.
    split.
    + intros H. split; [lia|]. intros i Hi.
      specialize (H (N.of_nat i) ltac:(lia)).
      rewrite !get_bit_at_spec in H by (assumption || lia). simpl in H.
      rewrite Nat2N.id in H. now apply eqb_prop.
    + intros [_ H] i Hi. rewrite !get_bit_at_spec by (assumption || lia). simpl.
      rewrite (H (N.to_nat i)) by lia. apply eqb_reflx.
Qed.

(* ---------- get_prefix ---------- *)

Lemma byte_at_app_mid (pre : list N) x post k : k = length pre -> byte_at (pre ++ [x] ++ post) k = x.
Proof. intros ->. unfold byte_at. rewrite app_nth2 by lia. now rewrite Nat.sub_diag. Qed.

Lemma testbit_mask b k i :
  N.testbit (N.shiftl (N.shiftr b k) k) i = if i <? k then false else N.testbit b i.
Proof.
  destruct (N.ltb_spec i k) as [H|H].
  - apply N.shiftl_spec_low. exact H.
  - rewrite N.shiftl_spec_high' by exact H. rewrite N.shiftr_spec'. f_equal. lia.
Qed.

Lemma mask_lt b k : b < 256 -> N.shiftl (N.shiftr b k) k < 256.
Proof.
  intros H. rewrite N.shiftl_mul_pow2, N.shiftr_div_pow2.
  assert (2 ^ k <> 0) by (apply N.pow_nonzero; lia).
  pose proof (N.mul_div_le b (2 ^ k) H0). lia.
Qed.

Lemma nth_zeros n i : nth i (zeros n) 0 = 0.
Proof. unfold zeros. destruct (Nat.ltb_spec i n); [apply nth_repeat|]. apply nth_overflow. now rewrite repeat_length. Qed.

Lemma byte_at_firstn v d i : (i < d)%nat -> byte_at (firstn d v) i = byte_at v i.
Proof. intros. unfold byte_at. now apply nth_firstn. Qed.

(* value bits of a proper (0 < len < 256) prefix *)
Lemma get_prefix_bits_nth a len i :
  WF a -> 0 < len -> len < 256 -> (i < 256)%nat ->
  nth i (val_bits (lval (get_prefix a len))) false =
  if (i <? N.to_nat len)%nat then nth i (val_bits (lval a)) false else false.
Proof.
  intros Ha H0 H256 Hi. destruct (WF_parts a Ha) as (H1 & H2 & H3).
  unfold get_prefix. destruct (N.leb_spec 256 len); [lia|].
  destruct (N.eqb_spec len 0); [lia|]. cbn [lval].
  set (ulen := len - 1). set (d := N.to_nat (ulen / 8)). set (r := ulen mod 8).
  assert (Hd : (d < 32)%nat) by (subst d ulen; lia).
  assert (Hlen : length (firstn d (lval a) ++ [N.shiftl (N.shiftr (byte_at (lval a) d) (7 - r)) (7 - r)] ++ zeros (32 - d - 1)) = 32%nat).
  { rewrite !app_length, firstn_length, H1. unfold zeros. rewrite repeat_length. cbn [length]. lia. }
  rewrite nth_val_bits by (rewrite Hlen; lia).
  assert (Hfl : length (firstn d (lval a)) = d) by (rewrite firstn_length, H1; lia).
  destruct (lt_eq_lt_dec (i / 8) d) as [[Hlt|Heq]|Hgt].
  - (* untouched byte *)
    unfold byte_at at 1. rewrite app_nth1 by lia. fold (byte_at (firstn d (lval a)) (i / 8)%nat).
    rewrite byte_at_firstn by exact Hlt.
    destruct (Nat.ltb_spec i (N.to_nat len)) as [Hc|Hc].
    + rewrite nth_val_bits by lia. reflexivity.
    + exfalso. subst d ulen. lia.
  - (* the masked byte *)
    rewrite byte_at_app_mid by lia. rewrite testbit_mask.
    destruct (Nat.ltb_spec i (N.to_nat len)) as [Hc|Hc].
    + destruct (N.ltb_spec (7 - N.of_nat (i mod 8)) (7 - r)) as [Hm|Hm].
      * exfalso. subst r d ulen. lia.
      * rewrite nth_val_bits by lia. rewrite Heq. reflexivity.
    + destruct (N.ltb_spec (7 - N.of_nat (i mod 8)) (7 - r)) as [Hm|Hm]; [reflexivity|].
      exfalso. subst r d ulen. lia.
  - (* zero byte *)
    unfold byte_at. rewrite app_nth2 by lia. rewrite app_nth2 by (cbn [length]; lia).
    rewrite nth_zeros. rewrite N.bits_0.
    destruct (Nat.ltb_spec i (N.to_nat len)) as [Hc|Hc]; [|reflexivity].
    exfalso. subst d ulen. lia.
Qed.

Lemma get_prefix_len_val a len :
  WF a -> len < 256 -> length (lval (get_prefix a len)) = 32%nat /\ llen (get_prefix a len) = len.
Proof.
  intros Ha H256. destruct (WF_parts a Ha) as (H1 & H2 & H3). unfold get_prefix.
  destruct (N.leb_spec 256 len); [lia|]. destruct (N.eqb_spec len 0) as [->|Hn]; cbn [lval llen].
  - split; reflexivity.
  - split; [|reflexivity]. rewrite !app_length, firstn_length, H1. unfold zeros.
    rewrite repeat_length. cbn [length]. lia.
Qed.

Lemma get_prefix_WF a len : WF a -> len <= 256 -> (256 <= len -> True) -> WF (get_prefix a (N.min len 255)) .
Proof.
  intros Ha Hl _. destruct (WF_parts a Ha) as (H1 & H2 & H3).
  assert (Hlt : N.min len 255 < 256) by lia.
  destruct (get_prefix_len_val a _ Ha Hlt) as [L1 L2].
  unfold WF, wf_label, wf_val. rewrite L1, L2. simpl.
  apply andb_true_iff. split; [|lia]. apply forallb_forall. intros x Hx.
  unfold get_prefix in Hx. destruct (N.leb_spec 256 (N.min len 255)); [lia|].
  destruct (N.eqb_spec (N.min len 255) 0); cbn [lval] in Hx.
  - apply repeat_spec in Hx. subst. reflexivity.
  - apply in_app_or in Hx. destruct Hx as [Hx|Hx].
    + apply (In_nth _ _ 0) in Hx. destruct Hx as (i & Hi & <-).
      rewrite nth_firstn by (rewrite firstn_length in Hi; lia). specialize (H3 i). unfold byte_at in H3. lia.
    + apply in_app_or in Hx. destruct Hx as [[<-|[]]|Hx].
      * pose proof (mask_lt (byte_at (lval a) (N.to_nat ((N.min len 255 - 1) / 8))) (7 - (N.min len 255 - 1) mod 8) (H3 _)). lia.
      * apply repeat_spec in Hx. subst. reflexivity.
Qed.

Lemma get_prefix_wf a len : WF a -> len < 256 -> WF (get_prefix a len).
Proof.
  intros Ha Hl. pose proof (get_prefix_WF a len Ha ltac:(lia) (fun _ => I)) as H.
  replace (N.min len 255) with len in H by lia. exact H.
Qed.

Lemma val_bits_zeros_nth n i : nth i (val_bits (zeros n)) false = false.
Proof.
  destruct (Nat.ltb_spec i (8 * length (zeros n))) as [H|H].
  - rewrite nth_val_bits by exact H. unfold byte_at. rewrite nth_zeros. apply N.bits_0.
  - apply nth_overflow. rewrite length_val_bits. exact H.
Qed.

(* C17: prefix extraction *)
Theorem get_prefix_spec a len :
  WF a -> len <= llen a -> len < 256 ->
  bits_of (get_prefix a len) = firstn (N.to_nat len) (bits_of a) /\
  canonical (get_prefix a len) = true /\ llen (get_prefix a len) = len.
Proof.
  intros Ha Hl H256. destruct (WF_parts a Ha) as (H1 & H2 & H3).
  destruct (get_prefix_len_val a len Ha H256) as [L1 L2].
  assert (Hnth : forall i, (i < 256)%nat ->
     nth i (val_bits (lval (get_prefix a len))) false =
     if (i <? N.to_nat len)%nat then nth i (val_bits (lval a)) false else false).
  { intros i Hi. destruct (N.eqb_spec len 0) as [->|Hn].
    - change (get_prefix a 0) with (NL (zeros 32) 0). cbn [lval].
      rewrite val_bits_zeros_nth. destruct (Nat.ltb_spec i (N.to_nat 0)); [lia|reflexivity].
    - apply get_prefix_bits_nth; (assumption || lia). }
  split; [|split; [|exact L2]].
  - unfold bits_of. rewrite L2. rewrite firstn_firstn. replace (Nat.min (N.to_nat len) (N.to_nat (llen a))) with (N.to_nat len) by lia.
    apply (list_eq_nth false).
    + rewrite !firstn_length, !length_val_bits, L1, H1. reflexivity.
    + intros i Hi. rewrite firstn_length, length_val_bits, L1 in Hi.
      rewrite !nth_firstn by lia. rewrite Hnth by lia.
      destruct (Nat.ltb_spec i (N.to_nat len)); [reflexivity|lia].
  - unfold canonical. rewrite L2. apply (forallb_nth _ _ false). intros i Hi.
    rewrite skipn_length, length_val_bits, L1 in Hi.
    rewrite nth_skipn'. rewrite Hnth by lia.
    destruct (Nat.ltb_spec (N.to_nat len + i) (N.to_nat len)); [lia|reflexivity].
Qed.

Theorem get_prefix_full a len : 256 <= len -> get_prefix a len = a.
Proof. intros H. unfold get_prefix. destruct (N.leb_spec 256 len); [reflexivity|lia]. Qed.

(* ---------- get_longest_common_prefix ---------- *)

Lemma lcp_loop_spec fuel a b sh p :
  WF a -> WF b -> sh <= llen a -> sh <= llen b -> p <= sh ->
  (N.to_nat (sh - p) < fuel)%nat ->
  let q := lcp_loop fuel a b sh p in
  p <= q /\ q <= sh /\
  (forall i, (N.to_nat p <= i < N.to_nat q)%nat -> nth i (bits_of a) false = nth i (bits_of b) false) /\
  (q = sh \/ nth (N.to_nat q) (bits_of a) false <> nth (N.to_nat q) (bits_of b) false).
Proof.
  intros Ha Hb Hsa Hsb. revert p. induction fuel as [|f IH]; intros p Hp Hf; [lia|].
  cbn [lcp_loop]. destruct (N.ltb_spec p sh) as [Hlt|Hge]; cbn [andb].
  - rewrite !get_bit_at_spec by (assumption || lia). cbn [optb_eqb].
    destruct (Bool.eqb _ _) eqn:E.
    + apply eqb_prop in E. specialize (IH (p + 1) ltac:(lia) ltac:(lia)).
      cbv zeta in IH. destruct IH as (I1 & I2 & I3 & I4).
      split; [lia|]. split; [exact I2|]. split; [|exact I4].
      intros i Hi. destruct (Nat.eq_dec i (N.to_nat p)) as [->|Hne]; [exact E|].
      apply I3. lia.
    + split; [lia|]. split; [lia|]. split; [intros i Hi; lia|].
      right. intros Heq. rewrite Heq, eqb_reflx in E. discriminate.
  - split; [lia|]. split; [lia|]. split; [intros i Hi; lia|]. left. lia.
Qed.

(* C17: longest common prefix.  The configuration's empty label is a special case in the
   code and therefore in the statement. *)
Theorem get_longest_common_prefix_spec empty a b :
  WF a -> WF b ->
  (nl_eqb a empty || nl_eqb b empty = true -> get_longest_common_prefix empty a b = empty) /\
  (nl_eqb a empty || nl_eqb b empty = false ->
     bits_of (get_longest_common_prefix empty a b) = lcp (bits_of a) (bits_of b) /\
     N.to_nat (llen (get_longest_common_prefix empty a b)) = length (lcp (bits_of a) (bits_of b))).
Proof.
  intros Ha Hb. unfold get_longest_common_prefix. split; intros E; rewrite E; [reflexivity|].
  destruct (WF_parts a Ha) as (A1 & A2 & A3). destruct (WF_parts b Hb) as (B1 & B2 & B3).
  set (sh := if llen a <? llen b then llen a else llen b).
  assert (Hsa : sh <= llen a) by (subst sh; destruct (N.ltb_spec (llen a) (llen b)); lia).
  assert (Hsb : sh <= llen b) by (subst sh; destruct (N.ltb_spec (llen a) (llen b)); lia).
  assert (Hsm : sh = llen a \/ sh = llen b) by (subst sh; destruct (N.ltb_spec (llen a) (llen b)); lia).
  pose proof (lcp_loop_spec 257 a b sh 0 Ha Hb Hsa Hsb ltac:(lia) ltac:(lia)) as H.
  cbv zeta in H. set (q := lcp_loop 257 a b sh 0) in *. destruct H as (_ & Q2 & Q3 & Q4).
  assert (Hl : lcp (bits_of a) (bits_of b) = firstn (N.to_nat q) (bits_of a)).
  { apply lcp_firstn.
    - rewrite length_bits_of by assumption. lia.
    - rewrite length_bits_of by assumption. lia.
    - intros i Hi. apply Q3. lia.
    - rewrite !length_bits_of by assumption. destruct Q4 as [->|Q4]; [|tauto].
      destruct Hsm as [->| ->]; tauto. }
  rewrite Hl. destruct (N.ltb_spec q 256) as [Hq|Hq].
  - destruct (get_prefix_spec a q Ha ltac:(lia) Hq) as (P1 & _ & P3). rewrite P1, P3.
    split; [reflexivity|]. rewrite firstn_length, length_bits_of by assumption. lia.
  - rewrite get_prefix_full by exact Hq. assert (q = 256 /\ llen a = 256) as [-> Hla] by lia.
    rewrite firstn_all2 by (rewrite length_bits_of by assumption; lia).
    split; [reflexivity|]. rewrite length_bits_of by assumption. reflexivity.
Qed.

(* ---------- equality of labels ---------- *)

Lemma bytes_eqb_eq v w : bytes_eqb v w = true <-> v = w.
Proof.
  revert w; induction v as [|x v IH]; intros [|y w]; simpl; split; try congruence; auto.
  - rewrite andb_true_iff. intros [H1 H2]. apply N.eqb_eq in H1. apply IH in H2. congruence.
  - intros H; inversion H; subst. rewrite N.eqb_refl. simpl. apply IH. reflexivity.
Qed.

Lemma nl_eqb_eq a b : nl_eqb a b = true <-> a = b.
Proof.
  unfold nl_eqb. rewrite andb_true_iff, bytes_eqb_eq, N.eqb_eq. destruct a, b; simpl.
  split; [intros [-> ->]; reflexivity|intros H; inversion H; auto].
Qed.

Lemma byte_high_bits b n : b < 256 -> 8 <= n -> N.testbit b n = false.
Proof.
  intros Hb Hn. destruct (N.eq_dec b 0) as [->|Hz]; [apply N.bits_0|].
  apply N.bits_above_log2. assert (N.log2 b < 8); [|lia].
  apply N.log2_lt_pow2; [lia|]. exact Hb.
Qed.

Lemma byte_bits_inj b c : b < 256 -> c < 256 -> byte_bits b = byte_bits c -> b = c.
Proof.
  intros Hb Hc H. apply N.bits_inj. intros n.
  destruct (N.ltb_spec n 8) as [Hn|Hn].
  - pose proof (f_equal (fun l => nth (N.to_nat (7 - n)) l false) H) as Hn'. cbv beta in Hn'.
    rewrite !nth_byte_bits in Hn' by lia. replace (7 - N.of_nat (N.to_nat (7 - n))) with n in Hn' by lia.
    exact Hn'.
  - rewrite !byte_high_bits by (assumption || lia). reflexivity.
Qed.

Lemma val_bits_inj v w :
  length v = length w -> (forall i, byte_at v i < 256) -> (forall i, byte_at w i < 256) ->
  val_bits v = val_bits w -> v = w.
Proof.
  revert w; induction v as [|x v IH]; intros [|y w] Hl Hv Hw H; simpl in Hl; try lia; auto.
  unfold val_bits in H. cbn [flat_map] in H.
  apply app_eq_len in H; [|reflexivity]. destruct H as [E1 H].
  f_equal.
  - apply byte_bits_inj; [apply (Hv 0%nat)|apply (Hw 0%nat)|exact E1].
  - apply IH; [lia| | |exact H].
    + intros i. apply (Hv (S i)).
    + intros i. apply (Hw (S i)).
Qed.

Lemma get_prefix_eq_iff a b len :
  WF a -> WF b -> len <= llen a -> len <= llen b -> len < 256 ->
  (get_prefix a len = get_prefix b len <->
   firstn (N.to_nat len) (bits_of a) = firstn (N.to_nat len) (bits_of b)).
Proof.
  intros Ha Hb Hla Hlb H256.
  destruct (get_prefix_spec a len Ha Hla H256) as (PA1 & PA2 & PA3).
  destruct (get_prefix_spec b len Hb Hlb H256) as (PB1 & PB2 & PB3).
  split; [intros E; rewrite <- PA1, <- PB1, E; reflexivity|]. intros E.
  pose proof (get_prefix_wf a len Ha H256) as Wa. pose proof (get_prefix_wf b len Hb H256) as Wb.
  destruct (WF_parts _ Wa) as (A1 & A2 & A3). destruct (WF_parts _ Wb) as (B1 & B2 & B3).
  destruct (get_prefix a len) as [va la] eqn:Ea. destruct (get_prefix b len) as [vb lb] eqn:Eb.
  cbn [lval llen] in *. subst la lb. f_equal.
  apply val_bits_inj; [lia|assumption|assumption|].
  rewrite <- (firstn_skipn (N.to_nat len) (val_bits va)), <- (firstn_skipn (N.to_nat len) (val_bits vb)).
  f_equal.
  - unfold bits_of in PA1, PB1. cbn [lval llen] in PA1, PB1. rewrite PA1, PB1. exact E.
  - unfold canonical in PA2, PB2. cbn [lval llen] in PA2, PB2.
    apply (list_eq_nth false).
    + rewrite !skipn_length, !length_val_bits. lia.
    + intros i Hi. rewrite (forallb_nth _ _ false) in PA2. rewrite (forallb_nth _ _ false) in PB2.
      specialize (PA2 i Hi). rewrite skipn_length, length_val_bits, A1 in Hi.
      specialize (PB2 i ltac:(rewrite skipn_length, length_val_bits, B1; lia)).
      destruct (nth i (skipn _ (val_bits va)) false), (nth i (skipn _ (val_bits vb)) false); simpl in *; congruence.
Qed.

(* ---------- get_prefix_ordering ---------- *)

Lemma firstn_eq_prefixb (x y : bits) :
  (length x <= length y)%nat -> (firstn (length x) y = x <-> prefixb x y = true).
Proof.
  intros Hl. rewrite prefixb_Prefix. split.
  - intros H. exists (skipn (length x) y). rewrite <- H at 1. symmetry. apply firstn_skipn.
  - intros [c ->]. rewrite firstn_app, Nat.sub_diag, firstn_all. simpl. apply app_nil_r.
Qed.

(* C17: child direction *)
Theorem get_prefix_ordering_spec a b :
  WF a -> WF b -> get_prefix_ordering a b = pord (bits_of a) (bits_of b).
Proof.
  intros Ha Hb. destruct (WF_parts a Ha) as (A1 & A2 & A3). destruct (WF_parts b Hb) as (B1 & B2 & B3).
  unfold get_prefix_ordering, pord. rewrite !length_bits_of by assumption.
  destruct (N.leb_spec (llen b) (llen a)) as [Hl|Hl];
    destruct (Nat.leb_spec (N.to_nat (llen b)) (N.to_nat (llen a))) as [Hl'|Hl']; try lia; [reflexivity|].
  assert (H256 : llen a < 256) by lia.
  destruct (nl_eqb (get_prefix b (llen a)) (get_prefix a (llen a))) eqn:E; cbn [negb].
  - apply nl_eqb_eq in E. apply get_prefix_eq_iff in E; try (assumption || lia).
    rewrite (firstn_all2 (bits_of a)) in E by (rewrite length_bits_of by assumption; lia).
    rewrite <- (length_bits_of a Ha) in E. apply firstn_eq_prefixb in E; [|rewrite !length_bits_of by assumption; lia].
    rewrite E. apply get_bit_at_spec; assumption.
  - destruct (prefixb (bits_of a) (bits_of b)) eqn:P; [|reflexivity]. exfalso.
    apply firstn_eq_prefixb in P; [|rewrite !length_bits_of by assumption; lia].
    rewrite length_bits_of in P by assumption.
    assert (E' : get_prefix b (llen a) = get_prefix a (llen a)).
    { apply get_prefix_eq_iff; try (assumption || lia). rewrite P. symmetry. apply firstn_all2.
      rewrite length_bits_of by assumption. lia. }
    apply nl_eqb_eq in E'. congruence.
Qed.

(* ---------- Ord ---------- *)

Definition cmp_eqb (c d : comparison) : bool :=
  match c, d with Eq, Eq | Lt, Lt | Gt, Gt => true | _, _ => false end.

Lemma byte_cmp_sweep :
  forallb (fun x => forallb (fun y => cmp_eqb (x ?= y) (lex_cmp (byte_bits x) (byte_bits y))) (Nseq 256)) (Nseq 256) = true.
Proof. vm_compute. reflexivity. Qed.

Lemma byte_cmp_bits x y : x < 256 -> y < 256 -> (x ?= y) = lex_cmp (byte_bits x) (byte_bits y).
Proof.
  intros Hx Hy. pose proof byte_cmp_sweep as H. rewrite forallb_Nseq in H. specialize (H x Hx).
  rewrite forallb_Nseq in H. specialize (H y Hy).
  destruct (x ?= y), (lex_cmp _ _); simpl in H; congruence.
Qed.

Lemma lex_cmp_app x y r1 r2 :
  length x = length y ->
  lex_cmp (x ++ r1) (y ++ r2) = match lex_cmp x y with Eq => lex_cmp r1 r2 | c => c end.
Proof.
  revert y; induction x as [|a x IH]; intros [|b y] Hl; simpl in Hl; try lia; [reflexivity|].
  simpl. destruct a, b; auto.
Qed.

Lemma bytes_cmp_bits v w :
  length v = length w -> (forall i, byte_at v i < 256) -> (forall i, byte_at w i < 256) ->
  bytes_cmp v w = lex_cmp (val_bits v) (val_bits w).
Proof.
  revert w; induction v as [|x v IH]; intros [|y w] Hl Hv Hw; simpl in Hl; try lia; [reflexivity|].
  unfold val_bits. cbn [flat_map bytes_cmp]. rewrite lex_cmp_app by reflexivity.
  rewrite <- byte_cmp_bits by (apply (Hv 0%nat) || apply (Hw 0%nat)).
  destruct (x ?= y); auto. apply IH; [lia| |]; intros i; [apply (Hv (S i))|apply (Hw (S i))].
Qed.

Lemma canonical_val_bits a : WF a -> canonical a = true ->
  val_bits (lval a) = bits_of a ++ repeat false (256 - N.to_nat (llen a)).
Proof.
  intros Ha Hc. destruct (WF_parts a Ha) as (A1 & A2 & A3).
  rewrite <- (firstn_skipn (N.to_nat (llen a)) (val_bits (lval a))) at 1. unfold bits_of. f_equal.
  unfold canonical in Hc. apply (list_eq_nth false).
  - rewrite skipn_length, length_val_bits, repeat_length, A1. lia.
  - intros i Hi. rewrite (forallb_nth _ _ false) in Hc. specialize (Hc i Hi).
    rewrite skipn_length, length_val_bits, A1 in Hi. rewrite nth_repeat.
    destruct (nth i _ false); simpl in Hc; congruence.
Qed.

(* C17: ordering = shortlex on the bit strings (canonical labels) *)
Theorem nl_cmp_spec a b :
  WF a -> WF b -> canonical a = true -> canonical b = true ->
  nl_cmp a b = shortlex_cmp (bits_of a) (bits_of b).
Proof.
  intros Ha Hb Ca Cb. destruct (WF_parts a Ha) as (A1 & A2 & A3). destruct (WF_parts b Hb) as (B1 & B2 & B3).
  unfold nl_cmp, shortlex_cmp. rewrite !length_bits_of by assumption.
  rewrite <- N2Nat.inj_compare. destruct (llen a ?= llen b) eqn:E; try reflexivity.
  apply N.compare_eq in E. rewrite bytes_cmp_bits by (assumption || lia).
  rewrite (canonical_val_bits a Ha Ca), (canonical_val_bits b Hb Cb), E.
  rewrite lex_cmp_app by (rewrite !length_bits_of by assumption; lia).
  destruct (lex_cmp (bits_of a) (bits_of b)); try reflexivity.
  apply lex_cmp_refl.
Qed.

(* ---------- nl_of_bits ---------- *)
Lemma nl_of_bits_sweep_ok : True. Proof. exact I. Qed.
