(* C17, `impl Ord for NodeLabel` (length, then value bytes): a total order consistent with
   equality - what `sort_unstable`, `binary_search_by` and `partition_point` rely on - for ALL
   labels, canonical or not, whatever their byte lists. *)
From Coq Require Import List Bool NArith Lia.
From Akd Require Import NodeLabel ContainsPrefix.
Import ListNotations.

Lemma bytes_cmp_refl : forall a, bytes_cmp a a = Eq.
Proof. induction a as [|x a IH]; cbn [bytes_cmp]; [reflexivity|]. rewrite N.compare_refl. exact IH. Qed.

Lemma bytes_cmp_opp : forall a b, bytes_cmp b a = CompOpp (bytes_cmp a b).
Proof.
  induction a as [|x a IH]; intros [|y b]; cbn [bytes_cmp CompOpp]; try reflexivity.
  rewrite (N.compare_antisym x y). destruct (x ?= y)%N; cbn [CompOpp]; [apply IH | reflexivity | reflexivity].
Qed.

Lemma bytes_cmp_lt_trans : forall a b c,
  bytes_cmp a b = Lt -> bytes_cmp b c = Lt -> bytes_cmp a c = Lt.
Proof.
  induction a as [|x a IH]; intros [|y b] [|z c]; cbn [bytes_cmp]; try congruence.
  destruct (N.compare_spec x y) as [E1|E1|E1]; try discriminate;
  destruct (N.compare_spec y z) as [E2|E2|E2]; try discriminate; intros H1 H2.
  - subst. rewrite N.compare_refl. eapply IH; eassumption.
  - subst. apply N.compare_lt_iff in E2. rewrite E2. reflexivity.
  - subst. apply N.compare_lt_iff in E1. rewrite E1. reflexivity.
  - assert (Hxz : (x < z)%N) by lia. apply N.compare_lt_iff in Hxz. rewrite Hxz. reflexivity.
Qed.

Theorem nl_cmp_eq_iff a b : nl_cmp a b = Eq <-> a = b.
Proof.
  unfold nl_cmp. split.
  - destruct (N.compare_spec (llen a) (llen b)) as [E|E|E]; try discriminate.
    intros H. apply bytes_cmp_eq in H. destruct a, b; cbn in *; subst; reflexivity.
  - intros ->. rewrite N.compare_refl. apply bytes_cmp_refl.
Qed.

Theorem nl_cmp_opp a b : nl_cmp b a = CompOpp (nl_cmp a b).
Proof.
  unfold nl_cmp. rewrite (N.compare_antisym (llen a) (llen b)).
  destruct (llen a ?= llen b)%N; cbn [CompOpp]; [apply bytes_cmp_opp | reflexivity | reflexivity].
Qed.

Theorem nl_cmp_lt_trans a b c : nl_cmp a b = Lt -> nl_cmp b c = Lt -> nl_cmp a c = Lt.
Proof.
  unfold nl_cmp.
  destruct (N.compare_spec (llen a) (llen b)) as [E1|E1|E1]; try discriminate;
  destruct (N.compare_spec (llen b) (llen c)) as [E2|E2|E2]; try discriminate; intros H1 H2.
  - rewrite E1, E2, N.compare_refl. eapply bytes_cmp_lt_trans; eassumption.
  - rewrite E1. apply N.compare_lt_iff in E2. rewrite E2. reflexivity.
  - rewrite <- E2. apply N.compare_lt_iff in E1. rewrite E1. reflexivity.
  - assert (H : (llen a < llen c)%N) by lia. apply N.compare_lt_iff in H. rewrite H. reflexivity.
Qed.
