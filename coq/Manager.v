(* Model of the storage layer (layer L5): StorageManager (storage/manager/mod.rs), Transaction
   (storage/transaction.rs), the object cache as a partial copy of the database with arbitrary
   eviction (storage/cache/high_parallelism.rs) and the in-memory database's user-state queries
   (storage/memory.rs:183-277).  Executable; every operation takes the environment's choices
   (does the database reject this call?) as explicit arguments. *)
From Coq Require Import List Bool Arith NArith Lia.
Import ListNotations.
Open Scope N_scope.

Record vstate := VS { vs_user : N; vs_epoch : N; vs_version : N; vs_value : N }.

Inductive key := KAzks | KNode (l : N) | KVal (u e : N).
Inductive record :=
| RAzks (epoch num : N)
| RNode (l payload : N)
| RVal (v : vstate).

Definition key_of (r : record) : key :=
  match r with
  | RAzks _ _ => KAzks
  | RNode l _ => KNode l
  | RVal v => KVal (vs_user v) (vs_epoch v)
  end.

Definition key_eqb (a b : key) : bool :=
  match a, b with
  | KAzks, KAzks => true
  | KNode x, KNode y => x =? y
  | KVal u e, KVal u' e' => (u =? u') && (e =? e')
  | _, _ => false
  end.

(* finite maps as association lists without duplicate keys *)
Definition kmap := list (key * record).
Fixpoint kget (m : kmap) (k : key) : option record :=
  match m with
  | [] => None
  | (k', r) :: m' => if key_eqb k k' then Some r else kget m' k
  end.
Fixpoint kput (m : kmap) (k : key) (r : record) : kmap :=
  match m with
  | [] => [(k, r)]
  | (k', r') :: m' => if key_eqb k k' then (k, r) :: m' else (k', r') :: kput m' k r
  end.
Definition kput_rec (m : kmap) (r : record) : kmap := kput m (key_of r) r.
Definition kput_all (m : kmap) (rs : list record) : kmap := fold_left kput_rec rs m.
Definition kremove (m : kmap) (k : key) : kmap := filter (fun kr => negb (key_eqb k (fst kr))) m.

(* ------------------------------------------------------------------ user-state queries *)

Inductive flag := SpecificVersion (v : N) | SpecificEpoch (e : N) | LeqEpoch (e : N) | MaxEpoch | MinEpoch.

Fixpoint insert_by_epoch (v : vstate) (l : list vstate) : list vstate :=
  match l with
  | [] => [v]
  | w :: r => if vs_epoch v <=? vs_epoch w then v :: l else w :: insert_by_epoch v r
  end.
(* all states of a user, sorted by epoch (get_user_data / get_users_data) *)
Definition user_states (m : kmap) (u : N) : list vstate :=
  fold_right (fun kr acc => match snd kr with
                            | RVal v => if vs_user v =? u then insert_by_epoch v acc else acc
                            | _ => acc end) [] m.

Definition last_opt {A} (l : list A) : option A := match rev l with [] => None | x :: _ => Some x end.

(* Transaction::find_appropriate_item on the epoch-sorted list; the in-memory database computes the
   same answers (memory.rs:196-259) *)
Definition find_item (l : list vstate) (f : flag) : option vstate :=
  match f with
  | SpecificVersion v => find (fun s => vs_version s =? v) l
  | SpecificEpoch e => find (fun s => vs_epoch s =? e) l
  | LeqEpoch e => last_opt (filter (fun s => vs_epoch s <=? e) l)
  | MaxEpoch => last_opt l
  | MinEpoch => hd_error l
  end.

(* compare_db_and_transaction_records *)
Definition compare_db_txn (db_epoch : N) (tv : vstate) (f : flag) : option vstate :=
  match f with
  | SpecificVersion _ | SpecificEpoch _ => Some tv
  | LeqEpoch _ | MaxEpoch => if db_epoch <=? vs_epoch tv then Some tv else None
  | MinEpoch => if vs_epoch tv <=? db_epoch then Some tv else None
  end.

(* ------------------------------------------------------------------ manager state *)

Record mstate := MS {
  m_db : kmap;
  m_cache : option kmap;      (* None = new_no_cache; the Azks slot is the key KAzks *)
  m_active : bool;
  m_mods : kmap;
  m_ops : N        (* number of database calls made so far (reads and writes, rejected ones included) *) }.
Definition tick (s : mstate) : mstate := MS (m_db s) (m_cache s) (m_active s) (m_mods s) (m_ops s + 1).

Inductive err := ENotFound | ETransaction | EOther.
Inductive res (A : Type) := Ok (a : A) | Err (e : err).
Arguments Ok {A} a.
Arguments Err {A} e.

Definition cache_put (c : option kmap) (r : record) : option kmap :=
  match c with Some m => Some (kput_rec m r) | None => None end.
Definition cache_put_all (c : option kmap) (rs : list record) : option kmap :=
  match c with Some m => Some (kput_all m rs) | None => None end.
Definition cache_get (c : option kmap) (k : key) : option record :=
  match c with Some m => kget m k | None => None end.

(* environment step: the cache may lose any entry at any time (expiry, memory pressure) *)
Definition evict (s : mstate) (ks : list key) : mstate :=
  MS (m_db s) (match m_cache s with Some m => Some (fold_left kremove ks m) | None => None end)
     (m_active s) (m_mods s) (m_ops s).
Definition flush (s : mstate) : mstate :=
  MS (m_db s) (match m_cache s with Some _ => Some [] | None => None end) (m_active s) (m_mods s) (m_ops s).

Definition begin_transaction (s : mstate) : mstate * bool :=
  (MS (m_db s) (m_cache s) true (m_mods s) (m_ops s), negb (m_active s)).

Definition priority (r : record) : N := match r with RAzks _ _ => 2 | _ => 1 end.
(* stable partition by priority: everything else first, the Azks record(s) last *)
Definition sort_by_priority (rs : list record) : list record :=
  filter (fun r => priority r =? 1) rs ++ filter (fun r => negb (priority r =? 1)) rs.

(* commit_transaction; [db_fails] = the database rejects the batch write.  Returns the number of
   records on success.  The database write comes first, the cache is filled only when the write
   succeeded (fix F3). *)
Definition commit_transaction (s : mstate) (db_fails : bool) : mstate * res N :=
  if negb (m_active s) then (s, Err ETransaction)
  else
    let records := sort_by_priority (map snd (m_mods s)) in
    let s0 := MS (m_db s) (m_cache s) false [] (m_ops s) in
    match records with
    | [] => (s0, Ok 0)
    | _ =>
      match last records (RNode 0 0) with
      | RAzks _ _ =>
        if db_fails then (tick s0, Err EOther)
        else (MS (kput_all (m_db s) records) (cache_put_all (m_cache s) records) false [] (m_ops s + 1),
              Ok (N.of_nat (length records)))
      | _ => (s0, Err ETransaction)
      end
    end.

Definition rollback_transaction (s : mstate) : mstate * res unit :=
  if negb (m_active s) then (s, Err ETransaction)
  else (MS (m_db s) (m_cache s) false [] (m_ops s), Ok tt).

Definition set_record (s : mstate) (r : record) (db_fails : bool) : mstate * res unit :=
  if m_active s then (MS (m_db s) (m_cache s) true (kput_rec (m_mods s) r) (m_ops s), Ok tt)
  else if db_fails then (tick s, Err EOther)
  else (MS (kput_rec (m_db s) r) (cache_put (m_cache s) r) false (m_mods s) (m_ops s + 1), Ok tt).

Definition batch_set (s : mstate) (rs : list record) (db_fails : bool) : mstate * res unit :=
  match rs with
  | [] => (s, Ok tt)
  | _ =>
    if m_active s then (MS (m_db s) (m_cache s) true (kput_all (m_mods s) rs) (m_ops s), Ok tt)
    else if db_fails then (tick s, Err EOther)
    else (MS (kput_all (m_db s) rs) (cache_put_all (m_cache s) rs) false (m_mods s) (m_ops s + 1), Ok tt)
  end.

(* get: transaction log, then cache, then database (filling the cache) *)
Definition get_record (s : mstate) (k : key) (db_fails : bool) : mstate * res record :=
  match (if m_active s then kget (m_mods s) k else None) with
  | Some r => (s, Ok r)
  | None =>
    match cache_get (m_cache s) k with
    | Some r => (s, Ok r)
    | None =>
      if db_fails then (tick s, Err EOther)
      else match kget (m_db s) k with
           | Some r => (MS (m_db s) (cache_put (m_cache s) r) (m_active s) (m_mods s) (m_ops s + 1), Ok r)
           | None => (tick s, Err ENotFound)
           end
    end
  end.

(* get_committed: as get, but the open transaction's log is not consulted (requests read the epoch
   record this way: what a publish has pending is not an epoch yet) *)
Definition get_committed (s : mstate) (k : key) (db_fails : bool) : mstate * res record :=
  match cache_get (m_cache s) k with
  | Some r => (s, Ok r)
  | None =>
    if db_fails then (tick s, Err EOther)
    else match kget (m_db s) k with
         | Some r => (MS (m_db s) (cache_put (m_cache s) r) (m_active s) (m_mods s) (m_ops s + 1), Ok r)
         | None => (tick s, Err ENotFound)
         end
  end.

Fixpoint nodup_keys (ks : list key) : list key :=
  match ks with
  | [] => []
  | k :: r => if existsb (key_eqb k) r then nodup_keys r else k :: nodup_keys r
  end.

(* batch_get: found-in-log/cache in request order, then the database results for the rest (in an
   arbitrary order in the code; compared as a multiset) *)
Definition batch_get (s : mstate) (ks : list key) (db_fails : bool) : mstate * res (list record) :=
  match ks with
  | [] => (s, Ok [])
  | _ =>
    let local (k : key) : option record :=
        match (if m_active s then kget (m_mods s) k else None) with
        | Some r => Some r
        | None => cache_get (m_cache s) k
        end in
    let found := flat_map (fun k => match local k with Some r => [r] | None => [] end) ks in
    let missing := filter (fun k => match local k with Some _ => false | None => true end) ks in
    match missing with
    | [] => (s, Ok found)
    | _ =>
      if db_fails then (tick s, Err EOther)
      else
        let results := flat_map (fun k => match kget (m_db s) k with Some r => [r] | None => [] end) (nodup_keys missing) in
        (MS (m_db s) (cache_put_all (m_cache s) results) (m_active s) (m_mods s) (m_ops s + 1), Ok (found ++ results))
    end
  end.

(* ------------------------------------------------------------------ user-state queries *)

(* the database's answer (memory.rs get_user_state) *)
Definition db_user_state (db : kmap) (u : N) (f : flag) : option vstate := find_item (user_states db u) f.

Definition get_user_state (s : mstate) (u : N) (f : flag) (db_fails : bool) : mstate * res vstate :=
  if db_fails then (tick s, Err EOther)
  else
    let maybe_db := db_user_state (m_db s) u f in
    let from_txn : option vstate :=
        if m_active s then
          match find_item (user_states (m_mods s) u) f with
          | Some tv =>
            match maybe_db with
            | Some dv => compare_db_txn (vs_epoch dv) tv f
            | None => Some tv
            end
          | None => None
          end
        else None in
    match from_txn with
    | Some r => (tick s, Ok r)
    | None =>
      match maybe_db with
      | Some st => (MS (m_db s) (cache_put (m_cache s) (RVal st)) (m_active s) (m_mods s) (m_ops s + 1), Ok st)
      | None => (tick s, Err ENotFound)
      end
    end.

(* get_user_data: all states; inside a transaction the pending states override by epoch.  The
   code returns them in hash-map order: compared as a set. *)
Definition override (dbl modl : list vstate) : list vstate :=
  filter (fun d => negb (existsb (fun m => vs_epoch m =? vs_epoch d) modl)) dbl ++ modl.

Definition get_user_data (s : mstate) (u : N) (db_fails : bool) : mstate * res (list vstate) :=
  (tick s,
   if db_fails then Err EOther
   else
     let dbl := user_states (m_db s) u in
     if m_active s then Ok (override dbl (user_states (m_mods s) u))
     else match dbl with [] => Err ENotFound | _ => Ok dbl end).

(* get_user_state_versions: (version, value) per user that has an answer (fix F4) *)
Definition user_state_versions_one (s : mstate) (u : N) (f : flag) : option (N * N) :=
  let maybe_db := db_user_state (m_db s) u f in
  let chosen : option vstate :=
      if m_active s then
        match find_item (user_states (m_mods s) u) f with
        | Some tv =>
          match maybe_db with
          | Some dv =>
            (* the bulk query knows only the database record's version: versions are compared *)
            let take := match f with
                        | SpecificVersion _ | SpecificEpoch _ => true
                        | LeqEpoch _ | MaxEpoch => vs_version dv <=? vs_version tv
                        | MinEpoch => vs_version tv <=? vs_version dv
                        end in
            if take then Some tv else Some dv
          | None => Some tv
          end
        | None => maybe_db
        end
      else maybe_db in
  match chosen with Some v => Some (vs_version v, vs_value v) | None => None end.

Definition get_user_state_versions (s : mstate) (us : list N) (f : flag) (db_fails : bool)
  : mstate * res (list (N * (N * N))) :=
  (tick s,
   if db_fails then Err EOther
   else Ok (flat_map (fun u => match user_state_versions_one s u f with Some vv => [(u, vv)] | None => [] end) us)).

(* tombstone_value_states: value 0 stands for the TOMBSTONE (empty) value *)
Definition tombstone (s : mstate) (u : N) (epoch : N) (db_fails_read db_fails_write : bool) : mstate * res unit :=
  match get_user_data s u db_fails_read with
  | (s1, Err e) => (s1, Err e)
  | (s1, Ok states) =>
    let new_data := flat_map (fun v => if (vs_epoch v <=? epoch) && negb (vs_value v =? 0)
                                       then [RVal (VS (vs_user v) (vs_epoch v) (vs_version v) 0)] else []) states in
    batch_set s1 new_data db_fails_write
  end.

Definition init_state (cached : bool) : mstate := MS [] (if cached then Some [] else None) false [] 0.
