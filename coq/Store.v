(* Store-level model (layer L4): node records that keep the previous version next to the latest
   (tree_node.rs:62-88), the version selection determine_node_to_get (tree_node.rs:137-159, with
   fix F5), and the tree a reader reconstructs "as of" an epoch.  The [parent] field is not
   modelled: no reader uses it.  Executable. *)
From Coq Require Import List Bool Arith NArith Lia.
From Akd Require Import Bits NodeLabel Hashing Tree.
Import ListNotations.
Open Scope N_scope.

Record snode := SN {
  sn_le : N; sn_mde : N; sn_leaf : bool;
  sn_left : option nlabel; sn_right : option nlabel; sn_hash : bytes }.
Record srec := SR { sr_label : nlabel; sr_latest : snode; sr_prev : option snode }.

Definition opt_label_eqb (a b : option nlabel) : bool :=
  match a, b with Some x, Some y => nl_eqb x y | None, None => true | _, _ => false end.
Definition snode_eqb (a b : snode) : bool :=
  (sn_le a =? sn_le b) && (sn_mde a =? sn_mde b) && Bool.eqb (sn_leaf a) (sn_leaf b) &&
  opt_label_eqb (sn_left a) (sn_left b) && opt_label_eqb (sn_right a) (sn_right b) && bytes_eqb (sn_hash a) (sn_hash b).
Definition opt_snode_eqb (a b : option snode) : bool :=
  match a, b with Some x, Some y => snode_eqb x y | None, None => true | _, _ => false end.

Inductive sres := SOk (n : snode) | SNotFound | SOther.

(* determine_node_to_get *)
Definition determine (r : srec) (E : N) : sres :=
  if E <? sn_le (sr_latest r) then
    match sr_prev r with
    | Some p => if E <? sn_le p then SOther else SOk p
    | None => SNotFound
    end
  else SOk (sr_latest r).

(* a store is anything that maps a label to its record *)
Definition lookup := nlabel -> option srec.
Definition node_at (get : lookup) (l : nlabel) (E : N) : sres :=
  match get l with Some r => determine r E | None => SNotFound end.

Fixpoint find_rec (rs : list srec) (l : nlabel) : option srec :=
  match rs with
  | [] => None
  | r :: rest => if nl_eqb (sr_label r) l then Some r else find_rec rest l
  end.
Definition of_list (rs : list srec) : lookup := find_rec rs.
(* records written on top of a store (keys of a commit batch are pairwise distinct) *)
Definition overlay (written : list srec) (base : lookup) : lookup :=
  fun l => match find_rec written l with Some r => Some r | None => base l end.

(* the tree a reader sees as of epoch E, starting at label l; None = the reader gets an error *)
Inductive vres := VTree (t : option tree) | VErr.
Fixpoint view (fuel : nat) (get : lookup) (E : N) (l : nlabel) : vres :=
  match fuel with
  | O => VErr
  | S f =>
    match node_at get l E with
    | SNotFound => VTree None
    | SOther => VErr
    | SOk n =>
      if sn_leaf n then VTree (Some (Leaf l (sn_hash n) (sn_le n)))
      else
        let sub (o : option nlabel) : vres := match o with Some c => view f get E c | None => VTree None end in
        match sub (sn_left n), sub (sn_right n) with
        | VTree a, VTree b => VTree (Some (Node l (sn_le n) (sn_mde n) a b))
        | _, _ => VErr
        end
    end
  end.

(* the stored hash of the root node as of E (what get_root_hash reads) *)
Definition root_hash_at (cfg : config) (get : lookup) (E : N) : option bytes :=
  match node_at get nl_root E with
  | SOk n => Some (c_root_hash_from_val cfg (sn_hash n))
  | _ => None
  end.

(* ------------------------------------------------------------------ the shape of a commit *)

(* what the records of the commit of epoch E+1 look like relative to the store at epoch E:
   a new label (invisible as of E), an updated node (previous = the old latest, which is <= E), or
   the old record itself (a node whose parent changed only) *)
Definition commit_shape (base : lookup) (E : N) (r : srec) : bool :=
  match base (sr_label r) with
  | None => (E <? sn_le (sr_latest r)) && match sr_prev r with None => true | Some _ => false end
  | Some old =>
    if E <? sn_le (sr_latest r)
    then opt_snode_eqb (sr_prev r) (Some (sr_latest old)) && (sn_le (sr_latest old) <=? E)
    else snode_eqb (sr_latest r) (sr_latest old) && opt_snode_eqb (sr_prev r) (sr_prev old)
  end.
