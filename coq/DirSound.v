(* Soundness of lookup verification against the tree of an honestly maintained directory (C06),
   up to the explicit bad event of the hash binding.  The VRF enters as the function [nlabel_of]
   together with the uniqueness hypothesis VrfUnique (a verifying proof's output is the function
   value) - a Section hypothesis, not an axiom. *)
From Coq Require Import List Bool Arith NArith ZArith Lia ZifyBool ZifyNat ZifyN.
From Akd Require Import Bits NodeLabel NodeLabelFacts ElemSet Hashing Tree TreeFacts Binding Marker MarkerFacts Directory Verify.
Import ListNotations.
Open Scope N_scope.

Lemma full_label_canonical l : WF l -> llen l = 256 -> canonical l = true.
Proof.
  intros H E. destruct (WF_parts l H) as (H1 & _ & _). unfold canonical. rewrite E.
  rewrite skipn_all2; [reflexivity|]. rewrite length_val_bits, H1. reflexivity.
Qed.

Lemma wf_sub_node l le mde a b : wf_sub (Node l le mde a b) = true ->
  exists a' b', a = Some a' /\ b = Some b' /\ wf_sub a' = true /\ wf_sub b' = true /\
    WF l /\ pord (bits_of l) (bits_of (tlabel a')) = Some false /\ pord (bits_of l) (bits_of (tlabel b')) = Some true.
Proof.
  simpl. intros H. destruct a as [a'|]; [|rewrite andb_false_r in H; discriminate].
  destruct b as [b'|]; [|rewrite andb_false_r in H; discriminate]. exists a', b'.
  rewrite !andb_true_iff in H. destruct H as [[Hl _] [[[Pa Pb] Wa] Wb]].
  destruct (pord (bits_of l) (bits_of (tlabel a'))) as [[|]|]; try discriminate.
  destruct (pord (bits_of l) (bits_of (tlabel b'))) as [[|]|]; try discriminate. repeat split; auto.
Qed.

Lemma wf_sub_WF t : wf_sub t = true -> WF (tlabel t).
Proof. destruct t; simpl; rewrite !andb_true_iff; intros [[H _] _]; exact H. Qed.

Section TreeShape.
  Variable cfg : config.

  Lemma wf_root_sub t A : wf_root t = true -> Sub A t -> A = t \/ wf_sub A = true.
  Proof.
    intros Hw HS. destruct t as [|l le mde a b]; [discriminate|]. simpl in Hw.
    apply andb_true_iff in Hw. destruct Hw as [Hw Hb]. apply andb_true_iff in Hw. destruct Hw as [_ Ha].
    assert (Hsub : forall c A, wf_sub c = true -> Sub A c -> wf_sub A = true).
    { clear. intros c A Hc HS. induction HS as [t|A l le mde a b HS IH|A l le mde a b HS IH]; auto; apply IH.
      - destruct (wf_sub_node _ _ _ _ _ Hc) as (a' & b' & Ea & Eb & Wa & Wb & _). injection Ea as <-. exact Wa.
      - destruct (wf_sub_node _ _ _ _ _ Hc) as (a' & b' & Ea & Eb & Wa & Wb & _). injection Eb as <-. exact Wb. }
    inversion HS as [|A' l' le' mde' a' b' HS'|A' l' le' mde' a' b' HS']; subst; [now left| |]; right.
    - simpl in Ha. apply andb_true_iff in Ha. destruct Ha as [_ Ha]. eapply Hsub; eauto.
    - simpl in Hb. apply andb_true_iff in Hb. destruct Hb as [_ Hb]. eapply Hsub; eauto.
  Qed.

  Lemma Sub_leaf_in l v e t : Sub (Leaf l v e) t -> In (LF l v e) (leaves t).
  Proof.
    intros HS. remember (Leaf l v e) as A eqn:EA. induction HS as [t|A l' le mde a b HS IH|A l' le mde a b HS IH]; subst.
    - simpl. now left.
    - simpl. apply in_or_app. left. now apply IH.
    - simpl. apply in_or_app. right. now apply IH.
  Qed.

  (* in a well-formed tree a node with a 256-bit label is a leaf *)
  Lemma full_label_is_leaf t A : wf_root t = true -> Sub A t -> llen (tlabel A) = 256 ->
    exists v e, A = Leaf (tlabel A) v e.
  Proof.
    intros Hw HS Hl. destruct (wf_root_sub t A Hw HS) as [->|HA].
    - destruct t as [|l le mde a b]; [discriminate|]. simpl in Hw. apply andb_true_iff in Hw. destruct Hw as [Hw _].
      apply andb_true_iff in Hw. destruct Hw as [Hw _]. apply nl_eqb_eq in Hw. subst l. simpl in Hl. discriminate.
    - destruct A as [l v e|l le mde a b]; [eauto|]. exfalso. simpl in Hl.
      destruct (wf_sub_node _ _ _ _ _ HA) as (a' & b' & _ & _ & Wa & _ & HWl & Pa & _).
      pose proof (wf_sub_WF _ Wa) as HWa.
      unfold pord in Pa. rewrite !length_bits_of in Pa by assumption.
      destruct (Nat.leb_spec (N.to_nat (llen (tlabel a'))) (N.to_nat (llen l))); [discriminate|].
      destruct (WF_parts _ HWa) as (_ & Hle & _). lia.
  Qed.
End TreeShape.

Section LookupSound.
  Variable cfg : config.
  Variable Bad : Prop.
  Hypothesis B : Binding cfg Bad.
  Variable vrf_check : bytes -> bytes -> bytes -> option bytes.
  Variable pk ck l : bytes.
  Variable t : tree.
  Hypothesis t_ok : tree_ok t.
  Hypothesis t_wf : wf_root t = true.

  (* the VRF as a function of (freshness, version) for the label l *)
  Variable nlabel_of : bool -> N -> nlabel.
  Hypothesis nlabel_full : forall f v, llen (nlabel_of f v) = 256 /\ WF (nlabel_of f v) /\ LW (nlabel_of f v).
  (* versions are u64 values in the code: beyond 2^64 the 8-byte encoding inside the VRF input wraps *)
  Hypothesis vrf_unique : forall proof f v out, v < 2 ^ 64 ->
    vrf_check pk proof (label_input_hash cfg l f v) = Some out -> NL out 256 = nlabel_of f v.

  (* the label's true history: versions 1..n with their values and epochs *)
  Variable n : N.
  Variable val_of : N -> bytes.
  Variable ep_of : N -> N.
  Hypothesis vals_len : forall v, Len64 (val_of v).
  Hypothesis eps_u64 : forall v, ep_of v < 2 ^ 64.
  (* honestly maintained tree: a leaf sitting at a fresh label of l is the prescribed one, and every
     superseded version has been retired *)
  Hypothesis tree_fresh : forall y v, v < 2 ^ 64 -> In y (leaves t) -> lf_label y = nlabel_of true v ->
    1 <= v /\ v <= n /\ lf_value y = fresh_value cfg ck (nlabel_of true v) v (val_of v) /\ lf_epoch y = ep_of v.
  Hypothesis tree_stale : forall v, 1 <= v -> v < n -> In (nlabel_of false v) (map lf_label (leaves t)).

  Definition lp_ok (p : lookup_proof) : Prop :=
    mp_ok (lp_existence p) /\ mp_ok (lp_marker p) /\ nmp_ok (lp_freshness p) /\
    Len64 (lp_value p) /\ Len64 (lp_nonce p) /\ lp_epoch p < 2 ^ 64 /\ lp_version p < 2 ^ 64.

  Hypothesis nonce_len : forall v, Len64 (c_commitment_nonce cfg ck (nl_to_bytes (nlabel_of true v)) v (val_of v)).

  Lemma verify_label_label fresh v proof nl : v < 2 ^ 64 ->
    verify_label cfg vrf_check pk l fresh v proof nl = true -> nl = nlabel_of fresh v.
  Proof.
    clear tree_stale. intros Hv64.
    unfold verify_label. destruct (vrf_check pk proof (label_input_hash cfg l fresh v)) as [out|] eqn:E; [|discriminate].
    intros H. apply nl_eqb_eq in H. rewrite <- H. now apply vrf_unique in E.
  Qed.

  (* an accepted existence proof with value: the leaf is the prescribed leaf of that version *)
  Lemma existence_with_val_sound value epoch nonce v vp mp :
    mp_ok mp -> Len64 value -> Len64 nonce -> epoch < 2 ^ 64 -> v < 2 ^ 64 ->
    verify_existence_with_val cfg vrf_check pk (root_hash cfg true t) l value epoch nonce true v vp mp = true ->
    (1 <= v /\ v <= n /\ value = val_of v /\ epoch = ep_of v) \/ Bad.
  Proof.
    clear tree_stale.
    intros Hmp Lv Ln He Hv64 H. unfold verify_existence_with_val, verify_existence in H.
    apply andb_true_iff in H. destruct H as [Hh H]. apply andb_true_iff in H. destruct H as [Hl Hm].
    apply bytes_eqb_eq in Hh. apply verify_label_label in Hl; [|exact Hv64].
    assert (Hroot : tlabel t = nl_root /\ is_leaf t = false).
    { destruct t; simpl in t_wf; [discriminate|]. apply andb_true_iff in t_wf. destruct t_wf as [W _].
      apply andb_true_iff in W. destruct W as [W _]. apply nl_eqb_eq in W. auto. }
    destruct Hroot as [Hr Hlf].
    destruct (mem_sound_b cfg Bad B t mp t_ok Hr Hlf Hmp Hm) as [Ho|]; [|now right].
    destruct (nlabel_full true v) as (F1 & F2 & F3).
    destruct Ho as [A HA HlA HvA|l0 le mde a b HS H1 H2 HlE HvE].
    2:{ (* the empty slot carries the (non-canonical) empty label, a VRF label is canonical *)
      apply (b_lvalue_inj _ _ B) in HlE; [|rewrite Hl; exact F3|apply (b_empty_label_LW _ _ B)].
      destruct HlE as [HlE|]; [|now right]. exfalso.
      pose proof (full_label_canonical _ F2 F1) as Hc. rewrite <- Hl, HlE, (b_empty_label_not_canonical _ _ B) in Hc. discriminate. }
    pose proof (Sub_ok A t HA t_ok) as HokA.
    apply (b_lvalue_inj _ _ B) in HlA; [|rewrite Hl; exact F3|destruct A; simpl in HokA; tauto].
    destruct HlA as [HlA|]; [|now right].
    destruct (full_label_is_leaf t A t_wf HA ltac:(rewrite <- HlA, Hl; exact F1)) as (ca & ea & EA).
    rewrite EA in HA, HvA, HokA. apply Sub_leaf_in in HA.
    assert (Hlab : lf_label (LF (tlabel A) ca ea) = nlabel_of true v) by (simpl; congruence).
    destruct (tree_fresh _ v Hv64 HA Hlab) as (V1 & V2 & V3 & V4). simpl in V3, V4.
    simpl in HvA, HokA. destruct HokA as [_ Dca].
    rewrite <- Hh in HvA. unfold leaf_hash_with_value in HvA.
    destruct (N.ltb_spec ea (2 ^ 64)) as [Hea|Hea]; [|rewrite V4 in Hea; pose proof (eps_u64 v); lia].
    apply (b_leaf_inj _ _ B) in HvA; auto; [|apply (b_commit_D32 _ _ B)].
    destruct HvA as [[Hc Hee]|]; [|now right].
    rewrite V3 in Hc. unfold fresh_value in Hc.
    apply (b_commit_inj _ _ B) in Hc; auto.
    destruct Hc as [[Hval _]|]; [|now right]. left. repeat split; auto; congruence.
  Qed.

  (* C06: an accepted lookup proof reports exactly the label's latest version, value and epoch *)
  Theorem lookup_sound E p r : lp_ok p ->
    lookup_verify cfg vrf_check pk (root_hash cfg true t) E l p = Some r ->
    (r_version r = n /\ r_value r = val_of n /\ r_epoch r = ep_of n) \/ Bad.
  Proof.
    intros (P1 & P2 & P3 & P4 & P5 & P6 & P7) H. unfold lookup_verify in H.
    destruct (E <? lp_version p); [discriminate|].
    destruct (verify_existence_with_val _ _ _ _ _ _ _ _ _ _ _ _) eqn:Ex; [|discriminate]. cbn [negb] in H.
    destruct (lp_version p =? 0); [discriminate|].
    destruct (verify_existence _ _ _ _ _ _ _ _ _) eqn:Em; [|discriminate]. cbn [negb] in H.
    destruct (verify_nonexistence _ _ _ _ _ _ _ _ _) eqn:En; [|discriminate]. cbn [negb] in H.
    injection H as <-. cbn [r_version r_value r_epoch].
    apply existence_with_val_sound in Ex; auto. destruct Ex as [(V1 & V2 & V3 & V4)|]; [|now right].
    (* the freshness proof shows the stale label of this version absent: it must be the latest *)
    unfold verify_nonexistence in En. apply andb_true_iff in En. destruct En as [Hl Hn].
    apply verify_label_label in Hl; [|exact P7].
    destruct (nlabel_full false (lp_version p)) as (F1 & F2 & F3).
    apply (nonmem_sound_b cfg Bad B) in Hn; auto; [|rewrite Hl; exact F2].
    destruct Hn as [Hn|]; [|now right].
    destruct (N.eq_dec (lp_version p) n) as [Heq|Hne].
    - left. rewrite Heq in *. auto.
    - exfalso. apply Hn. rewrite Hl. apply tree_stale; lia.
  Qed.

  (* ---------------------------------------------------------------- key history (C07) *)

  Hypothesis tree_has_fresh : forall v, 1 <= v -> v <= n -> In (nlabel_of true v) (map lf_label (leaves t)).

  Definition up_ok (u : update_proof) : Prop :=
    mp_ok (up_existence u) /\ Len64 (up_value u) /\ Len64 (up_nonce u) /\ up_epoch u < 2 ^ 64 /\ up_version u < 2 ^ 64.
  Definition hp_ok (p : history_proof) : Prop :=
    Forall up_ok (hp_updates p) /\ Forall nmp_ok (hp_future p).

  Definition true_entry (v : N) : verify_result := VRes (ep_of v) v (val_of v).

  (* every entry accepted in Default mode is a true version with its true value and epoch *)
  Lemma single_update_sound u res : up_ok u ->
    verify_single_update cfg vrf_check pk (root_hash cfg true t) l false u = Some res ->
    (1 <= up_version u /\ up_version u <= n /\ res = true_entry (up_version u)) \/ Bad.
  Proof.
    clear tree_stale.
    intros (U1 & U2 & U3 & U4 & U6) H. unfold verify_single_update in H. cbn [andb] in H.
    destruct (verify_existence_with_val _ _ _ _ _ _ _ _ _ _ _ _) eqn:Ex; [|discriminate]. cbn [negb] in H.
    apply existence_with_val_sound in Ex; auto. destruct Ex as [(V1 & V2 & V3 & V4)|]; [|now right].
    assert (Hres : res = VRes (up_epoch u) (up_version u) (up_value u)).
    { destruct (up_version u <=? 1); [congruence|]. destruct (up_prev u), (up_prev_vrf u); try discriminate.
      destruct (verify_existence_with_commitment _ _ _ _ _ _ _ _ _ _ _); congruence. }
    left. split; [exact V1|]. split; [exact V2|]. rewrite Hres. unfold true_entry. congruence.
  Qed.

  Lemma updates_sound us : forall prev rs, Forall up_ok us ->
    verify_updates cfg vrf_check pk (root_hash cfg true t) l false prev us = Some rs ->
    (rs = map (fun u => true_entry (up_version u)) us /\ forall u, In u us -> 1 <= up_version u /\ up_version u <= n) \/ Bad.
  Proof.
    clear tree_stale.
    induction us as [|u us IH]; intros prev rs Hok H; simpl in H.
    - injection H as <-. left. split; [reflexivity|]. intros u [].
    - inversion Hok as [|? ? Hu Hus]; subst.
      destruct (match prev with Some pe => pe <? up_epoch u | None => false end); [discriminate|].
      destruct (verify_single_update _ _ _ _ _ _ u) as [res|] eqn:E1; [|discriminate].
      destruct (verify_updates _ _ _ _ _ _ (Some (up_epoch u)) us) as [rest|] eqn:E2; [|discriminate].
      injection H as <-. apply single_update_sound in E1; auto. destruct E1 as [(V1 & V2 & V3)|]; [|now right].
      apply IH in E2; auto. destruct E2 as [[-> Hall]|]; [|now right]. left. split; [simpl; congruence|].
      intros u' [<-|Hin]; auto.
  Qed.

  Lemma forall3_In {X Y} (f : N -> X -> Y -> bool) vs : forall xs ys, forall3 f vs xs ys = true ->
    forall v, In v vs -> exists x y, In y ys /\ f v x y = true.
  Proof.
    clear tree_stale.
    induction vs as [|v0 vs IH]; intros xs ys H v Hin; [destruct Hin|].
    destruct xs as [|x xs]; [discriminate|]. destruct ys as [|y ys]; [discriminate|].
    simpl in H. apply andb_true_iff in H. destruct H as [H1 H2]. destruct Hin as [<-|Hin].
    - exists x, y. split; [now left|exact H1].
    - destruct (IH xs ys H2 v Hin) as (x' & y' & Hy & Hf). exists x', y'. split; [now right|exact Hf].
  Qed.

  Lemma consecutive_shape vs : consecutive_decreasing vs = true -> forall v0 r, vs = v0 :: r ->
    forall i, (i < length vs)%nat -> nth i vs 0 + N.of_nat i = v0.
  Proof.
    clear tree_stale.
    induction vs as [|a vs IH]; intros H v0 r E i Hi; [discriminate|]. injection E as <- <-.
    destruct i as [|i]; [simpl; lia|]. destruct vs as [|b vs']; [simpl in Hi; lia|].
    cbn [consecutive_decreasing] in H. apply andb_true_iff in H. destruct H as [H1 H2]. apply N.eqb_eq in H1.
    change (nth (S i) (a :: b :: vs') 0) with (nth i (b :: vs') 0). specialize (IH H2 b vs' eq_refl i ltac:(simpl in *; lia)). lia.
  Qed.

  Lemma fold_min_le vs : forall a, fold_left N.min vs a <= a /\ forall v, In v vs -> fold_left N.min vs a <= v.
  Proof.
    clear tree_stale.
    induction vs as [|x vs IH]; intros a; simpl; [split; [lia|intros v []]|].
    destruct (IH (N.min a x)) as [I1 I2]. split; [lia|]. intros v [<-|Hv]; [lia|auto].
  Qed.
  Lemma fold_max_ge vs : forall a, a <= fold_left N.max vs a /\ forall v, In v vs -> v <= fold_left N.max vs a.
  Proof.
    clear tree_stale.
    induction vs as [|x vs IH]; intros a; simpl; [split; [lia|intros v []]|].
    destruct (IH (N.max a x)) as [I1 I2]. split; [lia|]. intros v [<-|Hv]; [lia|auto].
  Qed.
  Lemma fold_max_bound vs : forall a, (forall v, In v vs -> v <= a) -> fold_left N.max vs a = a.
  Proof.
    clear tree_stale.
    induction vs as [|x vs IH]; intros a Ha; simpl; [reflexivity|].
    replace (N.max a x) with a by (specialize (Ha x (or_introl eq_refl)); lia). apply IH. intros v Hv. apply Ha. now right.
  Qed.
  Lemma fold_min_in vs : forall a, fold_left N.min vs a = a \/ In (fold_left N.min vs a) vs.
  Proof.
    clear tree_stale.
    induction vs as [|x vs IH]; intros a; simpl; [now left|].
    destruct (IH (N.min a x)) as [H|H]; [|right; now right].
    rewrite H. destruct (N.min_spec a x) as [[_ ->]|[_ ->]]; [now left|right; now left].
  Qed.

  Lemma marker_future_of s0 m E pa fu : get_marker_versions s0 m E = Some (pa, fu) -> fu = future_of m E.
  Proof.
    clear tree_stale.
    unfold get_marker_versions, future_of. destruct (find_max_index s0); [|discriminate].
    destruct (find_max_index m); [|discriminate]. destruct (find_max_index E); [|discriminate].
    destruct (_ <? _)%nat; [discriminate|]. congruence.
  Qed.

  (* C07 (Default mode, complete history): an accepted proof yields exactly the true account,
     newest first: nothing hidden, reordered, invented or misdated *)
  Theorem history_complete_sound E p rs : hp_ok p -> 1 <= n -> n <= E -> E < 2 ^ 64 ->
    key_history_verify cfg vrf_check pk (root_hash cfg true t) E l p HComplete false = Some rs ->
    rs = map true_entry (map (fun i => n - N.of_nat i) (seq 0 (N.to_nat n))) \/ Bad.
  Proof.
    clear tree_stale.
    intros (Pu & Pf) Hn HnE HE H. unfold key_history_verify in H.
    destruct (verify_history_shape E p HComplete) as [[past future]|] eqn:Sh; [|discriminate].
    destruct (verify_updates _ _ _ _ _ _ None (hp_updates p)) as [results|] eqn:Vu; [|discriminate].
    destruct (forall3 _ past _ _) eqn:Fp; [|discriminate]. cbn [negb] in H.
    destruct (forall3 _ future _ _) eqn:Ff; [|discriminate]. cbn [negb] in H. injection H as <-.
    apply updates_sound in Vu; auto. destruct Vu as [[-> Hall]|]; [|now right].
    (* the shape checks *)
    unfold verify_history_shape in Sh. set (vs := map up_version (hp_updates p)) in *.
    destruct vs as [|m vr] eqn:Evs; [discriminate|]. rewrite <- Evs in *.
    destruct (consecutive_decreasing vs) eqn:Cd; [|discriminate]. cbn [negb] in Sh.
    set (start_v := fold_left N.min vs m) in *. set (end_v := fold_left N.max vs m) in *.
    destruct (start_v =? 0); [discriminate|]. destruct (E <? end_v) eqn:Ee; [discriminate|].
    destruct (N.eqb_spec start_v 1) as [Hs1|]; [|discriminate]. cbn [negb] in Sh.
    destruct (get_marker_versions start_v end_v E) as [[pa fu]|] eqn:Gm; [|discriminate].
    assert (Hfu : future = fu).
    { repeat match type of Sh with (if ?c then None else _) = _ => destruct c; [discriminate|] end. congruence. }
    subst fu.
    (* vs = [m; m-1; ...; 1] *)
    pose proof (consecutive_shape vs Cd m vr Evs) as Hshape.
    assert (Hm_in : In m vs) by (rewrite Evs; now left).
    assert (Hend : end_v = m).
    { unfold end_v. apply fold_max_bound. intros v Hv. destruct (In_nth _ _ 0 Hv) as (i & Hi & <-). specialize (Hshape i Hi). lia. }
    assert (Hlen : N.of_nat (length vs) = m).
    { assert (Hpos : (0 < length vs)%nat) by (rewrite Evs; simpl; lia).
      pose proof (Hshape (length vs - 1)%nat ltac:(lia)) as Hlast.
      destruct (fold_min_le vs m) as [_ G]. fold start_v in G.
      specialize (G (nth (length vs - 1) vs 0) ltac:(apply nth_In; lia)).
      destruct (fold_min_in vs m) as [Hmin|Hmin]; fold start_v in Hmin.
      - lia.
      - destruct (In_nth _ _ 0 Hmin) as (i & Hi & Hnth). specialize (Hshape i Hi). lia. }
    (* the newest reported version is the latest: otherwise its successor is a future marker shown absent *)
    assert (Hmn' : m <= n).
    { assert (Hin : In m (map up_version (hp_updates p))) by exact Hm_in.
      apply in_map_iff in Hin. destruct Hin as (u & <- & Hu). apply Hall. exact Hu. }
    destruct (N.eq_dec m n) as [Heq|Hne].
    - left. rewrite <- Heq. rewrite <- map_map with (f := up_version) (g := true_entry). fold vs. f_equal.
      apply (nth_ext _ _ 0 0).
      + rewrite map_length, seq_length. lia.
      + intros i Hi. specialize (Hshape i Hi).
        rewrite (nth_indep (map (fun i0 => m - N.of_nat i0) (seq 0 (N.to_nat m))) 0 (m - N.of_nat 0)) by (rewrite map_length, seq_length; lia).
        rewrite (map_nth (fun i0 => m - N.of_nat i0)). rewrite seq_nth by lia. simpl. lia.
    - (* m < n: version m+1 is a future marker of m, shown absent, but the tree holds it *)
      apply marker_future_of in Gm. rewrite Hend in Gm.
      assert (Hm1 : 1 <= m) by (rewrite <- Hlen, Evs; cbn [length]; lia).
      assert (Hnext : In (m + 1) future) by (rewrite Gm; apply MarkerFacts.next_is_future; lia).
      destruct (forall3_In _ _ _ _ Ff (m + 1) Hnext) as (vp & np & Hnp & Hv).
      unfold verify_nonexistence in Hv. apply andb_true_iff in Hv. destruct Hv as [Hl Hnm].
      apply verify_label_label in Hl; [|lia]. destruct (nlabel_full true (m + 1)) as (F1 & F2 & F3).
      rewrite Forall_forall in Pf. specialize (Pf np Hnp).
      apply (nonmem_sound_b cfg Bad B) in Hnm; auto; [|rewrite Hl; exact F2].
      destruct Hnm as [Hnm|HB]; [|right; exact HB]. exfalso. apply Hnm. rewrite Hl. apply tree_has_fresh; lia.
  Qed.
  (* C07 (Default mode, most recent r entries): an accepted proof yields exactly the newest
     min(r, n) entries of the true account, newest first *)
  Theorem history_recent_sound E p rs r : hp_ok p -> 1 <= n -> n <= E -> E < 2 ^ 64 ->
    key_history_verify cfg vrf_check pk (root_hash cfg true t) E l p (HMostRecent r) false = Some rs ->
    (rs = map true_entry (map (fun i => n - N.of_nat i) (seq 0 (length rs))) /\ N.of_nat (length rs) = N.min r n) \/ Bad.
  Proof.
    clear tree_stale.
    intros (Pu & Pf) Hn HnE HE H. unfold key_history_verify in H.
    destruct (verify_history_shape E p (HMostRecent r)) as [[past future]|] eqn:Sh; [|discriminate].
    destruct (verify_updates _ _ _ _ _ _ None (hp_updates p)) as [results|] eqn:Vu; [|discriminate].
    destruct (forall3 _ past _ _) eqn:Fp; [|discriminate]. cbn [negb] in H.
    destruct (forall3 _ future _ _) eqn:Ff; [|discriminate]. cbn [negb] in H. injection H as <-.
    apply updates_sound in Vu; auto. destruct Vu as [[-> Hall]|]; [|now right].
    unfold verify_history_shape in Sh. set (vs := map up_version (hp_updates p)) in *.
    destruct vs as [|m vr] eqn:Evs; [discriminate|]. rewrite <- Evs in *.
    destruct (consecutive_decreasing vs) eqn:Cd; [|discriminate]. cbn [negb] in Sh.
    set (start_v := fold_left N.min vs m) in *. set (end_v := fold_left N.max vs m) in *.
    destruct (N.eqb_spec start_v 0) as [|Hs0]; [discriminate|]. destruct (E <? end_v) eqn:Ee; [discriminate|].
    destruct (r <? N.of_nat (length vs)) eqn:Er; [discriminate|]. apply N.ltb_ge in Er.
    assert (Hpar : N.of_nat (length vs) < r -> start_v = 1).
    { intros Hlt. apply N.ltb_lt in Hlt. rewrite Hlt in Sh. destruct (N.eqb_spec start_v 1); [assumption | discriminate]. }
    assert (Sh' : match get_marker_versions start_v end_v E with
                  | None => None
                  | Some (past0, future0) =>
                    if negb (Nat.eqb (length past0) (length (hp_past_vrf p))) then None
                    else if negb (Nat.eqb (length (hp_past_vrf p)) (length (hp_past p))) then None
                    else if negb (Nat.eqb (length future0) (length (hp_future_vrf p))) then None
                    else if negb (Nat.eqb (length (hp_future_vrf p)) (length (hp_future p))) then None
                    else Some (past0, future0)
                  end = Some (past, future)).
    { destruct (N.of_nat (length vs) <? r); [destruct (start_v =? 1); [exact Sh | discriminate] | exact Sh]. }
    clear Sh.
    destruct (get_marker_versions start_v end_v E) as [[pa fu]|] eqn:Gm; [|discriminate].
    assert (Hfu : future = fu).
    { repeat match type of Sh' with (if ?c then None else _) = _ => destruct c; [discriminate|] end. congruence. }
    subst fu.
    pose proof (consecutive_shape vs Cd m vr Evs) as Hshape.
    assert (Hm_in : In m vs) by (rewrite Evs; now left).
    assert (Hend : end_v = m).
    { unfold end_v. apply fold_max_bound. intros v Hv. destruct (In_nth _ _ 0 Hv) as (i & Hi & <-). specialize (Hshape i Hi). lia. }
    assert (Hpos : (0 < length vs)%nat) by (rewrite Evs; simpl; lia).
    (* the smallest version is the last one: m - (len - 1) *)
    assert (Hstart : start_v + N.of_nat (length vs - 1) = m).
    { pose proof (Hshape (length vs - 1)%nat ltac:(lia)) as Hlast.
      destruct (fold_min_le vs m) as [_ G]. fold start_v in G.
      specialize (G (nth (length vs - 1) vs 0) ltac:(apply nth_In; lia)).
      destruct (fold_min_in vs m) as [Hmin|Hmin]; fold start_v in Hmin.
      - lia.
      - destruct (In_nth _ _ 0 Hmin) as (i & Hi & Hnth). specialize (Hshape i Hi). lia. }
    assert (Hmn' : m <= n).
    { assert (Hin : In m (map up_version (hp_updates p))) by exact Hm_in.
      apply in_map_iff in Hin. destruct Hin as (u & <- & Hu). apply Hall. exact Hu. }
    destruct (N.eq_dec m n) as [Heq|Hne].
    - left. rewrite map_length. split.
      + rewrite <- Heq. rewrite <- map_map with (f := up_version) (g := true_entry). fold vs. f_equal.
        apply (nth_ext _ _ 0 0).
        * rewrite map_length, seq_length. unfold vs. rewrite map_length. reflexivity.
        * intros i Hi. specialize (Hshape i Hi).
          assert (Hi' : (i < length (hp_updates p))%nat) by (unfold vs in Hi; rewrite map_length in Hi; exact Hi).
          rewrite (nth_indep (map (fun i0 => m - N.of_nat i0) (seq 0 (length (hp_updates p)))) 0 (m - N.of_nat 0)) by (rewrite map_length, seq_length; exact Hi').
          rewrite (map_nth (fun i0 => m - N.of_nat i0)). rewrite seq_nth by exact Hi'. simpl. lia.
      + assert (Hl : length (hp_updates p) = length vs) by (unfold vs; rewrite map_length; reflexivity). rewrite Hl.
        destruct (N.lt_ge_cases (N.of_nat (length vs)) r) as [Hlt|Hge].
        * specialize (Hpar Hlt). lia.
        * lia.
    - apply marker_future_of in Gm. rewrite Hend in Gm.
      assert (Hm1 : 1 <= m) by lia.
      assert (Hnext : In (m + 1) future) by (rewrite Gm; apply MarkerFacts.next_is_future; lia).
      destruct (forall3_In _ _ _ _ Ff (m + 1) Hnext) as (vp & np & Hnp & Hv).
      unfold verify_nonexistence in Hv. apply andb_true_iff in Hv. destruct Hv as [Hl Hnm].
      apply verify_label_label in Hl; [|lia]. destruct (nlabel_full true (m + 1)) as (F1 & F2 & F3).
      rewrite Forall_forall in Pf. specialize (Pf np Hnp).
      apply (nonmem_sound_b cfg Bad B) in Hnm; auto; [|rewrite Hl; exact F2].
      destruct Hnm as [Hnm|HB]; [|right; exact HB]. exfalso. apply Hnm. rewrite Hl. apply tree_has_fresh; lia.
  Qed.

  (* ---------------------------------------------------------------- AllowMissingValues (C07) *)

  (* the stale leaf of version v was inserted together with version v+1 and carries its epoch *)
  Hypothesis tree_stale_epoch : forall y v, v < 2 ^ 64 -> In y (leaves t) -> lf_label y = nlabel_of false v ->
    lf_value y = c_stale_value cfg /\ lf_epoch y = ep_of (v + 1).
  Hypothesis stale_D32 : D32 (c_stale_value cfg).
  Hypothesis tree_epochs_u64 : forall y, In y (leaves t) -> lf_epoch y < 2 ^ 64.

  Lemma chain_leaf fresh v vp mp : v < 2 ^ 64 -> mp_ok mp ->
    verify_existence cfg vrf_check pk (root_hash cfg true t) l fresh v vp mp = true ->
    (exists c e, In (LF (nlabel_of fresh v) c e) (leaves t) /\ mp_hash_val mp = c_leaf_hash cfg c e /\ D32 c) \/ Bad.
  Proof.
    clear tree_stale.
    clear tree_stale_epoch.
    intros Hv64 Hmp H. unfold verify_existence in H. apply andb_true_iff in H. destruct H as [Hl Hm].
    apply verify_label_label in Hl; [|exact Hv64].
    assert (Hroot : tlabel t = nl_root /\ is_leaf t = false).
    { destruct t; simpl in t_wf; [discriminate|]. apply andb_true_iff in t_wf. destruct t_wf as [W _].
      apply andb_true_iff in W. destruct W as [W _]. apply nl_eqb_eq in W. auto. }
    destruct Hroot as [Hr Hlf].
    destruct (mem_sound_b cfg Bad B t mp t_ok Hr Hlf Hmp Hm) as [Ho|]; [|now right].
    destruct (nlabel_full fresh v) as (F1 & F2 & F3).
    destruct Ho as [A HA HlA HvA|l0 le mde a b HS H1 H2 HlE HvE].
    2:{ apply (b_lvalue_inj _ _ B) in HlE; [|rewrite Hl; exact F3|apply (b_empty_label_LW _ _ B)].
      destruct HlE as [HlE|]; [|now right]. exfalso.
      pose proof (full_label_canonical _ F2 F1) as Hc. rewrite <- Hl, HlE, (b_empty_label_not_canonical _ _ B) in Hc. discriminate. }
    pose proof (Sub_ok A t HA t_ok) as HokA.
    apply (b_lvalue_inj _ _ B) in HlA; [|rewrite Hl; exact F3|destruct A; simpl in HokA; tauto].
    destruct HlA as [HlA|]; [|now right].
    destruct (full_label_is_leaf t A t_wf HA ltac:(rewrite <- HlA, Hl; exact F1)) as (ca & ea & EA).
    rewrite EA in HA, HvA, HokA. apply Sub_leaf_in in HA. simpl in HvA, HokA. destruct HokA as [_ Dca].
    left. exists ca, ea. split; [|split; [exact HvA | exact Dca]].
    assert (E0 : tlabel A = nlabel_of fresh v) by congruence. rewrite <- E0. exact HA.
  Qed.

  Definition up_ok2 (u : update_proof) : Prop :=
    up_ok u /\ match up_prev u with Some pm => mp_ok pm | None => True end.
  Definition hp_ok2 (p : history_proof) : Prop :=
    Forall up_ok2 (hp_updates p) /\ Forall nmp_ok (hp_future p).

  (* what a client that opted in may be told about version v: the truth, or the tombstone with the
     true epoch - except for version 1, whose epoch nothing binds once the value check is skipped
     (the known finding K2) *)
  Definition amrel (r tr : verify_result) : Prop :=
    r_version r = r_version tr /\
    ((r_value r = r_value tr /\ r_epoch r = r_epoch tr) \/
     (r_value r = GenConsts.TOMBSTONE /\ (r_epoch r = r_epoch tr \/ r_version r = 1))).

  Definition entry_of (u : update_proof) : verify_result := VRes (up_epoch u) (up_version u) (up_value u).

  Lemma single_update_sound_am u res : up_ok2 u ->
    verify_single_update cfg vrf_check pk (root_hash cfg true t) l true u = Some res ->
    (res = entry_of u /\ 1 <= up_version u /\ up_version u <= n /\ amrel (entry_of u) (true_entry (up_version u))) \/ Bad.
  Proof.
    clear tree_stale.
    intros [(U1 & U2 & U3 & U4 & U6) U5] H. unfold verify_single_update in H. cbn [andb] in H.
    destruct (is_tombstone (up_value u)) eqn:Et.
    - (* the value check is skipped *)
      destruct (verify_existence _ _ _ _ _ _ _ _ _) eqn:Ex; [|discriminate]. cbn [negb] in H.
      destruct (chain_leaf true (up_version u) _ _ U6 U1 Ex) as [(c & e & Hin & _ & _)|]; [|now right].
      destruct (tree_fresh _ (up_version u) U6 Hin eq_refl) as (V1 & V2 & _ & _).
      unfold is_tombstone in Et. apply bytes_eqb_eq in Et.
      destruct (N.leb_spec (up_version u) 1) as [Hv1|Hv1].
      + injection H as <-. left. split; [reflexivity|]. split; [exact V1|]. split; [exact V2|].
        split; [reflexivity|]. right. split; [exact Et|]. right. cbn [entry_of r_version]. lia.
      + destruct (up_prev u) as [pm|]; [|discriminate]. destruct (up_prev_vrf u) as [pv|]; [|discriminate].
        destruct (verify_existence_with_commitment _ _ _ _ _ _ _ _ _ _ _) eqn:Ec; [|discriminate]. injection H as <-.
        unfold verify_existence_with_commitment in Ec. apply andb_true_iff in Ec. destruct Ec as [Hh Ec]. apply bytes_eqb_eq in Hh.
        destruct (chain_leaf false (up_version u - 1) _ _ ltac:(lia) U5 Ec) as [(c2 & e2 & Hin2 & Hv & Dc)|]; [|now right].
        destruct (tree_stale_epoch _ (up_version u - 1) ltac:(lia) Hin2 eq_refl) as [Sv Se]. cbn [lf_value lf_epoch] in Sv, Se.
        rewrite <- Hh in Hv.
        assert (He : e2 < 2 ^ 64) by (rewrite Se; apply eps_u64).
        apply (b_leaf_inj _ _ B) in Hv; auto. destruct Hv as [[_ Hee]|]; [|now right].
        left. split; [reflexivity|]. split; [exact V1|]. split; [exact V2|]. split; [reflexivity|].
        right. split; [exact Et|]. left. cbn [entry_of r_epoch true_entry]. rewrite Hee, Se. f_equal. lia.
    - destruct (verify_existence_with_val _ _ _ _ _ _ _ _ _ _ _ _) eqn:Ex; [|discriminate]. cbn [negb] in H.
      apply existence_with_val_sound in Ex; auto. destruct Ex as [(V1 & V2 & V3 & V4)|]; [|now right].
      assert (Hres : res = entry_of u).
      { unfold entry_of. destruct (up_version u <=? 1); [congruence|]. destruct (up_prev u), (up_prev_vrf u); try discriminate.
        destruct (verify_existence_with_commitment _ _ _ _ _ _ _ _ _ _ _); congruence. }
      left. split; [exact Hres|]. split; [exact V1|]. split; [exact V2|]. split; [reflexivity|]. left.
      cbn [entry_of r_value r_epoch true_entry]. split; assumption.
  Qed.

  Lemma updates_sound_am us : forall prev rs, Forall up_ok2 us ->
    verify_updates cfg vrf_check pk (root_hash cfg true t) l true prev us = Some rs ->
    (rs = map entry_of us /\ (forall u, In u us -> 1 <= up_version u /\ up_version u <= n) /\
     Forall (fun u => amrel (entry_of u) (true_entry (up_version u))) us) \/ Bad.
  Proof.
    clear tree_stale.
    induction us as [|u us IH]; intros prev rs Hok H; simpl in H.
    - injection H as <-. left. split; [reflexivity|]. split; [intros u []|constructor].
    - inversion Hok as [|? ? Hu Hus]; subst.
      destruct (match prev with Some pe => pe <? up_epoch u | None => false end); [discriminate|].
      destruct (verify_single_update _ _ _ _ _ _ u) as [res|] eqn:E1; [|discriminate].
      destruct (verify_updates _ _ _ _ _ _ (Some (up_epoch u)) us) as [rest|] eqn:E2; [|discriminate].
      injection H as <-. apply single_update_sound_am in E1; auto. destruct E1 as [(-> & V1 & V2 & V3)|]; [|now right].
      apply IH in E2; auto. destruct E2 as [(-> & Hall & Hrel)|]; [|now right]. left. split; [reflexivity|]. split.
      + intros u' [<-|Hin]; auto.
      + constructor; assumption.
  Qed.

  Lemma rel_all us : Forall (fun u => amrel (entry_of u) (true_entry (up_version u))) us ->
    Forall2 amrel (map entry_of us) (map true_entry (map up_version us)).
  Proof. clear tree_stale. induction 1; cbn [map]; constructor; assumption. Qed.

  Theorem history_complete_sound_am E p rs : hp_ok2 p -> 1 <= n -> n <= E -> E < 2 ^ 64 ->
    key_history_verify cfg vrf_check pk (root_hash cfg true t) E l p HComplete true = Some rs ->
    Forall2 amrel rs (map true_entry (map (fun i => n - N.of_nat i) (seq 0 (N.to_nat n)))) \/ Bad.
  Proof.
    clear tree_stale.
    intros (Pu & Pf) Hn HnE HE H. unfold key_history_verify in H.
    destruct (verify_history_shape E p HComplete) as [[past future]|] eqn:Sh; [|discriminate].
    destruct (verify_updates _ _ _ _ _ _ None (hp_updates p)) as [results|] eqn:Vu; [|discriminate].
    destruct (forall3 _ past _ _) eqn:Fp; [|discriminate]. cbn [negb] in H.
    destruct (forall3 _ future _ _) eqn:Ff; [|discriminate]. cbn [negb] in H. injection H as <-.
    apply updates_sound_am in Vu; auto. destruct Vu as [(-> & Hall & Hrel)|]; [|now right].
    (* the shape checks *)
    unfold verify_history_shape in Sh. set (vs := map up_version (hp_updates p)) in *.
    destruct vs as [|m vr] eqn:Evs; [discriminate|]. rewrite <- Evs in *.
    destruct (consecutive_decreasing vs) eqn:Cd; [|discriminate]. cbn [negb] in Sh.
    set (start_v := fold_left N.min vs m) in *. set (end_v := fold_left N.max vs m) in *.
    destruct (start_v =? 0); [discriminate|]. destruct (E <? end_v) eqn:Ee; [discriminate|].
    destruct (N.eqb_spec start_v 1) as [Hs1|]; [|discriminate]. cbn [negb] in Sh.
    destruct (get_marker_versions start_v end_v E) as [[pa fu]|] eqn:Gm; [|discriminate].
    assert (Hfu : future = fu).
    { repeat match type of Sh with (if ?c then None else _) = _ => destruct c; [discriminate|] end. congruence. }
    subst fu.
    (* vs = [m; m-1; ...; 1] *)
    pose proof (consecutive_shape vs Cd m vr Evs) as Hshape.
    assert (Hm_in : In m vs) by (rewrite Evs; now left).
    assert (Hend : end_v = m).
    { unfold end_v. apply fold_max_bound. intros v Hv. destruct (In_nth _ _ 0 Hv) as (i & Hi & <-). specialize (Hshape i Hi). lia. }
    assert (Hlen : N.of_nat (length vs) = m).
    { assert (Hpos : (0 < length vs)%nat) by (rewrite Evs; simpl; lia).
      pose proof (Hshape (length vs - 1)%nat ltac:(lia)) as Hlast.
      destruct (fold_min_le vs m) as [_ G]. fold start_v in G.
      specialize (G (nth (length vs - 1) vs 0) ltac:(apply nth_In; lia)).
      destruct (fold_min_in vs m) as [Hmin|Hmin]; fold start_v in Hmin.
      - lia.
      - destruct (In_nth _ _ 0 Hmin) as (i & Hi & Hnth). specialize (Hshape i Hi). lia. }
    (* the newest reported version is the latest: otherwise its successor is a future marker shown absent *)
    assert (Hmn' : m <= n).
    { assert (Hin : In m (map up_version (hp_updates p))) by exact Hm_in.
      apply in_map_iff in Hin. destruct Hin as (u & <- & Hu). apply Hall. exact Hu. }
    destruct (N.eq_dec m n) as [Heq|Hne].
    - left. rewrite <- Heq.
      assert (Hvs : vs = map (fun i => m - N.of_nat i) (seq 0 (N.to_nat m))).
      { apply (nth_ext _ _ 0 0).
        + rewrite map_length, seq_length. lia.
        + intros i Hi. specialize (Hshape i Hi).
          rewrite (nth_indep (map (fun i0 => m - N.of_nat i0) (seq 0 (N.to_nat m))) 0 (m - N.of_nat 0)) by (rewrite map_length, seq_length; lia).
          rewrite (map_nth (fun i0 => m - N.of_nat i0)). rewrite seq_nth by lia. simpl. lia. }
      rewrite <- Hvs. unfold vs. apply rel_all. exact Hrel.
    - (* m < n: version m+1 is a future marker of m, shown absent, but the tree holds it *)
      apply marker_future_of in Gm. rewrite Hend in Gm.
      assert (Hm1 : 1 <= m) by (rewrite <- Hlen, Evs; cbn [length]; lia).
      assert (Hnext : In (m + 1) future) by (rewrite Gm; apply MarkerFacts.next_is_future; lia).
      destruct (forall3_In _ _ _ _ Ff (m + 1) Hnext) as (vp & np & Hnp & Hv).
      unfold verify_nonexistence in Hv. apply andb_true_iff in Hv. destruct Hv as [Hl Hnm].
      apply verify_label_label in Hl; [|lia]. destruct (nlabel_full true (m + 1)) as (F1 & F2 & F3).
      rewrite Forall_forall in Pf. specialize (Pf np Hnp).
      apply (nonmem_sound_b cfg Bad B) in Hnm; auto; [|rewrite Hl; exact F2].
      destruct Hnm as [Hnm|HB]; [|right; exact HB]. exfalso. apply Hnm. rewrite Hl. apply tree_has_fresh; lia.
  Qed.

  Theorem history_recent_sound_am E p rs r : hp_ok2 p -> 1 <= n -> n <= E -> E < 2 ^ 64 ->
    key_history_verify cfg vrf_check pk (root_hash cfg true t) E l p (HMostRecent r) true = Some rs ->
    (Forall2 amrel rs (map true_entry (map (fun i => n - N.of_nat i) (seq 0 (length rs)))) /\ N.of_nat (length rs) = N.min r n) \/ Bad.
  Proof.
    clear tree_stale.
    intros (Pu & Pf) Hn HnE HE H. unfold key_history_verify in H.
    destruct (verify_history_shape E p (HMostRecent r)) as [[past future]|] eqn:Sh; [|discriminate].
    destruct (verify_updates _ _ _ _ _ _ None (hp_updates p)) as [results|] eqn:Vu; [|discriminate].
    destruct (forall3 _ past _ _) eqn:Fp; [|discriminate]. cbn [negb] in H.
    destruct (forall3 _ future _ _) eqn:Ff; [|discriminate]. cbn [negb] in H. injection H as <-.
    apply updates_sound_am in Vu; auto. destruct Vu as [(-> & Hall & Hrel)|]; [|now right].
    unfold verify_history_shape in Sh. set (vs := map up_version (hp_updates p)) in *.
    destruct vs as [|m vr] eqn:Evs; [discriminate|]. rewrite <- Evs in *.
    destruct (consecutive_decreasing vs) eqn:Cd; [|discriminate]. cbn [negb] in Sh.
    set (start_v := fold_left N.min vs m) in *. set (end_v := fold_left N.max vs m) in *.
    destruct (N.eqb_spec start_v 0) as [|Hs0]; [discriminate|]. destruct (E <? end_v) eqn:Ee; [discriminate|].
    destruct (r <? N.of_nat (length vs)) eqn:Er; [discriminate|]. apply N.ltb_ge in Er.
    assert (Hpar : N.of_nat (length vs) < r -> start_v = 1).
    { intros Hlt. apply N.ltb_lt in Hlt. rewrite Hlt in Sh. destruct (N.eqb_spec start_v 1); [assumption | discriminate]. }
    assert (Sh' : match get_marker_versions start_v end_v E with
                  | None => None
                  | Some (past0, future0) =>
                    if negb (Nat.eqb (length past0) (length (hp_past_vrf p))) then None
                    else if negb (Nat.eqb (length (hp_past_vrf p)) (length (hp_past p))) then None
                    else if negb (Nat.eqb (length future0) (length (hp_future_vrf p))) then None
                    else if negb (Nat.eqb (length (hp_future_vrf p)) (length (hp_future p))) then None
                    else Some (past0, future0)
                  end = Some (past, future)).
    { destruct (N.of_nat (length vs) <? r); [destruct (start_v =? 1); [exact Sh | discriminate] | exact Sh]. }
    clear Sh.
    destruct (get_marker_versions start_v end_v E) as [[pa fu]|] eqn:Gm; [|discriminate].
    assert (Hfu : future = fu).
    { repeat match type of Sh' with (if ?c then None else _) = _ => destruct c; [discriminate|] end. congruence. }
    subst fu.
    pose proof (consecutive_shape vs Cd m vr Evs) as Hshape.
    assert (Hm_in : In m vs) by (rewrite Evs; now left).
    assert (Hend : end_v = m).
    { unfold end_v. apply fold_max_bound. intros v Hv. destruct (In_nth _ _ 0 Hv) as (i & Hi & <-). specialize (Hshape i Hi). lia. }
    assert (Hpos : (0 < length vs)%nat) by (rewrite Evs; simpl; lia).
    (* the smallest version is the last one: m - (len - 1) *)
    assert (Hstart : start_v + N.of_nat (length vs - 1) = m).
    { pose proof (Hshape (length vs - 1)%nat ltac:(lia)) as Hlast.
      destruct (fold_min_le vs m) as [_ G]. fold start_v in G.
      specialize (G (nth (length vs - 1) vs 0) ltac:(apply nth_In; lia)).
      destruct (fold_min_in vs m) as [Hmin|Hmin]; fold start_v in Hmin.
      - lia.
      - destruct (In_nth _ _ 0 Hmin) as (i & Hi & Hnth). specialize (Hshape i Hi). lia. }
    assert (Hmn' : m <= n).
    { assert (Hin : In m (map up_version (hp_updates p))) by exact Hm_in.
      apply in_map_iff in Hin. destruct Hin as (u & <- & Hu). apply Hall. exact Hu. }
    destruct (N.eq_dec m n) as [Heq|Hne].
    - left. rewrite map_length. split.
      + rewrite <- Heq.
        assert (Hvs : vs = map (fun i => m - N.of_nat i) (seq 0 (length (hp_updates p)))).
        { apply (nth_ext _ _ 0 0).
          * rewrite map_length, seq_length. unfold vs. rewrite map_length. reflexivity.
          * intros i Hi. specialize (Hshape i Hi).
            assert (Hi' : (i < length (hp_updates p))%nat) by (unfold vs in Hi; rewrite map_length in Hi; exact Hi).
            rewrite (nth_indep (map (fun i0 => m - N.of_nat i0) (seq 0 (length (hp_updates p)))) 0 (m - N.of_nat 0)) by (rewrite map_length, seq_length; exact Hi').
            rewrite (map_nth (fun i0 => m - N.of_nat i0)). rewrite seq_nth by exact Hi'. simpl. lia. }
        rewrite <- Hvs. unfold vs. apply rel_all. exact Hrel.
      + assert (Hl : length (hp_updates p) = length vs) by (unfold vs; rewrite map_length; reflexivity). rewrite Hl.
        destruct (N.lt_ge_cases (N.of_nat (length vs)) r) as [Hlt|Hge].
        * specialize (Hpar Hlt). lia.
        * lia.
    - apply marker_future_of in Gm. rewrite Hend in Gm.
      assert (Hm1 : 1 <= m) by lia.
      assert (Hnext : In (m + 1) future) by (rewrite Gm; apply MarkerFacts.next_is_future; lia).
      destruct (forall3_In _ _ _ _ Ff (m + 1) Hnext) as (vp & np & Hnp & Hv).
      unfold verify_nonexistence in Hv. apply andb_true_iff in Hv. destruct Hv as [Hl Hnm].
      apply verify_label_label in Hl; [|lia]. destruct (nlabel_full true (m + 1)) as (F1 & F2 & F3).
      rewrite Forall_forall in Pf. specialize (Pf np Hnp).
      apply (nonmem_sound_b cfg Bad B) in Hnm; auto; [|rewrite Hl; exact F2].
      destruct Hnm as [Hnm|HB]; [|right; exact HB]. exfalso. apply Hnm. rewrite Hl. apply tree_has_fresh; lia.
  Qed.

  (* ---------------------------------------------------------------- late or missing stale markers (C07, second sentence) *)

  Lemma updates_each us : forall am prev rs,
    verify_updates cfg vrf_check pk (root_hash cfg true t) l am prev us = Some rs ->
    forall u, In u us -> exists res, verify_single_update cfg vrf_check pk (root_hash cfg true t) l am u = Some res.
  Proof.
    clear tree_stale.
    induction us as [|u0 us IH]; intros am prev rs H u Hu; [destruct Hu|]. simpl in H.
    destruct (match prev with Some pe => pe <? up_epoch u0 | None => false end); [discriminate|].
    destruct (verify_single_update _ _ _ _ _ _ u0) as [res|] eqn:E1; [|discriminate].
    destruct (verify_updates _ _ _ _ _ _ (Some (up_epoch u0)) us) as [rest|] eqn:E2; [|discriminate].
    destruct Hu as [<-|Hu]; [eauto | apply (IH am _ rest E2 u Hu)].
  Qed.

  (* an update for a version above 1 that passes in Default mode shows that the tree holds the
     stale leaf of its predecessor, stamped with the version's own (true) epoch *)
  Lemma single_update_needs_stale u res : up_ok2 u -> 1 < up_version u ->
    verify_single_update cfg vrf_check pk (root_hash cfg true t) l false u = Some res ->
    In (LF (nlabel_of false (up_version u - 1)) (c_stale_value cfg) (ep_of (up_version u))) (leaves t) \/ Bad.
  Proof.
    clear tree_stale.
    clear tree_stale_epoch.
    intros [(U1 & U2 & U3 & U4 & U6) U5] Hv H. unfold verify_single_update in H. cbn [andb] in H.
    destruct (verify_existence_with_val _ _ _ _ _ _ _ _ _ _ _ _) eqn:Ex; [|discriminate]. cbn [negb] in H.
    apply existence_with_val_sound in Ex; auto. destruct Ex as [(V1 & V2 & V3 & V4)|]; [|now right].
    assert (E1 : (up_version u <=? 1) = false) by (apply N.leb_gt; exact Hv). rewrite E1 in H.
    destruct (up_prev u) as [pm|]; [|discriminate]. destruct (up_prev_vrf u) as [pv|]; [|discriminate].
    destruct (verify_existence_with_commitment _ _ _ _ _ _ _ _ _ _ _) eqn:Ec; [|discriminate].
    unfold verify_existence_with_commitment in Ec. apply andb_true_iff in Ec. destruct Ec as [Hh Ec]. apply bytes_eqb_eq in Hh.
    destruct (chain_leaf false (up_version u - 1) _ _ ltac:(lia) U5 Ec) as [(c2 & e2 & Hin2 & Hval & Dc)|]; [|now right].
    rewrite <- Hh in Hval.
    destruct (N.ltb_spec e2 (2 ^ 64)) as [He2|He2].
    - apply (b_leaf_inj _ _ B) in Hval; auto. destruct Hval as [[Hc Hee]|]; [|now right].
      left. rewrite Hc, <- V4, Hee. exact Hin2.
    - (* a leaf epoch outside u64 cannot be hashed to the same digest as a u64 one without a collision: excluded by the tree's typing *)
      left. exfalso. apply (N.lt_irrefl (2 ^ 64)). eapply N.le_lt_trans; [exact He2|]. apply (tree_epochs_u64 _ Hin2).
  Qed.

  (* C07, second sentence: if a COMPLETE history verifies in Default mode, then for every version
     v >= 2 the tree holds the stale leaf of v-1 stamped with the epoch of v.  Contrapositive: on a
     tree that retired a superseded version late or never, history verification fails. *)
  Theorem history_needs_timely_stale E p rs : hp_ok2 p -> 1 <= n -> n <= E -> E < 2 ^ 64 ->
    key_history_verify cfg vrf_check pk (root_hash cfg true t) E l p HComplete false = Some rs ->
    (forall v, 2 <= v -> v <= n -> In (LF (nlabel_of false (v - 1)) (c_stale_value cfg) (ep_of v)) (leaves t)) \/ Bad.
  Proof.
    clear tree_stale.
    clear tree_stale_epoch.
    intros [Pu Pf] Hn HnE HE H.
    assert (Pu1 : Forall up_ok (hp_updates p)) by (eapply Forall_impl; [|exact Pu]; intros u Hu; apply Hu).
    destruct (history_complete_sound E p rs (conj Pu1 Pf) Hn HnE HE H) as [Hrs|]; [|now right].
    unfold key_history_verify in H.
    destruct (verify_history_shape E p HComplete) as [[past future]|]; [|discriminate].
    destruct (verify_updates _ _ _ _ _ _ None (hp_updates p)) as [results|] eqn:Vu; [|discriminate].
    destruct (forall3 _ past _ _); [|discriminate]. cbn [negb] in H. destruct (forall3 _ future _ _); [|discriminate]. cbn [negb] in H.
    injection H as <-.
    pose proof Vu as Vu2. apply updates_sound in Vu2; auto. destruct Vu2 as [[Hmap _]|]; [|now right].
    (* the versions of the updates are n, n-1, ..., 1 *)
    assert (Hvs : map up_version (hp_updates p) = map (fun i => n - N.of_nat i) (seq 0 (N.to_nat n))).
    { assert (E0 : map r_version (map (fun u => true_entry (up_version u)) (hp_updates p)) =
                   map r_version (map true_entry (map (fun i => n - N.of_nat i) (seq 0 (N.to_nat n))))) by (rewrite <- Hmap, <- Hrs; reflexivity).
      rewrite !map_map in E0. cbn [true_entry r_version] in E0. exact E0. }
    assert (G : forall v, 2 <= v -> v <= n -> In (LF (nlabel_of false (v - 1)) (c_stale_value cfg) (ep_of v)) (leaves t) \/ Bad).
    { intros v Hv2 Hvn.
      assert (Hin : In v (map up_version (hp_updates p))).
      { rewrite Hvs. apply in_map_iff. exists (N.to_nat (n - v)). split; [lia|]. apply in_seq. lia. }
      apply in_map_iff in Hin. destruct Hin as (u & Eu & Hu).
      destruct (updates_each _ _ _ _ Vu u Hu) as [res Hres].
      rewrite Forall_forall in Pu. rewrite <- Eu. apply (single_update_needs_stale u res (Pu u Hu) ltac:(lia) Hres). }
    (* collect *)
    clear - G. assert (K : forall k, (forall v, 2 <= v -> v <= n -> v < 2 + N.of_nat k -> In (LF (nlabel_of false (v - 1)) (c_stale_value cfg) (ep_of v)) (leaves t)) \/ Bad).
    { induction k as [|k IH]; [left; intros v H1 _ H3; lia|]. destruct IH as [IH|]; [|now right].
      destruct (N.le_gt_cases (2 + N.of_nat k) n) as [Hle|Hgt].
      - destruct (G (2 + N.of_nat k) ltac:(lia) Hle) as [Hk|]; [|now right]. left. intros v H1 H2 H3.
        destruct (N.eq_dec v (2 + N.of_nat k)) as [->|Hne]; [exact Hk | apply IH; lia].
      - left. intros v H1 H2 H3. apply IH; lia. }
    destruct (K (N.to_nat n)) as [K1|]; [|now right]. left. intros v H1 H2. apply K1; lia.
  Qed.

End LookupSound.

Lemma amrel_spelled r tr : amrel r tr <->
  r_version r = r_version tr /\
  ((r_value r = r_value tr /\ r_epoch r = r_epoch tr) \/
   (r_value r = GenConsts.TOMBSTONE /\ (r_epoch r = r_epoch tr \/ r_version r = 1))).
Proof. reflexivity. Qed.

Lemma stale_value_digest (H : bytes -> bytes) : (forall x, length (H x) = 32%nat) ->
  forall domain, D32 (c_stale_value (whatsapp H)) /\ D32 (c_stale_value (experimental H domain)).
Proof. intros HL domain. split; [apply HL | reflexivity]. Qed.

Lemma nonce_len_real (H : bytes -> bytes) : (forall x, length (H x) = 32%nat) ->
  forall domain key lb ver value,
    Len64 (c_commitment_nonce (whatsapp H) key lb ver value) /\ Len64 (c_commitment_nonce (experimental H domain) key lb ver value).
Proof.
  intros HL domain key lb ver value. unfold Len64. cbn [c_commitment_nonce whatsapp experimental]. rewrite !HL.
  assert (N.of_nat 32 < 2 ^ 64) by (vm_compute; reflexivity). split; assumption.
Qed.
