(* Both real configurations satisfy the Binding bundle (up to a collision of H; for the experimental
   configuration also up to a preimage of the all-zero digest). *)
From Coq Require Import List Bool Arith NArith Lia.
From Akd Require Import Bits NodeLabel NodeLabelFacts Hashing Tree TreeFacts HashingFacts Binding.
Import ListNotations.
Open Scope N_scope.

Lemma i2osp_pair_inj v n v' n' : Len64 v -> Len64 n -> Len64 v' -> Len64 n' ->
  i2osp_array v ++ i2osp_array n = i2osp_array v' ++ i2osp_array n' -> v = v' /\ n = n'.
Proof.
  unfold Len64, i2osp_array. intros Lv Ln Lv' Ln' E. rewrite <- !app_assoc in E.
  apply app_eq_len in E; [|now rewrite !length_be_bytes]. destruct E as [E1 E].
  apply be_bytes_inj in E1; [|exact Lv|exact Lv'].
  apply app_eq_len in E; [|lia]. destruct E as [-> E].
  apply app_eq_len in E; [|now rewrite !length_be_bytes]. destruct E as [_ ->]. auto.
Qed.

Section Bindings.
  Variable H : bytes -> bytes.
  Hypothesis H_len : forall x, length (H x) = 32%nat.

  Lemma w_leaf_inj c e c' e' : D32 c -> D32 c' -> e < 2 ^ 64 -> e' < 2 ^ 64 ->
    c_leaf_hash (whatsapp H) c e = c_leaf_hash (whatsapp H) c' e' -> (c = c' /\ e = e') \/ Collision H.
  Proof.
    intros Dc Dc' He He' E. rewrite !w_leaf in E. apply H_inj in E. destruct E as [E|]; [|now right]. left.
    apply app_eq_len in E; [|unfold D32 in *; congruence]. destruct E as [-> E]. split; [reflexivity|].
    unfold be64 in E. apply be_bytes_inj in E; auto.
  Qed.

  Lemma w_commit_inj v n v' n' : Len64 v -> Len64 n -> Len64 v' -> Len64 n' ->
    commit (whatsapp H) v n = commit (whatsapp H) v' n' -> (v = v' /\ n = n') \/ Collision H.
  Proof.
    intros L1 L2 L3 L4 E. unfold commit in E. cbn [c_hash whatsapp] in E.
    apply H_inj in E. destruct E as [E|]; [|now right]. left. now apply i2osp_pair_inj.
  Qed.

  Theorem whatsapp_binding : Binding (whatsapp H) (Collision H).
  Proof.
    constructor.
    - first [exact (w_parent_inj H H_len)|exact (w_parent_inj H)].
    - first [exact (w_lvalue_inj H H_len)|exact (w_lvalue_inj H)].
    - first [exact (w_leaf_not_parent H H_len)|exact (w_leaf_not_parent H)].
    - first [exact (w_root_inj H H_len)|exact (w_root_inj H)].
    - first [exact (w_empty_root_not_parent H H_len)|exact (w_empty_root_not_parent H)].
    - first [exact (w_empty_node_not_parent H H_len)|exact (w_empty_node_not_parent H)].
    - first [exact (w_leaf_not_empty_root H H_len)|exact (w_leaf_not_empty_root H)].
    - intros. apply H_len.
    - intros. apply H_len.
    - apply H_len.
    - apply H_len.
    - first [exact (w_empty_label_LW H H_len)|exact (w_empty_label_LW H)].
    - first [exact (w_empty_label_not_root H H_len)|exact (w_empty_label_not_root H)].
    - first [exact (w_empty_label_not_canonical H H_len)|exact (w_empty_label_not_canonical H)].
    - exact w_leaf_inj.
    - exact w_commit_inj.
    - intros. apply H_len.
  Qed.

  Variable domain : bytes.

  Lemma e_leaf_inj c e c' e' : D32 c -> D32 c' -> e < 2 ^ 64 -> e' < 2 ^ 64 ->
    c_leaf_hash (experimental H domain) c e = c_leaf_hash (experimental H domain) c' e' -> (c = c' /\ e = e') \/ BadE H.
  Proof.
    intros Dc Dc' He He' E. rewrite !e_leaf in E. apply H_inj in E. destruct E as [E|]; [|right; now left]. left.
    apply app_inv_head in E. apply app_eq_len in E; [|unfold D32 in *; congruence]. destruct E as [-> E]. split; [reflexivity|].
    unfold be64 in E. apply be_bytes_inj in E; auto.
  Qed.

  Lemma e_commit_inj v n v' n' : Len64 v -> Len64 n -> Len64 v' -> Len64 n' ->
    commit (experimental H domain) v n = commit (experimental H domain) v' n' -> (v = v' /\ n = n') \/ BadE H.
  Proof.
    intros L1 L2 L3 L4 E. unfold commit in E. cbn [c_hash experimental] in E.
    apply H_inj in E. destruct E as [E|]; [|right; now left]. left. apply app_inv_head in E. now apply i2osp_pair_inj.
  Qed.

  Theorem experimental_binding : Binding (experimental H domain) (BadE H).
  Proof.
    constructor.
    - first [exact (e_parent_inj H H_len domain)|exact (e_parent_inj H domain)|exact (e_parent_inj H)].
    - first [exact (e_lvalue_inj H H_len domain)|exact (e_lvalue_inj H domain)|exact (e_lvalue_inj H)].
    - first [exact (e_leaf_not_parent H H_len domain)|exact (e_leaf_not_parent H domain)|exact (e_leaf_not_parent H)].
    - first [exact (e_root_inj H H_len domain)|exact (e_root_inj H domain)|exact (e_root_inj H)].
    - intros a la b lb _ _ _ _ E. exact (e_zero_not_parent H domain _ _ _ _ E).
    - intros a la b lb _ _ _ _ E. exact (e_zero_not_parent H domain _ _ _ _ E).
    - first [exact (e_leaf_not_empty_root H H_len domain)|exact (e_leaf_not_empty_root H domain)|exact (e_leaf_not_empty_root H)].
    - intros. apply H_len.
    - intros. apply H_len.
    - apply zero_D32.
    - apply zero_D32.
    - first [exact (e_empty_label_LW H H_len domain)|exact (e_empty_label_LW H domain)|exact (e_empty_label_LW H)].
    - first [exact (e_empty_label_not_root H H_len domain)|exact (e_empty_label_not_root H domain)|exact (e_empty_label_not_root H)].
    - first [exact (e_empty_label_not_canonical H H_len domain)|exact (e_empty_label_not_canonical H domain)|exact (e_empty_label_not_canonical H)].
    - exact e_leaf_inj.
    - exact e_commit_inj.
    - intros. apply H_len.
  Qed.
End Bindings.
