(* Tree-level model (layer L3): compressed binary trie with the epoch annotations of TreeNode,
   node hashing (tree_node.rs:380-404,499-521), membership / non-membership proof generation
   (append_only_zks.rs:803-869,1240-1315) and verification (akd_core/src/verify/base.rs:38-139).
   Executable; no proofs in this file. *)
From Coq Require Import List Bool Arith NArith Lia.
From Akd Require Import Bits NodeLabel Hashing.
Import ListNotations.
Open Scope N_scope.

(* Leaf: label, stored hash (= the value commitment), last_epoch.
   Node (root or interior): label, last_epoch, min_descendant_epoch, left and right child. *)
Inductive tree :=
| Leaf (l : nlabel) (v : bytes) (e : N)
| Node (l : nlabel) (le mde : N) (a b : option tree).

Definition tlabel (t : tree) : nlabel := match t with Leaf l _ _ => l | Node l _ _ _ _ => l end.
Definition t_last_epoch (t : tree) : N := match t with Leaf _ _ e => e | Node _ le _ _ _ => le end.
Definition t_min_desc (t : tree) : N := match t with Leaf _ _ e => e | Node _ _ mde _ _ => mde end.
Definition is_leaf (t : tree) : bool := match t with Leaf _ _ _ => true | _ => false end.
Definition child (t : tree) (dir : bool) : option tree :=
  match t with Leaf _ _ _ => None | Node _ _ _ a b => if dir then b else a end.

Definition empty_root : tree := Node nl_root 0 0 None None.

Section Hashed.
  Variable cfg : config.
  (* NodeHashingMode: true = WithLeafEpoch (directory), false = NoLeafEpoch (auditor) *)
  Variable with_epoch : bool.

  (* the stored [hash] field of a node; node_to_azks_value of its children *)
  Fixpoint hashval (t : tree) : bytes :=
    match t with
    | Leaf _ v _ => v
    | Node _ _ _ None None => c_empty_root_value cfg   (* only the empty root *)
    | Node _ _ _ a b =>
      let cv (o : option tree) :=
          match o with
          | None => c_empty_node_hash cfg
          | Some (Leaf _ v e) => if with_epoch then c_leaf_hash cfg v e else v
          | Some c => hashval c
          end in
      let cl (o : option tree) := match o with None => c_empty_label cfg | Some c => tlabel c end in
      c_parent_hash cfg (cv a) (lvalue cfg (cl a)) (cv b) (lvalue cfg (cl b))
    end.

  (* node_to_azks_value(Some(node), mode) *)
  Definition node_value (t : tree) : bytes :=
    match t with
    | Leaf _ v e => if with_epoch then c_leaf_hash cfg v e else v
    | _ => hashval t
    end.

  Definition root_hash (t : tree) : bytes := c_root_hash_from_val cfg (hashval t).
End Hashed.

(* ---------------------------------------------------------------- proofs *)

(* SiblingProof: the parent's label, the sibling element, the direction of the path child
   (false = Left, true = Right) *)
Record sibling_proof := SP { sp_label : nlabel; sp_sib_label : nlabel; sp_sib_val : bytes; sp_dir : bool }.
Record membership_proof := MP { mp_label : nlabel; mp_hash_val : bytes; mp_sibs : list sibling_proof }.
Record nonmembership_proof := NMP {
  np_label : nlabel;
  np_longest_prefix : nlabel;
  np_child0 : nlabel * bytes;
  np_child1 : nlabel * bytes;
  np_mp : membership_proof }.

Section Verify.
  Variable cfg : config.

  Definition mstep (sp : sibling_proof) (cur : nlabel * bytes) : nlabel * bytes :=
    let '(cl, cv) := cur in
    let sl := lvalue cfg (sp_sib_label sp) in
    (sp_label sp,
     if sp_dir sp then c_parent_hash cfg (sp_sib_val sp) sl cv (lvalue cfg cl)
     else c_parent_hash cfg cv (lvalue cfg cl) (sp_sib_val sp) sl).

  (* sibling proofs are stored root-first and consumed in reverse *)
  Definition mfold (mp : membership_proof) : nlabel * bytes :=
    fold_right mstep (mp_label mp, mp_hash_val mp) (mp_sibs mp).

  (* an empty sibling list is accepted for the root label only (fix F11) *)
  Definition verify_membership (root : bytes) (mp : membership_proof) : bool :=
    match mp_sibs mp with
    | [] => nl_eqb (mp_label mp) nl_root
    | _ => true
    end &&
    bytes_eqb (c_root_hash_from_val cfg (snd (mfold mp))) root.

  (* verify_nonmembership; [child_check] = the check added by the fix F1 (base.rs) *)
  Definition verify_nonmembership_gen (child_check : bool) (root : bytes) (p : nonmembership_proof) : bool :=
    let x := np_label p in
    let '(l0, v0) := np_child0 p in
    let '(l1, v1) := np_child1 p in
    if nl_eqb x l0 || nl_eqb x l1 then false
    else if negb (is_prefix_of (np_longest_prefix p) x) then false
    else if child_check &&
            ((negb (nl_eqb l0 (c_empty_label cfg)) && is_prefix_of l0 x) ||
             (negb (nl_eqb l1 (c_empty_label cfg)) && is_prefix_of l1 x)) then false
    else
      let lcp0 := get_longest_common_prefix (c_empty_label cfg) l0 l1 in
      let lcp_children := if nl_eqb lcp0 (c_empty_label cfg) then nl_root else lcp0 in
      if negb (nl_eqb (np_longest_prefix p) lcp_children) then false
      else
        (* both children empty: the empty tree's root carries empty_root_value (fix F12) *)
        let is_empty_child (c : nlabel * bytes) :=
            nl_eqb (fst c) (c_empty_label cfg) && bytes_eqb (snd c) (c_empty_node_hash cfg) in
        let lcp_hash :=
            if is_empty_child (l0, v0) && is_empty_child (l1, v1) then c_empty_root_value cfg
            else c_parent_hash cfg v0 (lvalue cfg l0) v1 (lvalue cfg l1) in
        if negb (nl_eqb lcp_children (mp_label (np_mp p))) || negb (bytes_eqb lcp_hash (mp_hash_val (np_mp p)))
        then false
        else verify_membership root (np_mp p).

  Definition verify_nonmembership := verify_nonmembership_gen true.

  (* ------------------------------------------------------------ generation *)

  Definition child_elem (o : option tree) : nlabel * bytes :=
    match o with
    | None => (c_empty_label cfg, c_empty_node_hash cfg)
    | Some c => (tlabel c, node_value cfg true c)
    end.

  (* get_lcp_node_label_with_membership_proof: the walk from [cur] towards [x]; returns the node
     reached and the sibling proofs (root first) *)
  Fixpoint lcp_walk (fuel : nat) (cur : tree) (x : nlabel) : tree * list sibling_proof :=
    match fuel with
    | O => (cur, [])
    | S f =>
      if nl_eqb x (tlabel cur) then (cur, [])
      else
        match get_prefix_ordering (tlabel cur) x with
        | None => (cur, [])
        | Some dir =>
          match child cur dir with
          | None => (cur, [])
          | Some c =>
            if nl_eqb x (tlabel c) || (match get_prefix_ordering (tlabel c) x with Some _ => true | None => false end)
            then
              let '(sl, sv) := child_elem (child cur (negb dir)) in
              let '(n, sibs) := lcp_walk f c x in
              (n, SP (tlabel cur) sl sv dir :: sibs)
            else (cur, [])
          end
        end
    end.

  Definition walk_fuel : nat := 260.

  Definition get_membership_proof (t : tree) (x : nlabel) : membership_proof :=
    let '(n, sibs) := lcp_walk walk_fuel t x in
    MP (tlabel n) (node_value cfg true n) sibs.

  Definition get_non_membership_proof (t : tree) (x : nlabel) : nonmembership_proof :=
    let '(n, sibs) := lcp_walk walk_fuel t x in
    NMP x (tlabel n) (child_elem (child n false)) (child_elem (child n true))
        (MP (tlabel n) (node_value cfg true n) sibs).
End Verify.

(* ---------------------------------------------------------------- leaves, well-formedness *)

Record leaf := LF { lf_label : nlabel; lf_value : bytes; lf_epoch : N }.

Fixpoint leaves (t : tree) : list leaf :=
  match t with
  | Leaf l v e => [LF l v e]
  | Node _ _ _ a b =>
    (match a with Some c => leaves c | None => [] end) ++
    (match b with Some c => leaves c | None => [] end)
  end.

(* a well-formed subtree hanging in direction [dir] below a node with bit string [p] *)
Fixpoint wf_sub (t : tree) : bool :=
  wf_label (tlabel t) && canonical (tlabel t) &&
  match t with
  | Leaf _ _ _ => true
  | Node l _ _ (Some a) (Some b) =>
    (match pord (bits_of l) (bits_of (tlabel a)) with Some false => true | _ => false end) &&
    (match pord (bits_of l) (bits_of (tlabel b)) with Some true => true | _ => false end) &&
    wf_sub a && wf_sub b
  | Node _ _ _ _ _ => false
  end.

Definition wf_child (l : nlabel) (dir : bool) (o : option tree) : bool :=
  match o with
  | None => true
  | Some c =>
    (match pord (bits_of l) (bits_of (tlabel c)) with Some d => Bool.eqb d dir | None => false end) && wf_sub c
  end.

(* the root: label = NodeLabel::root(), 0, 1 or 2 children *)
Definition wf_root (t : tree) : bool :=
  match t with
  | Node l _ _ a b => nl_eqb l nl_root && wf_child l false a && wf_child l true b
  | Leaf _ _ _ => false
  end.
