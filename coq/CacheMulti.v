(* The read-fill / write-through protocol of CacheProto.v with MANY KEYS: the counters of started and
   completed writes are shared by all keys (a write to any key invalidates the tickets of all reads in
   flight, which is what the storage manager does), the data layer and the cache are maps.  Theorem:
   under every schedule - evictions at any time included - whenever no write is in progress, for EVERY
   key the cache holds nothing or what the data layer holds.  (One-key model: CacheProto.v, which is the
   one replayed against the code.) *)
From Coq Require Import List Arith Lia Bool.
Import ListNotations.

Inductive mrpc := MS (k : nat) | M1 (k : nat) (t : option nat) | M2 (k : nat) (t : option nat) (v : nat) | MDone (k v : nat).
Inductive mwpc := V0 (k v : nat) | V1 (k v : nat) | V2 (k v : nat) | V3 (k : nat) | VDone.

Record mstate := MSt { m_db : nat -> nat; m_cache : nat -> option nat; m_started : nat; m_completed : nat;
                       m_readers : list mrpc; m_writers : list mwpc }.

Definition fupd {A} (f : nat -> A) (k : nat) (x : A) : nat -> A := fun k' => if Nat.eqb k' k then x else f k'.

Fixpoint lupd {A} (l : list A) (i : nat) (x : A) : list A :=
  match l, i with
  | [], _ => []
  | _ :: r, O => x :: r
  | a :: r, S j => a :: lupd r j x
  end.

Inductive maction := MR (i : nat) | MW (j : nat) | ME (k : nat).

Definition mstep (s : mstate) (a : maction) : mstate :=
  match a with
  | MR i =>
    match nth_error (m_readers s) i with
    | Some (MS k) =>
      let r' := match m_cache s k with
                | Some v => MDone k v
                | None => M1 k (if Nat.eqb (m_started s) (m_completed s) then Some (m_started s) else None)
                end in
      MSt (m_db s) (m_cache s) (m_started s) (m_completed s) (lupd (m_readers s) i r') (m_writers s)
    | Some (M1 k t) => MSt (m_db s) (m_cache s) (m_started s) (m_completed s) (lupd (m_readers s) i (M2 k t (m_db s k))) (m_writers s)
    | Some (M2 k t v) =>
      let current := match t with Some n => Nat.eqb n (m_started s) | None => false end in
      MSt (m_db s) (if current then fupd (m_cache s) k (Some v) else m_cache s) (m_started s) (m_completed s)
          (lupd (m_readers s) i (MDone k v)) (m_writers s)
    | _ => s
    end
  | MW j =>
    match nth_error (m_writers s) j with
    | Some (V0 k v) =>
      if Nat.eqb (m_started s) (m_completed s)
      then MSt (m_db s) (m_cache s) (S (m_started s)) (m_completed s) (m_readers s) (lupd (m_writers s) j (V1 k v))
      else s
    | Some (V1 k v) => MSt (fupd (m_db s) k v) (m_cache s) (m_started s) (m_completed s) (m_readers s) (lupd (m_writers s) j (V2 k v))
    | Some (V2 k v) => MSt (m_db s) (fupd (m_cache s) k (Some v)) (m_started s) (m_completed s) (m_readers s) (lupd (m_writers s) j (V3 k))
    | Some (V3 k) => MSt (m_db s) (m_cache s) (m_started s) (S (m_completed s)) (m_readers s) (lupd (m_writers s) j VDone)
    | _ => s
    end
  | ME k => MSt (m_db s) (fupd (m_cache s) k None) (m_started s) (m_completed s) (m_readers s) (m_writers s)
  end.

Definition minit (d : nat -> nat) (rs : list nat) (ws : list (nat * nat)) : mstate :=
  MSt d (fun _ => None) 0 0 (map MS rs) (map (fun kv => V0 (fst kv) (snd kv)) ws).
Definition mrun (s : mstate) (sched : list maction) : mstate := fold_left mstep sched s.

(* ------------------------------------------------------------------ invariant *)
Definition mbusy (w : mwpc) : nat := match w with V1 _ _ | V2 _ _ | V3 _ => 1 | _ => 0 end.
Fixpoint mbusy_count (ws : list mwpc) : nat := match ws with [] => 0 | w :: r => mbusy w + mbusy_count r end.

Definition coh (s : mstate) (x : nat) : Prop := m_cache s x = None \/ m_cache s x = Some (m_db s x).
Definition dirty (s : mstate) (x : nat) : Prop := exists j v, nth_error (m_writers s) j = Some (V2 x v).

Definition mr_ok (s : mstate) (r : mrpc) : Prop :=
  match r with
  | M1 _ (Some n) => n <= m_completed s
  | M2 k (Some n) v => n <= m_completed s /\ (n = m_started s -> v = m_db s k)
  | _ => True
  end.
Definition mw_ok (s : mstate) (w : mwpc) : Prop :=
  match w with
  | V2 k v => m_db s k = v
  | V3 k => coh s k
  | _ => True
  end.

Record MInv (s : mstate) : Prop := {
  mi_count : m_started s = m_completed s + mbusy_count (m_writers s);
  mi_one : mbusy_count (m_writers s) <= 1;
  mi_readers : Forall (mr_ok s) (m_readers s);
  mi_writers : Forall (mw_ok s) (m_writers s);
  mi_coh : forall x, ~ dirty s x -> coh s x }.

Lemma Forall_lupd {A} (P : A -> Prop) : forall l i x, Forall P l -> P x -> Forall P (lupd l i x).
Proof. induction l as [|a l IH]; intros i x H Hx; [constructor|]. inversion H; subst. destruct i; cbn [lupd]; constructor; auto. Qed.
Lemma nthF {A} (P : A -> Prop) l i x : Forall P l -> nth_error l i = Some x -> P x.
Proof. intros H E. rewrite Forall_forall in H. apply H. eapply nth_error_In; eassumption. Qed.
Lemma nth_lupd_same {A} : forall (l : list A) i x y, nth_error l i = Some y -> nth_error (lupd l i x) i = Some x.
Proof. induction l as [|a l IH]; intros i x y E; [destruct i; discriminate|]. destruct i; cbn [lupd nth_error] in *; [reflexivity | eapply IH; eassumption]. Qed.
Lemma nth_lupd_other {A} : forall (l : list A) i k x, k <> i -> nth_error (lupd l i x) k = nth_error l k.
Proof. induction l as [|a l IH]; intros i k x N; [reflexivity|]. destruct i, k; cbn [lupd nth_error]; try reflexivity; [congruence|]. apply IH. congruence. Qed.
Lemma mbusy_lupd : forall ws j w w', nth_error ws j = Some w -> mbusy_count (lupd ws j w') + mbusy w = mbusy_count ws + mbusy w'.
Proof.
  induction ws as [|a ws IH]; intros j w w' E; [destruct j; discriminate|]. destruct j; cbn [nth_error] in E.
  - injection E as ->. cbn [lupd mbusy_count]. lia.
  - cbn [lupd mbusy_count]. specialize (IH j w w' E). lia.
Qed.
Lemma mbusy_in : forall ws j w, nth_error ws j = Some w -> mbusy w <= mbusy_count ws.
Proof. induction ws as [|a ws IH]; intros j w E; [destruct j; discriminate|]. destruct j; cbn [nth_error] in E; cbn [mbusy_count]; [injection E as ->; lia | specialize (IH j w E); lia]. Qed.
Lemma one_busy : forall ws j k w w', nth_error ws j = Some w -> nth_error ws k = Some w' -> k <> j -> mbusy w = 1 -> mbusy_count ws <= 1 -> mbusy w' = 0.
Proof.
  induction ws as [|a ws IH]; intros j k w w' Ej Ek N Hb H1; [destruct j; discriminate|].
  destruct j, k; cbn [nth_error] in Ej, Ek; try congruence; cbn [mbusy_count] in H1.
  - injection Ej as ->. pose proof (mbusy_in ws k w' Ek). destruct w'; cbn [mbusy] in *; lia.
  - injection Ek as ->. pose proof (mbusy_in ws j w Ej). destruct w'; cbn [mbusy] in *; lia.
  - apply (IH j k w w' Ej Ek ltac:(congruence) Hb). lia.
Qed.

Lemma minit_inv d rs ws : MInv (minit d rs ws).
Proof.
  assert (B : mbusy_count (map (fun kv : nat * nat => V0 (fst kv) (snd kv)) ws) = 0) by (induction ws; cbn; auto).
  constructor; cbn [minit m_started m_completed m_writers m_readers m_cache m_db].
  - rewrite B. reflexivity.
  - rewrite B. lia.
  - apply Forall_forall. intros r Hr. apply in_map_iff in Hr. destruct Hr as (k & <- & _). exact I.
  - apply Forall_forall. intros w Hw. apply in_map_iff in Hw. destruct Hw as (kv & <- & _). exact I.
  - intros x _. left. reflexivity.
Qed.

Lemma fupd_same {A} (f : nat -> A) k x : fupd f k x k = x.
Proof. unfold fupd. rewrite Nat.eqb_refl. reflexivity. Qed.
Lemma fupd_other {A} (f : nat -> A) k x k' : k' <> k -> fupd f k x k' = f k'.
Proof. intros N. unfold fupd. destruct (Nat.eqb_spec k' k); [contradiction | reflexivity]. Qed.

(* steps that change neither the data layer, the cache nor the writers *)
Lemma keep_coh s s' : m_db s' = m_db s -> m_cache s' = m_cache s -> m_writers s' = m_writers s ->
  (forall x, ~ dirty s x -> coh s x) -> forall x, ~ dirty s' x -> coh s' x.
Proof. intros D C W H x Hx. unfold coh, dirty in *. rewrite D, C. apply H. rewrite <- W. exact Hx. Qed.

Lemma mstep_keeps s a : MInv s -> MInv (mstep s a).
Proof.
  intros [Hc H1 Hr Hw Hco]. destruct a as [i|j|k]; cbn [mstep].
  - (* a reader *)
    destruct (nth_error (m_readers s) i) as [[k|k t|k t v|k v]|] eqn:E; try (constructor; assumption).
    + constructor; cbn [m_db m_cache m_started m_completed m_readers m_writers]; try assumption.
      apply Forall_lupd; [exact Hr|]. destruct (m_cache s k); [exact I|].
      destruct (Nat.eqb_spec (m_started s) (m_completed s)); cbn [mr_ok m_completed]; [lia | exact I].
    + pose proof (nthF _ _ _ _ Hr E) as Ht.
      constructor; cbn [m_db m_cache m_started m_completed m_readers m_writers]; try assumption.
      apply Forall_lupd; [exact Hr|]. destruct t as [n|]; cbn [mr_ok m_completed m_started m_db] in *; [|exact I]. split; [exact Ht | reflexivity].
    + pose proof (nthF _ _ _ _ Hr E) as Ht.
      destruct (match t with Some n => Nat.eqb n (m_started s) | None => false end) eqn:Ecur.
      * destruct t as [n|]; [|discriminate]. apply Nat.eqb_eq in Ecur. cbn [mr_ok] in Ht. destruct Ht as [Hn Hv].
        assert (B0 : mbusy_count (m_writers s) = 0) by lia. specialize (Hv Ecur). subst v.
        constructor; cbn [m_db m_cache m_started m_completed m_readers m_writers]; try assumption.
        -- apply Forall_lupd; [|exact I]. eapply Forall_impl; [|exact Hr]. intros r. destruct r as [?|? [m|]|? [m|] w|? ?]; cbn [mr_ok m_completed m_started m_db]; auto.
        -- eapply Forall_impl; [|exact Hw]. intros w. destruct w as [? ?|? ?|? ?|k'|]; cbn [mw_ok m_db]; auto.
           unfold coh. cbn [m_cache m_db]. intros Hk'. destruct (Nat.eq_dec k' k) as [->|N]; [rewrite fupd_same; right; reflexivity | rewrite fupd_other by exact N; exact Hk'].
        -- intros x Hx. unfold coh. cbn [m_cache m_db]. destruct (Nat.eq_dec x k) as [->|N]; [rewrite fupd_same; right; reflexivity|].
           rewrite fupd_other by exact N. apply Hco. exact Hx.
      * constructor; cbn [m_db m_cache m_started m_completed m_readers m_writers]; try assumption.
        apply Forall_lupd; [exact Hr | exact I].
  - (* a writer *)
    destruct (nth_error (m_writers s) j) as [[k v|k v|k v|k|]|] eqn:E; try (constructor; assumption).
    + (* start *)
      destruct (Nat.eqb_spec (m_started s) (m_completed s)) as [Eq|]; [|constructor; assumption].
      pose proof (mbusy_lupd (m_writers s) j (V0 k v) (V1 k v) E) as BU. cbn [mbusy] in BU.
      constructor; cbn [m_db m_cache m_started m_completed m_readers m_writers]; try lia.
      * eapply Forall_impl; [|exact Hr]. intros r. destruct r as [?|? [m|]|? [m|] w|? ?]; cbn [mr_ok m_completed m_started m_db]; auto.
        intros [A C]. split; [exact A|]. intros Em. lia.
      * apply Forall_lupd; [|exact I]. eapply Forall_impl; [|exact Hw]. intros w. destruct w; cbn [mw_ok m_db]; auto.
      * intros x Hx. apply Hco. intros (j' & v' & Ej'). apply Hx. exists j', v'. cbn [m_writers].
        destruct (Nat.eq_dec j' j) as [->|N]; [rewrite E in Ej'; discriminate|]. rewrite (nth_lupd_other _ _ _ _ N). exact Ej'.
    + (* the data layer is written: key k becomes dirty *)
      pose proof (mbusy_lupd (m_writers s) j (V1 k v) (V2 k v) E) as BU. cbn [mbusy] in BU.
      pose proof (mbusy_in _ _ _ E) as B1. cbn [mbusy] in B1.
      constructor; cbn [m_db m_cache m_started m_completed m_readers m_writers]; try lia.
      * eapply Forall_impl; [|exact Hr]. intros r. destruct r as [?|? [m|]|? [m|] w|? ?]; cbn [mr_ok m_completed m_started m_db]; auto.
        intros [A C]. split; [exact A|]. intros Em. lia.
      * apply Forall_forall. intros w Hw0. destruct (In_nth_error _ _ Hw0) as [k0 Ek0].
        destruct (Nat.eq_dec k0 j) as [->|Nk].
        -- rewrite (nth_lupd_same _ _ _ _ E) in Ek0. injection Ek0 as <-. cbn [mw_ok m_db]. apply fupd_same.
        -- rewrite (nth_lupd_other _ _ _ _ Nk) in Ek0.
           pose proof (one_busy (m_writers s) j k0 (V1 k v) w E Ek0 Nk eq_refl ltac:(lia)) as Hnb.
           destruct w; cbn [mbusy] in Hnb; try discriminate; exact I.
      * intros x Hx. assert (N : x <> k).
        { intros ->. apply Hx. exists j, v. apply (nth_lupd_same _ _ _ _ E). }
        unfold coh. cbn [m_cache m_db]. rewrite fupd_other by exact N. apply Hco.
        intros (j' & v' & Ej'). destruct (Nat.eq_dec j' j) as [->|Nj]; [rewrite E in Ej'; discriminate|].
        pose proof (one_busy (m_writers s) j j' (V1 k v) (V2 x v') E Ej' Nj eq_refl ltac:(lia)) as Hnb. discriminate.
    + (* write-through: key k is clean again, and nobody is at V2 any more *)
      pose proof (mbusy_lupd (m_writers s) j (V2 k v) (V3 k) E) as BU. cbn [mbusy] in BU.
      pose proof (mbusy_in _ _ _ E) as B1. cbn [mbusy] in B1.
      pose proof (nthF _ _ _ _ Hw E) as Hdb. cbn [mw_ok] in Hdb.
      constructor; cbn [m_db m_cache m_started m_completed m_readers m_writers]; try lia.
      * eapply Forall_impl; [|exact Hr]. intros r. destruct r as [?|? [m|]|? [m|] w|? ?]; cbn [mr_ok m_completed m_started m_db]; auto.
      * apply Forall_forall. intros w Hw0. destruct (In_nth_error _ _ Hw0) as [k0 Ek0].
        destruct (Nat.eq_dec k0 j) as [->|Nk].
        -- rewrite (nth_lupd_same _ _ _ _ E) in Ek0. injection Ek0 as <-. cbn [mw_ok]. unfold coh. cbn [m_cache m_db]. rewrite fupd_same. right. rewrite Hdb. reflexivity.
        -- rewrite (nth_lupd_other _ _ _ _ Nk) in Ek0.
           pose proof (one_busy (m_writers s) j k0 (V2 k v) w E Ek0 Nk eq_refl ltac:(lia)) as Hnb.
           destruct w; cbn [mbusy] in Hnb; try discriminate; exact I.
      * intros x _. unfold coh. cbn [m_cache m_db]. destruct (Nat.eq_dec x k) as [->|N]; [rewrite fupd_same; right; rewrite Hdb; reflexivity|].
        rewrite fupd_other by exact N. apply Hco. intros (j' & v' & Ej').
        destruct (Nat.eq_dec j' j) as [->|Nj]; [rewrite E in Ej'; injection Ej' as -> _; contradiction|].
        pose proof (one_busy (m_writers s) j j' (V2 k v) (V2 x v') E Ej' Nj eq_refl ltac:(lia)) as Hnb. discriminate.
    + (* completed *)
      pose proof (mbusy_lupd (m_writers s) j (V3 k) VDone E) as BU. cbn [mbusy] in BU.
      pose proof (mbusy_in _ _ _ E) as B1. cbn [mbusy] in B1.
      constructor; cbn [m_db m_cache m_started m_completed m_readers m_writers]; try lia.
      * eapply Forall_impl; [|exact Hr]. intros r. destruct r as [?|? [m|]|? [m|] w|? ?]; cbn [mr_ok m_completed m_started m_db]; auto;
          try (intros A; lia); try (intros [A C]; split; [lia | exact C]).
      * apply Forall_lupd; [|exact I]. eapply Forall_impl; [|exact Hw]. intros w. destruct w; cbn [mw_ok m_db]; auto.
      * intros x Hx. apply Hco. intros (j' & v' & Ej'). apply Hx. exists j', v'. cbn [m_writers].
        destruct (Nat.eq_dec j' j) as [->|N]; [rewrite E in Ej'; discriminate|]. rewrite (nth_lupd_other _ _ _ _ N). exact Ej'.
  - (* eviction of key k *)
    constructor; cbn [m_db m_cache m_started m_completed m_readers m_writers]; [exact Hc | exact H1 | | | ].
    + eapply Forall_impl; [|exact Hr]. intros r. destruct r as [?|? [m|]|? [m|] w|? ?]; cbn [mr_ok m_completed m_started m_db]; auto.
    + eapply Forall_impl; [|exact Hw]. intros w. destruct w as [? ?|? ?|? ?|k'|]; cbn [mw_ok m_db]; auto.
      unfold coh. cbn [m_cache m_db]. intros Hk'. destruct (Nat.eq_dec k' k) as [->|N]; [rewrite fupd_same; left; reflexivity | rewrite fupd_other by exact N; exact Hk'].
    + intros x Hx. unfold coh. cbn [m_cache m_db]. destruct (Nat.eq_dec x k) as [->|N]; [rewrite fupd_same; left; reflexivity|].
      rewrite fupd_other by exact N. apply Hco. exact Hx.
Qed.

Theorem many_keys_coherent d rs ws sched :
  let s := mrun (minit d rs ws) sched in
  m_started s = m_completed s -> forall x, m_cache s x = None \/ m_cache s x = Some (m_db s x).
Proof.
  cbv zeta.
  assert (G : forall sched s, MInv s -> MInv (mrun s sched)).
  { induction sched0 as [|a rest IH]; intros s Hs; [exact Hs|]. unfold mrun. cbn [fold_left]. apply IH. apply mstep_keeps. exact Hs. }
  pose proof (G sched _ (minit_inv d rs ws)) as I. intros Eq x. apply (mi_coh _ I).
  intros (j & v & Ej). pose proof (mbusy_in _ _ _ Ej) as B. cbn [mbusy] in B. pose proof (mi_count _ I). lia.
Qed.

(* two keys, a write to one of them while a read of the other is in flight: the read's fill is dropped
   (the ticket is shared), both keys end coherent *)
Example two_keys :
  let s := mrun (minit (fun _ => 1) [0] [(1, 5)]) [MR 0; MR 0; MW 0; MW 0; MW 0; MW 0; MR 0] in
  m_cache s 0 = None /\ m_cache s 1 = Some 5 /\ m_db s 1 = 5 /\ m_started s = m_completed s.
Proof. vm_compute. repeat split. Qed.
