(* Directory-level model (layer L7): value states, publish (directory.rs:104-265), lookup and key
   history proof assembly (directory.rs:274-622,772-831), audit proof walk
   (append_only_zks.rs:881-940,1062-1177).  Executable.
   The VRF is a table supplied by the environment (produced by the implementation's primitive):
   [vrf_label l fresh v] is the 256-bit node label, [vrf_proof l fresh v] the proof bytes; a missing
   entry makes the model fail ([None]), it never guesses. *)
From Coq Require Import List Bool Arith NArith Lia.
From Akd Require GenConsts.
From Akd Require Import Bits NodeLabel ElemSet Hashing Tree Insert Marker.
Import ListNotations.
Open Scope N_scope.

Record vrec := VR { vr_user : bytes; vr_epoch : N; vr_version : N; vr_value : bytes; vr_label : nlabel }.

Record dstate := DS { d_tree : tree; d_epoch : N; d_num : N; d_states : list vrec }.

Definition dir_new : dstate := DS empty_root 0 1 [].

Inductive dres (A : Type) :=
| DOk (a : A)
| DErrDuplicate          (* DirectoryError::Publish *)
| DErrNotFound
| DErrInvalidEpoch
| DErrOther
| DMissingVrf.           (* the environment's VRF table lacks an entry: correspondence failure *)
Arguments DOk {A} a.
Arguments DErrDuplicate {A}.
Arguments DErrNotFound {A}.
Arguments DErrInvalidEpoch {A}.
Arguments DErrOther {A}.
Arguments DMissingVrf {A}.

Record lookup_proof := LP {
  lp_epoch : N; lp_value : bytes; lp_version : N;
  lp_existence_vrf : bytes; lp_existence : membership_proof;
  lp_marker_vrf : bytes; lp_marker : membership_proof;
  lp_freshness_vrf : bytes; lp_freshness : nonmembership_proof;
  lp_nonce : bytes }.

Record update_proof := UP {
  up_epoch : N; up_version : N; up_value : bytes;
  up_existence_vrf : bytes; up_existence : membership_proof;
  up_prev_vrf : option bytes; up_prev : option membership_proof;
  up_nonce : bytes }.

Record history_proof := HP {
  hp_updates : list update_proof;
  hp_past_vrf : list bytes; hp_past : list membership_proof;
  hp_future_vrf : list bytes; hp_future : list nonmembership_proof }.

Inductive history_params := HComplete | HMostRecent (n : N).

(* SingleAppendOnlyProof: (inserted, unchanged_nodes); AppendOnlyProof: proofs and epochs *)
Record audit_proof := AP { ap_proofs : list (list elem * list elem); ap_epochs : list N }.

Section Dir.
  Variable cfg : config.
  Variable ck : bytes.                               (* commitment key = TC::hash(vrf secret) *)
  Variable vrf_label : bytes -> bool -> N -> option nlabel.
  Variable vrf_proof : bytes -> bool -> N -> option bytes.

  (* latest state of a user at or before an epoch (get_user_state(LeqEpoch)) *)
  Definition latest_state (sts : list vrec) (u : bytes) (e : N) : option vrec :=
    fold_left (fun acc s =>
                 if bytes_eqb (vr_user s) u && (vr_epoch s <=? e) then
                   match acc with
                   | Some a => if vr_epoch a <=? vr_epoch s then Some s else acc
                   | None => Some s
                   end
                 else acc) sts None.

  Fixpoint has_dup (ls : list bytes) : bool :=
    match ls with
    | [] => false
    | l :: r => existsb (bytes_eqb l) r || has_dup r
    end.

  (* the elements and new value states one update gives rise to *)
  Definition derive_update (st : dstate) (upd : bytes * bytes) : option (list elem * list vrec) :=
    let '(l, v) := upd in
    let next := d_epoch st + 1 in
    match latest_state (d_states st) l (d_epoch st) with
    | None =>
      match vrf_label l true 1 with
      | Some nl => Some ([El nl (fresh_value cfg ck nl 1 v)], [VR l next 1 v nl])
      | None => None
      end
    | Some s =>
      if bytes_eqb (vr_value s) v then Some ([], [])
      else
        match vrf_label l false (vr_version s), vrf_label l true (vr_version s + 1) with
        | Some sl, Some fl =>
          Some ([El sl (c_stale_value cfg); El fl (fresh_value cfg ck fl (vr_version s + 1) v)],
                [VR l next (vr_version s + 1) v fl])
        | _, _ => None
        end
    end.

  Fixpoint derive_all (st : dstate) (upds : list (bytes * bytes)) : option (list elem * list vrec) :=
    match upds with
    | [] => Some ([], [])
    | u :: r =>
      match derive_update st u, derive_all st r with
      | Some (e1, s1), Some (e2, s2) => Some (e1 ++ e2, s1 ++ s2)
      | _, _ => None
      end
    end.

  Definition epoch_hash (st : dstate) : N * bytes := (d_epoch st, root_hash cfg true (d_tree st)).

  (* Directory::publish *)
  Definition publish (st : dstate) (upds : list (bytes * bytes)) : dstate * dres (N * bytes) :=
    if has_dup (map fst upds) then (st, DErrDuplicate)
    else
      match derive_all st upds with
      | None => (st, DMissingVrf)
      | Some (elems, news) =>
        match elems with
        | [] => (st, DOk (epoch_hash st))
        | _ =>
          match batch_insert (c_empty_label cfg) (d_tree st, d_epoch st, d_num st) elems with
          | None => (st, DErrOther)
          | Some (t', e', n') =>
            let st' := DS t' e' n' (d_states st ++ news) in
            (st', DOk (epoch_hash st'))
          end
        end
      end.

  (* StorageManager::tombstone_value_states seen from the directory: the values of the label's
     states with epoch <= c become the (empty) tombstone; nothing else is touched *)
  Definition tomb_state (l : bytes) (c : N) (s : vrec) : vrec :=
    if bytes_eqb (vr_user s) l && (vr_epoch s <=? c)
    then VR (vr_user s) (vr_epoch s) (vr_version s) GenConsts.TOMBSTONE (vr_label s) else s.
  Definition d_tombstone (st : dstate) (l : bytes) (c : N) : dstate :=
    DS (d_tree st) (d_epoch st) (d_num st) (map (tomb_state l c) (d_states st)).

  (* ---------------------------------------------------------------- lookup *)

  Definition opt_bind {A B} (o : option A) (f : A -> option B) : option B :=
    match o with Some a => f a | None => None end.

  Definition lookup (st : dstate) (l : bytes) : dres (lookup_proof * (N * bytes)) :=
    match latest_state (d_states st) l (d_epoch st) with
    | None => DErrNotFound
    | Some s =>
      let v := vr_version s in
      let mv := lookup_marker v in
      match vrf_label l true v, vrf_label l true mv, vrf_label l false v,
            vrf_proof l true v, vrf_proof l true mv, vrf_proof l false v with
      | Some el, Some ml, Some nl, Some ep, Some mp, Some np =>
        let t := d_tree st in
        DOk (LP (vr_epoch s) (vr_value s) v
                ep (get_membership_proof cfg t el)
                mp (get_membership_proof cfg t ml)
                np (get_non_membership_proof cfg t nl)
                (c_commitment_nonce cfg ck (nl_to_bytes el) v (vr_value s)),
             epoch_hash st)
      | _, _, _, _, _, _ => DMissingVrf
      end
    end.

  (* ---------------------------------------------------------------- key history *)

  Fixpoint insert_desc (s : vrec) (l : list vrec) : list vrec :=
    match l with
    | [] => [s]
    | x :: r => if vr_epoch x <=? vr_epoch s then s :: l else x :: insert_desc s r
    end.
  (* the user's states with epoch <= current, newest first *)
  Definition user_history (sts : list vrec) (u : bytes) (e : N) : list vrec :=
    fold_right (fun s acc => if bytes_eqb (vr_user s) u && (vr_epoch s <=? e) then insert_desc s acc else acc) [] sts.

  Definition single_update_proof (t : tree) (l : bytes) (s : vrec) : option update_proof :=
    let v := vr_version s in
    opt_bind (vrf_label l true v) (fun el =>
    opt_bind (vrf_proof l true v) (fun ep =>
      let prev : option (option bytes * option membership_proof) :=
          if 1 <? v then
            match vrf_label l false (v - 1), vrf_proof l false (v - 1) with
            | Some pl, Some pp => Some (Some pp, Some (get_membership_proof cfg t pl))
            | _, _ => None
            end
          else Some (None, None) in
      opt_bind prev (fun pr =>
        Some (UP (vr_epoch s) v (vr_value s) ep (get_membership_proof cfg t el) (fst pr) (snd pr)
                 (c_commitment_nonce cfg ck (nl_to_bytes el) v (vr_value s)))))).

  Fixpoint all_some {A} (l : list (option A)) : option (list A) :=
    match l with
    | [] => Some []
    | Some a :: r => match all_some r with Some r' => Some (a :: r') | None => None end
    | None :: _ => None
    end.

  Definition key_history (st : dstate) (l : bytes) (params : history_params)
    : dres (history_proof * (N * bytes)) :=
    let all := user_history (d_states st) l (d_epoch st) in
    let data := match params with HComplete => all | HMostRecent n => firstn (N.to_nat n) all end in
    match data with
    | [] => DErrNotFound
    | d0 :: _ =>
      let start_v := fold_left (fun a s => N.min a (vr_version s)) data (vr_version d0) in
      let end_v := fold_left (fun a s => N.max a (vr_version s)) data (vr_version d0) in
      if (start_v =? 0) || (end_v =? 0) then DErrOther
      else
        match get_marker_versions start_v end_v (d_epoch st) with
        | None => DErrOther     (* the code would panic *)
        | Some (past, future) =>
          let t := d_tree st in
          match all_some (map (single_update_proof t l) data),
                all_some (map (fun v => vrf_proof l true v) past),
                all_some (map (fun v => vrf_label l true v) past),
                all_some (map (fun v => vrf_proof l true v) future),
                all_some (map (fun v => vrf_label l true v) future) with
          | Some ups, Some pvp, Some pls, Some fvp, Some fls =>
            DOk (HP ups pvp (map (get_membership_proof cfg t) pls)
                    fvp (map (get_non_membership_proof cfg t) fls),
                 epoch_hash st)
          | _, _, _, _, _ => DMissingVrf
          end
        end
    end.

  (* ---------------------------------------------------------------- audit *)

  (* get_append_only_proof_helper on the LATEST tree: (unchanged, leaves) for start -> end *)
  Fixpoint ao_walk (fuel : nat) (is_root : bool) (t : tree) (s e : N) : list elem * list elem :=
    match fuel with
    | O => ([], [])
    | S f =>
      if t_last_epoch t <=? s then
        (if is_root then ([], []) else ([El (tlabel t) (node_value cfg true t)], []))
      else if e <? t_min_desc t then ([], [])
      else
        match t with
        | Leaf l v _ => ([], [El l v])
        | Node _ _ _ a b =>
          let wa := match a with Some c => ao_walk f false c s e | None => ([], []) end in
          let wb := match b with Some c => ao_walk f false c s e | None => ([], []) end in
          (fst wa ++ fst wb, snd wa ++ snd wb)
        end
    end.

  Definition Nrange' (a : N) (len : nat) : list N := map (fun k => a + N.of_nat k) (seq 0 len).

  Definition audit (st : dstate) (s e : N) : dres audit_proof :=
    if e <=? s then DErrInvalidEpoch
    else if d_epoch st <? e then DErrInvalidEpoch
    else
      let eps := Nrange' s (N.to_nat (e - s)) in
      DOk (AP (map (fun ep => let '(unch, ins) := ao_walk 300 true (d_tree st) ep (ep + 1) in (ins, unch)) eps) eps).
End Dir.
