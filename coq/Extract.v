(* Extraction of the executable model for the correspondence check.
   Only ExtrOcamlBasic is used: bool, option, unit, list, prod, sumbool, sumor map to the OCaml
   types, andb/orb are inlined; N, positive, nat stay inductive datatypes.  No Extract Constant. *)
From Coq Require Extraction.
From Coq Require Import ExtrOcamlBasic.
From Akd Require Import Bits NodeLabel ElemSet Marker Blake3 Hashing Tree Insert Manager Directory Verify Spec Store Sched Proto CacheProto.

Extraction "../extract/model.ml"
  is_prefix_of get_prefix get_longest_common_prefix get_prefix_ordering nl_cmp
  empty_label_whatsapp empty_label_experimental nl_of_bits bits_of
  eset_from eset_partition eset_lcp eset_contains_prefix
  get_marker_versions K1_class
  blake3 whatsapp experimental azks_new batch_insert hashval node_value root_hash
  get_membership_proof get_non_membership_proof verify_membership verify_nonmembership_gen verify_nonmembership
  init_state begin_transaction commit_transaction rollback_transaction set_record batch_set get_record get_committed batch_get
  get_user_state get_user_data get_user_state_versions tombstone flush evict
  dir_new publish Directory.lookup key_history audit lookup_verify key_history_verify audit_verify_gen spec_root_hash rebuild_root verify_consecutive d_tombstone
  commit_shape of_list overlay view determine root_hash_at Sched.run Sched.results
  enc_label dec_label enc_elem dec_elem enc_sib dec_sib enc_mp dec_mp enc_nmp dec_nmp enc_lookup dec_lookup
  enc_update dec_update enc_history dec_history enc_single dec_single enc_audit dec_audit label_input_hash fresh_value blob_name parse_blob_name
  trun returned.
