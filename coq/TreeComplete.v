(* Completeness side of C05: proofs produced by the model of the honest prover verify.
   No assumption on the hash function is needed. *)
From Coq Require Import List Bool Arith NArith Lia.
From Akd Require Import Bits NodeLabel NodeLabelFacts Hashing Tree TreeFacts.
Import ListNotations.
Open Scope N_scope.

Section Complete.
  Variable cfg : config.

  Lemma child_elem_slot o : child_elem cfg o = (slot_label cfg o, slot_value cfg o).
  Proof. destruct o; reflexivity. Qed.

  (* the sibling proofs collected by the walk hash the reached node back up to the start node *)
  Lemma walk_fold fuel : forall cur x,
    let '(n, sibs) := lcp_walk cfg fuel cur x in
    fold_right (mstep cfg) (tlabel n, node_value cfg true n) sibs = (tlabel cur, node_value cfg true cur)
    /\ Sub n cur /\ (sibs = [] -> n = cur).
  Proof.
    induction fuel as [|f IH]; intros cur x; cbn [lcp_walk]; [repeat split; auto using Sub|].
    destruct (nl_eqb x (tlabel cur)); [repeat split; auto using Sub|].
    destruct (get_prefix_ordering (tlabel cur) x) as [dir|]; [|repeat split; auto using Sub].
    destruct (child cur dir) as [c|] eqn:Ec; [|repeat split; auto using Sub].
    destruct (nl_eqb x (tlabel c) || _); [|repeat split; auto using Sub].
    rewrite child_elem_slot. specialize (IH c x). destruct (lcp_walk cfg f c x) as [n sibs].
    destruct IH as (IH1 & IH2 & _).
    destruct cur as [l v e|l le mde a b]; [discriminate|]. cbn [child] in Ec.
    split; [|split; [|discriminate]].
    - cbn [fold_right]. rewrite IH1. cbn [mstep sp_dir sp_label sp_sib_label sp_sib_val tlabel child negb].
      f_equal. change (node_value cfg true (Node l le mde a b)) with (hashval cfg true (Node l le mde a b)).
      destruct dir; cbn [negb].
      + subst b. rewrite hashval_node by (right; discriminate). reflexivity.
      + subst a. rewrite hashval_node by (left; discriminate). reflexivity.
    - destruct dir; subst; [apply Sub_r|apply Sub_l]; exact IH2.
  Qed.

  (* C05 (completeness, membership): whatever label is queried, the proof the prover returns for the
     node its walk reaches verifies against the root hash *)
  Theorem gen_membership_verifies t x :
    tlabel t = nl_root -> is_leaf t = false ->
    verify_membership cfg (root_hash cfg true t) (get_membership_proof cfg t x) = true.
  Proof.
    intros Hroot Hleaf. unfold get_membership_proof. pose proof (walk_fold walk_fuel t x) as H.
    destruct (lcp_walk cfg walk_fuel t x) as [n sibs]. destruct H as (H1 & H2 & H3).
    unfold verify_membership, mfold. cbn [mp_sibs mp_label mp_hash_val]. rewrite H1. cbn [snd].
    apply andb_true_iff. split.
    - destruct sibs; [|reflexivity]. rewrite (H3 eq_refl), Hroot. apply nl_eqb_eq. reflexivity.
    - unfold root_hash. destruct t; [discriminate|]. apply bytes_eqb_eq. reflexivity.
  Qed.
End Complete.
