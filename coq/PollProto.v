(* C13, last sentence: "once change polling has signalled a new epoch, later requests on that instance
   are answered from an epoch at least that new".

   A cached instance that does not write: the data layer's epoch record is advanced by somebody else
   (AX); requests read it through the cache (hit, or miss - read - fill); the change poller flushes the
   cache, re-reads the epoch record and signals (AF).  With [locking] = true a request holds the
   directory's cache lock in shared mode from its start to its end and the poller takes it exclusively,
   i.e. the flush waits until no request is in flight (a request cannot start while the poller holds the
   lock: AF is one step).  [locking] = false is a request that does not take the lock - get_epoch_hash
   before the fix.

   Theorem: with the lock, for every schedule, a request that starts after the poller has signalled
   epoch e returns an epoch >= e.  Without it the property fails on the schedule found on the code. *)
From Coq Require Import List Arith Lia Bool.
Import ListNotations.

Inductive qpc := QS | Q1 (lo : nat) | Q2 (lo v : nat) | QDone (lo v : nat).
(* lo: the epoch the poller had signalled when the request started (ghost) *)

Record qstate := QSt { q_db : nat; q_cache : option nat; q_signalled : nat; q_reqs : list qpc }.

Fixpoint qupd (l : list qpc) (i : nat) (x : qpc) : list qpc :=
  match l, i with
  | [], _ => []
  | _ :: r, O => x :: r
  | a :: r, S j => a :: qupd r j x
  end.

Definition in_flight (q : qpc) : bool := match q with Q1 _ | Q2 _ _ => true | _ => false end.

Inductive qaction := QR (i : nat) | QX | QF.

Definition qstep (locking : bool) (s : qstate) (a : qaction) : qstate :=
  match a with
  | QR i =>
    match nth_error (q_reqs s) i with
    | Some QS =>
      let lo := q_signalled s in
      QSt (q_db s) (q_cache s) (q_signalled s)
          (qupd (q_reqs s) i (match q_cache s with Some v => QDone lo v | None => Q1 lo end))
    | Some (Q1 lo) => QSt (q_db s) (q_cache s) (q_signalled s) (qupd (q_reqs s) i (Q2 lo (q_db s)))
    | Some (Q2 lo v) => QSt (q_db s) (Some v) (q_signalled s) (qupd (q_reqs s) i (QDone lo v))
    | _ => s
    end
  | QX => QSt (S (q_db s)) (q_cache s) (q_signalled s) (q_reqs s)
  | QF =>
    if locking && existsb in_flight (q_reqs s) then s   (* the poller waits for the lock *)
    else if Nat.ltb (q_signalled s) (q_db s)
         then QSt (q_db s) (Some (q_db s)) (q_db s) (q_reqs s)   (* flush, re-read, signal *)
         else s
  end.

Definition qinit (e0 n : nat) : qstate := QSt e0 (Some e0) e0 (repeat QS n).
Definition qrun (locking : bool) (s : qstate) (sched : list qaction) : qstate := fold_left (qstep locking) sched s.

(* ------------------------------------------------------------------ the invariant (with the lock) *)
Definition q_ok (s : qstate) (q : qpc) : Prop :=
  match q with
  | QS => True
  | Q1 lo => lo <= q_signalled s /\ q_signalled s <= lo      (* nothing is signalled while it is in flight *)
  | Q2 lo v => lo <= v /\ q_signalled s <= lo
  | QDone lo v => lo <= v
  end.

Record QInv (s : qstate) : Prop := {
  qi_sig : q_signalled s <= q_db s;
  qi_cache : forall v, q_cache s = Some v -> q_signalled s <= v;
  qi_reqs : Forall (q_ok s) (q_reqs s) }.

Lemma Forall_qupd (P : qpc -> Prop) : forall l i x, Forall P l -> P x -> Forall P (qupd l i x).
Proof.
  induction l as [|a l IH]; intros i x H Hx; [constructor|]. inversion H; subst.
  destruct i; cbn [qupd]; constructor; auto.
Qed.
Lemma nth_Forall (P : qpc -> Prop) l i x : Forall P l -> nth_error l i = Some x -> P x.
Proof. intros H E. rewrite Forall_forall in H. apply H. eapply nth_error_In; eassumption. Qed.

Lemma qinit_inv e0 n : QInv (qinit e0 n).
Proof.
  constructor; cbn [qinit q_db q_cache q_signalled q_reqs].
  - lia.
  - intros v H. injection H as <-. lia.
  - apply Forall_forall. intros q Hq. apply repeat_spec in Hq. subst q. exact I.
Qed.

Lemma no_flight_ok s : existsb in_flight (q_reqs s) = false -> forall q, In q (q_reqs s) -> in_flight q = false.
Proof.
  intros H q Hq. destruct (in_flight q) eqn:E; [|reflexivity].
  assert (existsb in_flight (q_reqs s) = true) by (apply existsb_exists; exists q; split; assumption). congruence.
Qed.

Lemma qstep_keeps s a : QInv s -> QInv (qstep true s a).
Proof.
  intros [Hs Hc Hr]. destruct a as [i| |]; cbn [qstep].
  - destruct (nth_error (q_reqs s) i) as [[|lo|lo v|lo v]|] eqn:E; try (constructor; assumption).
    + (* start *)
      constructor; cbn [q_db q_cache q_signalled q_reqs]; try assumption.
      apply Forall_qupd; [exact Hr|]. destruct (q_cache s) as [v|] eqn:Ec; cbn [q_ok q_signalled].
      * apply Hc. reflexivity.
      * split; lia.
    + (* read *)
      pose proof (nth_Forall _ _ _ _ Hr E) as [H1 H2]. cbn [q_ok] in *.
      constructor; cbn [q_db q_cache q_signalled q_reqs]; try assumption.
      apply Forall_qupd; [exact Hr|]. cbn [q_ok q_signalled q_db]. split; lia.
    + (* fill *)
      pose proof (nth_Forall _ _ _ _ Hr E) as [H1 H2]. cbn [q_ok] in *.
      constructor; cbn [q_db q_cache q_signalled q_reqs]; try assumption.
      * intros w Hw. injection Hw as <-. lia.
      * apply Forall_qupd; [exact Hr|]. cbn [q_ok]. exact H1.
  - (* somebody else publishes *)
    constructor; cbn [q_db q_cache q_signalled q_reqs]; [lia | exact Hc | exact Hr].
  - (* the poller *)
    cbn [andb]. destruct (existsb in_flight (q_reqs s)) eqn:Ef; [constructor; assumption|].
    destruct (Nat.ltb_spec (q_signalled s) (q_db s)) as [Hlt|_]; [|constructor; assumption].
    constructor; cbn [q_db q_cache q_signalled q_reqs].
    + lia.
    + intros v Hv. injection Hv as <-. lia.
    + apply Forall_forall. intros q Hq. pose proof (no_flight_ok s Ef q Hq) as Hnf.
      pose proof (proj1 (Forall_forall _ _) Hr q Hq) as Hok.
      destruct q; cbn [in_flight] in Hnf; try discriminate; exact Hok.
Qed.

Theorem after_signal_at_least_that_new e0 n sched :
  let s := qrun true (qinit e0 n) sched in
  forall i lo v, nth_error (q_reqs s) i = Some (QDone lo v) -> lo <= v.
Proof.
  cbv zeta.
  assert (G : forall sched s, QInv s -> QInv (qrun true s sched)).
  { induction sched0 as [|a rest IH]; intros s Hs; [exact Hs|]. unfold qrun. cbn [fold_left]. apply IH. apply qstep_keeps. exact Hs. }
  pose proof (G sched _ (qinit_inv e0 n)) as [_ _ Hr]. intros i lo v Hi. exact (nth_Forall _ _ _ _ Hr Hi).
Qed.

(* the cache never holds less than what has been signalled *)
Theorem cache_at_least_signalled e0 n sched :
  let s := qrun true (qinit e0 n) sched in
  forall v, q_cache s = Some v -> q_signalled s <= v.
Proof.
  cbv zeta.
  assert (G : forall sched s, QInv s -> QInv (qrun true s sched)).
  { induction sched0 as [|a rest IH]; intros s Hs; [exact Hs|]. unfold qrun. cbn [fold_left]. apply IH. apply qstep_keeps. exact Hs. }
  exact (qi_cache _ (G sched _ (qinit_inv e0 n))).
Qed.

(* without the lock: request 0 misses (the cache has just been flushed by an earlier poll, modelled by
   starting cold), reads epoch 2 and is suspended; epoch 3 is published, polled and signalled; request 0
   caches epoch 2; request 1, started after the signal for 3, is answered from epoch 2 *)
Definition cold (e0 n : nat) : qstate := QSt e0 None e0 (repeat QS n).
Theorem without_lock_refuted :
  let s := qrun false (cold 2 2) [QR 0; QR 0; QX; QF; QR 0; QR 1] in
  q_signalled s = 3 /\ nth_error (q_reqs s) 1 = Some (QDone 3 2).
Proof. vm_compute. split; reflexivity. Qed.

(* the same schedule with the lock: the poll waits, and once it has happened requests see epoch 3 *)
Example with_lock_same_schedule :
  let s := qrun true (cold 2 2) [QR 0; QR 0; QX; QF; QR 0; QF; QR 1; QR 1; QR 1] in
  q_signalled s = 3 /\ nth_error (q_reqs s) 1 = Some (QDone 3 3).
Proof. vm_compute. split; reflexivity. Qed.

(* ------------------------------------------------------------------ two records
   The failure found on the code involves two records: the epoch record (always cached on an instance:
   read at construction, re-read by the poller after each flush) and a node record (here: the root,
   which changes with every epoch).  A node record retains two versions; a request that has read epoch
   a selects from the record whose latest version is l "as of a": the latest if l <= a, else the
   previous one (l - 1) if that is <= a, else it fails ("both retained versions are newer").  The
   answer is right when the selected version is a.

   Theorem: with the cache lock every answer names (a, version a) or is an error, for every schedule;
   without it the schedule found on the code yields (a + 1, version a). *)
Inductive tpc :=
| T0
| TN (a : nat)                   (* has read epoch a, about to look for the node *)
| TR (a : nat)                   (* node not cached: about to read the data layer *)
| TF (a l : nat)                 (* has read the record with latest version l, about to cache it *)
| TDone (a : nat) (r : option nat).

Record tstate := TSt { t_db : nat; t_azks : nat; t_node : option nat; t_reqs : list tpc }.

Fixpoint tupd (l : list tpc) (i : nat) (x : tpc) : list tpc :=
  match l, i with
  | [], _ => []
  | _ :: r, O => x :: r
  | a :: r, S j => a :: tupd r j x
  end.

Definition as_of (l a : nat) : option nat :=
  if Nat.leb l a then Some l else if Nat.leb (l - 1) a then Some (l - 1) else None.

Definition t_flight (q : tpc) : bool := match q with TN _ | TR _ | TF _ _ => true | _ => false end.

Definition tstep (locking : bool) (s : tstate) (a : qaction) : tstate :=
  match a with
  | QR i =>
    match nth_error (t_reqs s) i with
    | Some T0 => TSt (t_db s) (t_azks s) (t_node s) (tupd (t_reqs s) i (TN (t_azks s)))
    | Some (TN a) =>
      TSt (t_db s) (t_azks s) (t_node s)
          (tupd (t_reqs s) i (match t_node s with Some l => TDone a (as_of l a) | None => TR a end))
    | Some (TR a) => TSt (t_db s) (t_azks s) (t_node s) (tupd (t_reqs s) i (TF a (t_db s)))
    | Some (TF a l) => TSt (t_db s) (t_azks s) (Some l) (tupd (t_reqs s) i (TDone a (as_of l a)))
    | _ => s
    end
  | QX => TSt (S (t_db s)) (t_azks s) (t_node s) (t_reqs s)
  | QF =>
    if locking && existsb t_flight (t_reqs s) then s
    else if Nat.ltb (t_azks s) (t_db s) then TSt (t_db s) (t_db s) None (t_reqs s)
         else s
  end.

Definition tinit (e0 n : nat) : tstate := TSt e0 e0 None (repeat T0 n).
Definition trun2 (locking : bool) (s : tstate) (sched : list qaction) : tstate := fold_left (tstep locking) sched s.

Definition t_ok (s : tstate) (q : tpc) : Prop :=
  match q with
  | T0 => True
  | TN a | TR a => a = t_azks s
  | TF a l => a = t_azks s /\ a <= l /\ l <= t_db s
  | TDone a r => r = Some a \/ r = None
  end.

Record TInv (s : tstate) : Prop := {
  ti_azks : t_azks s <= t_db s;
  ti_node : forall l, t_node s = Some l -> t_azks s <= l /\ l <= t_db s;
  ti_reqs : Forall (t_ok s) (t_reqs s) }.

Lemma Forall_tupd (P : tpc -> Prop) : forall l i x, Forall P l -> P x -> Forall P (tupd l i x).
Proof.
  induction l as [|a l IH]; intros i x H Hx; [constructor|]. inversion H; subst.
  destruct i; cbn [tupd]; constructor; auto.
Qed.
Lemma nth_Forall_t (P : tpc -> Prop) l i x : Forall P l -> nth_error l i = Some x -> P x.
Proof. intros H E. rewrite Forall_forall in H. apply H. eapply nth_error_In; eassumption. Qed.

Lemma as_of_right l a : a <= l -> as_of l a = Some a \/ as_of l a = None.
Proof.
  intros H. unfold as_of. destruct (Nat.leb_spec l a) as [H1|H1].
  - left. f_equal. lia.
  - destruct (Nat.leb_spec (l - 1) a) as [H2|H2]; [left; f_equal; lia | right; reflexivity].
Qed.

Lemma tinit_inv e0 n : TInv (tinit e0 n).
Proof.
  constructor; cbn [tinit t_db t_azks t_node t_reqs]; [lia | discriminate |].
  apply Forall_forall. intros q Hq. apply repeat_spec in Hq. subst q. exact I.
Qed.

Lemma tstep_keeps s a : TInv s -> TInv (tstep true s a).
Proof.
  intros [Ha Hn Hr]. destruct a as [i| |]; cbn [tstep].
  - destruct (nth_error (t_reqs s) i) as [[|a|a|a l|a r]|] eqn:E; try (constructor; assumption).
    + constructor; cbn [t_db t_azks t_node t_reqs]; try assumption.
      apply Forall_tupd; [exact Hr | reflexivity].
    + pose proof (nth_Forall_t _ _ _ _ Hr E) as Hq. cbn [t_ok] in Hq.
      constructor; cbn [t_db t_azks t_node t_reqs]; try assumption.
      apply Forall_tupd; [exact Hr|]. destruct (t_node s) as [l|] eqn:En; cbn [t_ok]; [|exact Hq].
      apply as_of_right. destruct (Hn l eq_refl). lia.
    + pose proof (nth_Forall_t _ _ _ _ Hr E) as Hq. cbn [t_ok] in Hq.
      constructor; cbn [t_db t_azks t_node t_reqs]; try assumption.
      apply Forall_tupd; [exact Hr|]. cbn [t_ok t_azks t_db]. split; [exact Hq | split; lia].
    + pose proof (nth_Forall_t _ _ _ _ Hr E) as (Hq & H1 & H2). cbn [t_ok] in *.
      constructor; cbn [t_db t_azks t_node t_reqs]; try assumption.
      * intros l' Hl. injection Hl as <-. split; lia.
      * apply Forall_tupd; [exact Hr|]. cbn [t_ok]. apply as_of_right. exact H1.
  - constructor; cbn [t_db t_azks t_node t_reqs].
    + lia.
    + intros l Hl. destruct (Hn l Hl). split; lia.
    + eapply Forall_impl; [|exact Hr]. intros q. destruct q; cbn [t_ok t_azks t_db]; auto. intros (A & B & C). split; [exact A | split; lia].
  - cbn [andb]. destruct (existsb t_flight (t_reqs s)) eqn:Ef; [constructor; assumption|].
    destruct (Nat.ltb_spec (t_azks s) (t_db s)) as [Hlt|_]; [|constructor; assumption].
    constructor; cbn [t_db t_azks t_node t_reqs]; [lia | discriminate |].
    apply Forall_forall. intros q Hq.
    assert (Hnf : t_flight q = false).
    { destruct (t_flight q) eqn:Eq; [|reflexivity].
      assert (existsb t_flight (t_reqs s) = true) by (apply existsb_exists; exists q; split; assumption). congruence. }
    pose proof (proj1 (Forall_forall _ _) Hr q Hq) as Hok.
    destruct q; cbn [t_flight] in Hnf; try discriminate; exact Hok.
Qed.

Theorem answers_name_their_epoch e0 n sched :
  let s := trun2 true (tinit e0 n) sched in
  forall i a r, nth_error (t_reqs s) i = Some (TDone a r) -> r = Some a \/ r = None.
Proof.
  cbv zeta.
  assert (G : forall sched s, TInv s -> TInv (trun2 true s sched)).
  { induction sched0 as [|a rest IH]; intros s Hs; [exact Hs|]. unfold trun2. cbn [fold_left]. apply IH. apply tstep_keeps. exact Hs. }
  pose proof (G sched _ (tinit_inv e0 n)) as [_ _ Hr]. intros i a r Hi. exact (nth_Forall_t _ _ _ _ Hr Hi).
Qed.

(* without the lock: request 0 reads the root of epoch 2 and is suspended; epoch 3 is published, polled
   (flush, epoch record 3) and signalled; request 0 caches the root of epoch 2; request 1 answers
   (epoch 3, version 2) - on the code: (3, root hash of epoch 2) *)
Theorem two_records_without_lock_refuted :
  let s := trun2 false (tinit 2 2) [QR 0; QR 0; QR 0; QX; QF; QR 0; QR 1; QR 1] in
  t_azks s = 3 /\ nth_error (t_reqs s) 1 = Some (TDone 3 (Some 2)).
Proof. vm_compute. split; reflexivity. Qed.

Example two_records_with_lock_same_schedule :
  let s := trun2 true (tinit 2 2) [QR 0; QR 0; QR 0; QX; QF; QR 0; QF; QR 1; QR 1; QR 1; QR 1] in
  t_azks s = 3 /\ nth_error (t_reqs s) 1 = Some (TDone 3 (Some 3)).
Proof. vm_compute. split; reflexivity. Qed.
