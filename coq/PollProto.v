(* C13, last sentence: "once change polling has signalled a new epoch, later requests on that instance
   are answered from an epoch at least that new".

   A cached instance that does not write: the data layer's epoch record is advanced by somebody else
   (AX); requests read it through the cache (hit, or miss - read - fill); the change poller flushes the
   cache, re-reads the epoch record and signals (AF).  With [locking] = true a request holds the
   directory's cache lock in shared mode from its start to its end and the poller takes it exclusively,
   i.e. the flush waits until no request is in flight (a request cannot start while the poller holds the
   lock: AF is one step).  [locking] = false is a request that does not take the lock - get_epoch_hash
   before the fix.

   Theorem: with the lock, for every schedule, a request that starts after the poller has signalled
   epoch e returns an epoch >= e.  Without it the property fails on the schedule found on the code. *)
From Coq Require Import List Arith Lia Bool.
Import ListNotations.

Inductive qpc := QS | Q1 (lo : nat) | Q2 (lo v : nat) | QDone (lo v : nat).
(* lo: the epoch the poller had signalled when the request started (ghost) *)

Record qstate := QSt { q_db : nat; q_cache : option nat; q_signalled : nat; q_reqs : list qpc }.

Fixpoint qupd (l : list qpc) (i : nat) (x : qpc) : list qpc :=
  match l, i with
  | [], _ => []
  | _ :: r, O => x :: r
  | a :: r, S j => a :: qupd r j x
  end.

Definition in_flight (q : qpc) : bool := match q with Q1 _ | Q2 _ _ => true | _ => false end.

Inductive qaction := QR (i : nat) | QX | QF.

Definition qstep (locking : bool) (s : qstate) (a : qaction) : qstate :=
  match a with
  | QR i =>
    match nth_error (q_reqs s) i with
    | Some QS =>
      let lo := q_signalled s in
      QSt (q_db s) (q_cache s) (q_signalled s)
          (qupd (q_reqs s) i (match q_cache s with Some v => QDone lo v | None => Q1 lo end))
    | Some (Q1 lo) => QSt (q_db s) (q_cache s) (q_signalled s) (qupd (q_reqs s) i (Q2 lo (q_db s)))
    | Some (Q2 lo v) => QSt (q_db s) (Some v) (q_signalled s) (qupd (q_reqs s) i (QDone lo v))
    | _ => s
    end
  | QX => QSt (S (q_db s)) (q_cache s) (q_signalled s) (q_reqs s)
  | QF =>
    if locking && existsb in_flight (q_reqs s) then s   (* the poller waits for the lock *)
    else if Nat.ltb (q_signalled s) (q_db s)
         then QSt (q_db s) (Some (q_db s)) (q_db s) (q_reqs s)   (* flush, re-read, signal *)
         else s
  end.

Definition qinit (e0 n : nat) : qstate := QSt e0 (Some e0) e0 (repeat QS n).
Definition qrun (locking : bool) (s : qstate) (sched : list qaction) : qstate := fold_left (qstep locking) sched s.

(* ------------------------------------------------------------------ the invariant (with the lock) *)
Definition q_ok (s : qstate) (q : qpc) : Prop :=
  match q with
  | QS => True
  | Q1 lo => lo <= q_signalled s /\ q_signalled s <= lo      (* nothing is signalled while it is in flight *)
  | Q2 lo v => lo <= v /\ q_signalled s <= lo
  | QDone lo v => lo <= v
  end.

Record QInv (s : qstate) : Prop := {
  qi_sig : q_signalled s <= q_db s;
  qi_cache : forall v, q_cache s = Some v -> q_signalled s <= v;
  qi_reqs : Forall (q_ok s) (q_reqs s) }.

Lemma Forall_qupd (P : qpc -> Prop) : forall l i x, Forall P l -> P x -> Forall P (qupd l i x).
Proof.
  induction l as [|a l IH]; intros i x H Hx; [constructor|]. inversion H; subst.
  destruct i; cbn [qupd]; constructor; auto.
Qed.
Lemma nth_Forall (P : qpc -> Prop) l i x : Forall P l -> nth_error l i = Some x -> P x.
Proof. intros H E. rewrite Forall_forall in H. apply H. eapply nth_error_In; eassumption. Qed.

Lemma qinit_inv e0 n : QInv (qinit e0 n).
Proof.
  constructor; cbn [qinit q_db q_cache q_signalled q_reqs].
  - lia.
  - intros v H. injection H as <-. lia.
  - apply Forall_forall. intros q Hq. apply repeat_spec in Hq. subst q. exact I.
Qed.

Lemma no_flight_ok s : existsb in_flight (q_reqs s) = false -> forall q, In q (q_reqs s) -> in_flight q = false.
Proof.
  intros H q Hq. destruct (in_flight q) eqn:E; [|reflexivity].
  assert (existsb in_flight (q_reqs s) = true) by (apply existsb_exists; exists q; split; assumption). congruence.
Qed.

Lemma qstep_keeps s a : QInv s -> QInv (qstep true s a).
Proof.
  intros [Hs Hc Hr]. destruct a as [i| |]; cbn [qstep].
  - destruct (nth_error (q_reqs s) i) as [[|lo|lo v|lo v]|] eqn:E; try (constructor; assumption).
    + (* start *)
      constructor; cbn [q_db q_cache q_signalled q_reqs]; try assumption.
      apply Forall_qupd; [exact Hr|]. destruct (q_cache s) as [v|] eqn:Ec; cbn [q_ok q_signalled].
      * apply Hc. reflexivity.
      * split; lia.
    + (* read *)
      pose proof (nth_Forall _ _ _ _ Hr E) as [H1 H2]. cbn [q_ok] in *.
      constructor; cbn [q_db q_cache q_signalled q_reqs]; try assumption.
      apply Forall_qupd; [exact Hr|]. cbn [q_ok q_signalled q_db]. split; lia.
    + (* fill *)
      pose proof (nth_Forall _ _ _ _ Hr E) as [H1 H2]. cbn [q_ok] in *.
      constructor; cbn [q_db q_cache q_signalled q_reqs]; try assumption.
      * intros w Hw. injection Hw as <-. lia.
      * apply Forall_qupd; [exact Hr|]. cbn [q_ok]. exact H1.
  - (* somebody else publishes *)
    constructor; cbn [q_db q_cache q_signalled q_reqs]; [lia | exact Hc | exact Hr].
  - (* the poller *)
    cbn [andb]. destruct (existsb in_flight (q_reqs s)) eqn:Ef; [constructor; assumption|].
    destruct (Nat.ltb_spec (q_signalled s) (q_db s)) as [Hlt|_]; [|constructor; assumption].
    constructor; cbn [q_db q_cache q_signalled q_reqs].
    + lia.
    + intros v Hv. injection Hv as <-. lia.
    + apply Forall_forall. intros q Hq. pose proof (no_flight_ok s Ef q Hq) as Hnf.
      pose proof (proj1 (Forall_forall _ _) Hr q Hq) as Hok.
      destruct q; cbn [in_flight] in Hnf; try discriminate; exact Hok.
Qed.

Theorem after_signal_at_least_that_new e0 n sched :
  let s := qrun true (qinit e0 n) sched in
  forall i lo v, nth_error (q_reqs s) i = Some (QDone lo v) -> lo <= v.
Proof.
  cbv zeta.
  assert (G : forall sched s, QInv s -> QInv (qrun true s sched)).
  { induction sched0 as [|a rest IH]; intros s Hs; [exact Hs|]. unfold qrun. cbn [fold_left]. apply IH. apply qstep_keeps. exact Hs. }
  pose proof (G sched _ (qinit_inv e0 n)) as [_ _ Hr]. intros i lo v Hi. exact (nth_Forall _ _ _ _ Hr Hi).
Qed.

(* the cache never holds less than what has been signalled *)
Theorem cache_at_least_signalled e0 n sched :
  let s := qrun true (qinit e0 n) sched in
  forall v, q_cache s = Some v -> q_signalled s <= v.
Proof.
  cbv zeta.
  assert (G : forall sched s, QInv s -> QInv (qrun true s sched)).
  { induction sched0 as [|a rest IH]; intros s Hs; [exact Hs|]. unfold qrun. cbn [fold_left]. apply IH. apply qstep_keeps. exact Hs. }
  exact (qi_cache _ (G sched _ (qinit_inv e0 n))).
Qed.

(* without the lock: request 0 misses (the cache has just been flushed by an earlier poll, modelled by
   starting cold), reads epoch 2 and is suspended; epoch 3 is published, polled and signalled; request 0
   caches epoch 2; request 1, started after the signal for 3, is answered from epoch 2 *)
Definition cold (e0 n : nat) : qstate := QSt e0 None e0 (repeat QS n).
Theorem without_lock_refuted :
  let s := qrun false (cold 2 2) [QR 0; QR 0; QX; QF; QR 0; QR 1] in
  q_signalled s = 3 /\ nth_error (q_reqs s) 1 = Some (QDone 3 2).
Proof. vm_compute. split; reflexivity. Qed.

(* the same schedule with the lock: the poll waits, and once it has happened requests see epoch 3 *)
Example with_lock_same_schedule :
  let s := qrun true (cold 2 2) [QR 0; QR 0; QX; QF; QR 0; QF; QR 1; QR 1; QR 1] in
  q_signalled s = 3 /\ nth_error (q_reqs s) 1 = Some (QDone 3 3).
Proof. vm_compute. split; reflexivity. Qed.
